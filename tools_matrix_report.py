#!/usr/bin/env python3
"""development aid: seeded/MATRIX.json -> seeded/RESULTS.md (which check reports which seeded change)."""
import json, glob, os
M = json.load(open("/verif/seeded/MATRIX.json"))
rows = []
for d in sorted(glob.glob("/verif/seeded/*/meta.json")):
    n = os.path.basename(os.path.dirname(d)); m = json.load(open(d)); p = m["property"]
    e = M.get(n, {}).get(p) if isinstance(M.get(n), dict) else None
    v = e.get("verdict") if isinstance(e, dict) else (M.get(n, {}).get("error", "not run")[:40] if n in M else "not run")
    summ = (e.get("summary") or [""])[0] if isinstance(e, dict) else ""
    import re
    mm = re.search(r"disagreements (\d+), violations (\d+)", summ)
    rows.append((p, n, v, mm.group(1) if mm else "", mm.group(2) if mm else ""))
out = ["# Seeded changes and what the owning check reports (from seeded/MATRIX.json, `tools_matrix.py`)", "",
       "verdict: failing-input = `VIOLATION … replay=<file>` holding the failing case; no-failing-input = `VIOLATION … no-failing-input-found`; missed = check stayed green.", "",
       "| property | seeded change | verdict | disagreements | violations |", "|---|---|---|---|---|"]
for r in rows: out.append("| %s | %s | %s | %s | %s |" % r)
tot = {}
for p, n, v, a, b in rows: tot.setdefault(v, 0); tot[v] += 1
out += ["", "totals: " + ", ".join("%s %d" % kv for kv in sorted(tot.items())) + " of %d" % len(rows)]
open("/verif/seeded/RESULTS.md", "w").write("\n".join(out) + "\n")
print(out[-1])
