#!/usr/bin/env python3
"""development aid: validate the mutants a seeding agent left in <root>/<Cnn>/out/mutant<k>/ and run the
owning check against each (via tools_seed.py).   tools_round.py <root> <Cnn> <k> <slug> [<extra check ids>]"""
import sys, os, re, subprocess
root, prop, k, slug = sys.argv[1:5]
checks = prop + ("," + sys.argv[5] if len(sys.argv) > 5 else "")
wt = os.path.join(root, prop)
md = os.path.join(wt, "out", "mutant" + k)
notes = open(os.path.join(md, "notes.md")).read()
m = re.search(r"demo_pkg:\s*`?([^\s`]+)`?", notes)
pkg = m.group(1).strip().rstrip("/") if m else "."
subprocess.run("git checkout -- . ", cwd=wt, shell=True)
name = "%s-%s" % (prop, slug)
r = subprocess.run(["/verif/tools_seed.py", prop, name, md, wt, pkg, checks], cwd="/verif")
sys.exit(r.returncode)
