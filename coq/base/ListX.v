(* Lemmas about the Z-indexed list operations of Prelude. *)
From Vx Require Import base.Prelude.

Lemma zlen_nonneg {A} (l : list A) : 0 <= zlen l.
Proof. unfold zlen; lia. Qed.

Lemma zlen_nil {A} : zlen (@nil A) = 0.
Proof. reflexivity. Qed.

Lemma zlen_cons {A} (x : A) l : zlen (x :: l) = zlen l + 1.
Proof. unfold zlen; simpl length; lia. Qed.

Lemma zlen_app {A} (a b : list A) : zlen (a ++ b) = zlen a + zlen b.
Proof. unfold zlen; rewrite app_length; lia. Qed.

Lemma zlen_repeat {A} (x : A) n : 0 <= n -> zlen (zrepeat x n) = n.
Proof. intros H; unfold zlen, zrepeat; rewrite repeat_length; lia. Qed.

Lemma zlen_zero_nil {A} (l : list A) : zlen l = 0 -> l = [].
Proof. destruct l; [reflexivity|]; rewrite zlen_cons; pose proof (zlen_nonneg l); lia. Qed.

Lemma zget_some_range {A} (l : list A) i x : zget l i = Some x -> 0 <= i < zlen l.
Proof.
  unfold zget; destruct (i <? 0) eqn:E; [discriminate|]; intros H.
  assert (Hn : (Z.to_nat i < length l)%nat) by (apply nth_error_Some; congruence).
  unfold zlen; lia.
Qed.

Lemma zget_in_range {A} (l : list A) i : 0 <= i < zlen l -> exists x, zget l i = Some x.
Proof.
  intros H; unfold zget; destruct (i <? 0) eqn:E; [lia|].
  destruct (nth_error l (Z.to_nat i)) eqn:N; [eauto|].
  apply nth_error_None in N; unfold zlen in H; lia.
Qed.

Lemma zget_none_range {A} (l : list A) i : zget l i = None -> i < 0 \/ zlen l <= i.
Proof.
  intros H; destruct (Z_lt_dec i 0); [auto|]; destruct (Z_le_dec (zlen l) i); [auto|].
  destruct (zget_in_range l i) as [x Hx]; [lia|congruence].
Qed.

Lemma zget_In {A} (l : list A) i x : zget l i = Some x -> In x l.
Proof. unfold zget; destruct (i <? 0); [discriminate|]; apply nth_error_In. Qed.

Lemma zget_app_l {A} (a b : list A) i : i < zlen a -> zget (a ++ b) i = zget a i.
Proof.
  intros H; unfold zget; destruct (i <? 0) eqn:E; [reflexivity|].
  apply nth_error_app1; unfold zlen in H; lia.
Qed.

Lemma zget_app_r {A} (a b : list A) i : zlen a <= i -> zget (a ++ b) i = zget b (i - zlen a).
Proof.
  intros H; pose proof (zlen_nonneg a); unfold zget.
  destruct (i <? 0) eqn:E; [lia|]; destruct (i - zlen a <? 0) eqn:E2; [lia|].
  rewrite nth_error_app2 by (unfold zlen in H; lia).
  f_equal; unfold zlen; lia.
Qed.

Lemma zget_cons_0 {A} (x : A) l : zget (x :: l) 0 = Some x.
Proof. reflexivity. Qed.

Lemma zget_cons_S {A} (x : A) l i : 0 < i -> zget (x :: l) i = zget l (i - 1).
Proof.
  intros H; unfold zget; destruct (i <? 0) eqn:E; [lia|]; destruct (i - 1 <? 0) eqn:E2; [lia|].
  replace (Z.to_nat i) with (S (Z.to_nat (i - 1))) by lia; reflexivity.
Qed.

Lemma upd_nat_length {A} (l : list A) n x : length (upd_nat l n x) = length l.
Proof. revert n; induction l as [|h t IH]; intros [|n]; simpl; auto. Qed.

Lemma zupd_length {A} (l l' : list A) i x : zupd l i x = Some l' -> zlen l' = zlen l.
Proof.
  unfold zupd; destruct ((i <? 0) || (zlen l <=? i)); [discriminate|].
  intros H; injection H as <-; unfold zlen; now rewrite upd_nat_length.
Qed.

Lemma zupd_some_iff {A} (l : list A) i x : (exists l', zupd l i x = Some l') <-> 0 <= i < zlen l.
Proof.
  unfold zupd; destruct (i <? 0) eqn:E1; destruct (zlen l <=? i) eqn:E2; simpl;
    split; intros H; try lia; try (destruct H; discriminate); eauto.
Qed.

Lemma nth_error_upd_nat_same {A} (l : list A) n x :
  (n < length l)%nat -> nth_error (upd_nat l n x) n = Some x.
Proof. revert n; induction l as [|h t IH]; intros [|n] H; simpl in *; try lia; auto; apply IH; lia. Qed.

Lemma nth_error_upd_nat_other {A} (l : list A) n m x :
  n <> m -> nth_error (upd_nat l n x) m = nth_error l m.
Proof. revert n m; induction l as [|h t IH]; intros [|n] [|m] H; simpl; auto; try congruence. Qed.

Lemma zget_zupd_same {A} (l l' : list A) i x : zupd l i x = Some l' -> zget l' i = Some x.
Proof.
  unfold zupd, zget; destruct (i <? 0) eqn:E1; [discriminate|]; destruct (zlen l <=? i) eqn:E2; [discriminate|].
  simpl; intros H; injection H as <-. apply nth_error_upd_nat_same; unfold zlen in E2; lia.
Qed.

Lemma zget_zupd_other {A} (l l' : list A) i j x : zupd l i x = Some l' -> i <> j -> zget l' j = zget l j.
Proof.
  unfold zupd, zget; destruct (i <? 0) eqn:E1; [discriminate|]; destruct (zlen l <=? i) eqn:E2; [discriminate|].
  simpl; intros H Hij; injection H as <-. destruct (j <? 0) eqn:E3; [reflexivity|].
  apply nth_error_upd_nat_other; lia.
Qed.

Lemma bad_from_nil {A} (bad : A -> bool) l i :
  bad_from bad i l = [] <-> forall x, In x l -> bad x = false.
Proof.
  revert i; induction l as [|h t IH]; intros i; simpl.
  - split; auto; intros _ x [].
  - destruct (bad h) eqn:E.
    + split; [discriminate|]; intros H; specialize (H h (or_introl eq_refl)); congruence.
    + rewrite IH; split; intros H x; [intros [<-|Hx]; auto | intros Hx; apply H; auto].
Qed.
