(* Shared vocabulary for every model: Z everywhere, Z-indexed list access with the
   Go panic condition made explicit as [None]. No proofs of properties here. *)
From Coq Require Export List ZArith Bool Lia.
Export ListNotations.
Open Scope Z_scope.

Definition rune := Z.
Definition text := list Z.

(* length as Z *)
Definition zlen {A} (l : list A) : Z := Z.of_nat (length l).

(* Go slice indexing l[i]: None = index out of range (panic) *)
Definition zget {A} (l : list A) (i : Z) : option A :=
  if i <? 0 then None else nth_error l (Z.to_nat i).

Fixpoint upd_nat {A} (l : list A) (n : nat) (x : A) : list A :=
  match l, n with
  | [], _ => []
  | _ :: t, O => x :: t
  | h :: t, S n' => h :: upd_nat t n' x
  end.

(* Go l[i] = x: None = panic *)
Definition zupd {A} (l : list A) (i : Z) (x : A) : option (list A) :=
  if (i <? 0) || (zlen l <=? i) then None else Some (upd_nat l (Z.to_nat i) x).

Definition zrepeat {A} (x : A) (n : Z) : list A := repeat x (Z.to_nat n).

(* Go l[a:b] on a slice whose cap = len: None = panic *)
Definition zslice {A} (l : list A) (a b : Z) : option (list A) :=
  if (a <? 0) || (b <? a) || (zlen l <? b) then None
  else Some (firstn (Z.to_nat (b - a)) (skipn (Z.to_nat a) l)).

Fixpoint list_eqb {A} (eqb : A -> A -> bool) (a b : list A) : bool :=
  match a, b with
  | [], [] => true
  | x :: a', y :: b' => eqb x y && list_eqb eqb a' b'
  | _, _ => false
  end.

Definition zlist_eqb := list_eqb Z.eqb.

Definition option_eqb {A} (eqb : A -> A -> bool) (a b : option A) : bool :=
  match a, b with
  | None, None => true
  | Some x, Some y => eqb x y
  | _, _ => false
  end.

(* indices (as Z, from 0) of the elements of [l] for which [bad] is true *)
Fixpoint bad_from {A} (bad : A -> bool) (i : Z) (l : list A) : list Z :=
  match l with
  | [] => []
  | x :: t => if bad x then i :: bad_from bad (i + 1) t else bad_from bad (i + 1) t
  end.
Definition bad_indices {A} (bad : A -> bool) (l : list A) : list Z := bad_from bad 0 l.

(* fixed-width wraps, used only where the Go code has them *)
Definition u8 (x : Z) : Z := x mod 256.
Definition u16 (x : Z) : Z := x mod 65536.
Definition u32 (x : Z) : Z := x mod 4294967296.
Definition u64 (x : Z) : Z := x mod 18446744073709551616.
(* two's complement int64 *)
Definition i64 (x : Z) : Z :=
  let m := x mod 18446744073709551616 in
  if m <? 9223372036854775808 then m else m - 18446744073709551616.

Definition in_range (r a b : Z) : bool := (a <=? r) && (r <=? b).
