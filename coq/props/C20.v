(* C20 — images fit their box, keep their aspect and reproduce their pixels.
   This file contains statements only; proofs live in proofs/ImageProofs.v.

   Full statement: resizing an image for display yields a cell size that never exceeds the
   requested box, never upscales and preserves the aspect ratio to within one cell, for every
   image size, box size and graphics protocol; block-rendered images give each cell exactly the
   colours of the source pixels it covers, with sufficiently transparent pixels mapped to the
   default colour, and drawing an image touches only cells inside the target window; an image
   placement is transmitted when it first appears or changes, not retransmitted while unchanged,
   and deleted when dropped or on a full refresh.

   [dom x] is 0 < x < 2^24.  The theorems about resizeImage hold for image sizes, box sizes and
   cell geometries in that range; the float64 arithmetic of resizeImage is modelled bit-exactly
   ([rn], theorem C20_float_model), the int64/float64 overflow behaviour of larger operands is
   not.  Not proved here: window clipping (C11; C20_draw_* only show that every write is a
   Window.SetCell inside the image's own cell rectangle; C20_placement_inside_window shows that
   a kitty/sixel placement is only made into a window that holds it), and the encoders behind
   kitty/sixel (PNG, go-sixel, octreequant) and x/image/draw's scaler, which are oracles.

   Image OBJECTS (model/ImageHist.v: the fields of HalfBlockImage / FullBlockImage / KittyImage /
   Sixel that survive between calls, step : state -> op -> state * observation): the theorems of the
   last two sections hold for ALL histories of Resize / Draw (Show) / Destroy on one object, boxes
   in [0, 2^24) (0 = an empty box), without a guard: the defect kitty-no-encoding (a KittyImage
   without a current picture was placed all the same) is fixed in /repo and the model follows the
   fixed code; C20_kitty_no_encoding_refuted is about the code before the fix.  The encoder goroutine of
   KittyImage / Sixel is modelled as finished before the next call (the harness waits for it).

   Changes of the TERMINAL's size (gop OTermResize: Render / Refresh takes the size-changed branch, draws
   nothing, sets vx.refresh; graphicsLast and graphicsNext survive) are part of the histories of the
   placement section: C20_placement_protocol, C20_placement_inside_window, C20_wire_is_placement_events,
   C20_transmission_guarded quantify over them, and C20_terminal_shows_last_frame states the protocol
   invariant on the terminal's own placement table.  Its domain (keys_functional: no frame holds two
   different placements of one image at one cell) is needed: see C20_same_cell_two_sizes.
   The chunking of a transmission (kitty_chunks, a function of the payload length) is proved for every
   length in the last section. *)
From Vx Require Import base.Prelude model.Image model.ImageHist proofs.ImageProofs proofs.ImageHistProofs.

(* ---------------------------------------------------------------- resizing *)

(* The resized image, in cells of cw x ch pixels (rounded up), never exceeds the box — in
   particular when both scale factors coincide. *)
Theorem C20_fits_box : forall wPix hPix w h cw ch,
  dom wPix -> dom hPix -> dom w -> dom h -> dom cw -> dom ch ->
  exists nw nh, resize_dims wPix hPix w h cw ch = RDims nw nh /\
                0 <= nw /\ 0 <= nh /\ ceil_div nw cw <= w /\ ceil_div nh ch <= h.
Proof. exact fits_box. Qed.
Print Assumptions C20_fits_box.

Theorem C20_never_upscales : forall wPix hPix w h cw ch nw nh,
  dom wPix -> dom hPix -> dom w -> dom h -> dom cw -> dom ch ->
  resize_dims wPix hPix w h cw ch = RDims nw nh -> nw <= wPix /\ nh <= hPix.
Proof. exact never_upscales. Qed.
Print Assumptions C20_never_upscales.

(* Aspect: an image that fits is returned unchanged; otherwise both sides are the exact common
   scale s = min(w/columns, h/lines) of the original, rounded down and never more than one pixel
   (hence one cell) below:  s*wPix - 1 <= nw <= s*wPix  and  s*hPix - 1 <= nh <= s*hPix. *)
Theorem C20_aspect_within_one_cell : forall wPix hPix w h cw ch nw nh,
  dom wPix -> dom hPix -> dom w -> dom h -> dom cw -> dom ch ->
  resize_dims wPix hPix w h cw ch = RDims nw nh ->
  aspect_ok wPix hPix w h cw ch nw nh = true.
Proof. exact aspect_within_one. Qed.
Print Assumptions C20_aspect_within_one_cell.

(* ... so the aspect ratio nw : nh equals wPix : hPix up to one pixel of one side *)
Theorem C20_aspect_cross : forall wPix hPix w h cw ch nw nh,
  dom wPix -> dom hPix -> dom w -> dom h -> dom cw -> dom ch ->
  resize_dims wPix hPix w h cw ch = RDims nw nh ->
  - hPix <= nw * hPix - nh * wPix <= wPix.
Proof. exact aspect_cross. Qed.
Print Assumptions C20_aspect_cross.

(* the model satisfies the predicate the differential run applies to the implementation *)
Theorem C20_resize_ok : forall wPix hPix w h cw ch nw nh,
  dom wPix -> dom hPix -> dom w -> dom h -> dom cw -> dom ch ->
  resize_dims wPix hPix w h cw ch = RDims nw nh -> resize_ok wPix hPix w h cw ch nw nh = true.
Proof. exact resize_ok_model. Qed.
Print Assumptions C20_resize_ok.

(* every protocol: kitty and sixel images (cells of cw x ch pixels) ... *)
Theorem C20_kitty_sixel_cells_fit : forall wPix hPix w h cw ch,
  dom wPix -> dom hPix -> dom w -> dom h -> dom cw -> dom ch ->
  exists cw' ch', kitty_cell_size wPix hPix w h cw ch = Some (cw', ch') /\
                  0 <= cw' <= w /\ 0 <= ch' <= h /\
                  cw' <= ceil_div wPix cw /\ ch' <= ceil_div hPix ch.
Proof. exact kitty_cells_fit. Qed.
Print Assumptions C20_kitty_sixel_cells_fit.

(* ... and half-block and full-block images (one cell = 1 x 2 pixels) *)
Theorem C20_block_cells_fit : forall wPix hPix w h,
  dom wPix -> dom hPix -> dom w -> dom h ->
  exists cw' ch', block_cell_size wPix hPix w h = Some (cw', ch') /\
                  0 <= cw' <= w /\ 0 <= ch' <= h /\ cw' <= wPix /\ ch' <= (hPix + 1) / 2.
Proof. exact block_cells_fit. Qed.
Print Assumptions C20_block_cells_fit.

(* The float model: rn p q is m * 2^e with 2^52 <= m <= 2^53 the integer nearest to (p/q)/2^e,
   ties to even, i.e. the binary64 nearest to p/q (normal range). *)
Theorem C20_float_model : forall p q, 0 < p -> 0 < q ->
  exists m e,
    fst (rn p q) = m * 2 ^ Z.max e 0 /\ snd (rn p q) = 2 ^ Z.max (- e) 0 /\
    2 ^ 52 <= m <= 2 ^ 53 /\
    let P := scaleP p e in let Q := scaleQ q e in
    2 ^ 52 * Q <= P < 2 ^ 53 * Q /\
    - Q <= 2 * (m * Q - P) <= Q /\
    (Z.abs (2 * (m * Q - P)) = Q -> Z.even m = true).
Proof. exact rn_nearest_even. Qed.
Print Assumptions C20_float_model.

(* ---------------------------------------------------------------- pixels *)

(* Half block: cell (x, y) of the encoding shows, in its upper half, the colour of pixel
   (x, 2y) and, in its lower half, that of pixel (x, 2y+1) of the resized image, where the colour
   of a pixel is the terminal default when its alpha is below the threshold (and for the row
   below an odd-height image). *)
Theorem C20_half_block_pixels_exact : forall im x y,
  0 <= iw im -> 0 <= ih im -> 0 <= x < iw im -> 0 <= y < (ih im + 1) / 2 ->
  exists c, zget (block_encode hb_cell im) (y * iw im + x) = Some c /\ glyph_ok c = true /\
            shown_top c = px_colour (img_at im x (2 * y)) /\
            shown_bottom c = px_colour (img_at im x (2 * y + 1)).
Proof. exact half_block_pixels. Qed.
Print Assumptions C20_half_block_pixels_exact.

(* Full block: a space whose background is the average of the two covered pixels (default when
   the averaged alpha is below the threshold); exact when the two pixels agree. *)
Theorem C20_full_block_pixels_exact : forall im x y,
  0 <= iw im -> 0 <= ih im -> 0 <= x < iw im -> 0 <= y < (ih im + 1) / 2 ->
  zget (block_encode fb_cell im) (y * iw im + x) =
  Some (g_space, 0, avg_colour (img_at im x (2 * y)) (img_at im x (2 * y + 1))).
Proof. exact full_block_pixels. Qed.
Print Assumptions C20_full_block_pixels_exact.

Theorem C20_full_block_uniform : forall r g b,
  0 <= r <= 255 -> 0 <= g <= 255 -> 0 <= b <= 255 ->
  let p := (r * 257, g * 257, b * 257, 65535) in
  fb_cell p p = (g_space, 0, rgb_color r g b).
Proof. exact full_block_uniform. Qed.
Print Assumptions C20_full_block_uniform.

(* the colour of an opaque 8-bit pixel is exactly its RGB value ... *)
Theorem C20_opaque_pixel_exact : forall r g b,
  0 <= r <= 255 -> 0 <= g <= 255 -> 0 <= b <= 255 ->
  px_colour (r * 257, g * 257, b * 257, 65535) = rgb_color r g b.
Proof. exact opaque_pixel_colour. Qed.
Print Assumptions C20_opaque_pixel_exact.

(* ... and a pixel is the default colour exactly when its alpha (high byte) is below 50 *)
Theorem C20_alpha_threshold : forall pr pg pb pa,
  0 <= pa <= 65535 ->
  (pa < 50 * 256 -> px_colour (pr, pg, pb, pa) = 0) /\
  (50 * 256 <= pa -> tag_rgb <= px_colour (pr, pg, pb, pa)).
Proof. exact alpha_threshold. Qed.
Print Assumptions C20_alpha_threshold.

(* the encoders satisfy the predicates the differential run applies to the implementation *)
Theorem C20_half_cells_ok : forall im, 0 <= iw im -> 0 <= ih im ->
  half_cells_ok im (iw im) ((ih im + 1) / 2) (block_encode hb_cell im) = true.
Proof. exact half_cells_ok_model. Qed.
Print Assumptions C20_half_cells_ok.

Theorem C20_full_cells_ok : forall im, 0 <= iw im -> 0 <= ih im ->
  full_cells_ok im (iw im) ((ih im + 1) / 2) (block_encode fb_cell im) = true.
Proof. exact full_cells_ok_model. Qed.
Print Assumptions C20_full_cells_ok.

(* a scaled image samples source pixels inside the source (nearest neighbour) *)
Theorem C20_scaled_pixels_from_source : forall src nw nh x y,
  0 < iw src -> 0 < ih src -> 0 <= x < nw -> 0 <= y < nh ->
  img_at (nn_scale src nw nh) x y = to8 (img_at src (nn_src nw (iw src) x) (nn_src nh (ih src) y)) /\
  0 <= nn_src nw (iw src) x < iw src /\ 0 <= nn_src nh (ih src) y < ih src.
Proof. exact scaled_pixels_from_source. Qed.
Print Assumptions C20_scaled_pixels_from_source.

(* ---------------------------------------------------------------- drawing *)

(* image_draw_clip, as far as C20 goes: Draw of a block image is a list of Window.SetCell calls,
   one per cell, each inside the image's own cell rectangle (clipping to the window is C11) *)
Theorem C20_draw_block_inside : forall width height cells x y c,
  0 < width -> zlen cells = width * height ->
  In (x, y, c) (block_draw width cells) ->
  0 <= x < width /\ 0 <= y < height /\ zget cells (y * width + x) = Some c.
Proof. exact block_draw_inside. Qed.
Print Assumptions C20_draw_block_inside.

(* Sixel.Draw marks cells only when the whole image fits the window, and then only inside it *)
Theorem C20_draw_sixel_inside : forall sw sh winw winh x y,
  In (x, y) (sixel_draw sw sh winw winh) -> 0 <= x < sw /\ 0 <= y < sh /\ sw <= winw /\ sh <= winh.
Proof. exact sixel_draw_inside. Qed.
Print Assumptions C20_draw_sixel_inside.

(* ---------------------------------------------------------------- placements *)

(* samePlacement is equality of (id, col, row, w, h) *)
Theorem C20_same_placement : forall a b, same_placement a b = true <-> a = b.
Proof. exact same_placement_eq. Qed.
Print Assumptions C20_same_placement.

(* For every history of Clear / Draw / Render / Refresh / image Resize / change of the terminal size
   from the initial state, and every frame i of it (r = it is a full refresh: a Refresh, or the first
   frame after a change of the terminal size; cur = graphicsNext at that frame, prev = graphicsNext
   at the frame before - also across a change of the terminal size -, empty for the first): the events of the frame are the deletions followed by the
   writes; p is written iff it is in cur and (refresh or not in prev) — new, moved or resized
   placements differ from every previous one; p is deleted iff it is in prev and (refresh or
   not in cur).  Hence a placement present in both frames is neither written nor deleted
   unless the frame is a refresh. *)
Theorem C20_placement_protocol : forall ops i r cur,
  nth_error (frames_of [] ops) i = Some (r, cur) ->
  exists evs, nth_error (run_ops g_init ops) i = Some evs /\
    evs = frame_events r (prev_frame (frames_of [] ops) i) cur /\
    (forall p, In (GWrite p) evs <-> In p cur /\ (r = true \/ ~ In p (prev_frame (frames_of [] ops) i))) /\
    (forall p, In (GDelete p) evs <-> In p (prev_frame (frames_of [] ops) i) /\ (r = true \/ ~ In p cur)).
Proof. exact placement_protocol. Qed.
Print Assumptions C20_placement_protocol.

(* which frames are full refreshes: a Refresh, and the first frame after a change of the terminal
   size (refresh_at_renders is what the differential run compares with the harness's own record) *)
Theorem C20_refresh_frames : forall ops,
  refresh_at_renders false ops = map fst (frames_of [] ops).
Proof. intros ops. exact (refresh_at_renders_frames ops false []). Qed.
Print Assumptions C20_refresh_frames.

(* The terminal's side.  term_run replays the placement commands of the output on the terminal's
   table of placements, keyed by (image id, placement id) = (id, col, row): a=p adds or replaces,
   a=d,d=i,p deletes that one placement, nothing else (image data, a change of the terminal's size)
   touches the table.  For EVERY history of Clear / Draw / Render / Refresh / image Resize / terminal
   size change: after each frame the table holds exactly the placements the application drew in that
   frame - a placement that was dropped or moved is gone, also when the terminal changed size in
   between (the frame after it is a full refresh and graphicsLast survives the size change); a
   placement that was kept is still there.  Domain: in every frame, placements with the same key are
   the same placement (keys_functional). *)
Theorem C20_terminal_shows_last_frame : forall ops i cur ev,
  forallb keys_functional (next_at_renders [] ops) = true ->
  nth_error (kitty_frames g_init [] ops) i = Some (cur, ev) ->
  forall k, In k (term_after (kitty_frames g_init [] ops) i) <-> exists p, In p cur /\ key_of p = k.
Proof. exact terminal_shows_frame. Qed.
Print Assumptions C20_terminal_shows_last_frame.

(* the same from any state whose graphicsLast the terminal shows, as the boolean the differential run
   evaluates (term_frames_ok) ... *)
Theorem C20_terminal_invariant : forall ops s pending live,
  (forall k, In k live <-> In k (map key_of (g_last s))) -> keys_functional (g_last s) = true ->
  forallb keys_functional (next_at_renders (g_next s) ops) = true ->
  term_frames_ok live (kitty_frames s pending ops) = true.
Proof. exact terminal_invariant. Qed.
Print Assumptions C20_terminal_invariant.

(* ... and the model satisfies the predicate c20_placement_violations applies (term_shows_last_frame),
   on every history, without a hypothesis *)
Theorem C20_terminal_predicate_model : forall ops,
  term_shows_last_frame (kitty_frames g_init [] ops) = true.
Proof. exact term_shows_last_frame_model. Qed.
Print Assumptions C20_terminal_predicate_model.

(* The domain is needed.  One image drawn twice at one cell with two cell sizes in one frame (Draw,
   Resize, Draw, no Clear in between) and only the second kept in the next frame: render deletes the
   first by its key, which on the terminal is the key of the second as well; the second is "same" and
   is not written again.  The terminal shows nothing although the application drew p'. *)
Theorem C20_same_cell_two_sizes :
  let p := {| p_id := 1; p_col := 2; p_row := 3; p_w := 4; p_h := 2 |} in
  let p' := {| p_id := 1; p_col := 2; p_row := 3; p_w := 3; p_h := 2 |} in
  let ops := [OResize 1; ODraw p 10 5; OResize 1; ODraw p' 10 5; ORender; OClear; ODraw p' 10 5; ORender] in
  forallb keys_functional (next_at_renders [] ops) = false /\
  map snd (kitty_frames g_init [] ops) = [[(2, 1, 0, 0); (1, 1, 2, 3); (1, 1, 2, 3)]; [(0, 1, 2, 3)]] /\
  term_after (kitty_frames g_init [] ops) 1 = [] /\
  term_frames_ok [] (kitty_frames g_init [] ops) = false.
Proof. vm_compute. repeat split; reflexivity. Qed.
Print Assumptions C20_same_cell_two_sizes.

(* KittyImage.Draw and Sixel.Draw place an image only into a window at least as large as the
   image: every placement of every frame was drawn into such a window, so the cells the terminal
   paints for it (p_w x p_h from the window's origin) lie inside the target window *)
Theorem C20_placement_inside_window : forall ops i r cur p,
  nth_error (frames_of [] ops) i = Some (r, cur) -> In p cur ->
  exists ww wh, In (ODraw p ww wh) ops /\ p_w p <= ww /\ p_h p <= wh.
Proof. exact placement_inside_window. Qed.
Print Assumptions C20_placement_inside_window.

(* Image data (kitty).  On the wire a frame is the placement events of C20_placement_protocol
   with the pending image data (tag 2) inserted before the first write of a placement of that
   image: erasing the data events gives back the placement events. *)
Theorem C20_wire_is_placement_events : forall ops s pending,
  map (fun f => filter not_data (snd f)) (kitty_frames s pending ops) = map (map ev_key) (run_ops s ops).
Proof. exact kitty_frames_erase. Qed.
Print Assumptions C20_wire_is_placement_events.

(* Full statement wanted ("transmitted when it first appears or changes, not retransmitted while
   unchanged", for the pixels):  forall ops, trans_ok [] ops (kitty_frames g_init [] ops) = true.
   It is false (C20_transmission_refuted; recorded finding resize-same-cells): a Resize that keeps
   the cell size leaves the placement "same", so nothing is written and the new pixels stay
   unsent.  Proved: it holds for every history outside that guard. *)
Theorem C20_transmission_guarded : forall ops s pending,
  stale_guard s pending ops = false ->
  trans_ok pending ops (kitty_frames s pending ops) = true.
Proof. exact transmission_guarded. Qed.
Print Assumptions C20_transmission_guarded.

Theorem C20_transmission_refuted :
  let p := {| p_id := 1; p_col := 2; p_row := 3; p_w := 4; p_h := 2 |} in
  let ops := [OResize 1; ODraw p 10 5; ORender; OClear; OResize 1; ODraw p 10 5; ORender] in
  kitty_frames g_init [] ops = [([p], [(2, 1, 0, 0); (1, 1, 2, 3)]); ([p], [])] /\
  trans_ok [] ops (kitty_frames g_init [] ops) = false /\ stale_guard g_init [] ops = true.
Proof. vm_compute. repeat split; reflexivity. Qed.
Print Assumptions C20_transmission_refuted.

(* one event list per Render/Refresh *)
Theorem C20_placement_frames : forall ops, length (run_ops g_init ops) = length (frames_of [] ops).
Proof. exact run_ops_length. Qed.
Print Assumptions C20_placement_frames.

(* ---------------------------------------------------------------- kitty transmissions: chunking *)

(* KittyImage.Resize cuts the payload (the base64 text of the PNG picture, n bytes) into chunks of 4096
   bytes; kitty_chunks n is the list of (m flag, size) of the loop in image.go.  For EVERY n >= 1:
   (n-1)/4096 full chunks with m=1, then one chunk with m=0 holding the 1..4096 bytes that are left -
   also when n is a whole number of chunks (the last chunk is full and still carries m=0). *)
Theorem C20_kitty_chunks : forall n, 1 <= n ->
  kitty_chunks n =
  repeat (1, chunk_size) (Z.to_nat ((n - 1) / chunk_size)) ++ [(0, n - chunk_size * ((n - 1) / chunk_size))].
Proof. exact kitty_chunks_closed_form. Qed.
Print Assumptions C20_kitty_chunks.

(* ceil(n/4096) chunks, whose sizes add up to n (concatenation = payload); all but the last are
   (m=1, 4096 bytes), the last is (m=0, 1..4096 bytes) *)
Theorem C20_kitty_chunks_count_sum : forall n, 1 <= n ->
  zlen (kitty_chunks n) = ceil_div n chunk_size /\ sum_sizes (kitty_chunks n) = n /\
  exists body k, kitty_chunks n = body ++ [(0, k)] /\ 0 < k <= chunk_size /\
                 forall c, In c body -> c = (1, chunk_size).
Proof.
  intros n Hn. split; [apply kitty_chunks_count; exact Hn|]. split; [apply kitty_chunks_sum; exact Hn|].
  apply kitty_chunks_flags. exact Hn.
Qed.
Print Assumptions C20_kitty_chunks_count_sum.

(* the model's transmission (chunks, then the a=p command) satisfies the predicate the differential run
   applies to every transmission found in the output (c20_kittytx_violations), for every payload length *)
Theorem C20_transmission_framing : forall n, 1 <= n -> tx_ok (n, tx_model n, 1) = true.
Proof. exact tx_model_ok. Qed.
Print Assumptions C20_transmission_framing.

(* what that predicate demands of an observed transmission: data chunks of the image and nothing else,
   every chunk open (m=1) but the last, which closes the transfer (m=0); then - and only then - the
   placement command; the sizes add up to the payload and the payload is the picture *)
Theorem C20_transmission_framing_meaning : forall n toks same, tx_ok (n, toks, same) = true ->
  exists body k a b,
    toks = map (fun c : Z * Z => (0, fst c, snd c)) (body ++ [(0, k)]) ++ [(1, a, b)] /\
    (forall c, In c body -> fst c = 1) /\ sum_sizes (body ++ [(0, k)]) = n /\ same = 1.
Proof. exact tx_ok_meaning. Qed.
Print Assumptions C20_transmission_framing_meaning.

(* ---------------------------------------------------------------- block image objects, all histories *)

(* No stale state: after ANY history of Resize / Draw / Destroy on a new HalfBlockImage (kind 0) or
   FullBlockImage (kind 1) the object is in the state the last Resize alone (followed by Destroy,
   when one came after it) leaves a new object in.  bsum ops = (box of the last Resize, Destroy
   since), bsum_ops = the history of at most two calls with that summary. *)
Theorem C20_block_history_independent : forall kind src ops s,
  block_exec kind src b_new ops = Some s ->
  block_exec kind src b_new (bsum_ops (bsum ops)) = Some s.
Proof. exact block_history_independent. Qed.
Print Assumptions C20_block_history_independent.

(* ... so what a Draw shows after any history is block_shown: the cells of the picture resizeImage
   makes from the source for the box of the LAST Resize, cut to the window - nothing when there was
   no Resize or a Destroy came after it - and Draw does not panic. *)
Theorem C20_block_draw_after_history : forall kind src ops s ww wh,
  kind = 0 \/ kind = 1 -> src_ok src = true -> forallb bop_ok ops = true ->
  block_exec kind src b_new ops = Some s ->
  exists dr, block_shown kind src (bsum ops) ww wh = Some dr /\
             block_step kind src s (BDraw ww wh) = Some (s, (0, b_width s, b_height s, empty_image, dr)).
Proof. exact block_draw_after_history. Qed.
Print Assumptions C20_block_draw_after_history.

(* CellSize() after any history is the cell size of the last Resize: inside its box (0 x 0 for an
   empty box) and never more cells than the source covers *)
Theorem C20_block_cell_size_after_history : forall kind src ops s w h,
  src_ok src = true -> box_ok w h = true ->
  block_exec kind src b_new ops = Some s -> fst (bsum ops) = Some (w, h) ->
  0 <= b_width s <= w /\ 0 <= b_height s <= h /\
  b_width s <= iw src /\ b_height s <= (ih src + 1) / 2 /\
  block_cell_size (iw src) (ih src) w h = Some (b_width s, b_height s).
Proof. exact block_cell_size_after_history. Qed.
Print Assumptions C20_block_cell_size_after_history.

Theorem C20_block_cell_size_no_resize : forall kind src ops s,
  block_exec kind src b_new ops = Some s -> fst (bsum ops) = None -> b_width s = 0 /\ b_height s = 0.
Proof. exact block_cell_size_no_resize. Qed.
Print Assumptions C20_block_cell_size_no_resize.

(* Destroy, then Draw: whatever the object was, nothing is drawn and nothing panics *)
Theorem C20_block_destroy_then_draw : forall kind src s ww wh,
  exists s', block_step kind src s BDestroy = Some (s', (0, b_width s, b_height s, empty_image, [])) /\
             block_step kind src s' (BDraw ww wh) = Some (s', (0, b_width s, b_height s, empty_image, [])).
Proof. exact block_destroy_then_draw. Qed.
Print Assumptions C20_block_destroy_then_draw.

(* The model satisfies the predicate the differential run applies to the implementation
   (c20_blockhist_violations), on every history: no call panics; every Resize reports the cells of a
   picture that is the source or a nearest-neighbour sample of it, inside the box, not upscaled,
   aspect kept; every Draw changes exactly the cells of that rectangle that lie in the window, each
   showing the colours of its two pixels of the picture of the CURRENT size (default colour for
   transparent ones); nothing is drawn before the first Resize or after Destroy. *)
Theorem C20_block_model_ok : forall kind src ops obs,
  kind = 0 \/ kind = 1 -> src_ok src = true -> forallb bop_ok ops = true ->
  block_run kind src b_new ops = Some obs ->
  blockhist_ok kind src bspec0 (combine ops obs) = true.
Proof. exact block_model_ok_new. Qed.
Print Assumptions C20_block_model_ok.

(* ... and in that domain every history runs (None, "not modelled", does not occur) *)
Theorem C20_block_run_total : forall kind src ops s,
  src_ok src = true -> forallb bop_ok ops = true -> exists obs, block_run kind src s ops = Some obs.
Proof. intros kind src ops s Hs OK. exact (block_run_total kind src Hs ops s OK). Qed.
Print Assumptions C20_block_run_total.

(* a box without columns or lines gives an empty picture, for every cell geometry *)
Theorem C20_empty_box : forall wPix hPix w h cw ch,
  0 < wPix -> 0 < hPix -> 0 < cw -> 0 < ch -> 0 <= w -> 0 <= h -> w = 0 \/ h = 0 ->
  resize_dims wPix hPix w h cw ch = RDims 0 0.
Proof. exact resize_dims_empty_box. Qed.
Print Assumptions C20_empty_box.

(* ---------------------------------------------------------------- kitty / sixel objects, all histories *)

(* CellSize() after any history of Resize / Show / Destroy on a new KittyImage (kind 2) or Sixel
   (kind 3) is the cell size of the last Resize - 0 x 0 before the first Resize and, for a
   KittyImage, after Destroy (last_box) -; for a box of at least one cell it lies inside the box and
   does not exceed the cells of the source *)
Theorem C20_gfx_cell_size_after_history : forall kind wPix hPix cw ch ops g,
  geom_ok wPix hPix cw ch = true -> forallb hop_ok ops = true ->
  gfx_exec kind wPix hPix cw ch gworld0 ops = Some g ->
  match last_box kind None ops with
  | Some (w, h) =>
      kitty_cell_size wPix hPix w h cw ch = Some (o_w (g_obj g), o_h (g_obj g)) /\
      (0 < w -> 0 < h ->
       0 <= o_w (g_obj g) <= w /\ 0 <= o_h (g_obj g) <= h /\
       o_w (g_obj g) <= ceil_div wPix cw /\ o_h (g_obj g) <= ceil_div hPix ch)
  | None => o_w (g_obj g) = 0 /\ o_h (g_obj g) = 0
  end.
Proof. exact gfx_cell_size_after_history_new. Qed.
Print Assumptions C20_gfx_cell_size_after_history.

(* The model (of the fixed code) satisfies the predicate the differential run applies to the
   implementation (c20_gfxhist_violations) on EVERY history, kitty and sixel: an image with a current
   picture (the last Resize gave a picture that is not empty, no Destroy since) whose cells fit the
   window is placed once at the window's origin and the terminal then shows exactly the picture of
   the LAST Resize; its data are transmitted when the terminal does not hold them, at most once,
   never while nothing was resized; otherwise - before the first Resize, after a Resize into an empty
   box, after Destroy, window too small - nothing is placed or sent; the placement of the frame
   before is deleted on the refresh; Destroy deletes the image. *)
Theorem C20_gfx_model_ok : forall kind wPix hPix cw ch ops obs,
  kind = 2 \/ kind = 3 -> geom_ok wPix hPix cw ch = true -> forallb hop_ok ops = true ->
  gfx_run kind wPix hPix cw ch gworld0 ops = Some obs ->
  gfxhist_ok kind wPix hPix cw ch hspec0 (combine ops obs) = true.
Proof. exact gfx_model_ok_new. Qed.
Print Assumptions C20_gfx_model_ok.

(* the earlier, guarded statement and its sixel instance: corollaries *)
Theorem C20_gfx_model_ok_guarded : forall kind wPix hPix cw ch ops obs,
  kind = 2 \/ kind = 3 -> geom_ok wPix hPix cw ch = true -> forallb hop_ok ops = true ->
  gfx_run kind wPix hPix cw ch gworld0 ops = Some obs ->
  no_encoding_guard kind false (combine ops obs) = false ->
  gfxhist_ok kind wPix hPix cw ch hspec0 (combine ops obs) = true.
Proof. intros kind wPix hPix cw ch ops obs Hk G OK R _. exact (gfx_model_ok_new kind wPix hPix cw ch ops obs Hk G OK R). Qed.
Print Assumptions C20_gfx_model_ok_guarded.

Theorem C20_sixel_model_ok : forall wPix hPix cw ch ops obs,
  geom_ok wPix hPix cw ch = true -> forallb hop_ok ops = true ->
  gfx_run 3 wPix hPix cw ch gworld0 ops = Some obs ->
  gfxhist_ok 3 wPix hPix cw ch hspec0 (combine ops obs) = true.
Proof. intros wPix hPix cw ch ops obs G OK R. exact (gfx_model_ok_new 3 wPix hPix cw ch ops obs (or_intror eq_refl) G OK R). Qed.
Print Assumptions C20_sixel_model_ok.

Theorem C20_gfx_run_total : forall kind wPix hPix cw ch ops g,
  geom_ok wPix hPix cw ch = true -> forallb hop_ok ops = true ->
  exists obs, gfx_run kind wPix hPix cw ch g ops = Some obs.
Proof. intros kind wPix hPix cw ch ops g G OK. exact (gfx_run_total kind wPix hPix cw ch G ops g OK). Qed.
Print Assumptions C20_gfx_run_total.

(* The defect kitty-no-encoding, on the step function of the code BEFORE the fix (kitty_step_old:
   Draw without the zero-cell test, Destroy without "k.w, k.h = 0, 0"): a 20x40 pixel image, cells of
   8x16 pixels.  Resize(3,3), Show: placed, 20x40 transmitted.  Resize(0,2) makes an empty picture
   (CellSize 0x0): png.Encode fails, uploaded stays true.  Show: the old Draw placed it all the same
   (a 0x0 placement fits every window) and the terminal showed the 20x40 picture of the Resize
   before; the fixed code places nothing on the same history. *)
Theorem C20_kitty_no_encoding_refuted :
  let ops := [HResize 3 3; HShow 10 5; HResize 0 2; HShow 10 5] in
  let old := [(0, 3, 3, 20, 40, 0, 0, 0, 0, 0); (0, 3, 3, 0, 0, 1, 1, 20, 40, 1);
              (0, 0, 0, 0, 0, 0, 0, 0, 0, 0); (0, 0, 0, 1, 0, 1, 0, 20, 40, 0)] in
  let fixed := [(0, 3, 3, 20, 40, 0, 0, 0, 0, 0); (0, 3, 3, 0, 0, 1, 1, 20, 40, 1);
                (0, 0, 0, 0, 0, 0, 0, 0, 0, 0); (0, 0, 0, 1, 0, 0, 0, 0, 0, 0)] in
  kitty_run_old 20 40 8 16 gworld0 ops = Some old /\
  gfxhist_ok 2 20 40 8 16 hspec0 (combine ops old) = false /\
  no_encoding_guard 2 false (combine ops old) = true /\
  gfx_run 2 20 40 8 16 gworld0 ops = Some fixed /\
  gfxhist_ok 2 20 40 8 16 hspec0 (combine ops fixed) = true.
Proof. vm_compute. repeat split; reflexivity. Qed.
Print Assumptions C20_kitty_no_encoding_refuted.

(* ---------------------------------------------------------------- non-vacuity *)

(* the confirmed defect's input (4x4 pixels, cells of 1x2, box 2x1: both factors 1/2) now scales *)
Example C20_example_equal_factors :
  resize_dims 4 4 2 1 1 2 = RDims 2 2 /\ dom 4 /\ dom 2 /\ dom 1 /\ block_cell_size 4 4 2 1 = Some (2, 1).
Proof. vm_compute. repeat split; reflexivity || discriminate. Qed.

(* binary64 rounds 1/49*49 below 1: a 49x1 image in a 1x1 box (cells 1x1) gets width 0 *)
Example C20_example_float : resize_dims 49 1 1 1 1 1 = RDims 0 0 /\ rn 1 3 = (6004799503160661, 18014398509481984).
Proof. vm_compute. split; reflexivity. Qed.

(* the guard of C20_transmission_guarded is satisfiable: resize, draw, render, resize to another
   cell size, draw, render sends the data twice, once per encoding *)
Example C20_example_transmission :
  let p := {| p_id := 1; p_col := 2; p_row := 3; p_w := 4; p_h := 2 |} in
  let q := {| p_id := 1; p_col := 2; p_row := 3; p_w := 3; p_h := 2 |} in
  let ops := [OResize 1; ODraw p 10 5; ORender; OClear; OResize 1; ODraw q 10 5; ORender] in
  stale_guard g_init [] ops = false /\
  map snd (kitty_frames g_init [] ops) = [[(2, 1, 0, 0); (1, 1, 2, 3)]; [(0, 1, 2, 3); (2, 1, 0, 0); (1, 1, 2, 3)]].
Proof. vm_compute. split; reflexivity. Qed.

(* a history: draw p, render, move it, render, keep, render, refresh; then a window too small *)
Example C20_example_history :
  let p := {| p_id := 1; p_col := 2; p_row := 3; p_w := 4; p_h := 2 |} in
  let q := {| p_id := 1; p_col := 5; p_row := 3; p_w := 4; p_h := 2 |} in
  run_ops g_init [ODraw p 10 5; ORender; OClear; ODraw q 4 2; ORender; OClear; ODraw q 4 2; ORender; ORefresh;
                  OClear; ODraw p 3 2; ORender] =
  [[GWrite p]; [GDelete p; GWrite q]; []; [GDelete q; GWrite q]; [GDelete q]].
Proof. vm_compute. reflexivity. Qed.

(* half block: opaque red over a transparent pixel is an upper half block in red on default *)
Example C20_example_half_block :
  hb_cell (255 * 257, 0, 0, 65535) (0, 0, 0, 49 * 257) = (g_upper, rgb_color 255 0 0, 0).
Proof. vm_compute. reflexivity. Qed.

(* block objects: a 4x4 picture (blue over red, right half transparent) as a FullBlockImage; a
   history in the domain with a shrinking Resize, a Destroy and a cut window.  After Resize(2,1) the
   right cell is the default colour (not the blue the 4x2 encoding had at that index). *)
Example C20_example_block_history :
  let blue : px := (0, 0, 65535, 65535) in let red : px := (65535, 0, 0, 65535) in let clear : px := (0, 0, 0, 0) in
  let src := {| iw := 4; ih := 4; irows := [[blue; blue; clear; clear]; [blue; blue; clear; clear];
                                            [red; red; clear; clear]; [red; red; clear; clear]] |} in
  let ops := [BResize 4 2; BDraw 4 2; BResize 2 1; BDraw 2 1; BDestroy; BDraw 2 1; BResize 2 1; BDraw 1 1] in
  src_ok src = true /\ forallb bop_ok ops = true /\
  option_map (map (fun o : bobs => snd o)) (block_run 1 src b_new ops) =
  Some [[]; [(0, 0, (32, 0, 33554687)); (1, 0, (32, 0, 33554687)); (2, 0, (32, 0, 0)); (3, 0, (32, 0, 0));
             (0, 1, (32, 0, 50266112)); (1, 1, (32, 0, 50266112)); (2, 1, (32, 0, 0)); (3, 1, (32, 0, 0))];
        []; [(0, 0, (32, 0, 41877631)); (1, 0, (32, 0, 0))]; []; []; []; [(0, 0, (32, 0, 41877631))]] /\
  bsum ops = (Some (2, 1), false).
Proof. vm_compute. repeat split; reflexivity. Qed.

(* kitty objects, a history in the domain of C20_gfx_model_ok: (CellSize, placed, sent) per step.
   Nothing is placed before the first Resize, after Destroy, after a Resize into an empty box; data
   are sent once per picture, not again while unchanged, again after Destroy + Resize *)
Example C20_example_gfx_history :
  let ops := [HShow 10 5; HResize 3 3; HShow 10 5; HShow 10 5; HResize 2 2; HShow 1 1; HShow 2 2; HDestroy;
              HShow 4 4; HResize 2 2; HShow 4 4; HResize 0 2; HShow 4 4] in
  geom_ok 20 40 8 16 = true /\ forallb hop_ok ops = true /\
  option_map (map (fun o : hobs => let '(_, w, h, _, _, placed, sent, _, _, _) := o in (w, h, placed, sent)))
             (gfx_run 2 20 40 8 16 gworld0 ops) =
  Some [(0, 0, 0, 0); (3, 3, 0, 0); (3, 3, 1, 1); (3, 3, 1, 0); (2, 2, 0, 0); (2, 2, 0, 0); (2, 2, 1, 1);
        (0, 0, 1, 0); (0, 0, 0, 0); (2, 2, 0, 0); (2, 2, 1, 1); (0, 0, 0, 0); (0, 0, 0, 0)] /\
  last_box 2 None ops = Some (0, 2).
Proof. vm_compute. repeat split; reflexivity. Qed.

(* a change of the terminal size between two frames: the placement is deleted and the moved one
   written, although the second call is a plain Render; the terminal ends with the new one only *)
Example C20_example_term_resize :
  let p := {| p_id := 1; p_col := 2; p_row := 3; p_w := 4; p_h := 2 |} in
  let q := {| p_id := 1; p_col := 5; p_row := 4; p_w := 4; p_h := 2 |} in
  let ops := [OResize 1; ODraw p 10 5; ORender; OTermResize; OClear; ODraw q 10 5; ORender; ORender] in
  run_ops g_init ops = [[GWrite p]; [GDelete p; GWrite q]; []] /\
  frames_of [] ops = [(false, [p]); (true, [q]); (false, [q])] /\
  forallb keys_functional (next_at_renders [] ops) = true /\
  term_after (kitty_frames g_init [] ops) 1 = [(1, 5, 4)].
Proof. vm_compute. repeat split; reflexivity. Qed.

(* chunking: 4096 bytes are ONE chunk with m=0, 8192 bytes two, 8196 three *)
Example C20_example_chunks :
  kitty_chunks 4096 = [(0, 4096)] /\ kitty_chunks 8192 = [(1, 4096); (0, 4096)] /\
  kitty_chunks 8196 = [(1, 4096); (1, 4096); (0, 4)] /\ kitty_chunks 100 = [(0, 100)] /\
  tx_ok (8192, [(0, 1, 4096); (0, 1, 4096); (1, 0, 0)], 1) = false.
Proof. vm_compute. repeat split; reflexivity. Qed.
