(* C20 — images fit their box, keep their aspect and reproduce their pixels.
   This file contains statements only; proofs live in proofs/ImageProofs.v. *)
From Vx Require Import base.Prelude model.Image proofs.ImageProofs.

(* [dom x] is 0 < x < 2^24: the theorems about resizeImage are for image sizes, box sizes and
   cell geometries in that range (float64 holds the intermediate products exactly enough
   there; the int64/float64 overflow behaviour of larger operands is not modelled). *)

(* The resized image, measured in cells of cw x ch pixels (rounded up), never exceeds the box. *)
Theorem C20_fits_box : forall wPix hPix w h cw ch,
  dom wPix -> dom hPix -> dom w -> dom h -> dom cw -> dom ch ->
  exists nw nh, resize_dims wPix hPix w h cw ch = RDims nw nh /\
                0 <= nw /\ 0 <= nh /\ ceil_div nw cw <= w /\ ceil_div nh ch <= h.
Proof. exact fits_box. Qed.
Print Assumptions C20_fits_box.

(* non-vacuity: the confirmed defect's input (4x4 pixels, 1x2 cells, box 2x1) now scales *)
Example C20_example_equal_factors : resize_dims 4 4 2 1 1 2 = RDims 2 2 /\ dom 4 /\ dom 2 /\ dom 1.
Proof. vm_compute. repeat split; reflexivity || discriminate. Qed.
