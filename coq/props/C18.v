(* C18 - styled-text codecs round-trip and all SGR producers and consumers agree.
   Statements only; proofs live in proofs/SgrProofs.v and proofs/SgrChar.v (predicate characterisations).

   Vocabulary of the statements (model/Sgr.v):
     pen            the five SGR-controlled fields of vaxis.Style (fg, bg, underline colour,
                    underline style, attribute mask); colours are Color values (Colour.v)
     wf_penb p      p is built from the named constants: colours are Color(0), IndexColor(n) or
                    RGBColor(r,g,b); underline style 0..5; attribute mask over the seven named
                    bits (bit 0 of AttributeMask has no name: 128 masks)
     pen_delta legacy rgb smulx prev next
                    the SGR sequences written when the pen goes from prev to next
                    (rgb = smulx = true: EncodeCells and StyledString.Encode; render passes its
                    capabilities and falls back to palette colours / single underline;
                    legacy = the quirk VAXIS_FORCE_LEGACY_SGR is active: render and EncodeCells
                    then write 38;5;n and 38;2;r;g;b with semicolons, StyledString.Encode never)
     eff_pen rgb smulx p   what a terminal must hold for p under those capabilities (= p for true,true)
     parse_sgr, term_sgr, styled_sgr d   the three consumers (cell.go, widgets/term/sgr.go,
                    NewStyledString with default style d); Panic = a Go index out of range
     encode_cells / ss_encode / render_row    token lists (SGR sequences, OSC 8, graphemes);
     parse_styled_string / new_styled_string / term_feed    cells and final pen read from tokens.
   Graphemes are opaque code-point lists (segmentation by uniseg is an oracle: the harness ships
   texts already segmented). Hyperlinks are outside the property: ParseStyledString drops them,
   NewStyledString has no OSC handling and is only claimed on cells without a hyperlink.

   Vocabulary of the predicate characterisations (proofs/SgrChar.v):
     blank_image want got   inductive: got is want with each blank cell (empty grapheme) either
                    dropped or replaced by one space (code point 32) carrying that blank's pen,
                    every other cell kept as it is, order kept, nothing else in got
     fill want sel  the same as a function of one boolean choice per cell
     subseq s l     s is an order-preserving sub-list of l;  shown_pcell c = (shown (fst c), snd c)
     codec_roundtrip_prop / render_roundtrip_prop   the stream predicates as propositions

   Stream functions registered by harness/c18 (hx.NewStream) and the theorems that cover them:
     c18_codec_mismatches  / c18_codec_violations  / c18_codec_known
         C18_streams_sound (list level: no mismatch -> every violation index is a known-finding index),
         C18_model_satisfies_predicates conjunct 1 (per case: holds_gen false; holds when legacy = false;
         holds or known always), C18_codec_predicate_means (codec_holds_gen as a proposition),
         C18_predicates_on_model (the model's own answers satisfy it, legacy on or off)
     c18_render_mismatches / c18_render_violations / c18_render_known
         C18_streams_sound, C18_model_satisfies_predicates conjunct 2 (all of legacy, rgb, smulx),
         C18_render_predicate_means, C18_predicates_on_model (all four capability combinations,
         legacy on or off)
     c18_sgr_mismatches    / c18_sgr_violations    (no known class)
         C18_streams_sound (no mismatch -> no violation), C18_model_satisfies_predicates conjunct 3
   Not proved: the tokens <-> bytes step (print_toks against the real ansi.Parser) and grapheme
   segmentation stay in the differential run only. *)
From Vx Require Import base.Prelude gen.GenSgr model.Colour model.Sgr proofs.SgrProofs proofs.SgrChar.

(* ---- delta_correct ----
   For ALL previous and next pens over the named constants - every ordered pair of the 128
   attribute masks (including the shared reset 22 of bold and dim), every colour of every class,
   every ordered pair of underline styles - and every capability combination: each of the three
   consumers, applied to the emitted sequences, takes the terminal from prev to next. *)
Theorem C18_delta_correct : forall (legacy rgb smulx : bool) (prev next dflt : pen),
  wf_penb prev = true -> wf_penb next = true ->
  let seqs := pen_delta legacy rgb smulx prev next in
  run_seqs parse_sgr seqs (eff_pen rgb smulx prev) = Ok (eff_pen rgb smulx next) /\
  run_seqs term_sgr seqs (eff_pen rgb smulx prev) = Ok (eff_pen rgb smulx next) /\
  (legacy = false ->     (* guard of the finding legacy-sgr-newstyledstring, refuted below without it *)
   run_seqs (styled_sgr dflt) seqs (eff_pen rgb smulx prev) = Ok (eff_pen rgb smulx next)).
Proof.
  intros legacy rgb smulx prev next dflt Hp Hn; repeat split.
  - exact (delta_correct sgr_run sgr_run_ok legacy (sgr_legacy legacy) rgb smulx prev next Hp Hn).
  - exact (delta_correct sgr_run sgr_run_ok legacy (sgr_legacy legacy) rgb smulx prev next Hp Hn).
  - intros ->; exact (delta_correct (styled_sgr dflt) (styled_sgr_ok dflt) false (no_legacy _) rgb smulx prev next Hp Hn).
Qed.
Print Assumptions C18_delta_correct.

(* FINDING legacy-sgr-newstyledstring: with the legacy quirk NewStyledString does not read what
   render and EncodeCells write (38;5;196 is "blink" to it, the colour is lost) *)
Theorem C18_delta_correct_styled_legacy_refuted : exists prev next,
  wf_penb prev = true /\ wf_penb next = true /\
  run_seqs (styled_sgr pen0) (pen_delta true true true prev next) prev
  = Ok (mkPen 0 0 0 0 aBlink) /\ next = mkPen (index_color 196) 0 0 0 0.
Proof. exists pen0, (mkPen (index_color 196) 0 0 0 0). vm_compute. repeat split; reflexivity. Qed.
Print Assumptions C18_delta_correct_styled_legacy_refuted.

(* the codecs: no capability fallback, the pen itself is reproduced *)
Theorem C18_delta_correct_codecs : forall (prev next dflt : pen),
  wf_penb prev = true -> wf_penb next = true ->
  let seqs := pen_delta false true true prev next in
  run_seqs parse_sgr seqs prev = Ok next /\ run_seqs term_sgr seqs prev = Ok next /\
  run_seqs (styled_sgr dflt) seqs prev = Ok next.
Proof.
  intros prev next dflt Hp Hn.
  pose proof (C18_delta_correct false true true prev next dflt Hp Hn) as H.
  rewrite !eff_pen_id in H; destruct H as [H1 [H2 H3]]; auto.
Qed.
Print Assumptions C18_delta_correct_codecs.

(* ---- roundtrip_cells and ends_reset ----
   For all cell lists over the named constants: ParseStyledString after EncodeCells, the
   emulator fed with EncodeCells, and NewStyledString (default Style{}) after
   StyledString.Encode return the same graphemes with the same pens, and the pen at the end
   of the encoded string is the default pen. *)
Theorem C18_roundtrip_cells : forall (legacy : bool) (cs : list cell),
  Forall (fun c => wf_cellb c = true) cs ->
  parse_styled_string (encode_cells legacy cs) = Ok (map pcell_of cs, pen0) /\
  term_feed (encode_cells legacy cs) = Ok (map pcell_of cs, pen0) /\
  (forallb no_link cs = true -> new_styled_string pen0 (ss_encode cs) = Ok (map pcell_of cs, pen0)).
Proof.
  intros legacy cs W; repeat split.
  - exact (enc_loop_decode sgr_run sgr_run_ok sgr_run_reset legacy (sgr_legacy legacy) cs W style0 wf_pen0).
  - exact (enc_loop_decode sgr_run sgr_run_ok sgr_run_reset legacy (sgr_legacy legacy) cs W style0 wf_pen0).
  - intros _; exact (enc_loop_decode (styled_sgr pen0) (styled_sgr_ok pen0) styled_reset false (no_legacy _) cs W style0 wf_pen0).
Qed.
Print Assumptions C18_roundtrip_cells.

Theorem C18_ends_reset : forall (legacy : bool) (cs : list cell),
  Forall (fun c => wf_cellb c = true) cs ->
  forall cells fin, (parse_styled_string (encode_cells legacy cs) = Ok (cells, fin) \/
                     term_feed (encode_cells legacy cs) = Ok (cells, fin) \/
                     new_styled_string pen0 (ss_encode cs) = Ok (cells, fin)) -> fin = pen0.
Proof.
  intros legacy cs W cells fin H.
  pose proof (enc_loop_decode sgr_run sgr_run_ok sgr_run_reset legacy (sgr_legacy legacy) cs W style0 wf_pen0) as R1.
  pose proof (enc_loop_decode (styled_sgr pen0) (styled_sgr_ok pen0) styled_reset false (no_legacy _) cs W style0 wf_pen0) as R2.
  unfold parse_styled_string, term_feed, new_styled_string, encode_cells, ss_encode in H.
  change (decode parse_sgr) with (decode sgr_run) in H; change (decode term_sgr) with (decode sgr_run) in H.
  change (spen style0) with pen0 in R1, R2.
  destruct H as [H|[H|H]]; congruence.
Qed.
Print Assumptions C18_ends_reset.

(* ---- blank cells ----
   The same for cell lists in which ANY cell may be blank (Grapheme == "": an untouched screen
   cell, the continuation cell of a wide character), with any style: a blank cell writes its pen
   delta and no text, and its pen is carried on, so every cell that has a grapheme comes back
   with its own pen - whatever the styles of blank cells before it - and the string still ends
   reset (also when the last cell is a styled blank).  Strictly stronger than roundtrip_cells /
   ends_reset (one hypothesis less; shown_cells cs = map pcell_of cs without blanks). *)
Theorem C18_roundtrip_cells_blank : forall (legacy : bool) (cs : list cell),
  Forall (fun c => wf_scellb c = true) cs ->
  parse_styled_string (encode_cells legacy cs) = Ok (shown_cells cs, pen0) /\
  term_feed (encode_cells legacy cs) = Ok (shown_cells cs, pen0) /\
  new_styled_string pen0 (ss_encode cs) = Ok (shown_cells cs, pen0).
Proof.
  intros legacy cs W; repeat split.
  - exact (enc_loop_decode_blank sgr_run sgr_run_ok sgr_run_reset legacy (sgr_legacy legacy) cs W style0 wf_pen0).
  - exact (enc_loop_decode_blank sgr_run sgr_run_ok sgr_run_reset legacy (sgr_legacy legacy) cs W style0 wf_pen0).
  - exact (enc_loop_decode_blank (styled_sgr pen0) (styled_sgr_ok pen0) styled_reset false (no_legacy _) cs W style0 wf_pen0).
Qed.
Print Assumptions C18_roundtrip_cells_blank.

Theorem C18_shown_cells_without_blanks : forall cs,
  Forall (fun c => wf_cellb c = true) cs -> shown_cells cs = map pcell_of cs.
Proof. exact shown_cells_wf. Qed.
Print Assumptions C18_shown_cells_without_blanks.

(* the round-trip predicate the differential run evaluates on observed cells accepts what the
   decoders return for ANY encoded list, and without blank cells it is equality of the lists *)
Theorem C18_cells_match : forall cs : list cell,
  cells_match (map pcell_of cs) (shown_cells cs) = true /\
  (forallb nonblank (map pcell_of cs) = true ->
   forall got, cells_match (map pcell_of cs) got = pcells_eqb got (map pcell_of cs)).
Proof. intros cs; split; [apply cells_match_shown | apply cells_match_nonblank]. Qed.
Print Assumptions C18_cells_match.

(* cells_match characterised: it accepts got exactly when got is want with each blank cell either
   dropped or replaced by one space carrying that blank's pen, in order - as an inductive relation
   and as a function of one choice per cell *)
Theorem C18_cells_match_characterised : forall want got : list pcell,
  (cells_match want got = true <-> blank_image want got) /\
  (cells_match want got = true <-> exists sel, length sel = length want /\ got = fill want sel).
Proof. intros want got; split; [apply cells_match_iff_image | apply cells_match_iff_fill]. Qed.
Print Assumptions C18_cells_match_characterised.

(* ... and the English round-trip clause follows from it: every cell that has a grapheme comes
   back as itself (grapheme and pen) and in order; all that comes back is, in order, cells of want
   as they look on screen (a blank is a space with the blank's pen); each cell that comes back is
   a cell of want with a grapheme or a space carrying the pen of a blank cell of want; and without
   blank cells got IS want: the same graphemes with the same colours, attributes, underline style
   and underline colour *)
Theorem C18_cells_match_roundtrip_clause : forall want got : list pcell,
  cells_match want got = true ->
  subseq (filter nonblank want) got /\
  subseq got (map shown_pcell want) /\
  (forall c, In c want -> nonblank c = true -> In c got) /\
  (forall c, In c got -> (In c want /\ nonblank c = true) \/ (exists p, c = ([32], p) /\ In ([], p) want)) /\
  (forallb nonblank want = true -> got = want).
Proof.
  intros want got H; apply cells_match_iff_image in H.
  destruct (image_sandwich want got H) as [S1 S2].
  split; [exact S1|]. split; [exact S2|]. split; [|split].
  - intros c I N; apply (subseq_In _ _ S1); apply filter_In; auto.
  - apply image_origin; exact H.
  - apply image_nonblank; exact H.
Qed.
Print Assumptions C18_cells_match_roundtrip_clause.

(* the codec stream's predicate as a proposition about the observation: each decoder returned a
   blank_image of the encoded cells and both final pens are the default pen; in particular, for
   cells without blanks every decoder returned exactly the encoded cells *)
Theorem C18_codec_predicate_means : forall (w legacy : bool) (cells : list cell) (o : codec_obs),
  forallb wf_scellb cells = true ->
  (codec_holds_gen w (legacy, cells, o) = true <-> codec_roundtrip_prop w cells o) /\
  (codec_holds_gen w (legacy, cells, o) = true -> forallb nonblank cells = true ->
   o_parsed o = map pcell_of cells /\ o_term o = map pcell_of cells /\
   (forallb no_link cells = true -> o_styled o = map pcell_of cells) /\
   o_fin_parse o = pen0 /\ o_fin_term o = pen0).
Proof.
  intros w legacy cells o W; split; [apply codec_holds_gen_spec; exact W|].
  intros H N; apply (codec_holds_gen_spec w legacy cells o W) in H.
  destruct H as [H1 [H2 [H3 [H4 H5]]]].
  assert (N' : forallb nonblank (map pcell_of cells) = true).
  { clear -N; induction cells as [|[g st] t IH]; [reflexivity|].
    cbn [forallb map] in *; apply andb_prop in N as [N1 N2]; rewrite (IH N2), andb_true_r; exact N1. }
  repeat split; try assumption.
  - exact (image_nonblank _ _ H1 N').
  - exact (image_nonblank _ _ H2 N').
  - intros L; exact (image_nonblank _ _ (proj1 (H3 L)) N').
Qed.
Print Assumptions C18_codec_predicate_means.

(* the render stream's predicate as a proposition: every consumer read every cell - a blank as
   a space - with the pen a terminal of those capabilities must hold, and the frame ends reset *)
Theorem C18_render_predicate_means : forall (w legacy rgb smulx : bool) (cells : list pcell) (o : render_obs),
  forallb wf_spcellb cells = true ->
  (render_holds_gen w ((legacy, rgb, smulx), cells, o) = true <-> render_roundtrip_prop w rgb smulx cells o).
Proof. intros; apply render_holds_gen_spec; assumption. Qed.
Print Assumptions C18_render_predicate_means.

(* the renderer draws a blank cell as a space, after the cell's pen delta: every consumer sees
   the space with the blank cell's pen and the following cells with theirs *)
Theorem C18_render_roundtrip_blank : forall (legacy rgb smulx : bool) (cs : list pcell),
  Forall (fun c => wf_spcellb c = true) cs ->
  let want := map (fun c => (shown (fst c), eff_pen rgb smulx (snd c))) cs in
  parse_styled_string (render_row legacy rgb smulx cs) = Ok (want, pen0) /\
  term_feed (render_row legacy rgb smulx cs) = Ok (want, pen0) /\
  (legacy = false -> new_styled_string pen0 (render_row legacy rgb smulx cs) = Ok (want, pen0)).
Proof.
  intros legacy rgb smulx cs W.
  pose proof (render_loop_decode_blank sgr_run sgr_run_ok sgr_run_reset legacy (sgr_legacy legacy) rgb smulx cs W pen0 wf_pen0) as R1.
  pose proof (render_loop_decode_blank (styled_sgr pen0) (styled_sgr_ok pen0) styled_reset false (no_legacy _) rgb smulx cs W pen0 wf_pen0) as R2.
  rewrite eff_pen0 in R1, R2. repeat split; try assumption. intros ->; assumption.
Qed.
Print Assumptions C18_render_roundtrip_blank.

(* the renderer's pen emission, for every capability combination: each consumer sees every
   cell with the pen the terminal must hold for it, and the frame ends reset *)
Theorem C18_render_roundtrip : forall (legacy rgb smulx : bool) (cs : list pcell),
  Forall (fun c => wf_pcellb c = true) cs ->
  let want := map (fun c => (fst c, eff_pen rgb smulx (snd c))) cs in
  parse_styled_string (render_row legacy rgb smulx cs) = Ok (want, pen0) /\
  term_feed (render_row legacy rgb smulx cs) = Ok (want, pen0) /\
  (legacy = false -> new_styled_string pen0 (render_row legacy rgb smulx cs) = Ok (want, pen0)).
Proof.
  intros legacy rgb smulx cs W.
  pose proof (render_loop_decode sgr_run sgr_run_ok sgr_run_reset legacy (sgr_legacy legacy) rgb smulx cs W pen0 wf_pen0) as R1.
  pose proof (render_loop_decode (styled_sgr pen0) (styled_sgr_ok pen0) styled_reset false (no_legacy _) rgb smulx cs W pen0 wf_pen0) as R2.
  rewrite eff_pen0 in R1, R2. repeat split; try assumption. intros ->; assumption.
Qed.
Print Assumptions C18_render_roundtrip.

(* ---- consumers_agree ----
   (a) only sequences of the vocabulary [in_vocab] are ever written, whatever the pens (named
       constants or not) and capabilities;
   (b) every sequence of the vocabulary means the same to all three consumers, from every pen;
   (c) hence the three consumers read the same cells and final pen from every string any
       producer writes. *)
Theorem C18_producers_write_vocabulary : forall (legacy rgb smulx : bool) (prev next : pen),
  Forall (fun s => in_vocab_legacy s = true) (pen_delta legacy rgb smulx prev next) /\
  Forall (fun s => in_vocab s = true) (pen_delta false rgb smulx prev next).
Proof. intros; split; [apply pen_delta_vocab_l | apply pen_delta_vocab]. Qed.
Print Assumptions C18_producers_write_vocabulary.

(* parseSGR and the emulator's sgr are the same statements on different variables (the model
   identifies them; the sgr stream and the translated source digests check that they still are),
   so they agree on every input; NewStyledString agrees with them on the vocabulary. *)
Theorem C18_consumers_agree_on_vocabulary : forall (s : sgrseq) (p : pen),
  parse_sgr s p = term_sgr s p /\
  (in_vocab s = true -> parse_sgr s p = styled_sgr pen0 s p /\
                        (s <> [] -> forall d, parse_sgr s p = styled_sgr d s p)).
Proof.
  intros s p; split; [reflexivity|]. intros H; split.
  - apply agree_on_vocab; auto.
  - intros Hs d; apply agree_on_vocab; [exact H | intros ->; congruence].
Qed.
Print Assumptions C18_consumers_agree_on_vocabulary.

Theorem C18_consumers_agree : forall (cs : list cell) (legacy rgb smulx : bool) (row : list pcell),
  (parse_styled_string (encode_cells legacy cs) = term_feed (encode_cells legacy cs) /\
   parse_styled_string (encode_cells false cs) = new_styled_string pen0 (encode_cells false cs)) /\
  (parse_styled_string (ss_encode cs) = term_feed (ss_encode cs) /\
   parse_styled_string (ss_encode cs) = new_styled_string pen0 (ss_encode cs)) /\
  (parse_styled_string (render_row legacy rgb smulx row) = term_feed (render_row legacy rgb smulx row) /\
   parse_styled_string (render_row false rgb smulx row) = new_styled_string pen0 (render_row false rgb smulx row)).
Proof.
  intros cs legacy rgb smulx row; repeat split;
    try (apply decode_agree_sgr_styled; first [apply enc_loop_vocab | apply render_loop_vocab]).
Qed.
Print Assumptions C18_consumers_agree.

(* ---- parse_total ----
   No consumer panics on ANY list of params whose sub-lists are non-empty (ansi.Parser never
   delivers an empty sub-list, NewStyledString gets its own from strings.Split); this includes
   every truncated 38 / 48 / 58 form. Every Go index is a zget in the model. *)
Theorem C18_parse_total : forall (ps : sgrseq) (st dflt : pen),
  Forall (fun p => p <> []) ps ->
  parse_sgr ps st <> Panic /\ term_sgr ps st <> Panic /\ styled_sgr dflt ps st <> Panic.
Proof.
  intros ps st dflt H; repeat split;
    [apply sgr_run_total | apply sgr_run_total | apply styled_sgr_total]; exact H.
Qed.
Print Assumptions C18_parse_total.

(* ---- the differential run's predicates ----
   An observation of the implementation that equals the model's prediction satisfies the
   property predicate evaluated on the observation (so: zero disagreements implies zero
   violations, and a violation on a well-formed case is always also a disagreement).  The
   predicates cover cell lists with blank cells (codec: cells_match, final pens reset; render:
   a blank comes back as a space with its pen). *)
Theorem C18_model_satisfies_predicates :
  (forall legacy cells o, codec_model_ok (legacy, cells, o) = true ->
     codec_holds_gen false (legacy, cells, o) = true /\
     (legacy = false -> codec_holds (legacy, cells, o) = true) /\
     (codec_holds (legacy, cells, o) = true \/ codec_known (legacy, cells, o) = true)) /\
  (forall legacy rgb smulx cells o, render_model_ok ((legacy, rgb, smulx), cells, o) = true ->
     render_holds_gen false ((legacy, rgb, smulx), cells, o) = true /\
     (legacy = false -> render_holds ((legacy, rgb, smulx), cells, o) = true) /\
     (render_holds ((legacy, rgb, smulx), cells, o) = true \/ render_known ((legacy, rgb, smulx), cells, o) = true)) /\
  (forall c, sgr_model_ok c = true -> sgr_holds c = true).
Proof.
  repeat split.
  - apply (codec_model_holds (legacy, cells, o)); assumption.
  - apply (codec_model_holds (legacy, cells, o)); assumption.
  - apply codec_model_holds_or_known; assumption.
  - apply (render_model_holds ((legacy, rgb, smulx), cells, o)); assumption.
  - apply (render_model_holds ((legacy, rgb, smulx), cells, o)); assumption.
  - apply render_model_holds_or_known; assumption.
  - apply sgr_model_holds; assumption.
Qed.
Print Assumptions C18_model_satisfies_predicates.

(* the same for the functions the harness registers, on whole case lists: when the mismatch
   function returns no index, every index the violation function returns is also returned by the
   known-finding function (codec, render: legacy-sgr-newstyledstring), resp. there is none (sgr) *)
Theorem C18_streams_sound :
  (forall cases, c18_codec_mismatches cases = [] ->
     forall k, In k (c18_codec_violations cases) -> In k (c18_codec_known cases)) /\
  (forall cases, c18_render_mismatches cases = [] ->
     forall k, In k (c18_render_violations cases) -> In k (c18_render_known cases)) /\
  (forall cases, c18_sgr_mismatches cases = [] -> c18_sgr_violations cases = []).
Proof. split; [exact codec_stream_sound | split; [exact render_stream_sound | exact sgr_stream_sound]]. Qed.
Print Assumptions C18_streams_sound.

(* the predicates on what the MODEL itself returns (no observation as hypothesis), for every cell
   list over the named constants with blank cells anywhere: the render predicate render_holds_gen
   holds for all four capability combinations (rgb, smulx) with the legacy quirk on or off, and
   with NewStyledString included whenever the quirk is off or no drawn colour is an extended one;
   likewise the codec predicate *)
Theorem C18_predicates_on_model :
  (forall (legacy rgb smulx : bool) (cells : list pcell),
     Forall (fun c => wf_spcellb c = true) cells ->
     exists parsed term,
       parse_styled_string (render_row legacy rgb smulx cells) = Ok (parsed, pen0) /\
       term_feed (render_row legacy rgb smulx cells) = Ok (term, pen0) /\
       (forall out styled,
          render_holds_gen false ((legacy, rgb, smulx), cells, mkRenderObs out parsed styled term pen0) = true) /\
       (legacy = false \/ no_ext_render rgb smulx cells = true ->
        exists styled, new_styled_string pen0 (render_row legacy rgb smulx cells) = Ok (styled, pen0) /\
          forall out, render_holds ((legacy, rgb, smulx), cells, mkRenderObs out parsed styled term pen0) = true)) /\
  (forall (legacy : bool) (cells : list cell),
     Forall (fun c => wf_scellb c = true) cells ->
     let got := shown_cells cells in
     parse_styled_string (encode_cells legacy cells) = Ok (got, pen0) /\
     term_feed (encode_cells legacy cells) = Ok (got, pen0) /\
     new_styled_string pen0 (ss_encode cells) = Ok (got, pen0) /\
     (forall encE encS styledE,
        codec_holds_gen false (legacy, cells, mkCodecObs encE encS got got styledE got pen0 pen0) = true) /\
     (legacy = false \/ no_ext_codec cells = true ->
      new_styled_string pen0 (encode_cells legacy cells) = Ok (got, pen0) /\
      forall encE encS, codec_holds (legacy, cells, mkCodecObs encE encS got got got got pen0 pen0) = true)).
Proof. split; [exact render_predicate_on_model | exact codec_predicate_on_model]. Qed.
Print Assumptions C18_predicates_on_model.

(* ---- the model's tokens print as the format strings of the Go sources ----
   gen/GenSgr.v is translated from sequences.go and styled_string.go on every run: each constant
   the producers use, applied to its arguments as fmt does, is the printed form of the model's
   token (so a changed constant breaks this theorem, not only the differential run). *)
Theorem C18_constants_match :
  print_sgr [] = k_sgrReset /\
  map (fun k => print_sgr [[k]]) [1; 2; 3; 4; 5; 7; 8; 9; 22; 23; 24; 25; 27; 28; 29; 39; 49; 59]
  = [k_boldSet; k_dimSet; k_italicSet; k_underlineSet; k_blinkSet; k_reverseSet; k_hiddenSet; k_strikethroughSet;
     k_boldDimReset; k_italicReset; k_underlineReset; k_blinkReset; k_reverseReset; k_hiddenReset;
     k_strikethroughReset; k_fgReset; k_bgReset; k_ulColorReset] /\
  (forall n, 0 <= n < 8 ->
     sprintf k_fgSet [FD n] = print_sgr [[30 + n]] /\ sprintf k_bgSet [FD n] = print_sgr [[40 + n]] /\
     sprintf k_fgBrightSet [FD n] = print_sgr [[90 + n]] /\ sprintf k_bgBrightSet [FD n] = print_sgr [[100 + n]]) /\
  (forall n r g b,
     sprintf k_fgIndexSet [FD n] = print_sgr [[38; 5; n]] /\ sprintf k_bgIndexSet [FD n] = print_sgr [[48; 5; n]] /\
     sprintf k_ssFgIndexSet [FD n] = print_sgr [[38; 5; n]] /\ sprintf k_ssBgIndexSet [FD n] = print_sgr [[48; 5; n]] /\
     sprintf k_ulIndexSet [FD n] = print_sgr [[58; 5; n]] /\ sprintf k_ulStyleSet [FD n] = print_sgr [[4; n]] /\
     sprintf k_fgRGBSet [FD r; FD g; FD b] = print_sgr [[38; 2; r; g; b]] /\
     sprintf k_bgRGBSet [FD r; FD g; FD b] = print_sgr [[48; 2; r; g; b]] /\
     sprintf k_ssFgRGBSet [FD r; FD g; FD b] = print_sgr [[38; 2; r; g; b]] /\
     sprintf k_ssBgRGBSet [FD r; FD g; FD b] = print_sgr [[48; 2; r; g; b]] /\
     sprintf k_ulRGBSet [FD r; FD g; FD b] = print_sgr [[58; 2; r; g; b]] /\
     sprintf (legacy_form k_fgIndexSet) [FD n] = print_sgr [[38]; [5]; [n]] /\
     sprintf (legacy_form k_bgIndexSet) [FD n] = print_sgr [[48]; [5]; [n]] /\
     sprintf (legacy_form k_fgRGBSet) [FD r; FD g; FD b] = print_sgr [[38]; [2]; [r]; [g]; [b]] /\
     sprintf (legacy_form k_bgRGBSet) [FD r; FD g; FD b] = print_sgr [[48]; [2]; [r]; [g]; [b]]) /\
  (forall p l, sprintf k_osc8 [FS p; FS l] = print_tok (TOsc8 p l)).
Proof.
  split; [reflexivity|]. split; [reflexivity|]. split; [|split].
  - intros n Hn.
    assert (H : n = 0 \/ n = 1 \/ n = 2 \/ n = 3 \/ n = 4 \/ n = 5 \/ n = 6 \/ n = 7) by lia.
    repeat (destruct H as [H|H]; [subst n; repeat split; reflexivity|]); subst n; repeat split; reflexivity.
  - intros n r g b; repeat split; unfold print_sgr; cbn [map join];
      repeat (rewrite <- app_assoc; cbn [app]); reflexivity.
  - intros p l; cbn; rewrite <- ?app_assoc; reflexivity.
Qed.
Print Assumptions C18_constants_match.

(* parseSGR (cell.go) and Model.sgr (widgets/term/sgr.go) are the same text up to the renaming
   vt.cursor.X -> style.X, vaxis.Y -> Y: digests of the two printed bodies, translated on every
   run.  This is what licenses the single model definition sgr_run for both consumers. *)
Theorem C18_term_sgr_is_a_copy_of_parseSGR : digest_term_sgr = digest_parseSGR.
Proof. reflexivity. Qed.
Print Assumptions C18_term_sgr_is_a_copy_of_parseSGR.

(* ---- non-vacuity and tightness ---- *)

(* well-formed pens exist; bold+dim -> dim goes through the shared reset 22 *)
Example C18_ex_delta :
  let prev := mkPen (index_color 1) 0 (rgb_color 1 2 3) 3 (aBold + aDim + aBlink) in
  let next := mkPen (rgb_color 255 0 128) (index_color 12) 0 0 (aDim + aItalic) in
  wf_penb prev = true /\ wf_penb next = true /\
  pen_delta false true true prev next
  = [[[38; 2; 255; 0; 128]]; [[104]]; [[59]]; [[3]]; [[22]]; [[2]]; [[25]]; [[4; 0]]] /\
  pen_delta false false false prev next = [[[38; 5; 198]]; [[104]]; [[3]]; [[22]]; [[2]]; [[25]]; [[24]]] /\
  pen_delta true false false prev next = [[[38]; [5]; [198]]; [[104]]; [[3]]; [[22]]; [[2]]; [[25]]; [[24]]].
Proof. vm_compute. repeat split; reflexivity. Qed.

Example C18_ex_roundtrip :
  let cs := [([97], mkStyle (mkPen (index_color 3) 0 (index_color 200) 3 aBold) [] []);
             ([98; 769], mkStyle (mkPen (index_color 3) 0 0 3 0) [] [])] in
  Forall (fun c => wf_cellb c = true) cs /\
  print_toks (encode_cells false cs)
  = [27;91;51;51;109; 27;91;53;56;58;53;58;50;48;48;109; 27;91;49;109; 27;91;52;58;51;109; 97;
     27;91;53;57;109; 27;91;50;50;109; 98;769; 27;91;109].
Proof. split; [repeat constructor | vm_compute; reflexivity]. Qed.

(* blank cells with styles differing from their neighbours: styled blank then plain text,
   text / plain blank / same style again, styled blank at the end *)
Example C18_ex_blank_cells :
  let bold := mkStyle (mkPen (index_color 1) 0 0 0 aBold) [] [] in
  let cs1 := [([], bold); ([120], style0)] in
  let cs2 := [([97], bold); ([], style0); ([98], bold)] in
  let cs3 := [([97], style0); ([], bold)] in
  Forall (fun c => wf_scellb c = true) cs2 /\
  print_toks (encode_cells false cs1) = [27;91;51;49;109; 27;91;49;109; 27;91;51;57;109; 27;91;50;50;109; 120] /\
  parse_styled_string (encode_cells false cs1) = Ok ([([120], pen0)], pen0) /\
  parse_styled_string (encode_cells false cs2) = Ok ([([97], spen bold); ([98], spen bold)], pen0) /\
  print_toks (encode_cells false cs3) = [97; 27;91;51;49;109; 27;91;49;109; 27;91;109] /\
  (* a reader that loses the pen after the blank, or an unreset end, is rejected by the predicate *)
  cells_match (map pcell_of cs2) [([97], spen bold); ([32], pen0); ([98], pen0)] = false /\
  cells_match (map pcell_of cs2) [([97], spen bold); ([32], pen0); ([98], spen bold)] = true /\
  cells_match (map pcell_of cs1) [([32], spen bold); ([120], spen bold)] = false.
Proof. split; [repeat constructor | vm_compute; repeat split; reflexivity]. Qed.

(* the characterisation at work: both choices for a blank; a reader that drops a cell with a
   grapheme, or returns the space with another pen, is not an image; the render guard
   no_ext_render is satisfiable under the legacy quirk and refuted by an extended colour *)
Example C18_ex_blank_image :
  let b := mkPen (index_color 1) 0 0 0 aBold in
  let want := [([97], b); ([], pen0); ([98], b)] in
  fill want [false; false; false] = [([97], b); ([98], b)] /\
  fill want [false; true; false] = [([97], b); ([32], pen0); ([98], b)] /\
  blank_image want [([97], b); ([32], pen0); ([98], b)] /\
  ~ blank_image want [([97], b); ([32], b); ([98], b)] /\
  ~ blank_image want [([97], b)] /\
  no_ext_render true true [([], b); ([120], pen0)] = true /\
  no_ext_render true true [([], mkPen (index_color 196) 0 0 0 0)] = false /\
  no_ext_render false true [([], mkPen (rgb_color 0 0 0) 0 0 0 0)] = false.
Proof.
  cbv zeta. split; [reflexivity|]. split; [reflexivity|]. split; [apply cells_match_iff_image; reflexivity|].
  split; [intros H; apply cells_match_iff_image in H; vm_compute in H; discriminate|].
  split; [intros H; apply cells_match_iff_image in H; vm_compute in H; discriminate|].
  vm_compute; repeat split; reflexivity.
Qed.

(* truncated extended-colour forms return without panic; an empty sub-list (which the parser
   never delivers) is the panic the hypothesis of parse_total excludes *)
Example C18_ex_truncated : forall p,
  parse_sgr [[38]] p = Ok p /\ parse_sgr [[38]; [2]; [1]; [2]] p = Ok p /\ parse_sgr [[38]; [5]] p = Ok p /\
  parse_sgr [[38; 2; 1]] p = Ok p /\ parse_sgr [[1]; [58]; [2]; [7]] p = Ok (set_attr p (Z.lor (attr p) aBold)) /\
  parse_sgr [[38]; [5]; [300]] p = Ok (set_fg p (index_color 44)) /\
  parse_sgr [[]] p = Panic /\ parse_sgr [[38]; []; [5]] p = Panic /\ styled_sgr p [[]] p = Panic.
Proof. intros p; repeat split; reflexivity. Qed.

(* outside the vocabulary the consumers do differ (legacy 38;5;n is blink etc. to
   NewStyledString, an empty string param is not a reset): the restriction of
   consumers_agree to what producers write is necessary *)
Example C18_ex_outside_vocabulary :
  in_vocab [[38]; [5]; [3]] = false /\
  parse_sgr [[38]; [5]; [3]] pen0 = Ok (mkPen (index_color 3) 0 0 0 0) /\
  styled_sgr pen0 [[38]; [5]; [3]] pen0 = Ok (mkPen 0 0 0 0 (aBlink + aItalic)).
Proof. vm_compute. repeat split; reflexivity. Qed.

(* values outside the named constants do not round-trip: the well-formedness guard is tight
   (Color(5) has no tag and is written as "default"; AttributeMask bit 0 is never written) *)
Example C18_ex_guard_is_tight :
  parse_styled_string (encode_cells false [([97], mkStyle (mkPen 5 0 0 0 0) [] [])]) = Ok ([([97], pen0)], pen0) /\
  parse_styled_string (encode_cells false [([97], mkStyle (mkPen 0 0 0 0 1) [] [])]) = Ok ([([97], pen0)], pen0) /\
  parse_styled_string (encode_cells false [([97], mkStyle (mkPen 0 0 0 9 0) [] [])]) = Ok ([([97], pen0)], pen0).
Proof. vm_compute. repeat split; reflexivity. Qed.
