(* C01 — after every Render or Refresh the reference terminal shows exactly the
   application's screen and cursor; every flush leaves the pen reset, the hyperlink closed and
   synchronized-update mode balanced; nothing relies on terminal-specific behaviour.
   Statements only; proofs in proofs/Render*.v.

   Model: model/Render.v (vaxis.go render/Render/Refresh, writer.go, screen.go), hand-written
   and tied to the code by a differential run over frame histories on a real Vaxis.
   Reference terminal: model/RefTerm.v (independent of widgets/term): whatever the standards
   leave to the terminal (half of a wide glyph that was partly overwritten, a glyph that does
   not fit before the right edge, text written in the pending-wrap position) becomes DPoison,
   so "the terminal shows the screen" implies that no such behaviour was relied upon.
   Oracles (Section variables): [tw] the width by which the terminal advances for a grapheme
   written raw, [measure] Vaxis' own RenderedWidth; the hypothesis adv_ok links them for the
   cells that are written raw (what the capability negotiation is for). *)
From Vx Require Import base.Prelude base.ListX model.Colour model.RenderTypes model.Render model.RefTerm
  model.RenderSpec model.RenderCheck proofs.RenderDelta proofs.RenderRow proofs.RenderFrame proofs.RenderHistory
  model.RenderBytes proofs.RenderBytesBridge proofs.RenderBytesWf.

(* The pen delta written before a changed cell takes a terminal that shows style [pen] to
   one that shows style [n] and touches nothing else: for ALL pairs of styles (all 256 x 256
   attribute masks, every colour, underline style and colour, hyperlink and hyperlink
   parameters) and every capability set. *)
Theorem C01_pen_delta_correct : forall tw cp t pen n,
  style_wf pen -> style_wf n -> tracks cp t pen ->
  interp tw t (emit_delta cp pen n) = with_pl t (shown cp n, shown_link n).
Proof. exact delta_correct. Qed.
Print Assumptions C01_pen_delta_correct.

(* One Render.  Given only what every flush leaves behind ([settled]: sizes agree, pen reset,
   hyperlink closed, cursor visibility as last requested) and, for an ordinary Render, that the
   terminal still shows the previous frame ([in_sync]) — for a Refresh or the first frame after
   a size change NOTHING about the displayed cells is assumed — and the hypotheses on the
   content: afterwards every cell of the terminal is the view of the application's screen
   (grapheme, width, colours with the C07 fallbacks, attributes, underline, hyperlink), the
   cursor is exactly as requested, the pen is reset, the hyperlink closed, the sync depth
   unchanged, and the invariant holds again. *)
Theorem C01_render_frame_correct : forall tw measure cp s t,
  v_caps s = cp ->
  settled s t ->
  (v_refresh s = false -> in_sync measure cp s t) ->
  content_ok tw measure cp s ->
  let '(s', o) := do_render s in
  let t' := interp tw t o in
  settled s' t' /\ in_sync measure cp s' t' /\ v_refresh s' = false /\ v_next s' = v_next s /\
  v_caps s' = cp /\
  shows_next cp s t' /\ cursor_rel (v_cnext s) t' /\ tm_sync t' = tm_sync t.
Proof. exact render_correct. Qed.
Print Assumptions C01_render_frame_correct.

(* Every history: any finite sequence of frames, each an arbitrary list of drawing calls
   (SetCell / SetStyle / Fill / ShowCursor / HideCursor / SetMouseShape, at any coordinates)
   ended by Render, Refresh or a change of size to ANY terminal content of the new size, from
   the state start-up leaves, on ANY terminal grid of the right size: after every Render and
   Refresh the conclusion of C01 holds (history_ok unfolds to exactly that, frame by frame, as
   long as the content hypotheses hold). *)
Theorem C01_history_correct : forall tw measure cp rows cols (t0 : term) (fs : list frame),
  1 <= rows -> 1 <= cols ->
  tm_rows t0 = rows -> tm_cols t0 = cols ->
  tm_pen t0 = tpen0 -> tm_link t0 = ([], []) -> tm_vis t0 = false -> tm_mouse t0 = [] ->
  history_ok tw measure cp (vinit cp rows cols) t0 fs.
Proof.
  intros tw measure cp rows cols t0 fs Hr Hc R C P L V M.
  apply history_correct; [reflexivity| |intros H; discriminate].
  unfold settled, dims_ok, vinit, blank_grid. cbn [v_next v_last v_clast v_mlast cu_vis].
  repeat split; try lia; try assumption; try (rewrite zlen_repeat by lia; congruence);
    intros r Hin; apply zrepeat_In in Hin; subst r; rewrite zlen_repeat by lia; congruence.
Qed.
Print Assumptions C01_history_correct.

(* Finding wide-overhang: the hypothesis "no wide cell overhangs the right edge" cannot be
   dropped.  On a 1x2 screen a width-2 cell in the last column is written as it is; what the
   terminal then shows is terminal-specific (DPoison). *)
Theorem C01_overhang_refuted :
  let cp := {| cap_rgb := true; cap_styled_ul := true; cap_sync := false; cap_explicit_width := false |} in
  let wide := {| c_g := [28450]; c_w := 0; c_mw := 2; c_st := style0; c_sixel := false |} in
  let tw := fun g => if zlist_eqb g [28450] then 2 else if zlist_eqb g [] then 0 else 1 in
  let s1 := apply_op (vinit cp 1 2) (OSet 1 0 wide) in
  grid_ok_nofit tw tw cp (v_next s1) = true /\ grid_ok tw tw cp (v_next s1) = false /\
  let '(_, o) := do_render s1 in
  screen_matches cp (interp tw (term_unknown 1 2) o) (v_next s1) = false.
Proof. vm_compute. split; [reflexivity|]. split; reflexivity. Qed.
Print Assumptions C01_overhang_refuted.

(* The wire.  The theorems above are about tokens; what reaches the terminal is bytes.  [ser]
   writes a token the way vaxis.go does (format strings translated from sequences.go on every
   run), [ser_bytes] is its UTF-8 encoding, [toks_of_bytes] is the parser model of C02 (proved
   equal to the VT500 reference machine) followed by the reading of each delivered sequence
   (the Coq twin of the harness tokenizer).  For every token list of the renderer's vocabulary
   the bytes are read back as exactly those tokens - text one code point at a time, which the
   comparison used in the differential run ([toks_eqb]: adjacent raw text joined) cannot tell
   from the original; where the terminal cuts adjacent text into clusters is its own business
   (oracle [tw]).  No sequence swallows or corrupts its neighbour: the parser is back in a clean
   ground state after every token. *)
Theorem C01_tokens_survive_the_wire : forall ks, toks_wfb ks = true ->
  toks_of_bytes (ser_bytes ks) = explode ks /\ toks_eqb (toks_of_bytes (ser_bytes ks)) ks = true.
Proof. intros ks H. split; [exact (bytes_roundtrip ks H)|exact (bytes_roundtrip_eqb ks H)]. Qed.
Print Assumptions C01_tokens_survive_the_wire.

(* ... and every frame of every history is in that vocabulary when the application's content is
   printable: graphemes, hyperlinks and pointer shape free of C0 controls and surrogates,
   hyperlink parameters free of ';', cursor inside the non-negative quadrant. *)
Theorem C01_frame_bytes_read_back : forall s ops e, content_wf (fold_left apply_op ops s) ->
  toks_eqb (toks_of_bytes (ser_bytes (snd (do_frame s ops e)))) (snd (do_frame s ops e)) = true.
Proof. intros s ops e H. apply bytes_roundtrip_eqb. apply frame_ok_wf. exact H. Qed.
Print Assumptions C01_frame_bytes_read_back.

(* non-vacuity: a history with wide, zero-width and styled cells, a cursor, a refresh and a
   resize satisfies every hypothesis and the executable form of the conclusion *)
Example C01_example :
  let cp := {| cap_rgb := false; cap_styled_ul := false; cap_sync := true; cap_explicit_width := false |} in
  let wt := [([97], 1); ([28450], 2); ([], 0)] in
  let st := {| s_fg := rgb_color 1 2 3; s_bg := 0; s_ul := 0; s_uls := 3; s_attr := 6; s_link := [104]; s_linkp := [] |} in
  let wide := {| c_g := [28450]; c_w := 0; c_mw := 2; c_st := st; c_sixel := false |} in
  let a := {| c_g := [97]; c_w := 0; c_mw := 1; c_st := style0; c_sixel := false |} in
  let h := {| h_caps := cp; h_rows := 2; h_cols := 3; h_widths := wt;
              h_frames := [([OSet 0 0 wide; OSet 2 0 a; OShowCursor 1 1 4], FRender, []);
                           ([OSet 0 0 a], FRender, []);
                           ([], FRefresh, []);
                           ([], FResize 1 4, []);
                           ([OSet 2 0 wide], FRender, [])] |} in
  (* feed the reference terminal with the model's own tokens *)
  let fix fill (s : vstate) (fs : list fcase) : list fcase :=
      match fs with
      | [] => []
      | (ops, e, _) :: t => let '(s', o) := do_frame s ops e in (ops, e, o) :: fill s' t
      end in
  c01_holds {| h_caps := cp; h_rows := 2; h_cols := 3; h_widths := wt;
               h_frames := fill (vinit cp 2 3) (h_frames h) |} = true.
Proof. vm_compute. reflexivity. Qed.

(* non-vacuity of the wire theorems: the frames of the example above have printable content *)
Example C01_wire_example :
  let cp := {| cap_rgb := true; cap_styled_ul := true; cap_sync := true; cap_explicit_width := true |} in
  let st := {| s_fg := rgb_color 1 2 3; s_bg := index_color 200; s_ul := index_color 3; s_uls := 3; s_attr := 6;
               s_link := [104; 116; 116; 112; 58; 47; 47; 120]; s_linkp := [105; 100; 61; 49] |} in
  let wide := {| c_g := [28450]; c_w := 0; c_mw := 2; c_st := st; c_sixel := false |} in
  let s1 := fold_left apply_op [OSet 0 0 wide; OShowCursor 1 1 4; OMouseShape [116; 101; 120; 116]] (vinit cp 2 3) in
  forallb (forallb cell_wfb) (v_next s1) = true /\ cursor_wfb (v_cnext s1) = true /\
  toks_wfb (snd (do_render s1)) = true /\
  toks_of_bytes (ser_bytes (snd (do_render s1))) = explode (snd (do_render s1)).
Proof. vm_compute. repeat split; reflexivity. Qed.
