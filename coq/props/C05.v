(* C05 - the embedded terminal never crashes or hangs on child output.
   This file contains statements only; the model is model/Term.v (the emulator
   widgets/term, function by function, after the fixes listed in the report), proofs are in
   proofs/TermProofs.v, proofs/TermSafe.v and proofs/TermBytes.v.

   Vocabulary
   - [run t hs]: the emulator on a history [hs] of steps, each either [HFeed d it] (the PTY
     goroutine consumed one raised event first iff [d], then update runs on the delivered
     sequence [it]) or [HResize w h]; outcomes [TOk t'], [TPanic] (a Go panic: index out of
     range, nil map ...) or [TStall] (update blocks in postEvent on the full channel).
   - [hstep_ok]: the sequence is one the parser can deliver (a printed cluster has a width
     >= 0, every CSI parameter has at least one sub-parameter) and a resize is to at least
     1x1.
   - [well_formed t]: both grids have [rows] rows of exactly [cols] cells, the cursor is
     inside the screen, 0 <= top <= bottom < rows, left = 0, right = cols - 1, and at most
     two events are pending.
   - [stall_free hs]: computed from the schedule and the sequences alone - the number of
     raised, not yet consumed events never has to exceed the channel's capacity 2.

   What is proved: for every size from 1x1, every history (all interleavings of sequences
   and resizes) and every drain schedule the emulator never panics; it is well formed after
   every step unless the schedule lets a third event accumulate, in which case - and only
   then - update blocks forever (the recorded finding "event-stall": the PTY goroutine
   posts into a channel only it drains).  The full statement of the property, "events never
   stall further processing however many occur", is therefore refuted by
   [C05_events_stall_refuted]; the positive theorems carry the explicit guard [stall_free],
   and [C05_events_never_stall_drained] shows the guard is met by every schedule in which the
   goroutine consumes an event before each sequence.  The statements compose with the parser
   model of C02 to raw child bytes ([C05_bytes_*]).  Drawing: every SetCell of Draw and
   the cursor it shows lie inside the window, whose size Draw makes the terminal's size
   ([C05_draw_inside]).  Draw into a host window of ANY size and position - a chain of
   windows with arbitrary offsets and sizes, clipped by or overhanging its ancestors and the
   screen, with or without a cell (model/TermDraw.v: Window.SetCell level by level down to
   screen.setCell, Window.ShowCursor which clips nothing, Draw's test for a window without a
   cell and its own Resize) - never panics, leaves the terminal well formed (at the window's
   size; untouched if the window has no cell), makes no SetCell call outside the window,
   changes no cell of the host screen outside the visible part of the window (inside the
   window, every ancestor and the screen), and hands the host a cursor position inside the
   window's rectangle - inside its visible part when every window of the chain lies inside
   its parent ([C05_draw_window_inside]).  The predicate the draw stream evaluates on the
   observation alone ([wdraw_holds]: Draw returned, every changed host cell in the visible
   part of the window, cursor in the window's rectangle, terminal afterwards satisfying the
   state predicate, of the window's size if that has a cell) is sound for the model
   ([C05_agreeing_draw_holds]): a Draw the model reproduces (terminal state, every changed
   host cell, the cursor) satisfies it.  [C05_draw_empty_window_refuted] records what Draw did
   to windows without a cell before the repair ccf375f ([draw_win_unfixed]).
   The decidable statement of the property on one observed history ([hist_holds]: after every
   step outcome ok, cursor inside, margins ordered and inside, every row of both grids of the
   terminal's width, at most two events pending) is sound for the model
   ([C05_agreeing_history_verdict], proofs/TermObs.v): a history on which the model agrees with
   every observation satisfies it, or is exactly the recorded finding event-stall. *)
From Vx Require Import base.Prelude base.ListX model.Colour model.Sgr model.Term model.TermCheck
  model.TermDraw proofs.TermProofs proofs.TermSafe proofs.TermBytes proofs.TermObs proofs.TermDrawProofs.

(* term_safe: from New(), after the first resize, for every prefix of every history *)
Theorem C05_term_safe : forall (w h : Z) (hs : list hstep),
  1 <= w -> 1 <= h -> Forall hstep_ok hs -> stall_free hs = true ->
  forall n, exists t', run term_new (HResize w h :: firstn n hs) = TOk t' /\ well_formed t'.
Proof.
  intros w h hs Hw Hh Hok Hsf n.
  destruct (term_safe_run w h hs Hw Hh Hok Hsf n) as [t' [E W]].
  exists t'; split; [exact E | exact (WF_well_formed t' W)].
Qed.
Print Assumptions C05_term_safe.

(* without any guard: the outcome is never a panic *)
Theorem C05_term_never_panics : forall (w h : Z) (hs : list hstep),
  1 <= w -> 1 <= h -> Forall hstep_ok hs ->
  run term_new (HResize w h :: hs) <> TPanic.
Proof. exact term_never_panics. Qed.
Print Assumptions C05_term_never_panics.

(* the emulator blocks exactly when the schedule lets three events accumulate *)
Theorem C05_stall_iff : forall (w h : Z) (hs : list hstep),
  1 <= w -> 1 <= h -> Forall hstep_ok hs ->
  (run term_new (HResize w h :: hs) = TStall <-> stall_free hs = false).
Proof. exact stall_iff. Qed.
Print Assumptions C05_stall_iff.

(* events_never_stall, guarded: any number and order of bells, titles, notifications and APC
   strings, if the goroutine's select takes an event before each sequence *)
Theorem C05_events_never_stall_drained : forall hs, always_drained hs -> stall_free hs = true.
Proof. exact events_never_stall_drained. Qed.
Print Assumptions C05_events_never_stall_drained.

(* events_never_stall as the property states it ("however many occur", every order of
   consumption) is false: three bells before the goroutine's select picks the events channel *)
Theorem C05_events_stall_refuted :
  exists hs, Forall hstep_ok hs /\ run term_new (HResize 80 24 :: hs) = TStall.
Proof.
  exists [HFeed false (TC0 7); HFeed false (TC0 7); HFeed false (TC0 7)].
  split; [repeat constructor | vm_compute; reflexivity].
Qed.
Print Assumptions C05_events_stall_refuted.

(* draw_inside *)
Theorem C05_draw_inside : forall e w h t, WFs0 e w h t ->
  (forall c r x, In (c, r, x) (draw t) -> 0 <= c < w /\ 0 <= r < h) /\
  0 <= t_col t < w /\ 0 <= t_row t < h.
Proof. exact draw_inside. Qed.
Print Assumptions C05_draw_inside.

(* draw_inside for a host window of ANY position and size: [l :: ps] is the chain of windows
   (innermost first, arbitrary offsets and sizes, the innermost included), [sc] the screen
   size.  Draw does not panic; if the window has a cell it resizes the terminal to the window,
   if it has none it leaves the terminal alone, calls nothing and shows no cursor; SetCell is
   called only inside the window; what reaches the screen lies in the visible part of the
   window; the cursor handed to the host lies in the window's rectangle and, for a nested
   chain, in its visible part *)
Theorem C05_draw_window_inside : forall e w h t l ps sc foc,
  WFs0 e w h t ->
  exists t' calls cur w' h', draw_win t (wl_w l) (wl_h l) foc = TOk (t', calls, cur) /\
    WFs0 e w' h' t' /\
    (if win_ok (l :: ps) then w' = wl_w l /\ h' = wl_h l else t' = t /\ calls = [] /\ cur = None) /\
    (forall c r x, In (c, r, x) calls -> 0 <= c < wl_w l /\ 0 <= r < wl_h l) /\
    (forall x y x0, In (x, y, x0) (host_writes (l :: ps) sc calls) -> in_clip (l :: ps) sc x y = true) /\
    (forall c r, cur = Some (c, r) ->
       in_rect (l :: ps) (fst (win_cursor (l :: ps) c r)) (snd (win_cursor (l :: ps) c r)) = true /\
       (chain_nested (l :: ps) sc = true ->
        in_clip (l :: ps) sc (fst (win_cursor (l :: ps) c r)) (snd (win_cursor (l :: ps) c r)) = true)).
Proof. exact draw_window_inside. Qed.
Print Assumptions C05_draw_window_inside.

(* a host cell outside the visible part of the window keeps what it held (whatever the chain,
   whatever the calls) *)
Theorem C05_draw_outside_untouched : forall ch sc calls x y,
  in_clip ch sc x y = false -> mcell (host_writes ch sc calls) x y = sentinel.
Proof. exact mcell_outside. Qed.
Print Assumptions C05_draw_outside_untouched.

(* the predicate the draw stream evaluates ([c05_wdraw_violations] = cases where [wdraw_holds]
   fails) is satisfied by every Draw the model reproduces ([c05_wdraw_mismatches] = cases where
   [wdraw_model_ok] fails): no mismatch implies no violation *)
Theorem C05_agreeing_draw_holds : forall (w h : Z) (o0 : obs) (rest : hist_case) sc ch foc ob,
  1 <= w -> 1 <= h -> Forall hstep_ok (map fst rest) -> stall_free (map fst rest) = true ->
  wdraw_model_ok ((HResize w h, o0) :: rest, (sc, ch, foc), ob) = true ->
  wdraw_holds ((HResize w h, o0) :: rest, (sc, ch, foc), ob) = true.
Proof. exact wdraw_agreeing_holds. Qed.
Print Assumptions C05_agreeing_draw_holds.

(* non-vacuity: a 2x1 terminal that printed "a" (the resize does not re-print the cursor row) drawn into a 3x2 window at (-1, 1) of a 4x3 window at
   (2, 1) of the 6x4 screen: Draw resizes to 3x2, the window's first column is clipped by its
   parent, the cursor (window column 0) is shown at screen column 1 - inside the window's
   rectangle, outside its parent; the model agrees with this observation and it holds; and the
   same terminal drawn into the window New(7, 1, ..) of the screen (Width -1): nothing happens *)
Example C05_agreeing_draw_example :
  let o := fun rows cols row col => mkObs 0 rows cols row col false 0 (rows - 1) 0 (cols - 1) 0
                                          (zrepeat cols rows) (zrepeat cols rows) None in
  let rest := [(HFeed false (TPrint [97] 1), o 1 2 0 1)] in
  let ch := [mkWl (-1) 1 3 2; mkWl 2 1 4 3; mkWl 0 0 6 4] in
  let sp := ([32], 0, style0) in
  let ob := (0, o 2 3 0 0, (true, 1, 2), [(2, 2, sp); (3, 2, sp); (2, 3, sp); (3, 3, sp)]) in
  let ch0 := [mkWl 7 1 (-1) 2; mkWl 0 0 6 4] in
  let ob0 := (0, o 1 2 0 1, (false, 0, 0), []) in
  Forall hstep_ok (map fst rest) /\ stall_free (map fst rest) = true /\ win_ok ch = true /\
  chain_nested ch (6, 4) = false /\
  wdraw_model_ok ((HResize 2 1, o 1 2 0 0) :: rest, ((6, 4), ch, true), ob) = true /\
  wdraw_holds ((HResize 2 1, o 1 2 0 0) :: rest, ((6, 4), ch, true), ob) = true /\
  win_ok ch0 = false /\
  wdraw_model_ok ((HResize 2 1, o 1 2 0 0) :: rest, ((6, 4), ch0, true), ob0) = true /\
  wdraw_holds ((HResize 2 1, o 1 2 0 0) :: rest, ((6, 4), ch0, true), ob0) = true.
Proof.
  cbv zeta. split; [|repeat split; vm_compute; reflexivity].
  repeat (apply Forall_cons || apply Forall_nil); cbn; lia.
Qed.

(* what the test for a window without a cell in Draw (commit ccf375f) prevents: without it
   ([draw_win_unfixed]), on a 4x3 terminal showing two lines, Draw into the window Window.New
   returns for an offset beyond its parent's right edge (Width = -6) panics, as it does for
   Width = 0 (offset at the edge) and Height = 0; with the cursor still on row 0, Draw into the
   Width = 0 window returns, hands the host a cursor outside the (empty) window and leaves a
   terminal of width 0 on which the next printed glyph panics *)
Theorem C05_draw_empty_window_refuted :
  let hs := [HFeed true (TPrint [97] 1); HFeed true (TC0 13); HFeed true (TC0 10); HFeed true (TPrint [98] 1)] in
  Forall hstep_ok hs /\ stall_free hs = true /\
  (exists t, run term_new (HResize 4 3 :: hs) = TOk t /\
     draw_win_unfixed t (-6) 5 true = TPanic /\ draw_win_unfixed t 0 5 true = TPanic /\ draw_win_unfixed t 5 0 true = TPanic) /\
  (exists t t' calls c r, run term_new [HResize 4 3; HFeed true (TPrint [97] 1)] = TOk t /\
     draw_win_unfixed t 0 5 true = TOk (t', calls, Some (c, r)) /\
     in_rect [mkWl 24 2 0 5; mkWl 0 0 24 14] (fst (win_cursor [mkWl 24 2 0 5; mkWl 0 0 24 14] c r))
                                               (snd (win_cursor [mkWl 24 2 0 5; mkWl 0 0 24 14] c r)) = false /\
     width t' = 0 /\ print t' [120] 1 = TPanic).
Proof.
  cbv zeta. split; [|split; [vm_compute; reflexivity|split]].
  - repeat (apply Forall_cons || apply Forall_nil); cbn; lia.
  - eexists; split; [vm_compute; reflexivity|]. repeat split; vm_compute; reflexivity.
  - do 5 eexists. split; [vm_compute; reflexivity|]. split; [vm_compute; reflexivity|].
    repeat split; vm_compute; reflexivity.
Qed.
Print Assumptions C05_draw_empty_window_refuted.

(* composition with the parser model: raw child bytes, any segmentation oracle with
   non-negative widths, resizes between writes, any schedule *)
Theorem C05_bytes_never_panic : forall seg w h cs,
  seg_ok seg -> 1 <= w -> 1 <= h -> Forall cstep_ok cs ->
  run term_new (HResize w h :: hist_of seg cs) <> TPanic.
Proof. exact bytes_never_panic. Qed.
Print Assumptions C05_bytes_never_panic.

Theorem C05_bytes_safe : forall seg w h cs,
  seg_ok seg -> 1 <= w -> 1 <= h -> Forall cstep_ok cs ->
  stall_free (hist_of seg cs) = true ->
  forall n, exists t', run term_new (HResize w h :: firstn n (hist_of seg cs)) = TOk t' /\ well_formed t'.
Proof. exact bytes_safe. Qed.
Print Assumptions C05_bytes_safe.

(* the predicate the differential run evaluates on the implementation's observations
   ([c05_hist_violations] = cases where [hist_holds] fails) is satisfied by everything the
   model describes: if the model reproduces every observation of a history from New() (no
   mismatch), then every observation satisfies [obs_wf] (no violation) - unless the schedule
   lets a third event accumulate, and then the case is exactly the Known class
   ([c05_hist_known] = [stall_only 0]) *)
Theorem C05_agreeing_history_verdict : forall (w h : Z) (o0 : obs) (rest : hist_case),
  1 <= w -> 1 <= h -> Forall hstep_ok (map fst rest) ->
  hist_model_ok ((HResize w h, o0) :: rest) = true ->
  if stall_free (map fst rest) then hist_holds ((HResize w h, o0) :: rest) = true
  else stall_only 0 ((HResize w h, o0) :: rest) = true.
Proof. exact hist_match_verdict. Qed.
Print Assumptions C05_agreeing_history_verdict.

Theorem C05_agreeing_history_holds : forall (w h : Z) (o0 : obs) (rest : hist_case),
  1 <= w -> 1 <= h -> Forall hstep_ok (map fst rest) -> stall_free (map fst rest) = true ->
  hist_model_ok ((HResize w h, o0) :: rest) = true ->
  hist_holds ((HResize w h, o0) :: rest) = true.
Proof. exact hist_match_holds. Qed.
Print Assumptions C05_agreeing_history_holds.

(* one matching observation of a state satisfying the invariant satisfies the predicate *)
Theorem C05_matching_observation_wf : forall e w h t o,
  WFs0 e w h t -> o_out o = 0 -> obs_matches t o = true -> obs_wf o = true.
Proof. exact obs_matches_wf. Qed.
Print Assumptions C05_matching_observation_wf.

(* non-vacuity: an agreeing history with a saved cursor restored after a shrink (the
   hypotheses hold, the schedule is stall free), and an agreeing history that ends in the stall *)
Example C05_agreeing_example :
  let o := fun rows cols row col ev => mkObs 0 rows cols row col false 0 (rows - 1) 0 (cols - 1) ev
                                          (zrepeat cols rows) (zrepeat cols rows) None in
  let rest := [(HFeed false (TCsi [63] [[1049]] 104), o 3 4 0 0 0);
               (HFeed false (TCsi [] [[3]; [4]] 72), o 3 4 2 3 0);
               (HFeed false (TEsc [] 55), o 3 4 2 3 0);
               (HResize 2 2, o 2 2 1 0 0);
               (HFeed false (TEsc [] 56), o 2 2 1 1 0);
               (HFeed false (TCsi [] [[2]] 75), o 2 2 1 1 0)] in
  Forall hstep_ok (map fst rest) /\ stall_free (map fst rest) = true /\
  hist_model_ok ((HResize 4 3, o 3 4 0 0 0) :: rest) = true.
Proof.
  cbv zeta. split; [|split; vm_compute; reflexivity].
  repeat (apply Forall_cons || apply Forall_nil); cbn;
    repeat (apply Forall_cons || apply Forall_nil); try exact I; try (unfold SgrProofs.nonempty; discriminate); lia.
Qed.

Example C05_agreeing_stall_example :
  let o := fun out ev => mkObs out 1 1 0 0 false 0 0 0 0 ev [1] [1] None in
  let rest := [(HFeed false (TC0 7), o 0 1); (HFeed false (TC0 7), o 0 2);
               (HFeed false (TC0 7), mkObs 2 0 0 0 0 false 0 0 0 0 0 [] [] None)] in
  Forall hstep_ok (map fst rest) /\ stall_free (map fst rest) = false /\
  hist_model_ok ((HResize 1 1, o 0 0) :: rest) = true.
Proof.
  cbv zeta. split; [|split; vm_compute; reflexivity].
  repeat constructor.
Qed.

(* the per-function layer: every control function keeps the invariant (two of ~50) *)
Theorem C05_print_preserves : forall e w h t g pw,
  WFs0 e w h t -> 0 <= pw -> exists t', print t g pw = TOk t' /\ WFs0 e w h t'.
Proof. exact print_ok. Qed.
Print Assumptions C05_print_preserves.

Theorem C05_csi_preserves : forall e w h t inter params final,
  WFs0 e w h t -> Forall SgrProofs.nonempty params ->
  exists t', csi t inter params final = TOk t' /\ WFs0 e w h t'.
Proof. exact csi_ok. Qed.
Print Assumptions C05_csi_preserves.

(* non-vacuity: a history with wrapping text, a scroll region, a resize to 1x1 and back,
   the alternate screen and two pending events satisfies the hypotheses and runs *)
Example C05_example :
  let hs := [HFeed true (TPrint [97] 1); HFeed true (TPrint [20013] 2); HFeed true (TPrint [98] 1);
             HFeed false (TCsi [] [[1]; [2]] 114); HFeed false (TC0 7); HResize 1 1;
             HFeed false (TPrint [20013] 2); HFeed false (TCsi [] [[0]; [0]] 72);
             HFeed false (TCsi [63] [[1049]] 104); HFeed false (TC0 7); HResize 3 2;
             HFeed true (TCsi [] [[9223372036854775807]] 66); HFeed true (TOsc [48; 59; 120])] in
  stall_free hs = true /\
  match run term_new (HResize 3 2 :: hs) with
  | TOk t => (t_row t, t_col t, t_ev t, height t, width t) = (1, 0, 1, 2, 3)
  | _ => False
  end.
Proof. vm_compute. split; reflexivity. Qed.

Example C05_example_bytes :
  seg_ok (fun rs => map (fun r => ([r], 1)) rs) /\
  hist_of (fun rs => map (fun r => ([r], 1)) rs) [CWrite [27; 91; 50; 74; 104; 105] [false]; CResize 2 2]
  = [HFeed false (TCsi [] [[2]] 74); HFeed true (TPrint [104] 1); HFeed true (TPrint [105] 1);
     HFeed true TOther; HResize 2 2].
Proof.
  split; [|vm_compute; reflexivity].
  intros rs; apply Forall_forall; intros gw Hin; apply in_map_iff in Hin; destruct Hin as [r [<- _]]; simpl; lia.
Qed.
