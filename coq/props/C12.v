(* C12 — a Vaxis application renders correctly inside the embedded terminal.
   Statements only.

   Full statement (kept visible; the last link is not proved yet):
     for all frame histories, feeding the bytes Vaxis writes (under the capability set it
     derives from the emulator's replies) to the emulator of the same size leaves, after every
     frame, the emulator's grid/cursor equal to the view of the application's screen, and
     drawing the emulator into a host window reproduces those cells.
   It factors into (a) what Vaxis writes makes ANY conforming terminal show the screen (C01),
   (b) Vaxis writes only vocabulary the emulator advertised (C07), (c) the emulator behaves as
   the reference terminal on that vocabulary.  (a) and (b) are the theorems below, instantiated
   at [term_caps]; (c) is decided by the differential run only (the real emulator is driven by
   a real Vaxis and its grid, cursor and Draw output are compared with the view after every
   frame): C12 is therefore partial at the proof level. *)
From Vx Require Import base.Prelude base.ListX model.Colour model.RenderTypes model.Render model.RefTerm
  model.RenderSpec model.RenderCheck model.Gate model.EmuSpec
  proofs.RenderDelta proofs.RenderRow proofs.RenderFrame proofs.RenderHistory proofs.GateProofs.

(* (a) under the emulator's capability set, every history makes every conforming terminal of
   that size show the application's screen and cursor after every frame *)
Theorem C12_history_shows_screen_partial : forall tw measure rows cols (t0 : term) (fs : list frame),
  1 <= rows -> 1 <= cols ->
  tm_rows t0 = rows -> tm_cols t0 = cols ->
  tm_pen t0 = tpen0 -> tm_link t0 = ([], []) -> tm_vis t0 = false -> tm_mouse t0 = [] ->
  history_ok tw measure term_caps (vinit term_caps rows cols) t0 fs.
Proof.
  intros tw measure rows cols t0 fs Hr Hc R C P L V M.
  apply history_correct; [reflexivity| |intros H; discriminate].
  unfold settled, dims_ok, vinit, blank_grid. cbn [v_next v_last v_clast v_mlast cu_vis].
  repeat split; try lia; try assumption; try (rewrite zlen_repeat by lia; congruence);
    intros r Hin; apply zrepeat_In in Hin; subst r; rewrite zlen_repeat by lia; congruence.
Qed.
Print Assumptions C12_history_shows_screen_partial.

(* (b) and never uses what the emulator did not advertise: no direct colour, no styled or
   coloured underlines, no OSC 66, no mode 2026 *)
Theorem C12_only_advertised_vocabulary : forall (s : vstate) (ops : list op) (e : frame_end),
  v_caps s = term_caps -> frame_allowed term_caps (snd (do_frame s ops e)) = true.
Proof. intros s ops e H. rewrite <- H. apply frame_tokens_allowed. Qed.
Print Assumptions C12_only_advertised_vocabulary.

(* non-vacuity of the executable predicate used on the real emulator: a screen with a wide
   cell, as an emulator that keeps a blank under the right half would hold it *)
Example C12_example :
  let wide := {| c_g := [28450]; c_w := 0; c_mw := 2; c_st := style0; c_sixel := false |} in
  let a := {| c_g := [97]; c_w := 0; c_mw := 1; c_st := style0; c_sixel := false |} in
  grid_shows term_caps [[wide; cell0; a]] [[([28450], 2, style0); ([32], 1, style0); ([97], 1, style0)]] = true.
Proof. vm_compute. reflexivity. Qed.
