(* C12 — a Vaxis application renders correctly inside the embedded terminal.
   Statements only.

   Full statement:
     for all frame histories, feeding the bytes Vaxis writes (under the capability set it
     derives from the emulator's replies) to the emulator of the same size leaves, after every
     frame, the emulator's grid/cursor equal to the view of the application's screen, and
     drawing the emulator into a host window reproduces those cells.
   It factors into (a) what Vaxis writes makes ANY conforming terminal show the screen (C01),
   (b) Vaxis writes only vocabulary the emulator advertised (C07), (c) the emulator behaves as
   the reference terminal on that vocabulary.  (a) and (b) are instantiated at [term_caps];
   (c) is [C12_emu_simulates_refterm] (one token) and [C12_emu_simulates_refterm_list] over the
   emulator model of C05/C06 (model/Term.v), for the whole vocabulary Gate.allowed term_caps;
   [C12_app_in_term] composes the three along every history and concludes exactly the
   predicate the differential run evaluates on the real emulator.

   The side condition [toks_ok] of (c) - every number the renderer writes is written with
   digits and fits a machine integer (cursor coordinates >= 0, cursor style a small number),
   hyperlink parameters contain no ';', and every glyph is written where it fits before the
   right edge (RefTerm makes the other case DPoison, the emulator wraps and may scroll there) -
   stays a hypothesis of [C12_emu_simulates_refterm(_list)], which speak about ANY token list,
   and of the older composition [C12_app_in_term].  For the renderer's own output it is a
   theorem: [C12_renderer_output_ok] (proofs/EmuToksOk.v: a cursor-tracking induction over the
   render loop, from C01's content hypotheses - no wide cell overhangs the right edge), and
   [C12_app_in_term_full] is the composition without it.

   What is still assumed in [C12_app_in_term_full]:
   - C01's content hypotheses, frame by frame ([content_ok]: widths agree, measured widths are
     the oracle's, attribute masks are uint8, no sixel cell, no wide cell over the right edge);
   - two decidable hypotheses stated in the theorem (model/EmuWire.v): [wire_ok] on the
     application's content of every frame - the hyperlink parameters of the cells that can be
     written contain no ';' (the url may; [C12_wire_ok_needed]: with a ';' the renderer's OSC 8
     is split differently by the emulator), a requested visible cursor has style 0..65535 and
     coordinates -1 <= x < 2^63 - 1 - and [size_ok] on the initial size and on every size
     change: fewer than 2^63 rows and columns (the 1-based CUP numbers fit a machine integer);
   - the resize case: after a size change the emulator state is ASSUMED (a universally
     quantified hypothesis inside [emu_history_full], as inside [emu_history_ok]) well-formed,
     in Vaxis' modes and related by [emu_rel] to the resized reference terminal, about whose
     cells nothing is known; Term.resize (which re-prints the old screen) is not shown to
     produce such a state;
   - [enc_tok] (token -> delivered sequence) is tied to the real parser only through the
     differential run; drawing into a host window is C05_draw_inside plus the differential
     run. *)
From Vx Require Import base.Prelude base.ListX model.Colour model.RenderTypes model.Render model.RefTerm
  model.RenderSpec model.RenderCheck model.Gate model.EmuSpec model.EmuBridge model.EmuWire
  proofs.RenderDelta proofs.RenderRow proofs.RenderFrame proofs.RenderHistory proofs.GateProofs proofs.EmuRefine
  proofs.EmuToksOk.
From Vx Require proofs.TermProofs proofs.TermRefine5.

(* (a) under the emulator's capability set, every history makes every conforming terminal of
   that size show the application's screen and cursor after every frame *)
Theorem C12_history_shows_screen_partial : forall tw measure rows cols (t0 : term) (fs : list frame),
  1 <= rows -> 1 <= cols ->
  tm_rows t0 = rows -> tm_cols t0 = cols ->
  tm_pen t0 = tpen0 -> tm_link t0 = ([], []) -> tm_vis t0 = false -> tm_mouse t0 = [] ->
  history_ok tw measure term_caps (vinit term_caps rows cols) t0 fs.
Proof.
  intros tw measure rows cols t0 fs Hr Hc R C P L V M.
  apply history_correct; [reflexivity| |intros H; discriminate].
  unfold settled, dims_ok, vinit, blank_grid. cbn [v_next v_last v_clast v_mlast cu_vis].
  repeat split; try lia; try assumption; try (rewrite zlen_repeat by lia; congruence);
    intros r Hin; apply zrepeat_In in Hin; subst r; rewrite zlen_repeat by lia; congruence.
Qed.
Print Assumptions C12_history_shows_screen_partial.

(* (b) and never uses what the emulator did not advertise: no direct colour, no styled or
   coloured underlines, no OSC 66, no mode 2026 *)
Theorem C12_only_advertised_vocabulary : forall (s : vstate) (ops : list op) (e : frame_end),
  v_caps s = term_caps -> frame_allowed term_caps (snd (do_frame s ops e)) = true.
Proof. intros s ops e H. rewrite <- H. apply frame_tokens_allowed. Qed.
Print Assumptions C12_only_advertised_vocabulary.

(* (c) the emulator simulates the reference terminal: one token of the vocabulary allowed
   under term_caps, from every well-formed emulator state (C05's invariant, any size from 1x1,
   primary or alternate screen) in the modes Vaxis leaves (autowrap on, insert off, no
   character-set shift, full-screen scrolling region) that holds what the reference terminal
   shows ([emu_rel]: every glyph head the reference terminal shows is shown by the emulator
   cell - grapheme, width, colours, attributes, underline, hyperlink -, positions under a wide
   glyph and DPoison positions are free; cursor equal, the pending-wrap position being the
   emulator's deferred-wrap flag on the last column; pen, hyperlink, DECTCEM, cursor shape):
   feeding the token's encoding does not fail and re-establishes invariant, modes and relation
   with the reference terminal's next state *)
Theorem C12_emu_simulates_refterm : forall tw e w h (t : T.term) (r : term) (k : tok),
  TermProofs.WFs0 e w h t -> vaxis_modes t = true -> emu_rel t r ->
  allowed term_caps k = true /\ tok_ok k = true /\ fits tw r k ->
  exists t', emu_toks tw t [k] = T.TOk t' /\ TermProofs.WFs0 e w h t' /\ vaxis_modes t' = true /\
             emu_rel t' (interp1 tw r k).
Proof. exact emu_simulates_refterm. Qed.
Print Assumptions C12_emu_simulates_refterm.

Theorem C12_emu_simulates_refterm_list : forall tw e w h (ks : list tok) (t : T.term) (r : term),
  TermProofs.WFs0 e w h t -> vaxis_modes t = true -> emu_rel t r -> toks_ok tw r ks ->
  exists t', emu_toks tw t ks = T.TOk t' /\ TermProofs.WFs0 e w h t' /\ vaxis_modes t' = true /\
             emu_rel t' (interp tw r ks).
Proof. exact emu_simulates_refterm_list. Qed.
Print Assumptions C12_emu_simulates_refterm_list.

(* the composition: every history under term_caps, the emulator fed with the encoded tokens of
   every frame, from any start state related to a reference terminal as start-up leaves it:
   after every Render / Refresh the emulator's grid and cursor satisfy grid_shows / cursor_shows
   against the application's screen - the predicate of the differential run ([emu_history_ok]
   unfolds to that, frame by frame, under content_ok and the side condition toks_ok) *)
Theorem C12_app_in_term : forall tw measure rows cols (r0 : term) (t0 : T.term) e (fs : list frame),
  1 <= rows -> 1 <= cols ->
  tm_rows r0 = rows -> tm_cols r0 = cols ->
  tm_pen r0 = tpen0 -> tm_link r0 = ([], []) -> tm_vis r0 = false -> tm_mouse r0 = [] ->
  TermProofs.WFs0 e cols rows t0 -> vaxis_modes t0 = true -> emu_rel t0 r0 ->
  emu_history_ok tw measure (vinit term_caps rows cols) r0 t0 fs.
Proof.
  intros tw measure rows cols r0 t0 e fs Hr Hc R C P L V M HW HM HR.
  apply (emu_history_correct tw measure fs _ r0 t0 e cols rows); auto; [|intros H; discriminate].
  unfold settled, dims_ok, vinit, blank_grid. cbn [v_next v_last v_clast v_mlast cu_vis].
  repeat split; try lia; try assumption; try (rewrite zlen_repeat by lia; congruence);
    intros r Hin; apply zrepeat_In in Hin; subst r; rewrite zlen_repeat by lia; congruence.
Qed.
Print Assumptions C12_app_in_term.

(* the side condition is a theorem about the renderer: every frame (drawing calls, then Render,
   Refresh or a size change) from every Vaxis state whose two screens have the size of the
   reference terminal [r] ([dims_ok] - part of the invariant [settled] of C01's frame theorem;
   nothing about what the terminal displays is needed) writes a token list that satisfies
   [toks_ok] from [r]: only the vocabulary of term_caps, every number and parameter as the wire
   needs it, and every glyph of width w written at a column c of the reference terminal with
   c + w <= cols.  Hypotheses: C01's content hypotheses on the screen being rendered, and the two
   decidable ones of model/EmuWire.v *)
Theorem C12_renderer_output_ok : forall tw measure (s : vstate) (r : term) (ops : list op) (e : frame_end),
  v_caps s = term_caps -> dims_ok s r -> size_ok (tm_rows r) (tm_cols r) ->
  content_ok tw measure term_caps (fold_left apply_op ops s) ->
  wire_ok (fold_left apply_op ops s) = true ->
  toks_ok tw r (snd (do_frame s ops e)).
Proof. exact frame_toks_ok. Qed.
Print Assumptions C12_renderer_output_ok.

(* the composition without the side condition: [emu_history_full] is [emu_history_ok] with the
   hypothesis "toks_ok tw r o" of every frame removed; in its place every frame has the
   decidable hypothesis wire_ok on the application's content (next to content_ok) and every
   size change the hypothesis size_ok.  After every Render / Refresh the emulator accepts the
   encoded tokens and its grid and cursor satisfy grid_shows / cursor_shows against the
   application's screen - the predicate of the differential run *)
Theorem C12_app_in_term_full : forall tw measure rows cols (r0 : term) (t0 : T.term) e (fs : list frame),
  1 <= rows -> 1 <= cols -> size_ok rows cols ->
  tm_rows r0 = rows -> tm_cols r0 = cols ->
  tm_pen r0 = tpen0 -> tm_link r0 = ([], []) -> tm_vis r0 = false -> tm_mouse r0 = [] ->
  TermProofs.WFs0 e cols rows t0 -> vaxis_modes t0 = true -> emu_rel t0 r0 ->
  emu_history_full tw measure (vinit term_caps rows cols) r0 t0 fs.
Proof.
  intros tw measure rows cols r0 t0 e fs Hr Hc Hsz R C P L V M HW HM HR.
  apply (emu_history_full_correct tw measure fs _ r0 t0 e cols rows); auto;
    [|intros H; discriminate|rewrite R, C; exact Hsz].
  unfold settled, dims_ok, vinit, blank_grid. cbn [v_next v_last v_clast v_mlast cu_vis].
  repeat split; try lia; try assumption; try (rewrite zlen_repeat by lia; congruence);
    intros r Hin; apply zrepeat_In in Hin; subst r; rewrite zlen_repeat by lia; congruence.
Qed.
Print Assumptions C12_app_in_term_full.

(* what [emu_history_full] says for a history of one Render, spelled out (the definition is a
   Fixpoint in proofs/EmuToksOk.v): no side condition is left *)
Example C12_history_full_unfolds : forall tw measure s r t ops,
  emu_history_full tw measure s r t [(ops, FRender)] =
  (let s1 := fold_left apply_op ops s in
   content_ok tw measure term_caps s1 -> wire_ok s1 = true ->
   let '(s', o) := do_frame s ops FRender in
   exists t', emu_toks tw t o = T.TOk t' /\
     grid_shows term_caps (v_next s1) (grid_of t') = true /\
     cursor_shows (tm_rows r) (tm_cols r) (v_cnext s1) (ecursor_of t') = true /\
     True).
Proof.
  intros tw measure s r t ops. cbn [emu_history_full]. cbv zeta.
  destruct (do_frame s ops FRender) as [s' o]. reflexivity.
Qed.

(* the new hypotheses are satisfiable: a screen with a wide cell that carries a hyperlink with
   parameters, a visible cursor with a shape, on a 2x3 terminal - C01's content hypotheses (in
   their decidable form grid_ok), wire_ok and size_ok hold *)
Example C12_wire_example :
  let tw := lookup_w [([97], 1); ([28450], 2); ([], 0)] in
  let st := {| s_fg := index_color 3; s_bg := rgb_color 1 2 3; s_ul := 0; s_uls := 3; s_attr := 6;
               s_link := [104]; s_linkp := [105; 100] |} in
  let wide := {| c_g := [28450]; c_w := 0; c_mw := 2; c_st := st; c_sixel := false |} in
  let a := {| c_g := [97]; c_w := 0; c_mw := 1; c_st := style0; c_sixel := false |} in
  let s1 := fold_left apply_op [OSet 0 0 wide; OSet 2 0 a; OShowCursor 1 1 4] (vinit term_caps 2 3) in
  grid_ok tw tw term_caps (v_next s1) = true /\ wire_ok s1 = true /\ size_ok 2 3.
Proof. vm_compute. repeat split. Qed.

(* and wire_ok is not gratuitous: with a ';' among the hyperlink parameters of a cell the
   renderer writes an OSC 8 that violates the side condition (the emulator cuts params from
   url at the first ';'), and wire_ok is false *)
Example C12_wire_ok_needed :
  let tw := lookup_w [([97], 1); ([], 0)] in
  let st := {| s_fg := 0; s_bg := 0; s_ul := 0; s_uls := 0; s_attr := 0; s_link := [104]; s_linkp := [105; 59; 100] |} in
  let a := {| c_g := [97]; c_w := 0; c_mw := 1; c_st := st; c_sixel := false |} in
  let s0 := vinit term_caps 2 3 in
  let s1 := fold_left apply_op [OSet 0 0 a] s0 in
  grid_ok tw tw term_caps (v_next s1) = true /\ wire_ok s1 = false /\
  toks_okb tw (term_unknown 2 3) (snd (do_frame s0 [OSet 0 0 a] FRender)) = false.
Proof. vm_compute. repeat split. Qed.

(* the hypotheses on the start states are satisfiable: the emulator after New(), the first
   resize and Vaxis' start-up sequence that hides the cursor, against a reference terminal
   about which nothing is known *)
Example C12_start_example :
  let t0 := T.set_md (TermRefine5.start_state 3 2) (T.md_tcem T.modes0 false) in
  let r0 := term_unknown 2 3 in
  TermProofs.WFs0 0 3 2 t0 /\ vaxis_modes t0 = true /\ emu_rel t0 r0.
Proof.
  cbv zeta. split; [|split].
  - apply TermProofs.WFs_set_md. destruct (TermRefine5.start_inv 3 2) as [[W _ _ _ _ _ _ _ _ _] _]; try lia. exact W.
  - reflexivity.
  - apply mkEmuRel.
    + reflexivity.
    + reflexivity.
    + intros row col c _. exact I.
    + reflexivity.
    + left. repeat split; cbn; lia.
    + repeat split; cbn; lia.
    + reflexivity.
    + reflexivity.
Qed.

(* and frames run end to end on the emulator model: the tokens of a history with a wide cell,
   colours, attributes, a hyperlink and a cursor satisfy the side condition [toks_ok] (in its
   decidable form) and the emulator model ends with a grid and cursor that satisfy the
   predicate evaluated on the real emulator *)
Example C12_model_example :
  let st := {| s_fg := index_color 3; s_bg := rgb_color 1 2 3; s_ul := 0; s_uls := 3; s_attr := 6;
               s_link := [104]; s_linkp := [105; 100] |} in
  let wide := {| c_g := [28450]; c_w := 0; c_mw := 2; c_st := st; c_sixel := false |} in
  let a := {| c_g := [97]; c_w := 0; c_mw := 1; c_st := style0; c_sixel := false |} in
  let fr ops e := {| ef_ops := ops; ef_end := e; ef_toks := []; ef_grid := []; ef_cur := (0, 0, false, 0);
                     ef_host := []; ef_hostcur := (0, 0, false, 0) |} in
  let c := {| e_rows := 2; e_cols := 3; e_widths := [([97], 1); ([28450], 2); ([], 0)]; e_caps := [];
              e_frames := [fr [OSet 0 0 wide; OSet 2 0 a; OShowCursor 1 1 4] FRender;
                           fr [OSet 0 0 a; OSet 1 1 wide] FRender; fr [] FRefresh] |} in
  c12_side_holds c = true /\ c12_model_holds c = true.
Proof. vm_compute. split; reflexivity. Qed.

(* non-vacuity of the executable predicate used on the real emulator: a screen with a wide
   cell, as an emulator that keeps a blank under the right half would hold it *)
Example C12_example :
  let wide := {| c_g := [28450]; c_w := 0; c_mw := 2; c_st := style0; c_sixel := false |} in
  let a := {| c_g := [97]; c_w := 0; c_mw := 1; c_st := style0; c_sixel := false |} in
  grid_shows term_caps [[wide; cell0; a]] [[([28450], 2, style0); ([32], 1, style0); ([97], 1, style0)]] = true.
Proof. vm_compute. reflexivity. Qed.
