(* C12 — a Vaxis application renders correctly inside the embedded terminal.
   Statements only.

   Full statement:
     for all frame histories, feeding the bytes Vaxis writes (under the capability set it
     derives from the emulator's replies) to the emulator of the same size leaves, after every
     frame, the emulator's grid/cursor equal to the view of the application's screen, and
     drawing the emulator into a host window reproduces those cells.
   It factors into (a) what Vaxis writes makes ANY conforming terminal show the screen (C01),
   (b) Vaxis writes only vocabulary the emulator advertised (C07), (c) the emulator behaves as
   the reference terminal on that vocabulary.  (a) and (b) are instantiated at [term_caps];
   (c) is [C12_emu_simulates_refterm] (one token) and [C12_emu_simulates_refterm_list] over the
   emulator model of C05/C06 (model/Term.v), for the whole vocabulary Gate.allowed term_caps;
   [C12_app_in_term] composes the three along every history and concludes exactly the
   predicate the differential run evaluates on the real emulator.

   The side condition [toks_ok] of (c) - every number the renderer writes is written with
   digits and fits a machine integer (cursor coordinates >= 0, cursor style a small number),
   hyperlink parameters contain no ';', and every glyph is written where it fits before the
   right edge (RefTerm makes the other case DPoison, the emulator wraps and may scroll there) -
   stays a hypothesis of [C12_emu_simulates_refterm(_list)], which speak about ANY token list,
   and of the older composition [C12_app_in_term].  For the renderer's own output it is a
   theorem: [C12_renderer_output_ok] (proofs/EmuToksOk.v: a cursor-tracking induction over the
   render loop, from C01's content hypotheses - no wide cell overhangs the right edge), and
   [C12_app_in_term_full] is the composition without it.

   What is still assumed in [C12_app_in_term_full] (kept as it was):
   - C01's content hypotheses, frame by frame ([content_ok]: widths agree, measured widths are
     the oracle's, attribute masks are uint8, no sixel cell, no wide cell over the right edge);
   - two decidable hypotheses stated in the theorem (model/EmuWire.v): [wire_ok] on the
     application's content of every frame - the hyperlink parameters of the cells that can be
     written contain no ';' (the url may; [C12_wire_ok_needed]: with a ';' the renderer's OSC 8
     is split differently by the emulator), a requested visible cursor has style 0..65535 and
     coordinates -1 <= x < 2^63 - 1 - and [size_ok] on the initial size and on every size
     change: fewer than 2^63 rows and columns (the 1-based CUP numbers fit a machine integer);
   - the resize case, there a universally quantified hypothesis inside [emu_history_full].

   The resize case is now a theorem ([C12_app_in_term_resize], proofs/EmuResize.v,
   proofs/EmuHistory.v): a size change is T.resize (the model of term.go resize, which Draw
   calls when the host window changed size: both screens reallocated, the old PRIMARY screen
   re-printed up to the cursor row) followed by Vaxis' repaint.  [C12_resize_keeps_relation]:
   from every well-formed emulator state in Vaxis' modes T.resize does not fail and yields a
   well-formed state of the new size in Vaxis' modes (scrolling region = whole screen, autowrap
   on, insert off, no character-set shift), with DECTCEM and cursor shape unchanged and the
   deferred-wrap flag only on the last column, hence related by [emu_rel] to the resized
   reference terminal [ref_resized] - whose cells are all DPoison, so the cell clause is
   vacuous ([cell_rel DPoison = True], used in the proof, not assumed) and which is one of the
   terminals C01's [resized] allows.  The pen clause holds because resize restores the pen:
   before fix 63dc3f8 (found through this property: finding resize-pen-leak, fixed) resize left
   the style of the last re-printed cell in the pen; [resize_leaky] is that resize,
   [C12_resize_pen] says which style it left (the last cell of the row above the cursor on the
   old primary screen) and [C12_resize_pen_needed] shows the repaint after it coming out in the
   colour of old shell output - and correctly after T.resize.  So [C12_app_in_term_resize_any]
   holds from ANY well-formed start state in Vaxis' modes with the default pen and the cursor
   hidden ([start_ok]) - primary or alternate screen, whatever is underneath - and quantifies
   only over content ([content_ok], [wire_ok], [size_ok]); [C12_app_in_term_resize] (start
   state on the alternate screen over a default primary screen) and [C12_resize_alt] (that
   situation survives every token - [keeps_prim] - and every resize) are kept.

   [enc_tok] is now tied to the parser model of C02 ([C12_token_on_the_wire],
   [C12_tokens_on_the_wire], proofs/EmuWireParse.v): for every token of the vocabulary the
   parser model, from a clean ground state on the token's serialisation (format strings
   translated from sequences.go), delivers exactly the sequence whose conversion to an emulator
   item (as in C05's bytes theorem) is [enc_tok], and is in a clean ground state again; text
   arrives one code point at a time, a maximal run of adjacent text tokens as one print, which
   uniseg (oracle [seg]) cuts into clusters: under [seg_agrees] - every such run is cut back
   into the graphemes of the cells with the widths [tw], no cluster forms across two cells, no
   empty grapheme is written raw - the emulator receives exactly [enc_tok] of every token.
   [C12_app_in_term_bytes] is the composition from BYTES: the emulator model fed the bytes of
   every frame of every history shows the application's screen.  Additional per-frame
   hypotheses there: [content_wf] (C01's printable-content hypothesis: graphemes, hyperlinks,
   pointer shape free of C0 controls and surrogates) and the oracle hypothesis [seg_agrees].

   Still not proved: drawing into a host window is C05_draw_inside plus the differential run;
   the emulator's resize and parser are the models of C05/C06 and C02 (tied to the code by those
   properties' differential runs and here by the end-to-end run). *)
From Vx Require Import base.Prelude base.ListX model.Colour model.RenderTypes model.Render model.RefTerm
  model.RenderSpec model.RenderCheck model.Gate model.EmuSpec model.EmuBridge model.EmuWire model.RenderBytes
  model.EmuBytes
  proofs.RenderDelta proofs.RenderRow proofs.RenderFrame proofs.RenderHistory proofs.GateProofs proofs.RenderBytesWf
  proofs.RenderBytesProofs proofs.EmuRefine
  proofs.EmuToksOk proofs.EmuResize proofs.EmuHistory proofs.EmuWireParse proofs.EmuBytesHistory proofs.EmuStart.
From Vx Require proofs.TermProofs proofs.TermRefine5 model.Parser.

(* (a) under the emulator's capability set, every history makes every conforming terminal of
   that size show the application's screen and cursor after every frame *)
Theorem C12_history_shows_screen_partial : forall tw measure rows cols (t0 : term) (fs : list frame),
  1 <= rows -> 1 <= cols ->
  tm_rows t0 = rows -> tm_cols t0 = cols ->
  tm_pen t0 = tpen0 -> tm_link t0 = ([], []) -> tm_vis t0 = false -> tm_mouse t0 = [] ->
  history_ok tw measure term_caps (vinit term_caps rows cols) t0 fs.
Proof.
  intros tw measure rows cols t0 fs Hr Hc R C P L V M.
  apply history_correct; [reflexivity| |intros H; discriminate].
  unfold settled, dims_ok, vinit, blank_grid. cbn [v_next v_last v_clast v_mlast cu_vis].
  repeat split; try lia; try assumption; try (rewrite zlen_repeat by lia; congruence);
    intros r Hin; apply zrepeat_In in Hin; subst r; rewrite zlen_repeat by lia; congruence.
Qed.
Print Assumptions C12_history_shows_screen_partial.

(* (b) and never uses what the emulator did not advertise: no direct colour, no styled or
   coloured underlines, no OSC 66, no mode 2026 *)
Theorem C12_only_advertised_vocabulary : forall (s : vstate) (ops : list op) (e : frame_end),
  v_caps s = term_caps -> frame_allowed term_caps (snd (do_frame s ops e)) = true.
Proof. intros s ops e H. rewrite <- H. apply frame_tokens_allowed. Qed.
Print Assumptions C12_only_advertised_vocabulary.

(* (c) the emulator simulates the reference terminal: one token of the vocabulary allowed
   under term_caps, from every well-formed emulator state (C05's invariant, any size from 1x1,
   primary or alternate screen) in the modes Vaxis leaves (autowrap on, insert off, no
   character-set shift, full-screen scrolling region) that holds what the reference terminal
   shows ([emu_rel]: every glyph head the reference terminal shows is shown by the emulator
   cell - grapheme, width, colours, attributes, underline, hyperlink -, positions under a wide
   glyph and DPoison positions are free; cursor equal, the pending-wrap position being the
   emulator's deferred-wrap flag on the last column; pen, hyperlink, DECTCEM, cursor shape):
   feeding the token's encoding does not fail and re-establishes invariant, modes and relation
   with the reference terminal's next state; which screen is active, mode 1049 and - on the
   alternate screen - the primary screen are not touched ([keeps_prim]) *)
Theorem C12_emu_simulates_refterm : forall tw e w h (t : T.term) (r : term) (k : tok),
  TermProofs.WFs0 e w h t -> vaxis_modes t = true -> emu_rel t r ->
  allowed term_caps k = true /\ tok_ok k = true /\ fits tw r k ->
  exists t', emu_toks tw t [k] = T.TOk t' /\ TermProofs.WFs0 e w h t' /\ vaxis_modes t' = true /\
             emu_rel t' (interp1 tw r k) /\ keeps_prim t t'.
Proof. exact emu_simulates_refterm. Qed.
Print Assumptions C12_emu_simulates_refterm.

Theorem C12_emu_simulates_refterm_list : forall tw e w h (ks : list tok) (t : T.term) (r : term),
  TermProofs.WFs0 e w h t -> vaxis_modes t = true -> emu_rel t r -> toks_ok tw r ks ->
  exists t', emu_toks tw t ks = T.TOk t' /\ TermProofs.WFs0 e w h t' /\ vaxis_modes t' = true /\
             emu_rel t' (interp tw r ks) /\ keeps_prim t t'.
Proof. exact emu_simulates_refterm_list. Qed.
Print Assumptions C12_emu_simulates_refterm_list.

(* the composition: every history under term_caps, the emulator fed with the encoded tokens of
   every frame, from any start state related to a reference terminal as start-up leaves it:
   after every Render / Refresh the emulator's grid and cursor satisfy grid_shows / cursor_shows
   against the application's screen - the predicate of the differential run ([emu_history_ok]
   unfolds to that, frame by frame, under content_ok and the side condition toks_ok) *)
Theorem C12_app_in_term : forall tw measure rows cols (r0 : term) (t0 : T.term) e (fs : list frame),
  1 <= rows -> 1 <= cols ->
  tm_rows r0 = rows -> tm_cols r0 = cols ->
  tm_pen r0 = tpen0 -> tm_link r0 = ([], []) -> tm_vis r0 = false -> tm_mouse r0 = [] ->
  TermProofs.WFs0 e cols rows t0 -> vaxis_modes t0 = true -> emu_rel t0 r0 ->
  emu_history_ok tw measure (vinit term_caps rows cols) r0 t0 fs.
Proof.
  intros tw measure rows cols r0 t0 e fs Hr Hc R C P L V M HW HM HR.
  apply (emu_history_correct tw measure fs _ r0 t0 e cols rows); auto; [|intros H; discriminate].
  unfold settled, dims_ok, vinit, blank_grid. cbn [v_next v_last v_clast v_mlast cu_vis].
  repeat split; try lia; try assumption; try (rewrite zlen_repeat by lia; congruence);
    intros r Hin; apply zrepeat_In in Hin; subst r; rewrite zlen_repeat by lia; congruence.
Qed.
Print Assumptions C12_app_in_term.

(* the side condition is a theorem about the renderer: every frame (drawing calls, then Render,
   Refresh or a size change) from every Vaxis state whose two screens have the size of the
   reference terminal [r] ([dims_ok] - part of the invariant [settled] of C01's frame theorem;
   nothing about what the terminal displays is needed) writes a token list that satisfies
   [toks_ok] from [r]: only the vocabulary of term_caps, every number and parameter as the wire
   needs it, and every glyph of width w written at a column c of the reference terminal with
   c + w <= cols.  Hypotheses: C01's content hypotheses on the screen being rendered, and the two
   decidable ones of model/EmuWire.v *)
Theorem C12_renderer_output_ok : forall tw measure (s : vstate) (r : term) (ops : list op) (e : frame_end),
  v_caps s = term_caps -> dims_ok s r -> size_ok (tm_rows r) (tm_cols r) ->
  content_ok tw measure term_caps (fold_left apply_op ops s) ->
  wire_ok (fold_left apply_op ops s) = true ->
  toks_ok tw r (snd (do_frame s ops e)).
Proof. exact frame_toks_ok. Qed.
Print Assumptions C12_renderer_output_ok.

(* the composition without the side condition: [emu_history_full] is [emu_history_ok] with the
   hypothesis "toks_ok tw r o" of every frame removed; in its place every frame has the
   decidable hypothesis wire_ok on the application's content (next to content_ok) and every
   size change the hypothesis size_ok.  After every Render / Refresh the emulator accepts the
   encoded tokens and its grid and cursor satisfy grid_shows / cursor_shows against the
   application's screen - the predicate of the differential run *)
Theorem C12_app_in_term_full : forall tw measure rows cols (r0 : term) (t0 : T.term) e (fs : list frame),
  1 <= rows -> 1 <= cols -> size_ok rows cols ->
  tm_rows r0 = rows -> tm_cols r0 = cols ->
  tm_pen r0 = tpen0 -> tm_link r0 = ([], []) -> tm_vis r0 = false -> tm_mouse r0 = [] ->
  TermProofs.WFs0 e cols rows t0 -> vaxis_modes t0 = true -> emu_rel t0 r0 ->
  emu_history_full tw measure (vinit term_caps rows cols) r0 t0 fs.
Proof.
  intros tw measure rows cols r0 t0 e fs Hr Hc Hsz R C P L V M HW HM HR.
  apply (emu_history_full_correct tw measure fs _ r0 t0 e cols rows); auto;
    [|intros H; discriminate|rewrite R, C; exact Hsz].
  unfold settled, dims_ok, vinit, blank_grid. cbn [v_next v_last v_clast v_mlast cu_vis].
  repeat split; try lia; try assumption; try (rewrite zlen_repeat by lia; congruence);
    intros r Hin; apply zrepeat_In in Hin; subst r; rewrite zlen_repeat by lia; congruence.
Qed.
Print Assumptions C12_app_in_term_full.

(* ---------------------------------------------------------------- A. the resize case *)

(* T.resize from every well-formed emulator state in Vaxis' modes related to a reference
   terminal [r]: it does not fail; the result is well-formed at the new size, in Vaxis' modes,
   and related to the resized reference terminal [ref_resized r t2] (new size, every cell
   unknown, cursor wherever the emulator has it, pen / hyperlink / DECTCEM / shape / mode 2026
   / pointer shape as before), which is one of the terminals C01's history theorem allows after
   a size change ([resized]).  No hypothesis on the state is left: the pen is restored *)
Theorem C12_resize_keeps_relation : forall e w h (t : T.term) (r : term) w2 h2,
  TermProofs.WFs0 e w h t -> vaxis_modes t = true -> emu_rel t r -> 1 <= w2 -> 1 <= h2 ->
  exists t2, T.resize t w2 h2 = T.TOk t2 /\ TermProofs.WFs0 e w2 h2 t2 /\ vaxis_modes t2 = true /\
    emu_rel t2 (ref_resized r t2) /\ resized r (ref_resized r t2) h2 w2.
Proof. exact resize_rel. Qed.
Print Assumptions C12_resize_keeps_relation.

(* the resize before fix 63dc3f8 ([resize_leaky]: no restore) left [resize_pen] in the pen
   ([C12_resize_leaky_pen]), that is: the style of the last cell of the row above the cursor on
   the old PRIMARY screen (the pen itself when the cursor is on the first row) *)
Theorem C12_resize_pen : forall e w h (t : T.term), TermProofs.WFs0 e w h t ->
  resize_pen t = if T.t_row t =? 0 then T.t_pen t
                 else match gget (T.t_prim t) (T.t_row t - 1) (w - 1) with
                      | Some c => T.c_st c
                      | None => T.t_pen t
                      end.
Proof. exact resize_pen_closed. Qed.
Print Assumptions C12_resize_pen.

Theorem C12_resize_leaky_pen : forall e w h (t : T.term) w2 h2,
  TermProofs.WFs0 e w h t -> vaxis_modes t = true -> 1 <= w2 -> 1 <= h2 ->
  exists t2, resize_leaky t w2 h2 = T.TOk t2 /\ T.t_pen t2 = resize_pen t.
Proof.
  intros e w h t w2 h2 W M Hw Hh.
  exact (resize_leaky_pen (fun _ => True) ltac:(auto) I e w h t w2 h2 W M Hw Hh (all_true _) I).
Qed.
Print Assumptions C12_resize_leaky_pen.

(* on the alternate screen (mode 1049) over a primary screen in the default style, with the
   default pen (as every frame leaves it), the resize also re-establishes that situation *)
Theorem C12_resize_alt : forall e w h (t : T.term) (r : term) w2 h2,
  TermProofs.WFs0 e w h t -> vaxis_modes t = true -> emu_rel t r -> 1 <= w2 -> 1 <= h2 ->
  tm_pen r = tpen0 -> tm_link r = ([], []) -> alt_plain t ->
  exists t2, T.resize t w2 h2 = T.TOk t2 /\ TermProofs.WFs0 e w2 h2 t2 /\ vaxis_modes t2 = true /\
    emu_rel t2 (ref_resized r t2) /\ resized r (ref_resized r t2) h2 w2 /\ alt_plain t2.
Proof. exact resize_rel_alt. Qed.
Print Assumptions C12_resize_alt.

(* the history theorem with the resize case proved: the emulator is resized by T.resize, Vaxis
   repaints.  [emu_history_resize] mentions no reference terminal; its hypotheses are, per
   frame, content_ok and wire_ok, per size change size_ok - content only.  The start state is any
   well-formed emulator state of that size in Vaxis' modes with the default pen, the cursor
   hidden ([start_ok]), on the alternate screen over a primary screen in the default style
   ([alt_plainb]) - decidable facts about one state, all true of the emulator after New(),
   StartWithSize and Vaxis' start-up at every size ([C12_start_state]) *)
Theorem C12_app_in_term_resize : forall tw measure rows cols (t0 : T.term) e (fs : list frame),
  1 <= rows -> 1 <= cols -> size_ok rows cols ->
  TermProofs.WFs0 e cols rows t0 -> vaxis_modes t0 = true -> start_ok t0 = true -> alt_plainb t0 = true ->
  emu_history_resize (fun _ => True) tw measure (vinit term_caps rows cols) rows cols t0 fs.
Proof. exact app_in_term_resize. Qed.
Print Assumptions C12_app_in_term_resize.

(* any start state (also the primary screen, also a primary screen with styled text
   underneath): nothing is asked at a size change *)
Theorem C12_app_in_term_resize_any : forall tw measure rows cols (t0 : T.term) e (fs : list frame),
  1 <= rows -> 1 <= cols -> size_ok rows cols ->
  TermProofs.WFs0 e cols rows t0 -> vaxis_modes t0 = true -> start_ok t0 = true ->
  emu_history_resize (fun _ => True) tw measure (vinit term_caps rows cols) rows cols t0 fs.
Proof. exact app_in_term_resize_any. Qed.
Print Assumptions C12_app_in_term_resize_any.

(* the start state, for every size from 1x1 *)
Theorem C12_start_state : forall cols rows, 1 <= cols -> 1 <= rows ->
  let t := emu_start cols rows in
  TermProofs.WFs0 0 cols rows t /\ vaxis_modes t = true /\ start_ok t = true /\ alt_plainb t = true.
Proof. exact emu_start_ready. Qed.
Print Assumptions C12_start_state.

(* so: every history from the start state, at every size - hypotheses on content only *)
Theorem C12_app_in_term_from_start : forall tw measure rows cols (fs : list frame),
  1 <= rows -> 1 <= cols -> size_ok rows cols ->
  emu_history_resize (fun _ => True) tw measure (vinit term_caps rows cols) rows cols (emu_start cols rows) fs.
Proof. exact app_in_term_from_start. Qed.
Print Assumptions C12_app_in_term_from_start.

(* what [emu_history_resize] says for a Render, a size change and a Refresh, spelled out *)
Example C12_history_resize_unfolds : forall tw measure s rows cols t ops ops2 rows2 cols2,
  emu_history_resize (fun _ => True) tw measure s rows cols t [(ops, FRender); (ops2, FResize rows2 cols2)] =
  (let s1 := fold_left apply_op ops s in
   content_ok tw measure term_caps s1 -> wire_ok s1 = true ->
   let '(s', o) := do_frame s ops FRender in
   exists t', emu_toks tw t o = T.TOk t' /\
     grid_shows term_caps (v_next s1) (grid_of t') = true /\
     cursor_shows rows cols (v_cnext s1) (ecursor_of t') = true /\
     (1 <= rows2 -> 1 <= cols2 -> size_ok rows2 cols2 -> True ->
      exists t2, T.resize t' cols2 rows2 = T.TOk t2 /\ True)).
Proof.
  intros. cbn [emu_history_resize]. cbv zeta.
  destruct (do_frame s ops FRender) as [s' o]. reflexivity.
Qed.

(* why resize has to restore the pen (finding resize-pen-leak, fixed by 63dc3f8): an emulator
   that showed a line of text on red before the application started; the application draws,
   the window is resized, the application repaints an 'a' in the default style.  With the
   resize as it was ([resize_leaky]) the pen it left does not show what the pen showed and the
   emulator model shows the 'a' (and the whole repainted screen) on red; with T.resize the
   repaint is right *)
Example C12_resize_pen_needed :
  let tw := lookup_w [([97], 1); ([], 0)] in
  let a := {| c_g := [97]; c_w := 0; c_mw := 1; c_st := style0; c_sixel := false |} in
  let get r := match r with T.TOk t => t | _ => T.term_new end in
  let dirty := get (emu_feed (get (T.term_start 3 2))
     [T.TCsi [] [[41]] 109; T.TPrint [120] 1; T.TPrint [120] 1; T.TPrint [120] 1; T.TCsi [] [] 109; T.TCsi [] [] 72;
      T.TCsi [63] [[1049]] 104; T.TCsi [63] [[25]] 108]) in
  let s0 := vinit term_caps 2 3 in
  let f1 := do_frame s0 [OSet 0 0 a; OShowCursor 0 1 0] FRender in
  let t1 := get (emu_toks tw dirty (snd f1)) in
  let s2 := do_resize (fst f1) 2 4 in
  let f3 := do_frame s2 [OSet 0 0 a] FRender in
  let shows t2 := grid_shows term_caps (v_next (fold_left apply_op [OSet 0 0 a] s2)) (grid_of (get (emu_toks tw t2 (snd f3)))) in
  vaxis_modes dirty = true /\ start_ok dirty = true /\ alt_plainb dirty = false /\
  grid_shows term_caps (v_next (fold_left apply_op [OSet 0 0 a; OShowCursor 0 1 0] s0)) (grid_of t1) = true /\
  resize_pen_ok t1 = false /\
  shows (get (resize_leaky t1 4 2)) = false /\
  shows (get (T.resize t1 4 2)) = true.
Proof. vm_compute. repeat split. Qed.

(* ---------------------------------------------------------------- B. enc_tok against the parser model *)

(* one token of the vocabulary (allowed under term_caps, tok_ok, strings printable and made of
   code points Go writes as themselves): the parser model of C02, from ANY clean ground state
   (ground, no string pending, no string data left over), run on the token's serialisation
   [ser k], consumes it entirely, delivers [wire_items k] and is in a clean ground state again;
   and - for every token that is not text - those items, converted to emulator items as in
   C05's bytes theorem, are exactly [enc_tok tw k].  For text ([KText g], [KSpace])
   [wire_items] is the code points one by one: see the next theorem *)
Theorem C12_token_on_the_wire : forall tw seg (k : tok), tok_wire_ok k = true ->
  (forall p, clean p -> exists p', Parser.feed p (ser k) = (p', wire_items k, true) /\ clean p') /\
  (tok_cluster tw k = None -> of_items seg (wire_items k) = enc_tok tw k).
Proof. intros tw seg k H. split; [exact (tok_delivers k H)|exact (wire_items_enc tw seg k H)]. Qed.
Print Assumptions C12_token_on_the_wire.

(* token lists, from the bytes: Parser.parse_bytes (one read: UTF-8 decoding, the machine from
   its initial state, adjacent printed code points joined, end of input) on [ser_bytes ks]
   hands the emulator [enc_tok tw] of every token and then the end of input, provided uniseg
   cuts every maximal run of adjacent text tokens back into the graphemes of the cells, with
   the widths [tw] ([seg_agrees]: decidable given the oracle's answers; it also asks that no
   empty grapheme is written raw) *)
Theorem C12_tokens_on_the_wire : forall tw seg (ks : list tok),
  forallb tok_wire_ok ks = true -> seg_agrees tw seg ks = true ->
  of_items seg (Parser.parse_bytes (ser_bytes ks)) = flat_map (enc_tok tw) ks ++ [T.TOther] /\
  forall t, emu_bytes seg t (ser_bytes ks) = emu_toks tw t ks.
Proof.
  intros tw seg ks H1 H2. split; [exact (wire_exact tw seg ks H1 H2)|].
  intros t. exact (emu_bytes_toks tw seg t ks H1 H2).
Qed.
Print Assumptions C12_tokens_on_the_wire.

(* the composition from BYTES: every history, the emulator model fed the bytes of every frame
   (through the parser model and uniseg as an oracle), resized by T.resize at every size
   change: after every Render / Refresh its grid and cursor show the application's screen.
   Per frame: content_ok, wire_ok, printable content ([content_wf], C01's hypothesis for the
   wire) and the oracle hypothesis seg_agrees on the frame's tokens; per size change: size_ok *)
Theorem C12_app_in_term_bytes : forall tw measure seg rows cols (fs : list frame),
  1 <= rows -> 1 <= cols -> size_ok rows cols ->
  emu_history_bytes (fun _ => True) tw measure seg (vinit term_caps rows cols) rows cols (emu_start cols rows) fs.
Proof. exact app_in_term_bytes_from_start. Qed.
Print Assumptions C12_app_in_term_bytes.

Example C12_history_bytes_unfolds : forall tw measure seg s rows cols t ops,
  emu_history_bytes (fun _ => True) tw measure seg s rows cols t [(ops, FRender)] =
  (let s1 := fold_left apply_op ops s in
   content_ok tw measure term_caps s1 -> wire_ok s1 = true -> content_wf s1 ->
   let '(s', o) := do_frame s ops FRender in
   seg_agrees tw seg o = true ->
   exists t', emu_bytes seg t (ser_bytes o) = T.TOk t' /\
     grid_shows term_caps (v_next s1) (grid_of t') = true /\
     cursor_shows rows cols (v_cnext s1) (ecursor_of t') = true /\
     True).
Proof.
  intros. cbn [emu_history_bytes]. cbv zeta.
  destruct (do_frame s ops FRender) as [s' o]. reflexivity.
Qed.

(* the oracle hypothesis is satisfiable and not gratuitous: two flags in adjacent cells are
   cut back into the two flags; a lone regional indicator next to another one is not - the
   terminal joins them into one flag *)
Example C12_seg_agrees_example :
  let tw := lookup_w [([127465; 127466], 2); ([127465], 1); ([127466], 1)] in
  let seg := lookup_seg [([127465; 127466; 127465; 127466], [([127465; 127466], 2); ([127465; 127466], 2)]);
                         ([127465; 127466], [([127465; 127466], 2)])] in
  seg_agrees tw seg [KCup 1 1; KText [127465; 127466]; KText [127465; 127466]; KSgrReset] = true /\
  seg_agrees tw seg [KCup 1 1; KText [127465]; KText [127466]; KSgrReset] = false.
Proof. vm_compute. split; reflexivity. Qed.

(* what [emu_history_full] says for a history of one Render, spelled out (the definition is a
   Fixpoint in proofs/EmuToksOk.v): no side condition is left *)
Example C12_history_full_unfolds : forall tw measure s r t ops,
  emu_history_full tw measure s r t [(ops, FRender)] =
  (let s1 := fold_left apply_op ops s in
   content_ok tw measure term_caps s1 -> wire_ok s1 = true ->
   let '(s', o) := do_frame s ops FRender in
   exists t', emu_toks tw t o = T.TOk t' /\
     grid_shows term_caps (v_next s1) (grid_of t') = true /\
     cursor_shows (tm_rows r) (tm_cols r) (v_cnext s1) (ecursor_of t') = true /\
     True).
Proof.
  intros tw measure s r t ops. cbn [emu_history_full]. cbv zeta.
  destruct (do_frame s ops FRender) as [s' o]. reflexivity.
Qed.

(* the new hypotheses are satisfiable: a screen with a wide cell that carries a hyperlink with
   parameters, a visible cursor with a shape, on a 2x3 terminal - C01's content hypotheses (in
   their decidable form grid_ok), wire_ok and size_ok hold *)
Example C12_wire_example :
  let tw := lookup_w [([97], 1); ([28450], 2); ([], 0)] in
  let st := {| s_fg := index_color 3; s_bg := rgb_color 1 2 3; s_ul := 0; s_uls := 3; s_attr := 6;
               s_link := [104]; s_linkp := [105; 100] |} in
  let wide := {| c_g := [28450]; c_w := 0; c_mw := 2; c_st := st; c_sixel := false |} in
  let a := {| c_g := [97]; c_w := 0; c_mw := 1; c_st := style0; c_sixel := false |} in
  let s1 := fold_left apply_op [OSet 0 0 wide; OSet 2 0 a; OShowCursor 1 1 4] (vinit term_caps 2 3) in
  grid_ok tw tw term_caps (v_next s1) = true /\ wire_ok s1 = true /\ size_ok 2 3.
Proof. vm_compute. repeat split. Qed.

(* and wire_ok is not gratuitous: with a ';' among the hyperlink parameters of a cell the
   renderer writes an OSC 8 that violates the side condition (the emulator cuts params from
   url at the first ';'), and wire_ok is false *)
Example C12_wire_ok_needed :
  let tw := lookup_w [([97], 1); ([], 0)] in
  let st := {| s_fg := 0; s_bg := 0; s_ul := 0; s_uls := 0; s_attr := 0; s_link := [104]; s_linkp := [105; 59; 100] |} in
  let a := {| c_g := [97]; c_w := 0; c_mw := 1; c_st := st; c_sixel := false |} in
  let s0 := vinit term_caps 2 3 in
  let s1 := fold_left apply_op [OSet 0 0 a] s0 in
  grid_ok tw tw term_caps (v_next s1) = true /\ wire_ok s1 = false /\
  toks_okb tw (term_unknown 2 3) (snd (do_frame s0 [OSet 0 0 a] FRender)) = false.
Proof. vm_compute. repeat split. Qed.

(* the hypotheses on the start states are satisfiable: the emulator after New(), the first
   resize and Vaxis' start-up sequence that hides the cursor, against a reference terminal
   about which nothing is known *)
Example C12_start_example :
  let t0 := T.set_md (TermRefine5.start_state 3 2) (T.md_tcem T.modes0 false) in
  let r0 := term_unknown 2 3 in
  TermProofs.WFs0 0 3 2 t0 /\ vaxis_modes t0 = true /\ emu_rel t0 r0.
Proof.
  cbv zeta. split; [|split].
  - apply TermProofs.WFs_set_md. destruct (TermRefine5.start_inv 3 2) as [[W _ _ _ _ _ _ _ _ _] _]; try lia. exact W.
  - reflexivity.
  - apply mkEmuRel.
    + reflexivity.
    + reflexivity.
    + intros row col c _. exact I.
    + reflexivity.
    + left. repeat split; cbn; lia.
    + repeat split; cbn; lia.
    + reflexivity.
    + reflexivity.
Qed.

(* and frames run end to end on the emulator model, from bytes: a history with a wide cell,
   colours, attributes, a hyperlink, a cursor, a size change (shrinking below the cursor) and
   the repaint after it: the tokens satisfy the side condition [toks_ok] (in its decidable
   form), the oracle hypothesis holds of every frame, and the emulator model fed the bytes ends
   every frame with a grid and cursor that satisfy the predicate evaluated on the real emulator *)
Example C12_model_example :
  let st := {| s_fg := index_color 3; s_bg := rgb_color 1 2 3; s_ul := 0; s_uls := 3; s_attr := 6;
               s_link := [104]; s_linkp := [105; 100] |} in
  let wide := {| c_g := [28450]; c_w := 0; c_mw := 2; c_st := st; c_sixel := false |} in
  let a := {| c_g := [97]; c_w := 0; c_mw := 1; c_st := style0; c_sixel := false |} in
  let fr ops e := {| ef_ops := ops; ef_end := e; ef_toks := []; ef_grid := []; ef_cur := (0, 0, false, 0);
                     ef_host := []; ef_hostcur := (0, 0, false, 0) |} in
  let c := {| e_rows := 2; e_cols := 3; e_widths := [([97], 1); ([28450], 2); ([], 0)];
              e_segs := [([28450], [([28450], 2)]); ([97], [([97], 1)]); ([32], [([32], 1)]);
                         ([32; 32; 32], [([32], 1); ([32], 1); ([32], 1)]); ([97; 32], [([97], 1); ([32], 1)]);
                         ([97; 32; 97], [([97], 1); ([32], 1); ([97], 1)]);
                         ([97; 32; 32; 32], [([97], 1); ([32], 1); ([32], 1); ([32], 1)])];
              e_caps := []; e_pre := [];
              e_frames := [fr [OSet 0 0 wide; OSet 2 0 a; OShowCursor 1 1 4] FRender;
                           fr [OSet 0 0 a; OSet 1 1 wide] FRender; fr [] FRefresh;
                           fr [] (FResize 1 4); fr [OSet 0 0 a] FRender] |} in
  c12_side_holds c = true /\ c12_model_holds c = true.
Proof. vm_compute. split; reflexivity. Qed.

(* non-vacuity of the executable predicate used on the real emulator: a screen with a wide
   cell, as an emulator that keeps a blank under the right half would hold it *)
Example C12_example :
  let wide := {| c_g := [28450]; c_w := 0; c_mw := 2; c_st := style0; c_sixel := false |} in
  let a := {| c_g := [97]; c_w := 0; c_mw := 1; c_st := style0; c_sixel := false |} in
  grid_shows term_caps [[wide; cell0; a]] [[([28450], 2, style0); ([32], 1, style0); ([97], 1, style0)]] = true.
Proof. vm_compute. reflexivity. Qed.
