(* C19 - lists and pagers: selection always valid and visible, content complete.
   Statements only; proofs live in proofs/ListsProofs.v.  The models (model/Lists.v) mirror
   /repo after the C19 fixes; the differential run compares them with the implementation.

   Vocabulary.  Dynamic (vxfw/list): [hs] = the item heights the BuilderFunc oracle answers
   (Builder(i) is nil iff i is not an index of hs); cursor and top are Go uint (u64 wrap explicit in
   the model); a [child] is a SubSurface of the surface returned by Draw (item index, origin row,
   origin column, height).
   [wf_items gap hs] : heights are >= 0, gap >= 0, the total height with the gaps fits a uint16
                    (< 65536, as the widget's own totalHeight), fewer than 2^64 items.
   [wf_state st]  : cursor and top are uint values (0 <= . < 2^64) - true of every Go state.
   [wf_op]        : SetCursor arguments are uint values, replacement item lists are wf_items,
                    draw constraints are bounded (not math.MaxUint16: Draw panics by contract). *)
From Vx Require Import base.Prelude base.ListX model.Lists proofs.ListsProofs.

(* ------------------------------------------------------------------------------------------ *)
(* list_total                                                                                  *)
(* ------------------------------------------------------------------------------------------ *)

(* Dynamic.Draw returns for every gap, cursor flag, item list (any count, any heights, even
   ill-formed ones), every state (any cursor/top/offset/pending, reachable or not) and every
   bounded viewport: no child index is out of range. *)
Theorem C19_dyn_draw_total : forall gap dc hs W H st,
  W <> 65535 -> H <> 65535 -> exists cs st', draw gap dc hs W H st = Ok (cs, st').
Proof. exact draw_total. Qed.
Print Assumptions C19_dyn_draw_total.

(* ... hence no sequence of next/prev/set-cursor/wheel/pending-scroll/item-replacement/draw
   operations panics: the model's trace has one entry per operation, all with outcome 0. *)
Theorem C19_dyn_run_total : forall gap dc ops hs st,
  Forall bounded_draw ops ->
  length (dyn_run gap dc hs st ops) = length ops /\
  Forall (fun x : dop * dobs => fst (fst (snd x)) = 0) (dyn_run gap dc hs st ops).
Proof. exact dyn_run_total. Qed.
Print Assumptions C19_dyn_run_total.

(* widgets/list.List: from any state with a valid index, every method and Draw (any window size,
   also empty or negative; PageUp with a non-negative page height) returns, and leaves
   0 <= index < n (index = 0 for the empty list) and offset >= 0; after Draw into a window of
   positive height the selected row is inside the window (offset <= index < offset + height), every
   row r shows item offset+r cut to the width, and exactly the selected row is reversed. *)
Theorem C19_wlist_step_total_valid_visible : forall items st op,
  l_wf (zlen items) st -> lop_wf op ->
  exists items' st' rows, lstep items st op = Ok (items', st', rows) /\ l_wf (zlen items') st' /\
    match op with
    | LDraw w h => wl_draw_obs_ok items w h (l_index st') (l_offset st') rows = true
    | _ => True
    end.
Proof. exact lstep_ok. Qed.
Print Assumptions C19_wlist_step_total_valid_visible.

(* ------------------------------------------------------------------------------------------ *)
(* index_valid (Dynamic)                                                                       *)
(* ------------------------------------------------------------------------------------------ *)

(* next/prev (method or key event), wheel events, pending scroll and Draw keep a valid cursor valid
   (cursor < n, or cursor = 0 when n = 0); SetCursor stores its argument, item replacement leaves
   the cursor alone (both are the application's responsibility).  [index_step_ok] says exactly this. *)
Theorem C19_dyn_index_valid : forall gap dc hs st op hs' st' cs,
  wf_items gap hs -> wf_state st ->
  dstep gap dc hs st op = Ok (hs', st', cs) -> index_step_ok op hs st st' = true.
Proof. exact dstep_index. Qed.
Print Assumptions C19_dyn_index_valid.

(* ------------------------------------------------------------------------------------------ *)
(* children_contiguous                                                                         *)
(* ------------------------------------------------------------------------------------------ *)

(* Every Draw, from every state: the children are the items with consecutive indices (heights as
   the oracle gives them), each child starts exactly where the previous one ends plus the gap
   (also the children inserted above the old top item on an upward scroll), nothing overlaps;
   the gutter column goes to the cursored child only; the recorded top/offset point at the child
   that is - itself or with the gap below it - on row 0; and the first child starts at or above
   row 0 (no blank rows above the list). *)
Theorem C19_dyn_children_contiguous : forall gap dc hs W H st cs st',
  wf_items gap hs -> wf_state st -> draw gap dc hs W H st = Ok (cs, st') ->
  heights_ok hs cs = true /\ consecutive cs = true /\ spacing gap cs = true /\
  no_overlap cs = true /\
  cols_ok dc (d_cur st) cs = true /\
  anchor_ok gap st' cs = true /\
  hd_row_le0 cs.
Proof.
  intros gap dc hs W H st cs st' Hw Hs E.
  destruct (draw_props _ _ _ _ _ _ _ _ Hw Hs E) as ((G1 & G2 & G3) & C & _ & _ & _ & A & R).
  destruct Hw as (_ & Hg & _). repeat split; auto. eapply spacing_no_overlap; eauto.
Qed.
Print Assumptions C19_dyn_children_contiguous.

(* Scroll position kept (what makes an idle redraw start from the same place): every Draw
   re-anchors top/offset at a child on row 0 ... unless everything it drew ends above row 0 (the
   pending scroll went past the last item; finding class scroll-past-end, guarded in
   [dyn_case_ok_guarded]): then top/offset keep their old values and the next redraw jumps back. *)
Theorem C19_dyn_scroll_kept_partial : forall gap dc hs W H st cs st',
  wf_items gap hs -> wf_state st -> draw gap dc hs W H st = Ok (cs, st') ->
  scroll_kept gap cs || past_end gap cs = true.
Proof. exact draw_scroll_kept_or_past_end. Qed.
Print Assumptions C19_dyn_scroll_kept_partial.

(* the unguarded statement is refuted: three items of height 1 in a viewport of 5 rows, one
   wheel-down: the items are drawn on rows -3..-1, nothing is on row 0, top/offset stay 0/0 *)
Theorem C19_dyn_scroll_kept_refuted :
  exists gap dc hs ops,
    wf_items gap hs /\ Forall (wf_op gap) ops /\
    dyn_case_ok (gap, dc, hs, dyn_run gap dc hs d_init ops) = false /\
    dyn_case_ok_guarded (gap, dc, hs, dyn_run gap dc hs d_init ops) = true /\
    last_opt (dyn_run gap dc hs d_init ops) =
      Some (DDraw 4 5, (0, (0, 0, 0, 0, false), [(0, -3, 0, 1); (1, -2, 0, 1); (2, -1, 0, 1)])).
Proof.
  exists 0, false, [1; 1; 1], [DDraw 4 5; DWheelDown; DDraw 4 5].
  split; [split; [repeat constructor; lia|split; [lia|split; vm_compute; reflexivity]]|].
  split; [repeat constructor; discriminate|].
  split; [vm_compute; reflexivity|]. split; vm_compute; reflexivity.
Qed.
Print Assumptions C19_dyn_scroll_kept_refuted.

(* ------------------------------------------------------------------------------------------ *)
(* cursor_visible_after_draw                                                                   *)
(* ------------------------------------------------------------------------------------------ *)

(* After a selection change (SetCursor, or a next/prev that moved the cursor) followed by a Draw
   with no scroll pending, the cursored item is among the children and inside the viewport: fully
   if it fits (0 <= row, row + height <= H), otherwise it intersects it.  Preconditions on the
   state before the draw: the cursor is an item, the scroll offset lies inside the top item
   ([ioff]: 0 <= offset, and offset < height(top) + gap unless 0 - what every Draw establishes
   when it finds a child on row 0) and a viewport of positive height. *)
Theorem C19_dyn_cursor_visible_after_draw : forall gap dc hs st op hs1 st1 cs1 W H cs st2,
  wf_items gap hs -> wf_state st -> wf_op gap op ->
  dstep gap dc hs st op = Ok (hs1, st1, cs1) -> is_select op st st1 = true ->
  0 < H -> d_pend st1 = 0 -> ioff gap hs1 st1 = true -> d_cur st1 < zlen hs1 ->
  draw gap dc hs1 W H st1 = Ok (cs, st2) ->
  cursor_visible H (d_cur st1) cs = true.
Proof.
  intros gap dc hs st op hs1 st1 cs1 W H cs st2 Hw Hs Hop E Hsel HH Hp Hio Hc Ed.
  destruct (dstep_wf _ _ _ _ _ _ _ _ Hw Hs Hop E) as [Hw1 Hs1].
  eapply draw_cursor_visible with (W := W) (gap := gap) (dc := dc) (hs := hs1) (st' := st2); eauto.
  eapply dstep_select; eauto.
Qed.
Print Assumptions C19_dyn_cursor_visible_after_draw.

(* The precondition [ioff] is what a Draw leaves behind whenever one of its children is on row 0
   (then top/offset are re-anchored at that child). *)
Theorem C19_dyn_draw_establishes_ioff : forall gap dc hs W H st cs st',
  wf_items gap hs -> wf_state st -> draw gap dc hs W H st = Ok (cs, st') ->
  (exists c, In c cs /\ covers0 gap c = true) -> ioff gap hs st' = true.
Proof. exact draw_establishes_ioff. Qed.
Print Assumptions C19_dyn_draw_establishes_ioff.

(* ------------------------------------------------------------------------------------------ *)
(* all of the above along operation sequences: the model never violates the trace predicate     *)
(* that the differential run evaluates on the implementation's observations                    *)
(* ------------------------------------------------------------------------------------------ *)

Theorem C19_dyn_trace_ok : forall gap dc hs ops,
  wf_items gap hs -> Forall (wf_op gap) ops ->
  dyn_case_ok_guarded (gap, dc, hs, dyn_run gap dc hs d_init ops) = true.
Proof.
  intros gap dc hs ops Hw Ho. unfold dyn_case_ok_guarded.
  pose proof Hw as (_ & Hg & _). replace (0 <=? gap) with true by lia. simpl.
  apply dyn_trace_model_ok; auto; [split; simpl; lia|discriminate].
Qed.
Print Assumptions C19_dyn_trace_ok.

Theorem C19_wlist_trace_ok : forall items ops,
  Forall lop_wf ops -> wl_case_ok (items, wl_run items l_init ops) = true.
Proof.
  intros items ops Ho. unfold wl_case_ok. apply wl_trace_model_ok; auto.
  split; [|simpl; lia]. unfold valid_index. simpl. pose proof (zlen_nonneg items). lia.
Qed.
Print Assumptions C19_wlist_trace_ok.

(* ------------------------------------------------------------------------------------------ *)
(* pager_complete, wrapping, pager_offset_clamped                                              *)
(* ------------------------------------------------------------------------------------------ *)

(* For every width (also 0 or negative) and every text: the laid-out lines, concatenated, are the
   characters of the text without the newline characters - a last line without terminator included. *)
Theorem C19_pager_complete : forall w cs, concat (layout w cs) = filter not_nl cs.
Proof. exact layout_complete. Qed.
Print Assumptions C19_pager_complete.

(* "presents every line of its text": for every width (also 0 or negative) and every text the rows
   split into consecutive non-empty groups, one group per logical line of the text in order
   ([logical_lines]: the runs between newline characters - "\n" or a "\r\n" cluster -, the run after
   the last newline only when it is not empty), the rows of a group concatenated are the line - so
   an empty line has an empty row of its own, also right after a row that was flushed exactly at
   the width -, and only empty rows follow the last group.  [presents] is the decision procedure
   the differential run evaluates on the implementation's rows (part of [lines_ok]); it is sound
   for the declarative [presented].  (Completeness of [presents] for [presented] is not proved; it
   is not needed: the model itself satisfies [presents].) *)
Theorem C19_pager_presents_every_line : forall w cs,
  presents cs (layout w cs) = true /\ presented cs (layout w cs).
Proof. intros w cs. split; [apply layout_presents|apply layout_presented]. Qed.
Print Assumptions C19_pager_presents_every_line.

Theorem C19_pager_presents_sound : forall rows cs, presents cs rows = true -> presented cs rows.
Proof. exact presents_sound. Qed.
Print Assumptions C19_pager_presents_sound.

(* ... no line contains a newline, and a line is broken as soon as it reaches the width: everything
   but its last character is narrower than the width (character widths >= 0).  [lines_ok] now also
   contains [presents cs lines]. *)
Theorem C19_pager_lines_ok : forall w cs, wf_chars cs -> lines_ok w cs (layout w cs) = true.
Proof. exact layout_lines_ok. Qed.
Print Assumptions C19_pager_lines_ok.

(* Draw clamps the scroll offset to the content: Offset' = max 0 (min Offset (lines - h)); so
   0 <= Offset' <= max 0 (lines - h) for h >= 0, and every line index can be brought into a window
   of height >= 1 by assigning it to Offset. *)
Theorem C19_pager_offset_clamped : forall w h st,
  let st' := snd (p_draw w h st) in
  p_offset st' = Z.max 0 (Z.min (p_offset st) (zlen (p_lines st') - h)) /\
  (0 <= h -> 0 <= p_offset st' <= Z.max 0 (zlen (p_lines st') - h)) /\
  (forall j, 1 <= h -> 0 <= j < zlen (p_lines st') -> p_offset st = j ->
             p_offset st' <= j < p_offset st' + h).
Proof.
  intros w h st. unfold p_draw.
  destruct (if w =? p_width st then (p_lines st, p_width st) else (layout w (p_chars st), w)) as [lines width].
  cbn [snd p_offset p_lines]. split; [apply p_clamp_spec|]. split.
  - intros Hh. apply p_clamp_range; [exact Hh|apply zlen_nonneg].
  - intros j Hh Hj ->. apply p_clamp_reach; assumption.
Qed.
Print Assumptions C19_pager_offset_clamped.

Theorem C19_pager_trace_ok : forall cs ops,
  wf_chars cs -> Forall pop_wf ops -> pager_case_ok (cs, p_run (p_init cs) ops) = true.
Proof. exact pager_trace_model_ok. Qed.
Print Assumptions C19_pager_trace_ok.

(* scrollbar: for 1 <= view < total, 0 <= top <= total - view and a window of at least 1x1 the bar is
   a non-empty contiguous run of rows inside the window starting at row floor(top*h/total). *)
Theorem C19_sbar_ok : forall total view top w h,
  sb_case_ok ((total, view, top, w, h), sb_rows total view top w h) = true.
Proof. exact sb_model_ok. Qed.
Print Assumptions C19_sbar_ok.

(* ------------------------------------------------------------------------------------------ *)
(* non-vacuity                                                                                 *)
(* ------------------------------------------------------------------------------------------ *)

Example C19_wf_example :
  wf_items 1 [3; 1; 2; 4; 1; 1; 3; 2] /\ wf_state d_init /\
  Forall (wf_op 1) [DDraw 4 5; DNext; DSetCursor 6; DWheelDown; DSetItems [1; 1]; DDraw 4 5].
Proof.
  split; [split; [repeat constructor; lia|split; [lia|split; vm_compute; reflexivity]]|].
  split; [split; simpl; lia|].
  repeat constructor; try discriminate; try (simpl; lia).
Qed.

(* the hypotheses of cursor_visible are met by a real run: SetCursor 6 scrolls item 6 (height 3)
   to the bottom of a 5-row viewport *)
Example C19_visible_example :
  let hs := [3; 1; 2; 4; 1; 1; 3; 2] in
  let st1 := set_cursor d_init 6 in
  is_select (DSetCursor 6) d_init st1 = true /\ d_pend st1 = 0 /\ ioff 0 hs st1 = true /\
  d_cur st1 < zlen hs /\
  exists cs st2, draw 0 true hs 4 5 st1 = Ok (cs, st2) /\
                 In (mkC 6 2 0 3) cs /\ cursor_visible 5 6 cs = true.
Proof.
  cbv zeta. split; [reflexivity|]. split; [reflexivity|]. split; [reflexivity|]. split; [reflexivity|].
  eexists _, _. split; [vm_compute; reflexivity|]. split; [|vm_compute; reflexivity].
  simpl. tauto.
Qed.

(* the empty widgets/list that used to panic: End on an empty list, then Draw *)
Example C19_wlist_empty_example :
  l_wf (zlen (@nil text)) l_init /\
  map snd (wl_run [] l_init [LEnd; LDraw 3 3; LDown; LPageDown 3; LDraw 3 0]) =
  [(0, (0, 0), []); (0, (0, 0), [([], false); ([], false); ([], false)]); (0, (0, 0), []);
   (0, (0, 0), []); (0, (0, 0), [])].
Proof. split; [split; [reflexivity|simpl; lia]|vm_compute; reflexivity]. Qed.

(* the unterminated last line that used to be dropped: "ab\ncd" at width 4 *)
Example C19_pager_example :
  wf_chars [([97], 1); ([98], 1); ([10], 0); ([99], 1); ([100], 1)] /\
  layout 4 [([97], 1); ([98], 1); ([10], 0); ([99], 1); ([100], 1)] =
  [[([97], 1); ([98], 1)]; [([99], 1); ([100], 1)]].
Proof. split; [repeat constructor; simpl; lia|reflexivity]. Qed.

(* blank lines after a row that ends exactly at the width: "abc\n\nxyz" at width 3 has the logical
   lines abc, "", xyz; Layout gives abc, "", "", xyz (one empty row more than needed, accepted);
   without the row of the empty line (abc, xyz) the predicate fails, and so it does when the
   newline that follows the full row gets no row and the text ends there ("abc\n\n" as abc only) *)
Example C19_pager_blank_after_full_row_example :
  let a := ([97], 1) in let b := ([98], 1) in let c := ([99], 1) in let nl := ([10], 0) in
  let x := ([120], 1) in
  logical_lines [a; b; c; nl; nl; x; x; x] = [[a; b; c]; []; [x; x; x]] /\
  layout 3 [a; b; c; nl; nl; x; x; x] = [[a; b; c]; []; []; [x; x; x]] /\
  presents [a; b; c; nl; nl; x; x; x] [[a; b; c]; [x; x; x]] = false /\
  presents [a; b; c; nl; nl] [[a; b; c]] = false /\
  presents [a; b; c; nl; nl] [[a; b; c]; []] = true /\
  logical_lines [a; b; ([13; 10], 0); c] = [[a; b]; [c]].
Proof. cbv zeta. repeat split; reflexivity. Qed.

Example C19_sbar_example : sb_rows 40 10 15 1 8 = [3; 4].
Proof. reflexivity. Qed.
