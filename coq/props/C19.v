(* C19 - lists and pagers: selection always valid and visible, content complete.
   Statements only; proofs live in proofs/ListsProofs.v. *)
From Vx Require Import base.Prelude base.ListX model.Lists proofs.ListsProofs.

(* list_total, Dynamic: for every gap, cursor flag, item list (any count, any heights), state and
   bounded viewport, Draw returns (no index goes out of range). *)
Theorem C19_dyn_draw_total : forall gap dc hs W H st,
  W <> 65535 -> H <> 65535 -> exists cs st', draw gap dc hs W H st = Ok (cs, st').
Proof. exact draw_total. Qed.
Print Assumptions C19_dyn_draw_total.
