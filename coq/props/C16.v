(* C16 — soft-wrapping preserves the text and respects the width.
   Statements only; proofs live in proofs/SoftwrapProofs.v.

   Vocabulary (model/Softwrap.v, proofs/SoftwrapProofs.v):
   - a text is a list of cells = grapheme clusters with width (and style for rich text);
   - plain_scan orc W input / rich_scan pairbrk pairmust W input: the lines emitted by the loop
     `for scanner.Scan() {...}` of vxfw/text resp. vxfw/richtext, each paired with len(rest)
     after that Scan, and the outcome (Done / Hang / Miss);  cuts_of N lines = the numbers of cells
     consumed after each Scan;
   - orc i st = uniseg.FirstLineSegment(suffix at cluster i, state st) as (length, mustBreak, state),
     pairbrk a b = "FirstLineSegmentInString(a+b,-1) leaves a rest", pairmust a b = its mustBreak
     flag: arbitrary functions (oracles);
   - text_ok input W: 0 <= W < 65536, widths >= 0, total width < 65536 (the code adds in uint16;
     C16_width_bound_needed shows the bound cannot be dropped);
   - B: break opportunities, Hd: mandatory breaks, as positions in the text.
   Whitespace is unicode.IsSpace of the last rune of a cell; a trailing line break is
   uniseg.HasTrailingLineBreak (LF and CR in the pinned uniseg). *)
From Vx Require Import base.Prelude model.Softwrap proofs.SoftwrapProofs.

(* ---------------- termination ---------------- *)

(* text.SoftwrapScanner: for every text, width and oracle that reports a must-break for the
   segment reaching the end of the text (uniseg: LB3), neither the loop inside Scan nor the loop
   calling Scan runs out of fuel (fuel = remaining clusters + 1). No bound on widths is needed. *)
Theorem C16_plain_scan_terminates :
  forall (orc : Z -> Z -> option (Z * bool * Z)) (is_space hasbreak : cell -> bool)
         (residue : cell -> list cell) (W : Z) (input : list cell),
    orc_end_ok (length input) orc -> 0 <= W ->
    snd (run Z (plain_segf (length input) orc) plain_reset is_space hasbreak residue W input (-1)) <> Hang.
Proof. intros; apply plain_terminates; auto. Qed.
Print Assumptions C16_plain_scan_terminates.

(* richtext.SoftwrapScanner over firstLineSegment: no hypothesis on the pairwise oracle at all *)
Theorem C16_rich_scan_terminates :
  forall (pairbrk : cell -> cell -> option bool) (pairmust : cell -> cell -> bool)
         (is_space hasbreak : cell -> bool) (residue : cell -> list cell) (W : Z) (input : list cell),
    0 <= W ->
    snd (run unit (rich_segf hasbreak pairbrk pairmust) (fun s => s) is_space hasbreak residue W input tt) <> Hang.
Proof. intros; apply rich_terminates; auto. Qed.
Print Assumptions C16_rich_scan_terminates.

(* with an oracle that answers every query in range the scan ends regularly (Done) *)
Theorem C16_plain_scan_done :
  forall orc input W, orc_end_ok (length input) orc -> text_ok input W -> orc_total orc input ->
    snd (plain_scan orc W input) = Done.
Proof. intros; apply plain_done; auto. Qed.
Print Assumptions C16_plain_scan_done.

Theorem C16_rich_scan_done :
  forall pairbrk pairmust input W, text_ok input W -> (forall a b, pairbrk a b <> None) ->
    snd (rich_scan pairbrk pairmust W input) = Done.
Proof. intros; apply rich_done; auto. Qed.
Print Assumptions C16_rich_scan_done.

(* ---------------- line_fits ---------------- *)
(* every emitted line, ignoring trailing whitespace, is at most W columns wide, unless what
   remains is a single grapheme *)
Theorem C16_plain_line_fits :
  forall orc input W lines o,
    orc_end_ok (length input) orc -> text_ok input W -> forallb plain_cell_ok input = true ->
    plain_scan orc W input = (lines, o) ->
    forall l r, In (l, r) lines ->
      sumw (trim_right cell_is_space l) <= W \/ (length (trim_right cell_is_space l) <= 1)%nat.
Proof. intros orc input W lines o He Ht Hc H. exact (proj1 (plain_lines orc input W He Ht Hc lines o H)). Qed.
Print Assumptions C16_plain_line_fits.

Theorem C16_rich_line_fits :
  forall pairbrk pairmust input W lines o,
    text_ok input W -> rich_scan pairbrk pairmust W input = (lines, o) ->
    forall l r, In (l, r) lines ->
      sumw (trim_right cell_is_space l) <= W \/ (length (trim_right cell_is_space l) <= 1)%nat.
Proof. intros pairbrk pairmust input W lines o Ht H. exact (proj1 (rich_lines pairbrk pairmust input W Ht lines o H)). Qed.
Print Assumptions C16_rich_line_fits.

(* ---------------- conservation ---------------- *)
(* plain text (a string): the non-whitespace code points of the lines, concatenated, are those of
   the input in order (W = 0: Scan refuses and nothing is emitted, see C16_width0_emits_nothing) *)
Theorem C16_plain_conservation :
  forall orc input W lines,
    orc_end_ok (length input) orc -> text_ok input W -> forallb plain_cell_ok input = true ->
    plain_scan orc W input = (lines, Done) -> W <> 0 ->
    nonspace_runes (concat (map fst lines)) = nonspace_runes input.
Proof. intros orc input W lines He Ht Hc H HW. exact (proj2 (plain_lines orc input W He Ht Hc lines Done H) eq_refl HW). Qed.
Print Assumptions C16_plain_conservation.

(* rich text: the non-whitespace cells (grapheme, width and style) *)
Theorem C16_rich_conservation :
  forall pairbrk pairmust input W lines,
    text_ok input W -> rich_scan pairbrk pairmust W input = (lines, Done) -> W <> 0 ->
    nonspace cell_is_space (concat (map fst lines)) = nonspace cell_is_space input.
Proof. intros pairbrk pairmust input W lines Ht H HW. exact (proj2 (rich_lines pairbrk pairmust input W Ht lines Done H) eq_refl HW). Qed.
Print Assumptions C16_rich_conservation.

(* ---------------- no_needless_split ---------------- *)
(* If the answers of the oracle (in the states the scanner can be in: -1 anywhere, or threaded)
   agree with a set B of break opportunities, then a line never ends inside a segment [a,e)
   (between two neighbouring opportunities) unless the word of that segment is wider than W. *)
Theorem C16_plain_no_needless_split :
  forall orc input W B Hd lines o,
    orc_end_ok (length input) orc -> text_ok input W -> forallb plain_cell_ok input = true ->
    orc_consistent orc input B Hd ->
    (forall e, (e < length input)%nat -> Hd e = true -> B e = true) ->
    plain_scan orc W input = (lines, o) ->
    forall c, In c (cuts_of (length input) lines) -> c <> length input -> B c = false ->
    forall a e, (a < c < e)%nat -> (e <= length input)%nat ->
      (a = 0%nat \/ B a = true) -> (e = length input \/ B e = true) ->
      (forall q, (a < q < e)%nat -> B q = false) ->
      W < sumw (trim_right cell_is_space (sub input a e)).
Proof.
  intros orc input W B Hd lines o He Ht Hc Hcons HdB H.
  exact (proj1 (plain_cuts orc input W He Ht Hc B Hd Hcons HdB lines o H)).
Qed.
Print Assumptions C16_plain_no_needless_split.

(* for rich text the break opportunities are those firstLineSegment derives from the pairwise
   oracle (rich_B); no hypothesis is needed *)
Theorem C16_rich_no_needless_split :
  forall pairbrk pairmust input W lines o,
    text_ok input W -> rich_scan pairbrk pairmust W input = (lines, o) ->
    let B := rich_B cell_hasbreak pairbrk input in
    forall c, In c (cuts_of (length input) lines) -> c <> length input -> B c = false ->
    forall a e, (a < c < e)%nat -> (e <= length input)%nat ->
      (a = 0%nat \/ B a = true) -> (e = length input \/ B e = true) ->
      (forall q, (a < q < e)%nat -> B q = false) ->
      W < sumw (trim_right cell_is_space (sub input a e)).
Proof. intros pairbrk pairmust input W lines o Ht H. exact (proj1 (rich_cuts pairbrk pairmust input W Ht lines o H)). Qed.
Print Assumptions C16_rich_no_needless_split.

(* ---------------- hard_break_ends_line ---------------- *)
(* every position after which the text must break (Hd) is the end of a Scan: the current line ends
   there and the next line starts after it *)
Theorem C16_plain_hard_break_ends_line :
  forall orc input W B Hd lines,
    orc_end_ok (length input) orc -> text_ok input W -> forallb plain_cell_ok input = true ->
    orc_consistent orc input B Hd ->
    (forall e, (e < length input)%nat -> Hd e = true -> B e = true) ->
    plain_scan orc W input = (lines, Done) -> W <> 0 ->
    forall e, (0 < e <= length input)%nat -> Hd e = true -> In e (cuts_of (length input) lines).
Proof.
  intros orc input W B Hd lines He Ht Hc Hcons HdB H HW.
  exact (proj2 (plain_cuts orc input W He Ht Hc B Hd Hcons HdB lines Done H) eq_refl HW).
Qed.
Print Assumptions C16_plain_hard_break_ends_line.

(* rich text: after every cell that ends with a line break (LF, CR), and at every break of a
   neighbouring pair that uniseg reports as mandatory (VT, FF, NEL, LS, PS): rich_Hd *)
Theorem C16_rich_hard_break_ends_line :
  forall pairbrk pairmust input W lines,
    text_ok input W -> rich_scan pairbrk pairmust W input = (lines, Done) -> W <> 0 ->
    forall e, (0 < e <= length input)%nat -> rich_Hd cell_hasbreak pairbrk pairmust input e = true ->
      In e (cuts_of (length input) lines).
Proof. intros pairbrk pairmust input W lines Ht H HW. exact (proj2 (rich_cuts pairbrk pairmust input W Ht lines Done H) eq_refl HW). Qed.
Print Assumptions C16_rich_hard_break_ends_line.

(* ---------------- the model satisfies the predicate the harness evaluates on observations ---------------- *)
Theorem C16_plain_observation_ok :
  forall orc input B Hd W lines,
    orc_end_ok (length input) orc -> 0 <= W < 65536 -> wok input -> sumw input < 65536 ->
    forallb plain_cell_ok input = true -> orc_consistent orc input B Hd ->
    (forall e, (e < length input)%nat -> Hd e = true -> B e = true) ->
    plain_scan orc W input = (lines, Done) ->
    c16_ok_b cell_is_space same_runes B Hd W input lines = true.
Proof. intros; eapply plain_run_ok; eauto. Qed.
Print Assumptions C16_plain_observation_ok.

Theorem C16_rich_observation_ok :
  forall pairbrk pairmust input W lines,
    0 <= W < 65536 -> wok input -> sumw input < 65536 ->
    rich_scan pairbrk pairmust W input = (lines, Done) ->
    c16_ok_b cell_is_space (same_cells cell_is_space) (rich_B cell_hasbreak pairbrk input)
             (rich_Hd cell_hasbreak pairbrk pairmust input) W input lines = true.
Proof. intros; eapply rich_run_ok; eauto. Qed.
Print Assumptions C16_rich_observation_ok.

(* the hypotheses about the oracle are decidable on a table of its answers (the harness ships one
   per case; plain_hyps_b in model/Softwrap.v evaluates them) *)
Theorem C16_table_hypotheses :
  forall input B Hd tbl,
    (tbl_end_ok_b (length input) tbl = true -> orc_end_ok (length input) (tbl_orc tbl)) /\
    (tbl_consistent_b (length input) B Hd tbl = true -> orc_consistent (tbl_orc tbl) input B Hd).
Proof. intros; split; [apply tbl_end_ok|apply tbl_consistent]. Qed.
Print Assumptions C16_table_hypotheses.

(* ---------------- width 0, hard wrap, the uint16 bound ---------------- *)
Theorem C16_width0_emits_nothing :
  forall orc pairbrk pairmust input,
    plain_scan orc 0 input = ([], Done) /\ rich_scan pairbrk pairmust 0 input = ([], Done).
Proof. intros; split; apply run_width0. Qed.
Print Assumptions C16_width0_emits_nothing.

(* HardwrapScanner: no emitted line contains a newline cell and nothing but newline cells is lost *)
Theorem C16_hardwrap_lines :
  forall cells,
    Forall (fun l => filter (fun c => negb (is_newline c)) l = l) (hard_run cells) /\
    filter (fun c => negb (is_newline c)) (concat (hard_run cells)) = filter (fun c => negb (is_newline c)) cells.
Proof. exact hard_run_spec. Qed.
Print Assumptions C16_hardwrap_lines.

(* line_fits fails for a word whose columns add up to 65536: the bound in text_ok is needed *)
Theorem C16_width_bound_needed :
  wok wide_input /\ sumw wide_input = 65536 /\ orc_end_ok (length wide_input) wide_orc /\
  exists lines, plain_scan wide_orc 1 wide_input = (lines, Done) /\
                exists l r, In (l, r) lines /\ fits_b cell_is_space 1 l = false.
Proof. exact u16_bound_needed. Qed.
Print Assumptions C16_width_bound_needed.

(* ---------------- text_draws_lines ---------------- *)
(* Text.drawSoftwrap / RichText.drawSoftwrap on the emitted lines (as drawn characters; restyle =
   the widget's style for plain text, identity for rich text): no index panic, and the surface has
   min(#lines, Max.Height) rows, at most Max.Width columns, and in row i the cell at column c is the
   character of line i that starts at column c (the last one if a zero-width character shares the
   column), else the blank cell — surface_ok_b, the predicate the harness evaluates on the
   surfaces returned by the real Draw.  (surface_ok_b alone accepts a surface that is too narrow:
   the size clause and "nothing is dropped" are C16_text_draws_lines_sized / _full below; the
   harness evaluates surface_full_b.) *)
Theorem C16_text_draws_lines :
  forall (restyle : cell -> cell) (fill : Z) (lines : list (list cell)) (MaxW MaxH : Z),
    0 <= MaxW < 65536 -> 0 <= MaxH < 65536 -> zlen lines < 65536 ->
    Forall (fun l => wok l /\ sumw l < 65536) lines ->
    exists obs, draw_softwrap restyle fill lines MaxW MaxH = Some obs /\
                surface_ok_b restyle fill lines MaxW MaxH obs = true.
Proof. exact draw_softwrap_ok. Qed.
Print Assumptions C16_text_draws_lines.

(* The unguarded clause "the widgets draw exactly the emitted lines" (surface_exact_b: moreover
   every character of a shown line that starts inside the surface is in the cell at its column)
   holds outside the explicit guard of the recorded finding zero-width-overdraw ... *)
Theorem C16_text_draws_lines_exact :
  forall (restyle : cell -> cell) (fill : Z) (lines : list (list cell)) (MaxW MaxH : Z),
    0 <= MaxW < 65536 -> 0 <= MaxH < 65536 -> zlen lines < 65536 ->
    Forall (fun l => wok l /\ sumw l < 65536) lines ->
    has_zero_width lines = false ->
    exists obs, draw_softwrap restyle fill lines MaxW MaxH = Some obs /\
                surface_exact_b restyle fill lines MaxW MaxH obs = true.
Proof. exact draw_softwrap_exact. Qed.
Print Assumptions C16_text_draws_lines_exact.

(* ... and fails inside it: a zero-width grapheme (here ZWSP) followed by another grapheme is
   overwritten in its cell *)
Theorem C16_text_draws_lines_zero_width_refuted :
  let lines := [[mkCell [8203] 0 0; mkCell [97] 1 0]] in
  has_zero_width lines = true /\
  exists obs, draw_softwrap (fun c => c) 0 lines 5 5 = Some obs /\
              surface_ok_b (fun c => c) 0 lines 5 5 obs = true /\
              surface_exact_b (fun c => c) 0 lines 5 5 obs = false.
Proof. exact draw_zero_width_refuted. Qed.
Print Assumptions C16_text_draws_lines_zero_width_refuted.

(* ---------------- text_draws_lines: the size of the surface, nothing is dropped ---------------- *)
(* surface_sized_b = surface_ok_b and the width clause: the surface is exactly as wide as the widest
   of the lines it shows (the first H ones; a line below Max.Height is not counted), limited to
   Max.Width.  Holds of the model for every input, zero-width characters included: it is the part of
   the clause evaluated on an observation under the guard of zero-width-overdraw. *)
Theorem C16_text_draws_lines_sized :
  forall (restyle : cell -> cell) (fill : Z) (lines : list (list cell)) (MaxW MaxH : Z),
    0 <= MaxW < 65536 -> 0 <= MaxH < 65536 -> zlen lines < 65536 ->
    Forall (fun l => wok l /\ sumw l < 65536) lines ->
    exists obs, draw_softwrap restyle fill lines MaxW MaxH = Some obs /\
                surface_sized_b restyle fill lines MaxW MaxH obs = true.
Proof. exact draw_softwrap_sized. Qed.
Print Assumptions C16_text_draws_lines_sized.

(* findContainerSize in closed form, from any start (W0, H0): the height grows by the measured
   lines and the width is the maximum of W0 and the widths of exactly those lines, cut at Max.Width *)
Theorem C16_container_size_closed_form :
  forall MaxW MaxH lines W0 H0 W H,
    0 <= MaxW -> Forall (fun l => wok l /\ sumw l < 65536) lines ->
    0 <= H0 -> H0 + zlen lines < 65536 -> 0 <= W0 <= MaxW ->
    container_size lines MaxW MaxH W0 H0 = (W, H) ->
    H0 <= H /\ W = Z.min MaxW (Z.max W0 (max_width (firstn (Z.to_nat (H - H0)) lines))).
Proof. intros MaxW MaxH lines W0 H0 W H HM. exact (container_size_width MaxW MaxH HM lines W0 H0 W H). Qed.
Print Assumptions C16_container_size_closed_form.

(* The whole clause as the harness evaluates it on the surfaces returned by the real Draw
   (surface_full_b = surface_exact_b, the width clause, and drawn_b: every character of a shown line
   that starts left of Max.Width lies inside the surface, in the cell at its column): holds of the
   model outside the guard of zero-width-overdraw. *)
Theorem C16_text_draws_lines_full :
  forall (restyle : cell -> cell) (fill : Z) (lines : list (list cell)) (MaxW MaxH : Z),
    0 <= MaxW < 65536 -> 0 <= MaxH < 65536 -> zlen lines < 65536 ->
    Forall (fun l => wok l /\ sumw l < 65536) lines ->
    has_zero_width lines = false ->
    exists obs, draw_softwrap restyle fill lines MaxW MaxH = Some obs /\
                surface_full_b restyle fill lines MaxW MaxH obs = true.
Proof. exact draw_softwrap_full. Qed.
Print Assumptions C16_text_draws_lines_full.

(* On ANY observation (no model): exact cells up to the surface's width plus the right width imply
   that nothing is dropped (the drawn_b part of surface_full_b) ... *)
Theorem C16_right_width_drops_nothing :
  forall (restyle : cell -> cell) (fill : Z) (lines : list (list cell)) (MaxW MaxH : Z) obs,
    Forall (fun l => wok l) lines -> has_zero_width lines = false ->
    surface_exact_b restyle fill lines MaxW MaxH obs = true -> surface_width_b lines MaxW obs = true ->
    surface_full_b restyle fill lines MaxW MaxH obs = true.
Proof. exact surface_full_of_exact_width. Qed.
Print Assumptions C16_right_width_drops_nothing.

(* ... and the width clause cannot be left out: for the lines "a" / two wide characters, a surface
   one column wide passes surface_exact_b although the second wide character has no cell at all *)
Theorem C16_width_clause_needed :
  let lines := [[mkCell [97] 1 0]; [mkCell [28450] 2 0; mkCell [28450] 2 0]] in
  let narrow := (1, 2, [mkCell [97] 1 0; mkCell [28450] 2 0]) in
  has_zero_width lines = false /\
  surface_exact_b (fun c => c) 0 lines 10 10 narrow = true /\
  surface_full_b (fun c => c) 0 lines 10 10 narrow = false.
Proof. exact draw_width_clause_needed. Qed.
Print Assumptions C16_width_clause_needed.

(* ---------------- non-vacuity ---------------- *)
(* the hypotheses hold for uniseg's own tables of "x ab-cd" (break opportunities after "x " and
   "ab-") and of "foo\nbar" (mandatory break after the newline), at width 2 *)
Example C16_hypotheses_satisfiable :
  (orc_end_ok (length ex1_input) (tbl_orc ex1_tbl) /\ text_ok ex1_input 2 /\
   forallb plain_cell_ok ex1_input = true /\ orc_consistent (tbl_orc ex1_tbl) ex1_input ex1_B ex1_Hd /\
   (forall e, (e < length ex1_input)%nat -> ex1_Hd e = true -> ex1_B e = true)) /\
  (orc_end_ok (length ex2_input) (tbl_orc ex2_tbl) /\ text_ok ex2_input 2 /\
   forallb plain_cell_ok ex2_input = true /\ orc_consistent (tbl_orc ex2_tbl) ex2_input ex2_B ex2_Hd /\
   (forall e, (e < length ex2_input)%nat -> ex2_Hd e = true -> ex2_B e = true)).
Proof. exact ex_hyps. Qed.

(* and the model wraps them as the fixed implementation does: "x ","ab","-","cd" and
   "fo","o","ba","r" with the line of the hard break ending at position 4 *)
Example C16_examples_computed :
  map (fun x => flat (fst x)) (fst (plain_scan (tbl_orc ex1_tbl) 2 ex1_input)) = [[120; 32]; [97; 98]; [45]; [99; 100]] /\
  snd (plain_scan (tbl_orc ex1_tbl) 2 ex1_input) = Done /\
  map (fun x => flat (fst x)) (fst (plain_scan (tbl_orc ex2_tbl) 2 ex2_input)) = [[102; 111]; [111]; [98; 97]; [114]] /\
  cuts_of 7 (fst (plain_scan (tbl_orc ex2_tbl) 2 ex2_input)) = [2; 4; 6; 7]%nat.
Proof. exact ex_runs. Qed.

(* the hypotheses of the Draw theorems hold for the lines "a" / wide wide at Max 10 x 10, and the
   model's surface is 4 columns wide: the second line, with fewer graphemes than columns, sets the width *)
Example C16_draw_wide_example :
  let lines := [[mkCell [97] 1 0]; [mkCell [28450] 2 0; mkCell [28450] 2 0]] in
  Forall (fun l => wok l /\ sumw l < 65536) lines /\ has_zero_width lines = false /\
  draw_softwrap (fun c => c) 0 lines 10 10 =
  Some (4, 2, [mkCell [97] 1 0; mkCell [] 0 0; mkCell [] 0 0; mkCell [] 0 0;
               mkCell [28450] 2 0; mkCell [] 0 0; mkCell [28450] 2 0; mkCell [] 0 0]).
Proof.
  cbn zeta. split; [|split; reflexivity].
  repeat constructor; cbn; lia.
Qed.

(* drawing the two lines "ab" and "c" into a 3 x 5 box gives a 2 x 2 surface with rows ab / c· *)
Example C16_draw_example :
  draw_softwrap (plain_restyle 7) 7 [ex_cells [97; 98]; ex_cells [99]] 3 5 =
  Some (2, 2, [mkCell [97] 1 7; mkCell [98] 1 7; mkCell [99] 1 7; mkCell [] 0 7]).
Proof. reflexivity. Qed.
