(* C16 — soft-wrapping preserves the text and respects the width.
   Statements only; proofs live in proofs/SoftwrapProofs.v. *)
From Vx Require Import base.Prelude model.Softwrap proofs.SoftwrapProofs.

(* text.SoftwrapScanner: for every text, width and segment oracle that reports a must-break at
   the end of the text (uniseg: LB3), the loop of Scan and the loop calling Scan both stop
   (fuel = remaining clusters + 1 is never exhausted). *)
Theorem C16_plain_scan_terminates :
  forall (orc : Z -> Z -> option (Z * bool * Z)) (is_space hasbreak : cell -> bool)
         (residue : cell -> list cell) (W : Z) (input : list cell),
    orc_end_ok (length input) orc -> 0 <= W ->
    snd (run Z (plain_segf (length input) orc) plain_reset is_space hasbreak residue W input (-1)) <> Hang.
Proof. intros; apply plain_terminates; auto. Qed.
Print Assumptions C16_plain_scan_terminates.

(* richtext.SoftwrapScanner over firstLineSegment: no hypothesis on the pairwise oracle at all *)
Theorem C16_rich_scan_terminates :
  forall (pairbrk : cell -> cell -> option bool) (is_space hasbreak : cell -> bool)
         (residue : cell -> list cell) (W : Z) (input : list cell),
    0 <= W ->
    snd (run unit (rich_segf hasbreak pairbrk) (fun s => s) is_space hasbreak residue W input tt) <> Hang.
Proof. intros; apply rich_terminates; auto. Qed.
Print Assumptions C16_rich_scan_terminates.
