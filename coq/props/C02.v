(* C02 — the input parser conforms to the VT500 (Williams) state machine plus the
   library's documented extensions.  Statements only; proofs in proofs/Parser*.v.

   Model: model/Parser.v interprets the transition tables that /verif/gen translates
   from ansi/parser.go on every run (gen/GenParser.v).  Reference: model/Vt500Spec.v, a
   hand transcription of the Williams diagram with the extensions as explicit deltas. *)
From Vx Require Import base.Prelude model.ParserTypes gen.GenParser model.Parser model.Vt500Spec
  model.ParserCheck proofs.ParserTable proofs.ParserConform.

(* Every state function of parser.go, for EVERY rune (unbounded), performs the actions and
   reaches the state the reference machine prescribes; `anywhere` likewise. *)
Theorem C02_table_conforms : forall (s : pstate) (r : Z),
  table_trans_fn (state_fn s) r = Some (spec_trans s r) /\
  f_post (state_fn s) = spec_post s /\
  table_trans_fn fn_anywhere r = spec_anywhere r.
Proof. intros s r. exact (conj (state_table_conforms s r) (conj (state_post_conforms s) (anywhere_conforms r))). Qed.
Print Assumptions C02_table_conforms.

(* Hence, for every byte stream cut into segments by silences of any position, the model
   of the parser delivers exactly what the reference machine with lenient ST suppression
   delivers (item for item: intermediates, parameters, sub-parameters, finals, payloads). *)
Theorem C02_parser_is_reference : forall segs : list (list Z),
  parse_segments segs = spec_parse_segments false segs.
Proof. exact parse_segments_is_spec. Qed.
Print Assumptions C02_parser_is_reference.

(* The strict reference (an ST that ends a control string is never delivered) and the lenient
   one take different steps ONLY when ESC arrives in a string state that has not consumed
   a single body rune: the recorded finding "empty-string-st".  Everywhere else the parser
   is the strict reference. *)
Theorem C02_strict_except_empty_string : forall (p : pst) (r : Z),
  ~ (r = 27 /\ is_string_state (st p) = true /\ ignoreST p = false) ->
  spec_step true p r = step p r.
Proof. intros p r H. rewrite step_is_spec_step. exact (strict_differs_only_on_empty_string p r H). Qed.
Print Assumptions C02_strict_except_empty_string.

(* full-strength statement, false of the current code (finding empty-string-st): the witness
   ESC ] ESC \ delivers a spurious ESC \ after the empty OSC *)
Theorem C02_strict_refuted : exists segs, parse_segments segs <> spec_parse_segments true segs.
Proof. exists [[27; 93; 27; 92]]. vm_compute. discriminate. Qed.
Print Assumptions C02_strict_refuted.

(* non-vacuity: a stream exercising CSI with sub-parameters, OSC, DCS, UTF-8 and a raw byte,
   on which strict and lenient agree and the guard of the finding is false *)
Example C02_example :
  let s := [[97; 27; 91; 49; 59; 50; 58; 51; 72; 27; 93; 56; 59; 27; 92; 226; 130; 172; 255; 27; 80; 49; 36; 114; 120; 27; 92]] in
  empty_string_st s = false /\
  parse_segments s = [IPrint [97]; ICsi [] [[1]; [2; 3]] 72; IOsc [56; 59]; IPrint [8364; 255]; IDcs 114 [36] [1] [120]; IEof].
Proof. vm_compute. split; reflexivity. Qed.
