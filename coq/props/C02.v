(* C02 — the input parser conforms to the VT500 (Williams) state machine plus the
   library's documented extensions.  Statements only; proofs in proofs/Parser*.v.

   Model: model/Parser.v interprets the transition tables that /verif/gen translates
   from ansi/parser.go on every run (gen/GenParser.v).  Reference: model/Vt500Spec.v, a
   hand transcription of the Williams diagram with the extensions as explicit deltas. *)
From Vx Require Import base.Prelude model.ParserTypes gen.GenParser model.Parser model.Vt500Spec
  model.ParserCheck proofs.ParserTable proofs.ParserConform proofs.ParserSem.

(* Every state function of parser.go, for EVERY rune (unbounded), performs the actions and
   reaches the state the reference machine prescribes; `anywhere` likewise. *)
Theorem C02_table_conforms : forall (s : pstate) (r : Z),
  table_trans_fn (state_fn s) r = Some (spec_trans s r) /\
  f_post (state_fn s) = spec_post s /\
  table_trans_fn fn_anywhere r = spec_anywhere r.
Proof. intros s r. exact (conj (state_table_conforms s r) (conj (state_post_conforms s) (anywhere_conforms r))). Qed.
Print Assumptions C02_table_conforms.

(* Hence, for every byte stream cut into segments by silences of any position, the model
   of the parser delivers exactly what the reference machine with lenient ST suppression
   delivers (item for item: intermediates, parameters, sub-parameters, finals, payloads). *)
Theorem C02_parser_is_reference : forall segs : list (list Z),
  parse_segments segs = spec_parse_segments false segs.
Proof. exact parse_segments_is_spec. Qed.
Print Assumptions C02_parser_is_reference.

(* The strict reference (an ST that ends a control string is never delivered) and the lenient
   one take different steps ONLY when ESC arrives in a string state that has not consumed
   a single body rune: the recorded finding "empty-string-st".  Everywhere else the parser
   is the strict reference. *)
Theorem C02_strict_except_empty_string : forall (p : pst) (r : Z),
  ~ (r = 27 /\ is_string_state (st p) = true /\ ignoreST p = false) ->
  spec_step true p r = step p r.
Proof. intros p r H. rewrite step_is_spec_step. exact (strict_differs_only_on_empty_string p r H). Qed.
Print Assumptions C02_strict_except_empty_string.

(* full-strength statement, false of the current code (finding empty-string-st): the witness
   ESC ] ESC \ delivers a spurious ESC \ after the empty OSC *)
Theorem C02_strict_refuted : exists segs, parse_segments segs <> spec_parse_segments true segs.
Proof. exists [[27; 93; 27; 92]]. vm_compute. discriminate. Qed.
Print Assumptions C02_strict_refuted.

(* Sequence level, from ANY parser state p (mid-sequence, inside a string, ...), i.e. no state
   leaks into what follows: a complete control sequence ESC [ <private> <parameter bytes>
   <intermediates> <final> is delivered exactly once with exactly its marker, intermediates,
   parameters (decoded by csi_decode: ';' separates parameters, ':' sub-parameters, 64-bit
   accumulation) and final, preceded only by the delivery of a string it interrupted
   (esc_post), and the parser is back in ground. *)
Theorem C02_csi_delivered_exactly_once : forall p priv ps is f,
  (priv = [] \/ exists m, priv = [m] /\ 60 <= m <= 63) ->
  Forall (fun r => 48 <= r <= 59) ps -> Forall (fun r => 32 <= r <= 47) is -> 64 <= f <= 126 ->
  exists p', feed p ([27; 91] ++ priv ++ ps ++ is ++ [f]) =
               (p', snd (esc_post p) ++ [ICsi (priv ++ is) (csi_decode ps) f], true) /\ st p' = Ground.
Proof. exact csi_exact. Qed.
Print Assumptions C02_csi_delivered_exactly_once.

(* An OSC string with any payload of runes >= 0x20 (UTF-8 text included), BEL-terminated or
   ST-terminated (non-empty payload): exactly one OSC with exactly the payload, no ESC \ item,
   ground afterwards with ST suppression off. *)
Theorem C02_osc_bel_delivered_exactly_once : forall p pl,
  fresh_osc p -> Forall (fun r => 32 <= r) pl ->
  exists p', feed p ([27; 93] ++ pl ++ [7]) = (p', snd (esc_post p) ++ [IOsc pl], true) /\
             st p' = Ground /\ ignoreST p' = false.
Proof. exact osc_bel_exact. Qed.
Print Assumptions C02_osc_bel_delivered_exactly_once.

Theorem C02_osc_st_delivered_exactly_once : forall p pl,
  fresh_osc p -> Forall (fun r => 32 <= r) pl -> pl <> [] ->
  exists p', feed p ([27; 93] ++ pl ++ [27; 92]) = (p', snd (esc_post p) ++ [IOsc pl], true) /\
             st p' = Ground /\ ignoreST p' = false.
Proof. exact osc_st_exact. Qed.
Print Assumptions C02_osc_st_delivered_exactly_once.

(* Printable text in ground is delivered rune for rune: nothing lost, duplicated, reordered
   or altered (valid scalars and raw bytes alike: see decode1 for the byte level). *)
Theorem C02_text_conserved : forall rs p,
  st p = Ground -> Forall (fun r => 32 <= r) rs ->
  exists p', feed p rs = (p', map (fun r => IPrint [r]) rs, true) /\ (rs = [] \/ st p' = Ground).
Proof. exact text_conserved. Qed.
Print Assumptions C02_text_conserved.

(* non-vacuity: a stream exercising CSI with sub-parameters, OSC, DCS, UTF-8 and a raw byte,
   on which strict and lenient agree and the guard of the finding is false *)
Example C02_example :
  let s := [[97; 27; 91; 49; 59; 50; 58; 51; 72; 27; 93; 56; 59; 27; 92; 226; 130; 172; 255; 27; 80; 49; 36; 114; 120; 27; 92]] in
  empty_string_st s = false /\
  parse_segments s = [IPrint [97]; ICsi [] [[1]; [2; 3]] 72; IOsc [56; 59]; IPrint [8364; 255]; IDcs 114 [36] [1] [120]; IEof].
Proof. vm_compute. split; reflexivity. Qed.
