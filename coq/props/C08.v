(* C08 — parser lifecycle: always terminates cleanly; Escape key timing is exact.
   Statements only; proofs in proofs/ParserLife.v.  Same model as C02 (tables translated
   from ansi/parser.go on every run).  Time is abstracted to "segments": the bytes of one
   segment arrive promptly, consecutive segments are separated by silence longer than the
   escape timer (the real-time race between the timer body and the read loop is outside
   the model: partial, see DESIGN.md section 9). *)
From Vx Require Import base.Prelude model.ParserTypes gen.GenParser model.Parser model.Vt500Spec
  model.ParserCheck model.ParserOwnTypes gen.GenOwn model.ParserOwn
  proofs.ParserTable proofs.ParserConform proofs.ParserLife proofs.ParserOwnProofs.

(* For every input, every way it is cut by silences, ending at any point (the stream given
   IS the stream up to the point where the reader ended or failed): the parser delivers
   exactly one end-of-input marker, as its last item, and never calls a nil function.
   Termination of the run loop is the structural recursion of [feed] on the input. *)
Theorem C08_one_eof_last : forall segs : list (list Z),
  exists body, parse_segments segs = body ++ [IEof] /\
               Forall (fun i => is_eof i = false /\ is_panic i = false) body.
Proof. exact one_eof_last. Qed.
Print Assumptions C08_one_eof_last.

(* A lone ESC followed by silence, from ANY parser state (inside a CSI, a string, ...): the
   read loop reports no Escape key, the timer reports exactly one, and the parser is then in
   ground with ST suppression off and the timer off: the next byte is parsed from ground. *)
Theorem C08_lone_esc : forall p : pst,
  inv p ->
  let '(p1, o1, go) := feed p [27] in
  let '(p2, o2) := timer_fire p1 in
  go = true /\ Forall (fun i => plain i = true) o1 /\ o2 = [IC0 27] /\
  st p2 = Ground /\ ignoreST p2 = false /\ timer p2 = false.
Proof. exact lone_esc. Qed.
Print Assumptions C08_lone_esc.

(* An ESC promptly followed by further bytes is never reported as Escape: no run of the read
   loop, from any state and on any runes, delivers the Escape key ... *)
Theorem C08_prompt_esc_never_escape : forall (rs : list Z) (p : pst),
  inv p -> let '(p', o, go) := feed p rs in Forall (fun i => is_esc_key i = false) o.
Proof. exact prompt_esc. Qed.
Print Assumptions C08_prompt_esc_never_escape.

(* ... and the rune that follows the ESC disarms the timer, so later silence reports nothing *)
Theorem C08_prompt_esc_disarms : forall (p : pst) (r : Z),
  r <> 27 ->
  let '(p1, _, _) := step p 27 in
  let '(p2, _, _) := step p1 r in
  timer_fire p2 = (p2, []).
Proof. exact prompt_esc_disarms. Qed.
Print Assumptions C08_prompt_esc_disarms.

(* the invariant used as hypothesis holds initially and is kept by every step: every
   reachable state satisfies it *)
Theorem C08_inv_reachable : forall (rs : list Z),
  inv pinit /\ (let '(p', _, go) := feed pinit rs in go = true -> inv p').
Proof.
  intros rs. split; [exact inv_init|].
  pose proof (feed_plain rs pinit inv_init) as H. destruct (feed pinit rs) as [[p' o] go]. exact (proj1 H).
Qed.
Print Assumptions C08_inv_reachable.

(* A sequence already delivered is never modified by later parsing until the consumer hands it
   back.  Buffers are abstract ids held by the parser, the consumer or a sync.Pool; the
   per-function lists of ownership actions (alias into an outgoing sequence, emit, re-point
   the field to a fresh buffer / a pool buffer / a reslice of the same array, write) are
   TRANSLATED from ansi/parser.go on every run (gen/GenOwn.v).  For every sequence of function
   calls in any order, every choice sync.Pool.Get can make, and every moment at which the
   consumer gives buffers back (including never): no write targets a buffer the consumer
   holds. *)
Theorem C08_no_write_after_handoff : forall es : list oevent, orun oinit es = true.
Proof. exact (no_write_after_handoff own_all_ok). Qed.
Print Assumptions C08_no_write_after_handoff.

(* the discipline is needed: re-using the delivered array (p.oscData = p.oscData[:0] after the
   emit) is rejected, and then a write does hit a buffer the consumer holds *)
Example C08_reslice_after_emit_rejected :
  handoff_ok [OAlias KOsc; OEmit; OReplace KOsc Reslice] = false /\
  (let '(s1, _, _) := run_fn oinit [OAlias KOsc; OEmit; OReplace KOsc Reslice] [] in
   write_safe s1 (OWrite KOsc)) = false.
Proof. vm_compute. split; reflexivity. Qed.

Example C08_example :
  parse_segments [[27; 93; 97; 27]; [92; 120]] = [IOsc [97]; IC0 27; IPrint [92; 120]; IEof].
Proof. vm_compute. reflexivity. Qed.
