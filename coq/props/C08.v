(* C08 — parser lifecycle: always terminates cleanly; Escape key timing is exact.
   Statements only; proofs in proofs/ParserLife.v.  Same model as C02 (tables translated
   from ansi/parser.go on every run).  Time is abstracted to "segments": the bytes of one
   segment arrive promptly, consecutive segments are separated by silence longer than the
   escape timer.  The race between the timer's callback (a goroutine of its own, which
   time.Timer.Stop cannot stop once it has started) and the read loop is modelled separately
   (model/ParserRace.v): the callback of any timer armed so far may run at ANY later moment -
   after further runes were handled, after the end marker was sent and the channel closed - and
   the C08_race_* theorems below hold for every such schedule.  What stays outside: the
   value of the delay (10 ms is only translated), the Go scheduler and memory model. *)
From Vx Require Import base.Prelude model.ParserTypes gen.GenParser model.Parser model.Vt500Spec
  model.ParserCheck model.ParserOwnTypes gen.GenOwn model.ParserOwn model.ParserRace model.ParserRetain
  proofs.ParserTable proofs.ParserConform proofs.ParserLife proofs.ParserOwnProofs proofs.ParserRaceProofs
  proofs.ParserRetainProofs.

(* For every input, every way it is cut by silences, ending at any point (the stream given
   IS the stream up to the point where the reader ended or failed): the parser delivers
   exactly one end-of-input marker, as its last item, and never calls a nil function.
   Termination of the run loop is the structural recursion of [feed] on the input. *)
Theorem C08_one_eof_last : forall segs : list (list Z),
  exists body, parse_segments segs = body ++ [IEof] /\
               Forall (fun i => is_eof i = false /\ is_panic i = false) body.
Proof. exact one_eof_last. Qed.
Print Assumptions C08_one_eof_last.

(* A lone ESC followed by silence, from ANY parser state (inside a CSI, a string, ...): the
   read loop reports no Escape key, the timer reports exactly one, and the parser is then in
   ground with ST suppression off and the timer off: the next byte is parsed from ground. *)
Theorem C08_lone_esc : forall p : pst,
  inv p ->
  let '(p1, o1, go) := feed p [27] in
  let '(p2, o2) := timer_fire p1 in
  go = true /\ Forall (fun i => plain i = true) o1 /\ o2 = [IC0 27] /\
  st p2 = Ground /\ ignoreST p2 = false /\ timer p2 = false.
Proof. exact lone_esc. Qed.
Print Assumptions C08_lone_esc.

(* An ESC promptly followed by further bytes is never reported as Escape: no run of the read
   loop, from any state and on any runes, delivers the Escape key ... *)
Theorem C08_prompt_esc_never_escape : forall (rs : list Z) (p : pst),
  inv p -> let '(p', o, go) := feed p rs in Forall (fun i => is_esc_key i = false) o.
Proof. exact prompt_esc. Qed.
Print Assumptions C08_prompt_esc_never_escape.

(* ... and the rune that follows the ESC disarms the timer, so later silence reports nothing *)
Theorem C08_prompt_esc_disarms : forall (p : pst) (r : Z),
  r <> 27 ->
  let '(p1, _, _) := step p 27 in
  let '(p2, _, _) := step p1 r in
  timer_fire p2 = (p2, []).
Proof. exact prompt_esc_disarms. Qed.
Print Assumptions C08_prompt_esc_disarms.

(* the invariant used as hypothesis holds initially and is kept by every step: every
   reachable state satisfies it *)
Theorem C08_inv_reachable : forall (rs : list Z),
  inv pinit /\ (let '(p', _, go) := feed pinit rs in go = true -> inv p').
Proof.
  intros rs. split; [exact inv_init|].
  pose proof (feed_plain rs pinit inv_init) as H. destruct (feed pinit rs) as [[p' o] go]. exact (proj1 H).
Qed.
Print Assumptions C08_inv_reachable.

(* A sequence already delivered is never modified by later parsing until the consumer hands it
   back.  Buffers are abstract ARRAY ids; the parser's fields, the pooled locals of the function
   that is running, a sequence under construction, the consumer and a sync.Pool hold VIEWS of
   arrays (multisets: one array can be referenced twice; Finish puts one view into the pool, Get
   takes one view out).  The per-function lists of ownership actions (attach to the outgoing
   sequence, emit, re-point the field or local to a fresh buffer / a pool buffer / a reslice of
   the same array, write) are TRANSLATED from ansi/parser.go on every run (gen/GenOwn.v) - for
   the fields p.intermediate, p.oscData, p.apcData, p.dcs AND for the buffers taken from the pools
   into locals inside a function (csiDispatch: the parameter list and every parameter slice),
   PATH-SENSITIVELY: one list per control-flow path of each function from entry to a return
   ([own_paths]: both branches of every if, a return ends the path, one path per switch clause),
   with loops whose iterations perform ownership actions as loop segments ([own_lpaths]: any
   number of iterations, each along any path of the body - csiDispatch's loop over the parameter
   bytes), besides the coarse list that ignores conditions ([own_all]).  A call event
   [ECallLoop n p its] runs the n-th function along its p-th path with its loops iterating as
   [its] says, [ECallPath n p] the same with no iteration, [ECall n] the merged list; pooled
   locals die when the call returns.  For every sequence of calls in any order along any paths
   with any iteration counts, every choice sync.Pool.Get can make, and every moment at which the
   consumer gives views back - one at a time, so any PART of what it holds, in any order,
   including never: no write targets a buffer the consumer holds. *)
Theorem C08_no_write_after_handoff : forall es : list oevent, orun oinit es = true.
Proof. exact (no_write_after_handoff own_all_ok own_paths_ok own_lpaths_ok). Qed.
Print Assumptions C08_no_write_after_handoff.

(* the proof obligation that breaks when a path of a translated function hands a buffer over
   and returns before re-pointing the field (or writes after the hand-over): every path of every
   buffer-touching function follows the discipline, and the two renderings are consistent
   (every function has a path, every path is a subsequence of the function's merged list) *)
Theorem C08_every_path_hands_off :
  paths_ok own_paths = true /\ paths_within own_all own_paths = true /\
  (* ... and so does every looped path: each loop body keeps the scanner's state (a loop
     invariant), nothing is attached to a sequence twice; dropping the loops of own_lpaths gives
     exactly own_paths, every loop body is a subsequence of the function's merged list *)
  lpaths_ok own_lpaths = true /\ lpaths_within own_all own_paths own_lpaths = true.
Proof. split; [exact own_paths_ok|split; [exact own_paths_within|split; [exact own_lpaths_ok|exact own_lpaths_within]]]. Qed.
Print Assumptions C08_every_path_hands_off.

(* the loop rule is sound: a looped path accepted by the scanner is accepted in EVERY unrolling
   (every number of iterations, every choice of body per iteration) - for any looped path, not
   only the translated ones *)
Theorem C08_loop_invariant_sound : forall (lp : list oseg) (its : list (list nat)),
  lpath_ok lp = true -> handoff_scan (call_lacts lp its) [] [] = true.
Proof. intros lp its H. exact (lpath_ok_unroll lp its H). Qed.
Print Assumptions C08_loop_invariant_sound.

(* stated on states: after ANY event sequence none of the parser's current buffers is held by
   the consumer - whatever runs next writes into memory the consumer cannot see *)
Theorem C08_consumer_never_holds_current : forall (es : list oevent) (k : bkind),
  ~ In (cur (ofinal oinit es) k) (consumer (ofinal oinit es)).
Proof. exact consumer_never_holds_current. Qed.
Print Assumptions C08_consumer_never_holds_current.

(* path-sensitivity is needed: "alias, emit, return" (the no-parameters fast path of a dispatch
   taken before the field was re-pointed) is rejected as a path although the function's merged
   list - where the re-pointing of the slow path follows - is accepted; and after that path, from
   any state and for any buffer kind, the next write hits a buffer the consumer holds *)
(* (with pooled locals in the vocabulary: the path is rejected exactly for the parser's FIELDS -
   a local dies at the return, attach-emit-return is what a dispatch does with its parameter
   buffers -; the second half, that a write through [k] after that path hits the consumer's
   buffer, holds for every kind) *)
Theorem C08_early_return_refuted : forall (s : ost) (k : bkind) (choices : list (option Z)),
  handoff_ok [OAlias k; OEmit] = is_loc k /\
  (let '(s1, _, _) := run_fn s [OAlias k; OEmit] choices in write_safe s1 (OWrite k)) = false.
Proof. exact early_return_unsafe. Qed.
Print Assumptions C08_early_return_refuted.

(* THE POOL INVARIANT.  After any event sequence the views in the pool, the views the consumer
   holds and the views of a pending sequence are pairwise different arrays (no array is held
   through two views), and none of them is an array a parser field or live local points to: so
   sync.Pool.Get can only hand out an array nobody else holds, and Finish - one view at a time,
   any subset of what was delivered, any order - keeps it so. *)
Theorem C08_views_pairwise_disjoint : forall es : list oevent,
  let s := ofinal oinit es in
  NoDup (pool s ++ consumer s ++ outgoing s) /\ forall k, ~ In (cur s k) (pool s ++ consumer s).
Proof. exact views_pairwise_disjoint. Qed.
Print Assumptions C08_views_pairwise_disjoint.

(* the invariant needs the "attached once" rule.  Carving: a buffer is attached to the sequence,
   the field / local is re-sliced (the SAME array under a new view: param = param[len(param):])
   and attached again - one array handed out as two buffers.  The scanner rejects it for every
   kind, and from ANY state: the consumer gives both views back (Finish puts each into the pool),
   the next dispatch gets the array from the pool and delivers it, the dispatch after that gets
   the SAME array from the pool and writes into it while the consumer still holds the previous
   sequence.  Needs a hand-back followed by retention: a consumer that keeps everything (empty
   pool) or hands everything back at once never sees it. *)
Theorem C08_carved_views_refuted : forall (s : ost) (k : bkind),
  handoff_ok (carve k) = false /\
  (let id := cur s k in
   let '(s1, _, _) := run_fn s (carve k) [] in
   let s2 := finish_view (finish_view s1 id) id in
   let '(s3, _, _) := run_fn s2 [OReplace k PoolGet; OAlias k; OEmit] [Some id] in
   let '(s4, ok, _) := run_fn s3 [OReplace k PoolGet; OWrite k] [Some id] in ok) = false.
Proof. exact carved_views_unsafe. Qed.
Print Assumptions C08_carved_views_refuted.

(* the same on the translated shape: csiDispatch's loop with the "carve the next parameter out of
   the rest of the slice" body is rejected as a looped path (the body does not keep the loop
   invariant: the local is still attached when the iteration ends), although each single
   sequence it builds reads correctly *)
Example C08_carving_loop_rejected :
  lpath_ok [SActs [OReplace (KLoc 0) PoolGet; OAlias (KLoc 0); OReplace (KLoc 1) PoolGet];
            SLoop [[OWrite (KLoc 1); OWrite (KLoc 0); OAlias (KLoc 1); OReplace (KLoc 1) Reslice];
                   [OWrite (KLoc 1); OWrite (KLoc 0); OAlias (KLoc 1); OReplace (KLoc 1) PoolGet]; [OWrite (KLoc 1)]; []];
            SActs [OWrite (KLoc 1); OWrite (KLoc 0); OAlias (KLoc 1); OEmit]] = false /\
  lpath_ok [SActs [OReplace (KLoc 0) PoolGet; OAlias (KLoc 0); OReplace (KLoc 1) PoolGet];
            SLoop [[OWrite (KLoc 1); OWrite (KLoc 0); OAlias (KLoc 1); OReplace (KLoc 1) PoolGet]; [OWrite (KLoc 1)]; []];
            SActs [OWrite (KLoc 1); OWrite (KLoc 0); OAlias (KLoc 1); OEmit]] = true.
Proof. vm_compute. split; reflexivity. Qed.

(* non-vacuity of the looped events: CSI 1;2;3 (looped path 3 of csiDispatch, two ';' iterations,
   all buffers new) delivered; the consumer hands back ONE parameter slice and the list but keeps
   the rest; CSI 4:5;6 is built from the two pool buffers and a new one; the run is safe and the
   consumer still holds the two slices it kept *)
Example C08_loop_schedule_example :
  orun oinit [ECallLoop 3 3 [[0; 0]%nat] [None; None; None; None]; EFinish 5; EFinish 4;
              ECallLoop 3 3 [[1; 0]%nat] [Some 4; Some 5; None]] = true /\
  consumer (ofinal oinit [ECallLoop 3 3 [[0; 0]%nat] [None; None; None; None]; EFinish 5; EFinish 4]) = [7; 6].
Proof. vm_compute. split; reflexivity. Qed.

Example C08_merged_list_hides_early_return :
  handoff_ok [OAlias KInter; OEmit; OReplace KInter PoolGet; OEmit] = true /\
  paths_ok [[[OAlias KInter; OEmit]; [OEmit]; [OAlias KInter; OReplace KInter PoolGet; OEmit]]] = false.
Proof. vm_compute. split; reflexivity. Qed.

(* non-vacuity: a schedule along paths - CSI with intermediate and no parameters (fast path),
   retained; collect; ESC dispatch with a pool buffer requested; Finish of the first buffer *)
Example C08_path_schedule_example :
  orun oinit [ECallPath 3 0 [None]; ECallPath 1 0 []; ECallPath 2 0 [Some 0]; EFinish 0; ECallPath 1 0 []] = true.
Proof. vm_compute. reflexivity. Qed.

(* the discipline is needed: re-using the delivered array (p.oscData = p.oscData[:0] after the
   emit) is rejected, and then a write does hit a buffer the consumer holds *)
Example C08_reslice_after_emit_rejected :
  handoff_ok [OAlias KOsc; OEmit; OReplace KOsc Reslice] = false /\
  (let '(s1, _, _) := run_fn oinit [OAlias KOsc; OEmit; OReplace KOsc Reslice] [] in
   write_safe s1 (OWrite KOsc)) = false.
Proof. vm_compute. split; reflexivity. Qed.

(* ---------------------------------------------------------------- the timer under every schedule

   [r_run code_guarded es]: the parser, the run loop's end and the timer callbacks executed in the
   order [es] - runes, end of input (REof) or Close (RClose), and RFire = "the callback of some
   timer armed earlier runs now", in any order and number.  [code_guarded] is the conjunction of
   three facts the translator reads off ansi/parser.go on every run: the callback takes p.mu and
   returns at once unless p.escPending is set and the parser has not finished; Parser.run clears
   p.escPending under p.mu before it handles a rune; and it clears it and marks the parser
   finished under p.mu before it emits the end marker.  (The first statement is the proof
   obligation that breaks when the code loses one of them.) *)
Theorem C08_timer_protocol_translated : code_guarded = true.
Proof. exact code_is_guarded. Qed.
Print Assumptions C08_timer_protocol_translated.

(* the parser never panics: no schedule makes anything send on the closed channel *)
Theorem C08_race_never_sends_after_close : forall es : list revent,
  rbad (r_run code_guarded es) = false.
Proof. exact race_never_sends_after_close. Qed.
Print Assumptions C08_race_never_sends_after_close.

(* exactly one end marker, as the last item, under every schedule; none while the run loop is
   still going *)
Theorem C08_race_one_eof_last : forall es : list revent,
  let s := r_run code_guarded es in
  (rfin s = false -> Forall (fun i => is_eof i = false) (rout s)) /\
  (rfin s = true -> exists body, rout s = body ++ [IEof] /\ Forall (fun i => is_eof i = false) body).
Proof. exact race_one_eof_last. Qed.
Print Assumptions C08_race_one_eof_last.

(* ... and whatever is still scheduled after the end changes nothing *)
Theorem C08_race_end_is_final : forall es es' : list revent,
  rfin (r_run code_guarded es) = true ->
  rout (r_run code_guarded (es ++ es')) = rout (r_run code_guarded es).
Proof. exact race_end_is_final. Qed.
Print Assumptions C08_race_end_is_final.

(* every schedule is read sequentially: a callback that runs is exactly [timer_fire] of the
   theorems above (it reports Escape only while the ESC is still the last thing read), and
   nothing happens after the end *)
Theorem C08_race_is_sequential : forall es : list revent,
  rout (r_run code_guarded es) = qout (q_run es) /\ rp (r_run code_guarded es) = qp (q_run es).
Proof. exact race_is_sequential. Qed.
Print Assumptions C08_race_is_sequential.

(* "an ESC promptly followed by further bytes is never reported as Escape", however late the
   callback of its timer runs: once the next rune has been handled the callback is a no-op, and
   the rune is not lost *)
Theorem C08_race_late_callback_is_noop : forall (es : list revent) (r : Z),
  r <> 27 ->
  let s1 := r_run code_guarded (es ++ [RRune r]) in
  let s2 := r_run code_guarded (es ++ [RRune r; RFire]) in
  rp s2 = rp s1 /\ rout s2 = rout s1 /\ rbad s2 = false.
Proof. exact race_late_fire_is_noop. Qed.
Print Assumptions C08_race_late_callback_is_noop.

(* the segment semantics used by every theorem above (and by C02) is the schedule "runes of a
   segment, one callback between two segments, end of input" *)
Theorem C08_segments_are_a_schedule : forall segs : list (list Z),
  canon (rout (r_run code_guarded (seg_events segs ++ [REof]))) = parse_segments segs.
Proof. exact race_segments. Qed.
Print Assumptions C08_segments_are_a_schedule.

(* the guard is needed.  The callback as it was before the fix (emit outside the mutex,
   unconditionally): ESC, Close, late callback sends on the closed channel - the Go panic
   "send on closed channel", reproduced on the real parser (KNOWN_FINDINGS fixed: esc-timer-race);
   and a callback that runs after the "[" of ESC [ A turns the sequence into Escape, "A". *)
Theorem C08_unguarded_timer_refuted :
  rbad (r_run false [RRune 27; RClose; RFire]) = true /\
  rout (r_run false [RRune 27; RRune 91; RFire; RRune 65]) = [IC0 27; IPrint [65]] /\
  rout (r_run code_guarded [RRune 27; RRune 91; RFire; RRune 65]) = [ICsi [] [] 65].
Proof. vm_compute. repeat split; reflexivity. Qed.
Print Assumptions C08_unguarded_timer_refuted.

(* non-vacuity: a schedule with two armed timers, one effective callback, a late one, the end,
   and a callback after the end *)
Example C08_race_example :
  rout (r_run code_guarded [RRune 27; RRune 27; RFire; RRune 120; RFire; REof; RFire]) =
    [IC0 27; IPrint [120]; IEof].
Proof. vm_compute. reflexivity. Qed.

(* Hand-off on one observation of the real parser (stream "retain": a consumer hands some
   sequences back at once and keeps the others, and looks at the kept ones again after the parser
   stopped).  The predicate [c08_retain_holds] - one end marker, last; every kept sequence reads as
   it was delivered - holds of the model's observation for every input and every set of kept
   positions, so a case without mismatch is a case without violation. *)
Theorem C08_retained_reads_as_delivered : forall (segs : list (list Z)) (kept : list Z),
  c08_retain_holds (segs, fst (model_retain segs kept), snd (model_retain segs kept)) = true.
Proof. exact model_retain_holds. Qed.
Print Assumptions C08_retained_reads_as_delivered.

Theorem C08_retain_no_mismatch_no_violation : forall c : rcase,
  c08_retain_mismatches [c] = [] -> c08_retain_violations [c] = [].
Proof. exact retain_no_mismatch_no_violation. Qed.
Print Assumptions C08_retain_no_mismatch_no_violation.

(* the predicate is falsifiable: the observation made with the carving change - CSI 1;2 handed
   back, CSI 3;4 kept, CSI 5;6 parsed: the kept one reads 5;4 at the end *)
Example C08_retain_predicate_example :
  c08_retain_violations
    [([[27; 91; 49; 59; 50; 109; 27; 91; 51; 59; 52; 109; 27; 91; 53; 59; 54; 109]],
      [ICsi [] [[1]; [2]] 109; ICsi [] [[3]; [4]] 109; ICsi [] [[5]; [6]] 109; IEof],
      [(1, ICsi [] [[5]; [4]] 109)])] = [0] /\
  c08_retain_violations
    [([[27; 91; 49; 59; 50; 109; 27; 91; 51; 59; 52; 109; 27; 91; 53; 59; 54; 109]],
      [ICsi [] [[1]; [2]] 109; ICsi [] [[3]; [4]] 109; ICsi [] [[5]; [6]] 109; IEof],
      [(1, ICsi [] [[3]; [4]] 109)])] = [] /\
  c08_retain_mismatches
    [([[27; 91; 49; 59; 50; 109; 27; 91; 51; 59; 52; 109; 27; 91; 53; 59; 54; 109]],
      [ICsi [] [[1]; [2]] 109; ICsi [] [[3]; [4]] 109; ICsi [] [[5]; [6]] 109; IEof],
      [(1, ICsi [] [[3]; [4]] 109)])] = [].
Proof. vm_compute. repeat split; reflexivity. Qed.

Example C08_example :
  parse_segments [[27; 93; 97; 27]; [92; 120]] = [IOsc [97]; IC0 27; IPrint [92; 120]; IEof].
Proof. vm_compute. reflexivity. Qed.
