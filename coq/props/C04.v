(* C04 — terminal state is restored on every exit path.
   Statements only; proofs are in proofs/ModesProofs.v.

   Vocabulary (model/Modes.v, model/ModeTerm.v):
     flags        the capability set as Vaxis uses it (vx.caps fields that reach enableModes / disableModes /
                  the writer, and Options.DisableMouse); [apply_quirks o (with_nomouse .. det)] = detected
                  capabilities after quirks.go
     data         vx.kittyFlags, the application id and the cursor style the terminal reported at start-up
     op           Frame (a whole screen of cells: glyph, palette foreground, bold, hyperlink), Render, Refresh,
                  ShowCursor, HideCursor, SetMouseShape, SetAppID, Suspend, Resume, Close, Kill, Panic
     session_chunks   what New and then every operation write to the console (tokens of sequences.go), with
                  an outcome code per operation (0 returned, 2 never returns); enableModes, disableModes,
                  enterAltScreen, exitAltScreen, sendQueries and Suspend are the lists the translator produced
                  from /repo/vaxis.go on this run (gen/GenModes.v)
     term         the reference terminal: the thirteen private modes Vaxis manages plus any other mode, keypad
                  mode, the kitty keyboard stacks (one per screen, as the kitty protocol demands: [t_kitty] is the
                  stack of the screen that is shown and the one push / pop act on, [t_kitty_other] the stack of
                  the other screen; ?1049 h / l exchange them, nothing is reset), cursor style, pointer shape,
                  application id, pen, hyperlink
     fresh_term other kitty kitty_alt cstyle appid honours
                  a terminal before Vaxis starts: managed modes at their power-on value (cursor visible, primary
                  screen, ...), pointer shape "text", everything else arbitrary -- including both kitty stacks
                  ([kitty] of the main screen, [kitty_alt] of the alternate screen)
     protocol     the API protocol of a session (no Resume unless suspended, no rendering while suspended,
                  only Close after Close, SetAppID only if vx.CanSetAppID())
     hits_suspended_shutdown   the guard of the recorded finding suspend-then-close.
     overlap_chunks   the overlapped shutdown (protocol state "closing in progress"): after a session that is
                  running, a termination signal / panic makes the input goroutine run Close, which waits inside
                  Suspend for the terminal's DA1 answer ([close_begin]: Close up to parser.WaitClose, with
                  vx.closed set there iff the translator saw `vx.closed = true` BEFORE the call of Suspend,
                  [close_flag_early]); meanwhile the application issues [during] Close calls of its own
                  ([app_close]: returns at the guard, or never returns); the terminal answers ([close_end]);
                  [after] more Close calls. *)
From Vx Require Import base.Prelude model.ParserTypes model.Parser model.ModeTerm model.ModesTypes gen.GenModes
  model.Modes proofs.ModesProofs.

(* FULL STATEMENT (the property): for every capability set, all options, every session and every point at
   which it is shut down (Close, Suspend, termination signal, panic in the input goroutine), the reference
   terminal that received every byte is back in the state it had before start-up, and no operation hangs.

   PROVED below, at full strength over the model, for all 2^9 flag sets, all data, all sessions of any length:
   C04_session_restores.  Two things are outside it:
   (1) the guard [hits_suspended_shutdown ops false false = false]: Suspend or a first Close while suspended
       never returns in the code as it is (C04_suspended_shutdown_refuted; recorded finding);
   (2) Kill and Panic are modelled as "Close runs on the input goroutine": signal delivery, the scheduler and
       console.Reset are not modelled (exercised in child processes by the harness).  One interleaving IS
       modelled: the application's own Close calls issued while that Close waits for the terminal
       (C04_overlapping_close_harmless, C04_close_flag_late_refuted); an application that calls Suspend /
       Resume / Render at that point is outside the API protocol (only Close after shutdown has begun).
   The theorem is over tokens; that the bytes of each token mean what [sem_tok] says for a standards-following
   terminal is proved per token for the closed vocabulary (the C04_bridge theorems) and checked for whole byte streams
   through the C02 parser model on every differential case. *)

(* For every option set, every detected capability set, every data, every session that follows the API
   protocol and does not shut down while suspended: no operation hangs, and whenever the session ends in
   Suspend / Close / Kill / Panic (phase PSusp or PClosed) the terminal equals the terminal before start-up,
   field for field: all modes, cursor visible, primary screen, numeric keypad, the kitty stack of the main
   screen AND the one of the alternate screen, cursor style, pointer shape, application id, default pen, no
   hyperlink, nothing unknown received.
   Hypotheses on the terminal: it reported its own application id if it answered OSC 176 at all; its cursor
   style is the one it reported by DECRQSS (d_ustyle; 0 = default when it reported none). *)
Theorem C04_session_restores :
  forall (o : opts) (det : flags) (d : data) (rows cols : Z) (ops : list op)
         (other kitty0 kalt0 appid0 : list Z) (honours : bool) (ph : phase),
  let fl := apply_quirks o (with_nomouse (o_nomouse o) det) in
  let t0 := fresh_term other kitty0 kalt0 (d_ustyle d) appid0 honours in
  (f_osc176 fl = true -> d_appid d = appid0) ->
  protocol fl PRun ops = Some ph ->
  hits_suspended_shutdown ops false false = false ->
  let chunks := session_chunks o det d rows cols ops in
  forallb (fun c => fst c =? 0) chunks = true
  /\ (ends_restored ph = true -> sem_toks (flat_map snd chunks) t0 = t0).
Proof. exact session_restores. Qed.
Print Assumptions C04_session_restores.

(* every point of a session: a prefix of an admissible session is admissible, and the longer session
   writes the prefix's output first *)
Theorem C04_prefix_closed :
  forall (fl : flags) (a b : list op) (ph : phase) o det d rows cols,
  protocol fl PRun (a ++ b) = Some ph -> hits_suspended_shutdown (a ++ b) false false = false ->
  (exists ph1, protocol fl PRun a = Some ph1) /\ hits_suspended_shutdown a false false = false
  /\ exists rest, session_chunks o det d rows cols (a ++ b) = session_chunks o det d rows cols a ++ rest.
Proof.
  intros fl a b ph o det d rows cols Hp Hh.
  destruct (protocol_app fl a b PRun ph Hp) as (ph1 & H1 & _).
  split; [eauto|]. split; [exact (hits_app a b false false Hh)|apply session_chunks_app].
Qed.
Print Assumptions C04_prefix_closed.

(* New itself is an exit path: when reportWinsize fails after start-up, New closes what it started before it
   returns the error, and the terminal is back where it was (for every capability set; no hang) *)
Theorem C04_failed_new_restores :
  forall (o : opts) (det : flags) (d : data) (other kitty0 kalt0 appid0 : list Z) (cstyle0 : Z) (honours : bool),
  let fl := apply_quirks o (with_nomouse (o_nomouse o) det) in
  (f_osc176 fl = true -> d_appid d = appid0) ->
  sem_toks (s_out (failed_new o det d)) (fresh_term other kitty0 kalt0 cstyle0 appid0 honours)
  = fresh_term other kitty0 kalt0 (d_ustyle d) appid0 honours
  /\ s_hung (failed_new o det d) = false.
Proof. intros o det d other kitty0 kalt0 appid0 cstyle0 honours fl H. rewrite failed_new_factor. apply failed_from_restores. exact H. Qed.
Print Assumptions C04_failed_new_restores.

(* a second Close is harmless: it changes nothing and writes nothing *)
Theorem C04_close_idempotent : forall (o : opts) (x : sst), x_closed x = true -> run_op o OpClose x = x.
Proof. exact close_idempotent. Qed.
Print Assumptions C04_close_idempotent.

(* ... also when it OVERLAPS the shutdown the library started itself.  A termination signal (or a panic in the
   input goroutine) runs Close on the input goroutine; Close posts QuitEvent and waits in Suspend for the
   terminal; the application answers QuitEvent with its own Close calls while the first one is still waiting.
   For every option / capability set, every admissible session that is running, any number of overlapping
   and of later Close calls: every one of them returns (outcome 0) and writes nothing, the Close of the
   input goroutine finishes, all chunks together are exactly what the plain signal shutdown writes
   (session ++ [OpKill]), and the terminal is back where it was. *)
Theorem C04_overlapping_close_harmless :
  forall (o : opts) (det : flags) (d : data) (rows cols : Z) (ops : list op) (during after : nat)
         (other kitty0 kalt0 appid0 : list Z) (honours : bool),
  let fl := apply_quirks o (with_nomouse (o_nomouse o) det) in
  let t0 := fresh_term other kitty0 kalt0 (d_ustyle d) appid0 honours in
  (f_osc176 fl = true -> d_appid d = appid0) ->
  protocol fl PRun ops = Some PRun ->
  hits_suspended_shutdown ops false false = false ->
  let before := session_chunks o det d rows cols ops in
  exists b e,
    overlap_chunks o det d rows cols ops during after
      = Some (before ++ (0, b) :: idle_chunks during ++ (0, e) :: idle_chunks after)
    /\ session_chunks o det d rows cols (ops ++ [OpKill]) = before ++ [(0, b ++ e)]
    /\ sem_toks (flat_map snd before ++ b ++ e) t0 = t0.
Proof. exact overlapping_close_harmless. Qed.
Print Assumptions C04_overlapping_close_harmless.

(* the split of Close at the parser wait is faithful: held there and released, the Close of the input
   goroutine is the plain Close, whatever the flag did in between *)
Theorem C04_close_split : forall (early : bool) (o : opts) (x : sst), x_closed x = false ->
  close_end o (fst (close_begin_with early o x)) (snd (close_begin_with early o x)) = do_close o x.
Proof. exact close_split. Qed.
Print Assumptions C04_close_split.

(* the position of `vx.closed = true` matters, and the model sees it: from every running state, a Close
   that sets the flag only when it returns (not before Suspend) leaves the application's first overlapping
   Close inside a second Suspend -- it never returns (outcome 2), whatever the session was *)
Theorem C04_close_flag_late_refuted : forall (o : opts) (x : sst) (n a : nat),
  s_hung (x_m x) = false -> x_suspended x = false -> x_closed x = false ->
  exists b rest, overlap_tail_with false o x (S n) a = Some ((0, b) :: (2, []) :: rest).
Proof. exact close_flag_late_refuted. Qed.
Print Assumptions C04_close_flag_late_refuted.

(* Resume re-establishes exactly what start-up established: after any admissible session ending in Resume
   every piece of terminal state Vaxis establishes (all modes incl. in-band resize, keypad, both kitty stacks
   -- Vaxis's flags on top of the alternate screen's stack, the main screen's stack untouched --, pen,
   hyperlink; not the cursor / pointer / application id, which the application drives) is what it was right
   after New -- for a terminal that reports in-band resize when it implements it. *)
Theorem C04_resume_reestablishes :
  forall (o : opts) (det : flags) (d : data) (rows cols : Z) (ops : list op)
         (other kitty0 kalt0 appid0 : list Z) (honours : bool),
  let fl := apply_quirks o (with_nomouse (o_nomouse o) det) in
  let t0 := fresh_term other kitty0 kalt0 (d_ustyle d) appid0 honours in
  (f_osc176 fl = true -> d_appid d = appid0) ->
  (honours = true -> f_inband fl = true) ->
  protocol fl PRun (ops ++ [OpResume]) = Some PRun ->
  hits_suspended_shutdown (ops ++ [OpResume]) false false = false ->
  established (sem_toks (flat_map snd (session_chunks o det d rows cols (ops ++ [OpResume]))) t0)
  = established (sem_toks (s_out (startup o det d)) t0).
Proof. exact resume_reestablishes. Qed.
Print Assumptions C04_resume_reestablishes.

(* the core, on the translated lists themselves: under every capability set, every private mode that the
   query phase, enterAltScreen or enableModes set is reset by disableModes or exitAltScreen ... *)
Theorem C04_enable_disable_balanced : forall (fl : flags) (n : Z),
  In n (sets_of fl (send_queries ++ enter_alt ++ enable_modes)) -> In n (resets_of fl (disable_modes ++ exit_alt)).
Proof. exact enable_disable_balanced. Qed.
Print Assumptions C04_enable_disable_balanced.

(* ... and the mode reset on the way in (cursor visibility) is set again by exitAltScreen / Suspend *)
Theorem C04_hidden_cursor_balanced : forall (fl : flags) (n : Z),
  In n (resets_of fl (enter_alt ++ enable_modes)) -> In n (sets_of fl (exit_alt ++ suspend_script)).
Proof. exact hidden_cursor_balanced. Qed.
Print Assumptions C04_hidden_cursor_balanced.

(* refutation of the unguarded statement (recorded finding suspend-then-close): in the suspended state
   Suspend, Close, Kill and Panic never return (the second WaitClose waits for a parser that is gone) *)
Theorem C04_suspended_shutdown_refuted : forall (fl : flags) (d : data) (x : sst) (o : opts) (p : op),
  st_susp fl d x -> (p = OpSuspend \/ p = OpClose \/ p = OpKill \/ p = OpPanic) ->
  s_hung (x_m (run_op o p (clear_out x))) = true.
Proof. exact suspended_shutdown_hangs. Qed.
Print Assumptions C04_suspended_shutdown_refuted.

(* bridge from tokens to bytes, per token of the closed vocabulary: fed to the C02 parser model from its
   ground state, the bytes translated from sequences.go act on the reference terminal (by standard meaning:
   mode numbers, ESC = / ESC >, CSI > n u, CSI < u, CSI n SP q, OSC 22) exactly as the token semantics says *)
Theorem C04_bridge_const : forall (k : cname) (t : term), binterp_bytes (const_bytes k) t = sem_tok (OConst k) t.
Proof. exact bridge_const. Qed.
Print Assumptions C04_bridge_const.

Theorem C04_bridge_modes : forall (n : Z) (t : term), In n managed_modes ->
  binterp_bytes (tok_bytes (ODecset n)) t = sem_tok (ODecset n) t /\
  binterp_bytes (tok_bytes (ODecrst n)) t = sem_tok (ODecrst n) t.
Proof. exact bridge_decset. Qed.
Print Assumptions C04_bridge_modes.

Theorem C04_bridge_kitty_cursor_pointer : forall (t : term),
  (forall n, In n (map Z.of_nat (seq 0 32)) ->
     binterp_bytes (tok_bytes (OParm FmKittyKBEnable [PInt n])) t = sem_tok (OParm FmKittyKBEnable [PInt n]) t) /\
  (forall n, In n [0; 1; 2; 3; 4; 5; 6] ->
     binterp_bytes (tok_bytes (OParm FmCursorStyleSet [PInt n])) t = sem_tok (OParm FmCursorStyleSet [PInt n]) t) /\
  binterp_bytes (tok_bytes (OParm FmMouseShape [PStr text_shape])) t = sem_tok (OParm FmMouseShape [PStr text_shape]) t.
Proof. intros t. split; [|split]; [intros n; apply bridge_kitty_push | intros n; apply bridge_cursor_style | apply bridge_text_shape]. Qed.
Print Assumptions C04_bridge_kitty_cursor_pointer.

(* ---------- non-vacuity ---------- *)
Definition ex_opts : opts := mkOpts false false false false false.
Definition ex_det : flags := mkFlags true true false true true true true true false.
Definition ex_data : data := mkData 1 [102; 97; 107; 101] 4.
Definition ex_frame : op := OpFrame [[mkCell 97 3 true [117]; blank]].
Definition ex_ops : list op :=
  [ex_frame; OpShowCursor 1 0 6; OpSetMouseShape [112]; OpRender; OpSuspend; OpResume; OpSetAppID [120]; ex_frame; OpClose; OpClose].

(* the hypotheses of C04_session_restores are met by a session with every capability, a styled and linked
   cell, a cursor, a pointer shape, a Suspend/Resume cycle, SetAppID and a double Close; its output is not
   empty and really changes the terminal on the way *)
Example C04_example_session :
  let fl := apply_quirks ex_opts (with_nomouse false ex_det) in
  protocol fl PRun ex_ops = Some PClosed
  /\ hits_suspended_shutdown ex_ops false false = false
  /\ (f_osc176 fl = true -> d_appid ex_data = [102; 97; 107; 101])
  /\ (100 <? zlen (flat_map snd (session_chunks ex_opts ex_det ex_data 1 2 ex_ops))) = true
  /\ established (sem_toks (s_out (startup ex_opts ex_det ex_data)) (fresh_term [] [7] [9] 4 [102; 97; 107; 101] true))
     = (true, true, true, true, true, true, true, false, true, true, true, true, [], true, [1; 9], [7], true, false, false).
Proof. vm_compute. repeat split; reflexivity. Qed.

(* the guarded class is not empty and the model predicts the hang for it: outcome codes of
   New, Suspend, Close *)
Example C04_example_suspend_then_close :
  hits_suspended_shutdown [OpSuspend; OpClose] false false = true
  /\ map fst (session_chunks ex_opts ex_det ex_data 1 2 [OpSuspend; OpClose]) = [0; 0; 2].
Proof. vm_compute. split; reflexivity. Qed.

(* the hypotheses of C04_overlapping_close_harmless are met by a session with a Suspend/Resume cycle; two
   overlapping and one later Close: ten chunks, all returned; the Close of the input goroutine writes the DA1
   query before the wait and the rest after it; with the flag set late the first overlapping Close hangs *)
Definition ex_run_ops : list op := [ex_frame; OpSuspend; OpResume; OpRender].
Example C04_example_overlap :
  let fl := apply_quirks ex_opts (with_nomouse false ex_det) in
  let x := ops_state ex_opts ex_run_ops (start_session ex_opts ex_det ex_data 1 2) in
  protocol fl PRun ex_run_ops = Some PRun
  /\ hits_suspended_shutdown ex_run_ops false false = false
  /\ close_flag_early = true
  /\ option_map (map fst) (overlap_chunks ex_opts ex_det ex_data 1 2 ex_run_ops 2 1) = Some [0; 0; 0; 0; 0; 0; 0; 0; 0; 0]
  /\ option_map (fun l => map snd (firstn 1 l)) (overlap_tail ex_opts x 2 1) = Some [[OConst KPrimaryAttributes]]
  /\ option_map (map fst) (overlap_tail_with false ex_opts x 2 1) = Some [0; 2; 0; 0; 0].
Proof. vm_compute. repeat split; reflexivity. Qed.

(* the hypothesis of C04_resume_reestablishes (a terminal that implements in-band resize reports it) is
   needed: a terminal that honours ?2048 silently keeps it after New (set blindly by the query phase) but
   not after Resume *)
Example C04_example_blind_inband :
  let det := mkFlags false false false false false false false false false in
  let t0 := fresh_term [] [] [] 0 [] true in
  m_inband (sem_toks (s_out (startup ex_opts det ex_data)) t0) = true
  /\ m_inband (sem_toks (flat_map snd (session_chunks ex_opts det ex_data 1 1 [OpSuspend; OpResume])) t0) = false
  /\ sem_toks (flat_map snd (session_chunks ex_opts det ex_data 1 1 [OpSuspend])) t0 = fresh_term [] [] [] 4 [] true.
Proof. vm_compute. repeat split; reflexivity. Qed.

(* ---------- the order of Resume's calls matters, and the model sees it ---------- *)
(* New; Suspend; Resume; Close on a terminal with every capability (kitty keyboard among them), where Resume
   makes the calls [cs] in that order; everything written, start-up included *)
Definition swapped_resume_calls : list callname := [CnOpenTty; CnEnableModes; CnEnterAlt; CnSetupSignals].
Definition cycle_out (cs : list callname) : list otok :=
  s_out (x_m (run_op ex_opts OpClose (do_resume_with cs ex_opts (run_op ex_opts OpSuspend
           (start_session ex_opts ex_det ex_data 1 2))))).

(* With the translated order ([resume_calls]: enterAltScreen, then enableModes, as in New) the terminal is
   restored, both stacks included.  A Resume that enables the modes BEFORE it enters the alternate screen
   writes the same sequences in another order, pushes the kitty flags on the stack of the MAIN screen and
   pops, at Close, on the (other) stack of the alternate screen: the shell is left with Vaxis's keyboard flags
   on top of its own, and the alternate screen has lost an entry that was not Vaxis's -- for every pair of
   stacks the terminal started with.  (A reference terminal with one
   global stack cannot tell the two orders apart.) *)
Theorem C04_resume_order_refuted : forall (kitty0 kalt0 : list Z),
  let t0 := fresh_term [] kitty0 kalt0 4 [102; 97; 107; 101] true in
  sem_toks (cycle_out resume_calls) t0 = t0
  /\ t_kitty (sem_toks (cycle_out swapped_resume_calls) t0) = d_kflags ex_data :: kitty0
  /\ t_kitty_other (sem_toks (cycle_out swapped_resume_calls) t0) = tl kalt0
  /\ sem_toks (cycle_out swapped_resume_calls) t0 <> t0
  /\ zlen (toks_bytes (cycle_out swapped_resume_calls)) = zlen (toks_bytes (cycle_out resume_calls))
  /\ restored (fresh_term [] [7] [9] 4 [102; 97; 107; 101] true)
              (sem_toks (cycle_out swapped_resume_calls) (fresh_term [] [7] [9] 4 [102; 97; 107; 101] true)) = false.
Proof.
  intros kitty0 kalt0 t0. subst t0.
  assert (K : t_kitty (sem_toks (cycle_out swapped_resume_calls) (fresh_term [] kitty0 kalt0 4 [102; 97; 107; 101] true))
              = d_kflags ex_data :: kitty0) by (vm_compute; reflexivity).
  split; [vm_compute; reflexivity|]. split; [exact K|]. split; [vm_compute; reflexivity|].
  split; [|split; vm_compute; reflexivity].
  intros E. rewrite E in K. cbn in K. apply (f_equal (@length Z)) in K. cbn in K. lia.
Qed.
Print Assumptions C04_resume_order_refuted.
