(* C15 — vxfw routes events capture-target-bubble and keeps focus and hover consistent.
   Statements only; proofs in proofs/RouteProofs.v, the model of vxfw/vxfw.go in model/Route.v.

   Widgets are numbers; what a widget answers is an ORACLE [oracle log w ev ph] (the command
   returned by widget w called with event ev in phase ph after the calls in [log]), and
   [capturer w] says whether w implements EventCapturer: every theorem quantifies over all
   oracles and capturer sets, i.e. over every application.  Surfaces are rose trees
   [Node widget width height [(col, row, z, child); ...]].  The observable is the call log
   [log] (entries (widget, event, phase, returned command), oldest first), the list [effs] of
   leaf commands executed, and the flags.  [fuel] bounds the nesting depth of batches and of
   focus changes made from inside FocusIn/FocusOut handlers; a result [Some _] means the real
   recursion terminates (the harness uses finite scripts, for which it always does).

   Vocabulary (model/Route.v): [routed_b n ev seq D] — D is a list of calls with event ev to a
   prefix of seq, in order, each call followed only by the FocusOut/FocusIn deliveries its
   command triggered; the first call during whose handling ConsumeEventCmd was executed is
   the last one, and if there is none all of seq was called.  [route_seq capturer ws tgt] =
   capture calls to the capturers of ws (root first) ++ target call to tgt ++ bubble calls to
   ws without its last element, in reverse.  [focus_chain f l] = Some g: l is FocusOut f,
   FocusIn a, FocusOut a, FocusIn b, ... ending with the focus on g.  [hover_state false l]
   = Some b: MouseEnter/MouseLeave alternate in l starting with Enter, b = the last one was
   Enter.

   What is decided against the property text.
   * "capturing ancestors from the root down to the focused widget": the code also offers
     the capture call to the focused widget itself when it is an EventCapturer (the examples
     of the repository rely on it: the root widget quits on Ctrl+C in CaptureEvent while it
     has the focus).  Read inclusively; route_seq says so.
   * Findings (each has a ..._refuted witness below and is excluded by an explicit guard):
     stale-path, overlap-siblings, focus-in-focusout, termfocus-enter, dup-widget.
   * The observation predicate of the differential run (model/Route.v check_step) has clauses
     that no finding excuses: the target call of a routed event goes to the widget that holds
     the focus when the target phase starts and the calls follow the stored path
     (key_route_obs); a mouse event is routed along the surfaces under the pointer with the
     deepest widget of the topmost chain as target, overlapping siblings or not
     (mouse_route_obs); the focused widget is the receiver of the last FocusIn (focus_after);
     after every step each widget is hovered exactly when it was under the pointer at the
     last hit test, as computed by an observer from the inputs alone (hov_track, hover_obs).
     C15_key_route_obs, C15_mouse_route_obs, C15_focused_is_last_focusin(_step),
     C15_hover_tracked and C15_hover_obs prove that every run of the model satisfies them.
   * Ticks that are laid out twice (an enter/leave handler called by mouseHandler.update asked
     for a redraw) with a tree that CHANGES between the two layouts, and trees that change
     between ticks while focus and pointer rest ([FFrame2 t1 t2], frame2, fstep, frun): the
     frames stream observes a real App.Run per input and evaluates [f_step_ok] on it: a key is
     offered capture-target-bubble along the chain of the focused widget in the tree ON SCREEN
     (the second layout), a mouse event along the surfaces under the pointer in that tree, the
     focus deliveries form one chain, every widget is hovered exactly when the observer's
     tracker says so (hit test against the FIRST layout).  C15_frames_step_sound proves that
     every step of the model satisfies f_step_ok and keeps the observer linked to the state.
   Not covered: errors returned by handlers; the 8 ms timer (a frame is an input);
   SetMouseShapeCmd (only stored for the next render). *)
From Coq Require Import Permutation.
From Vx Require Import base.Prelude base.ListX model.Route proofs.RouteProofs proofs.RouteFramesProofs.
Local Open Scope Z_scope.

(* ---------------------------------------------------------------- commands_once *)

(* Handling any command value [c] (batches nested to any depth, both BatchCmd and []Command)
   calls no handler except the FocusOut/FocusIn deliveries of its focus commands ([d]), and
   executes exactly the leaves of c and of the commands those deliveries returned, each once
   ([e] is a permutation of them); the flags afterwards are the flags before or-ed with the
   corresponding leaves ([ext]). *)
Theorem C15_commands_once_local :
  forall oracle fuel (s : core) (c : cmd) (s' : core),
  handle_cmd oracle fuel s c = Some s' ->
  exists d e, ext s s' d e /\ all_focus d /\ Permutation e (leaves c ++ rets d).
Proof. exact handle_cmd_ext. Qed.
Print Assumptions C15_commands_once_local.

(* Over a whole history (every input of App.Run, every direct handler call): the leaf commands
   executed are, up to order, exactly the leaves of the commands the handler calls returned:
   nothing is dropped, nothing is executed twice. *)
Theorem C15_commands_once :
  forall oracle capturer fuel (l : list input) (s s' : st),
  Forall (fun i => match i with PCmd _ => False | _ => True end) l ->
  run oracle capturer fuel s l = Some s' ->
  exists D e, log (co s') = log (co s) ++ D /\ effs (co s') = effs (co s) ++ e /\ Permutation e (rets D).
Proof. exact commands_once_run. Qed.
Print Assumptions C15_commands_once.

(* ---------------------------------------------------------------- key_route_order *)

(* A non-mouse event (key, Init, application event): the calls made are the longest prefix, up
   to and including the first consuming call, of capture calls along the focus path (root
   first, the focused widget included) ++ the target call ++ bubble calls from the parent up
   to the root.  The target is the focused widget (if a capture handler moved the focus:
   the newly focused one).  Nothing but the log, effects and flags changes. *)
Theorem C15_key_route_order :
  forall oracle capturer fuel (s : st) (ev : event) (s' : st),
  is_focus_ev ev = false ->
  focus_handle oracle capturer fuel s ev = Some s' ->
  exists D tgt,
    log (co s') = log (co s) ++ D /\ same_outer s s' /\ f_consume (co s') = false /\
    routed_b (S (length D)) ev (route_seq capturer (path s) tgt) D = true /\
    (existsb focus_entry D = false -> tgt = focused (co s)).
Proof. exact key_route_order_b. Qed.
Print Assumptions C15_key_route_order.

(* The focus path after a frame: if the focused widget f is on some surface of the frame t,
   updatePath calls nobody and stores the chain of widgets from the root surface down to
   the first (pre-order) surface of f, with the App's root widget in front when the root
   surface belongs to another widget; that chain is a parent-child path of t that starts at
   t's widget and ends with f. *)
Theorem C15_path_is_chain :
  forall oracle fuel (s : st) (t : tree),
  In (focused (co s)) (ids t) ->
  exists l, chain_to t (focused (co s)) = Some l /\
    is_path t l /\ last l 0 = focused (co s) /\ hd 0 l = t_wid t /\
    update_path oracle fuel s t =
      Some (with_path s ((if root s =? t_wid t then [] else [root s]) ++ l)).
Proof.
  intros oracle fuel s t H. destruct (chain_to_found _ _ H) as [l E].
  exists l. destruct (chain_to_path _ _ _ E) as (P & L & Hd). repeat split; auto.
  apply update_path_found. exact E.
Qed.
Print Assumptions C15_path_is_chain.

(* If the focused widget is on no surface of the frame, updatePath gives the focus to the
   root widget (focusWidget) and the path is [root]. *)
Theorem C15_path_refocus :
  forall oracle fuel (s : st) (t : tree),
  chain_to t (focused (co s)) = None ->
  update_path oracle fuel s t =
  obind (focus_widget oracle fuel (co s) (root s)) (fun c => Some (with_path (with_co s c) [root s])).
Proof. exact update_path_lost. Qed.
Print Assumptions C15_path_refocus.

(* ---------------------------------------------------------------- mouse_route_order *)

(* A mouse event at (c, r): first the enter/leave notifications of update ([Dh]), then the
   event is routed along the hit list of the last frame: capture calls to its capturers in
   order, target call to its LAST element, bubble calls to the others in reverse, stopping
   at the first consuming call.  An empty hit list (pointer outside the root surface) means
   no routing calls at all. *)
Theorem C15_mouse_route_order :
  forall oracle capturer fuel (s : st) (c r : Z) (s' : st),
  mouse_handle oracle capturer fuel s c r = Some s' ->
  exists Dh Dr,
    log (co s') = log (co s) ++ Dh ++ Dr /\
    seg (hover_calls (last_hits s) (hits_at (last_frame s) (c, r))) Dh /\
    last_hits s' = hits_at (last_frame s) (c, r) /\
    match map h_wid (hits_at (last_frame s) (c, r)) with
    | [] => Dr = []
    | ws => routed_b (S (length Dr)) (EMouse c r) (route_seq capturer ws (last ws 0)) Dr = true
    end.
Proof. exact mouse_route_order_b. Qed.
Print Assumptions C15_mouse_route_order.

(* Who is in the hit list.  For surfaces with uint16 sizes (any integer offsets) hitTest's
   translation to local uint16 coordinates is exact: the widgets of the hit list are the
   surfaces that contain the pointer, in absolute terminal coordinates, and all of whose
   ancestors contain it, in pre-order ([pointer_all]). *)
Theorem C15_hit_list :
  forall (t : tree) (c r : Z), wf16 t -> map h_wid (hits_at t (c, r)) = pointer_all t c r.
Proof. exact hits_at_pointer_all. Qed.
Print Assumptions C15_hit_list.

(* The target.  [pointer_chain] descends from the root surface, at each level into the LAST
   child that contains the pointer, and stops at a surface none of whose children contains
   it ([top_chain]): it is a parent-child chain of surfaces that all contain the point and
   its last element is the deepest one.  The chain is always a subsequence of the hit list
   and has the same last element, so the target of a mouse event is always the deepest
   widget of that chain; when no two siblings contain the pointer (the two lists have the
   same length) the hit list IS the chain, and C15_mouse_route_order is the
   capture-target-bubble order along the chain of widgets under the pointer. *)
Theorem C15_mouse_target :
  forall (t : tree) (c r : Z), contains_abs 0 0 t c r = true ->
  top_chain c r t 0 0 (pointer_chain t c r) /\
  sub (pointer_chain t c r) (pointer_all t c r) /\
  last (pointer_all t c r) 0 = last (pointer_chain t c r) 0 /\
  (length (pointer_all t c r) = length (pointer_chain t c r) -> pointer_all t c r = pointer_chain t c r).
Proof.
  intros t c r H. pose proof (pointer_single t c r) as S.
  unfold pointer_chain, pointer_all in *. rewrite H in *.
  split; [apply under_top_chain|]. split; [apply under_top_sub|]. split; [apply under_all_last|exact S].
Qed.
Print Assumptions C15_mouse_target.

(* Overlapping siblings after a render (Surface.render has sorted the children of every
   surface by z, [sort_tree]): the child the chain descends into is, among the children that
   contain the pointer, one with the highest z (the last of them in drawing order, i.e. the
   one painted on top). *)
Theorem C15_mouse_target_topmost :
  forall (t : tree) (c r : Z),
  sorted_tree (sort_tree t) /\
  top_chain_z c r (sort_tree t) 0 0 (under_top (sort_tree t) 0 0 c r).
Proof.
  intros t c r. split; [apply sort_tree_sorted|].
  apply top_chain_sorted; [apply under_top_chain|apply sort_tree_sorted].
Qed.
Print Assumptions C15_mouse_target_topmost.

(* ---------------------------------------------------------------- focus_change_once *)

(* One focusWidget(w) whose two handlers do not themselves move the focus: nothing happens if
   w has the focus already; otherwise exactly one FocusOut to the old and one FocusIn to the
   new widget are delivered, in this order, and w has the focus. *)
Theorem C15_focus_change_once :
  forall oracle fuel (c : core) (w : wid) (c' : core),
  focus_widget oracle fuel c w = Some c' ->
  if focused c =? w then c' = c
  else
    let r1 := oracle (log c) (focused c) EFocusOut Target in
    forall r2, r2 = oracle (log c ++ [(focused c, EFocusOut, Target, r1)]) w EFocusIn Target ->
    existsb is_focus_cmd (leaves r1) = false -> existsb is_focus_cmd (leaves r2) = false ->
    log c' = log c ++ [(focused c, EFocusOut, Target, r1); (w, EFocusIn, Target, r2)] /\ focused c' = w.
Proof. exact focus_widget_exact. Qed.
Print Assumptions C15_focus_change_once.

(* Over a whole history, with arbitrary focus commands anywhere (batches, FocusIn handlers that
   move the focus again, refocus by updatePath ...) except in answers to FocusOut (guard of the
   finding focus-in-focusout): the FocusOut/FocusIn deliveries form one chain
   FocusOut f0, FocusIn a, FocusOut a, FocusIn b, ... that starts at the widget focused before
   and ends at the widget focused afterwards: every focus change delivers exactly one
   FocusOut to the old and one FocusIn to the new widget, and there is no other delivery. *)
Theorem C15_focus_change_once_history :
  forall oracle capturer, no_focus_from_focusout oracle ->
  forall fuel (l : list input) (s s' : st),
  Forall (fun i => match i with IEv e => is_focus_ev e = false | _ => True end) l ->
  run oracle capturer fuel s l = Some s' ->
  exists D, log (co s') = log (co s) ++ D /\
            focus_chain (focused (co s)) (focus_log D) = Some (focused (co s')).
Proof. exact focus_change_once_run. Qed.
Print Assumptions C15_focus_change_once_history.

(* ---------------------------------------------------------------- hover_balanced *)

(* Over every history of App.Run inputs and direct handler calls, on frames that show each
   widget on at most one surface (guard of dup-widget): for every widget w other than the
   App's root widget — and for the root widget too when the history contains no terminal
   FocusIn (guard of termfocus-enter) — the MouseEnter/MouseLeave notifications of w alternate
   starting with MouseEnter, and w is hovered (last notification = Enter) exactly when it is
   in the mouse handler's current hit list. *)
Theorem C15_hover_balanced :
  forall oracle capturer fuel (r : wid) (l : list input) (s' : st),
  Forall (fun i => match tree_of_input i with Some t => NoDup (ids t) | None => True end) l ->
  Forall (fun i => match i with IEv e => is_hover_ev e = false | _ => True end) l ->
  run oracle capturer fuel (init_st r) l = Some s' ->
  forall w, w <> r \/ ~ In ITermFocusIn l ->
    hover_state false (hover_log w (log (co s'))) = Some (wmem w (last_hits s')).
Proof. exact hover_balanced_run. Qed.
Print Assumptions C15_hover_balanced.

(* all closed when the terminal focus leaves: the hit list is empty afterwards, so by
   C15_hover_balanced every widget's last notification is MouseLeave *)
Theorem C15_hover_closed_on_focus_out :
  forall oracle capturer fuel (s s' : st),
  step oracle capturer fuel s ITermFocusOut = Some s' -> last_hits s' = [] /\ mouse s' = None.
Proof. exact termfocusout_clears. Qed.
Print Assumptions C15_hover_closed_on_focus_out.

(* all closed when the pointer leaves the root surface *)
Theorem C15_hover_closed_on_pointer_leave :
  forall oracle capturer fuel (s : st) (c r : Z) (s' : st),
  contains 0 0 (last_frame s) c r = false ->
  mouse_handle oracle capturer fuel s c r = Some s' -> last_hits s' = [].
Proof. exact pointer_outside_clears. Qed.
Print Assumptions C15_hover_closed_on_pointer_leave.

(* ---------------------------------------------------------------- the observation predicate *)

(* The clauses of the observation predicate (model/Route.v, check_step) that no finding
   excuses are satisfied by every run of the model; together with "no mismatch" of the
   differential run this means that they cannot raise a false alarm on code the model
   describes.  The boolean functions below are literally the ones check_step evaluates on the
   implementation's observation (with the snapshot's path / focused widget and the
   observer's frame in place of the model's fields). *)

(* "then to the focused widget": over every history the widget that holds the focus is the
   one that received the last FocusIn delivery ([focus_after]) — also when a FocusOut handler
   answers with a focus command (finding focus-in-focusout). *)
Theorem C15_focused_is_last_focusin :
  forall oracle capturer fuel (l : list input) (s s' : st),
  Forall (fun i => match i with IEv e => is_focus_ev e = false | _ => True end) l ->
  run oracle capturer fuel s l = Some s' ->
  exists D, log (co s') = log (co s) ++ D /\ focused (co s') = focus_after (focused (co s)) D.
Proof. exact focused_last_focusin_run. Qed.
Print Assumptions C15_focused_is_last_focusin.

(* the same for one input (the form check_step uses) *)
Theorem C15_focused_is_last_focusin_step :
  forall oracle capturer fuel (s : st) (i : input) (s' : st),
  match i with IEv e => is_focus_ev e = false | _ => True end ->
  step oracle capturer fuel s i = Some s' ->
  exists D, log (co s') = log (co s) ++ D /\ focused (co s') = focus_after (focused (co s)) D.
Proof. exact focused_last_focusin_step. Qed.
Print Assumptions C15_focused_is_last_focusin_step.

(* A routed non-mouse event: the calls go capture-target-bubble along the stored focus path
   and the target call goes to the widget that holds the focus WHEN THE TARGET PHASE STARTS,
   i.e. after the FocusOut/FocusIn deliveries triggered by the capture handlers
   ([key_target] reads it off the observed entries).  No guard: this holds on stale paths too. *)
Theorem C15_key_route_obs :
  forall oracle capturer fuel (s : st) (ev : event) (s' : st),
  is_focus_ev ev = false ->
  focus_handle oracle capturer fuel s ev = Some s' ->
  exists D, log (co s') = log (co s) ++ D /\
            key_route_obs capturer (path s) (focused (co s)) ev D = true.
Proof. exact key_route_obs_model. Qed.
Print Assumptions C15_key_route_obs.

(* A mouse event: after the enter/leave notifications the routing calls ([mouse_rd]) go
   capture-target-bubble along all surfaces under the pointer (absolute coordinates,
   pre-order) and the target is the deepest widget of the topmost chain, also when siblings
   overlap (finding overlap-siblings concerns only who else is asked). *)
Theorem C15_mouse_route_obs :
  forall oracle capturer fuel (s : st) (c r : Z) (s' : st),
  wf16 (last_frame s) ->
  mouse_handle oracle capturer fuel s c r = Some s' ->
  exists D, log (co s') = log (co s) ++ D /\ mouse_route_obs capturer (last_frame s) c r D = true.
Proof. exact mouse_route_obs_model. Qed.
Print Assumptions C15_mouse_route_obs.

(* The hover observer.  [hov_track] (what check_step's observer computes from the inputs
   alone: frame, pointer, widgets under the pointer at the last hit test) follows the mouse
   handler's state through every input, for frames with uint16 sizes: in particular after
   the redraw-path update(s) with a frame s whose root size differs from the last frame. *)
Theorem C15_hover_tracked :
  forall oracle capturer fuel (s : st) (i : input) (s' : st) (h : hov_st),
  hov_tracks h s -> tree_wf i ->
  step oracle capturer fuel s i = Some s' ->
  hov_tracks (hov_track (f_redraw (co s)) h i) s'.
Proof. exact hov_tracks_step. Qed.
Print Assumptions C15_hover_tracked.

(* ... and after every history that starts with nobody hovered, every widget's enter/leave
   notifications alternate and end with MouseEnter exactly when the widget is in the
   observer's set ([hover_obs]), on frames without duplicate widgets; the root widget is
   excused when the history contains a terminal FocusIn (finding termfocus-enter). *)
Theorem C15_hover_obs :
  forall oracle capturer fuel (r : wid) (l : list input) (s0 s' : st) (h : hov_st),
  root s0 = r -> log (co s0) = [] -> last_hits s0 = [] -> NoDup (ids (last_frame s0)) ->
  Forall (fun i => match tree_of_input i with Some t => NoDup (ids t) | None => True end) l ->
  Forall (fun i => match i with IEv e => is_hover_ev e = false | _ => True end) l ->
  run oracle capturer fuel s0 l = Some s' ->
  hov_tracks h s' ->
  hover_obs (fun w => (w =? r) && existsb is_termfocusin l) (log (co s')) (hv_set h) = true.
Proof. exact hover_obs_model. Qed.
Print Assumptions C15_hover_obs.


(* ---------------------------------------------------------------- ticks laid out twice *)

(* a tick whose two layouts draw the same tree is the frame case modelled by [frame] *)
Theorem C15_frame2_same :
  forall oracle fuel (s : st) (t : tree), frame2 oracle fuel s t t = frame oracle fuel s t.
Proof. exact frame2_same. Qed.
Print Assumptions C15_frame2_same.

(* The focus path after a tick.  With a redraw pending the root is laid out [lay] = 1 or 2
   times; the tree on screen and stored as lastFrame is the LAST layout ([shown_tree]: t2 when
   an enter/leave handler asked for a redraw during the hit test of t1).  If no
   FocusIn/FocusOut was delivered in the tick, the focus has not moved and the stored path is
   the chain from the App's root to the focused widget in the tree on screen, never in the
   discarded first layout. *)
Theorem C15_frame2_path_shown :
  forall oracle fuel (s : st) (t1 t2 : tree) (s' : st) (lay : Z),
  f_redraw (co s) = true ->
  frame2 oracle fuel s t1 t2 = Some s' -> layouts oracle fuel s t1 = Some lay ->
  exists D, log (co s') = log (co s) ++ D /\ root s' = root s /\
    last_frame s' = shown_tree lay t1 t2 /\
    (existsb focus_entry D = false ->
       focused (co s') = focused (co s) /\
       focus_chain_ws (root s) (shown_tree lay t1 t2) (focused (co s)) = Some (path s')).
Proof. intros oracle. exact (frame2_path_shown oracle (fun _ => false)). Qed.
Print Assumptions C15_frame2_path_shown.

(* ... hence a key event that arrives after such a tick is offered to the capturing ancestors
   of the tree on screen, then to the focused widget, then bubbles along that chain *)
Theorem C15_frames_key_after_tick :
  forall oracle capturer fuel (s : st) (t1 t2 : tree) (s1 : st) (lay : Z) (ev : event) (s2 : st),
  f_redraw (co s) = true ->
  frame2 oracle fuel s t1 t2 = Some s1 -> layouts oracle fuel s t1 = Some lay ->
  existsb focus_entry (skipn (length (log (co s))) (log (co s1))) = false ->
  is_focus_ev ev = false -> focus_handle oracle capturer fuel s1 ev = Some s2 ->
  exists ws D,
    focus_chain_ws (root s) (shown_tree lay t1 t2) (focused (co s)) = Some ws /\
    log (co s2) = log (co s1) ++ D /\ key_route_obs capturer ws (focused (co s)) ev D = true.
Proof. exact frames_key_after_tick. Qed.
Print Assumptions C15_frames_key_after_tick.

(* over one input (a tick with two layouts included) the FocusOut/FocusIn deliveries form one
   chain from the widget focused before to the one focused afterwards, which is the receiver
   of the last FocusIn *)
Theorem C15_frames_focus :
  forall oracle capturer, no_focus_from_focusout oracle ->
  forall fuel (s : st) (i : finput) (s' : st),
  f_nonfocus i -> fstep oracle capturer fuel s i = Some s' ->
  exists D, log (co s') = log (co s) ++ D /\
    focused (co s') = focus_after (focused (co s)) D /\
    focus_chain (focused (co s)) (focus_log D) = Some (focused (co s')).
Proof. exact fstep_focus. Qed.
Print Assumptions C15_frames_focus.

(* the hover observer of the frames stream ([f_hov]: hit test against the first layout, frame
   = the layout on screen) follows the mouse handler through every input *)
Theorem C15_frames_hover_tracked :
  forall oracle capturer fuel (s : st) (i : finput) (s' : st) (h : hov_st) (lay : Z),
  hov_tracks h s -> Forall wf16 (ftrees i) -> not_iframe i ->
  fstep oracle capturer fuel s i = Some s' ->
  match i with FFrame2 t1 _ => layouts oracle fuel s t1 = Some lay | _ => True end ->
  hov_tracks (f_hov h i lay) s'.
Proof. exact tracks_fstep. Qed.
Print Assumptions C15_frames_hover_tracked.

(* enter/leave alternate and every widget is hovered exactly when the observer expects it,
   over every history of App.Run with ticks whose two layouts differ and trees that change
   between ticks (no widget twice in one tree, no terminal FocusIn: the recorded findings) *)
Theorem C15_frames_hover_obs :
  forall oracle capturer fuel (r : wid) (l : list finput) (s0 s' : st) (h : hov_st),
  root s0 = r -> log (co s0) = [] -> last_hits s0 = [] -> NoDup (ids (last_frame s0)) ->
  Forall fobs_good l ->
  frun oracle capturer fuel s0 l = Some s' -> hov_tracks h s' ->
  hover_obs (fun _ => false) (log (co s')) (hv_set h) = true.
Proof. exact frames_hover_obs. Qed.
Print Assumptions C15_frames_hover_obs.

(* The predicate of the frames stream.  [f_inv rt sp s]: the observer [sp] (computed from the
   inputs, the observed calls and the number of layouts of each tick alone) is linked to the
   model state [s].  Every step of the model on an input of App.Run — key / application
   event, mouse, terminal FocusOut, Resize / Redraw, the prologue, a tick with two layouts —
   satisfies [f_step_ok] on its own output and keeps the link; the link holds at the start
   (C15_ex_frames_init).  Guard: no handler answers a FocusOut with a focus command (finding
   focus-in-focusout); the trees have uint16 sizes and show no widget twice (dup-widget). *)
Theorem C15_frames_step_sound :
  forall oracle capturer, no_focus_from_focusout oracle ->
  forall fuel (rt : wid) (sp : fspec) (s : st) (i : finput) (s' : st) (lay : Z),
  f_inv rt sp s -> f_app_input i = true ->
  Forall (fun t => NoDup (ids t) /\ wf16 t) (ftrees i) ->
  fstep oracle capturer fuel s i = Some s' -> f_lay oracle fuel s i lay ->
  let d := skipn (length (log (co s))) (log (co s')) in
  f_step_ok capturer rt sp i d lay = true /\ f_inv rt (f_next sp i d lay) s'.
Proof. exact frames_step_sound. Qed.
Print Assumptions C15_frames_step_sound.

(* ---------------------------------------------------------------- fuel *)

(* With a finite script (the k-th handler call returns the k-th command, nothing afterwards)
   the recursion always ends and the fuel the model is run with is enough: the out-of-fuel
   value None is never produced in the correspondence run. *)
Theorem C15_fuel_suffices :
  forall (script : list cmd) (capt : wid -> bool),
  (forall (l : list input) (s : st), Forall (fun i => input_depth i = O) l ->
     exists s', run (script_oracle script) capt (model_fuel script) s l = Some s') /\
  (forall (i : input) (s : st),
     exists s', step (script_oracle script) capt (model_fuel script + input_depth i) s i = Some s').
Proof. intros script capt. split; [intros l s; apply model_fuel_run|intros i s; apply model_fuel_step]. Qed.
Print Assumptions C15_fuel_suffices.

(* ---------------------------------------------------------------- findings: witnesses *)

Definition runs (script : list cmd) (capts : list wid) (r : wid) (l : list input) : option st :=
  run (script_oracle script) (capt_of capts) 50 (init_st r) l.

(* termfocus-enter: a terminal FocusIn sends MouseEnter to the root widget without recording
   it: when the terminal focus leaves again nobody sends MouseLeave (the root stays hovered
   with an empty hit list), and the next pointer event sends a second MouseEnter. *)
Theorem C15_termfocus_enter_refuted :
  match runs [] [] 0 [ITermFocusIn; ITermFocusOut] with
  | Some s => last_hits s = [] /\ hover_state false (hover_log 0 (log (co s))) = Some true
  | None => False
  end /\
  match runs [] [] 0 [IStart (Node 0 5 5 []); ITermFocusIn; IMouse 0 0] with
  | Some s => hover_log 0 (log (co s)) = [EEnter; EEnter] /\
              hover_state false (hover_log 0 (log (co s))) = None
  | None => False
  end.
Proof. vm_compute. repeat split; reflexivity. Qed.
Print Assumptions C15_termfocus_enter_refuted.

(* stale-path: the focus path is recomputed only by a frame.  Widget 2 (child of 1) has the
   focus when the frame is drawn; its handler then gives the focus to 3 (a sibling of 1).
   The next key goes to 3 (target) and then bubbles to 1, which is not an ancestor of 3:
   the order the property prescribes for the chain root -> 3 is not what happens. *)
Definition stale_tree := Node 0 10 5 [(0, 0, 0, Node 1 5 5 [(0, 0, 0, Node 2 2 2 [])]); (5, 0, 0, Node 3 5 5 [])].
Definition stale_script := [CFocus 2; CNone; CNone; CFocus 3].
Theorem C15_stale_path_refuted :
  match runs stale_script [] 0 [IStart stale_tree; IRedrawReq; IFrame stale_tree; IEv (EKey 1)] with
  | Some s =>
      match step (script_oracle stale_script) (capt_of []) 50 s (IEv (EKey 2)) with
      | Some s' =>
          focused (co s) = 3 /\ chain_to (last_frame s) 3 = Some [0; 3] /\
          let D := skipn (length (log (co s))) (log (co s')) in
          map entry_call D = [(3, EKey 2, Target); (1, EKey 2, Bubble); (0, EKey 2, Bubble)] /\
          routed_b (S (length D)) (EKey 2) (route_seq (capt_of []) [0; 3] 3) D = false
      | None => False
      end
  | None => False
  end.
Proof. vm_compute. repeat split; reflexivity. Qed.
Print Assumptions C15_stale_path_refuted.

(* focus-in-focusout: the FocusOut handler of widget 0 answers with a focus command for 2
   while the focus moves to 1: widget 0 gets two FocusOut, widget 2 gets a FocusIn and never
   a FocusOut although 1 ends up focused. *)
Theorem C15_focus_in_focusout_refuted :
  match runs [CFocus 1; CFocus 2] [] 0 [IEv (EKey 1)] with
  | Some s =>
      focus_log (log (co s)) = [(0, EFocusOut); (0, EFocusOut); (2, EFocusIn); (1, EFocusIn)] /\
      focus_chain 0 (focus_log (log (co s))) = None /\ focused (co s) = 1
  | None => False
  end.
Proof. vm_compute. repeat split; reflexivity. Qed.
Print Assumptions C15_focus_in_focusout_refuted.

(* overlap-siblings: hitTest descends into EVERY child that contains the point.  With two
   overlapping siblings 1 and 2 under the pointer the target is 2 (the last one) but 1, which
   is not an ancestor of 2, is offered the capture and the bubble call. *)
Definition overlap_tree := Node 0 10 5 [(0, 0, 0, Node 1 6 5 []); (4, 0, 0, Node 2 6 5 [])].
Theorem C15_overlap_siblings_refuted :
  match runs [] [1] 0 [IStart overlap_tree; IMouse 4 0] with
  | Some s =>
      pointer_chain overlap_tree 4 0 = [0; 2] /\
      let D := skipn 4 (log (co s)) in
      map entry_call D = [(1, EMouse 4 0, Capture); (2, EMouse 4 0, Target); (1, EMouse 4 0, Bubble); (0, EMouse 4 0, Bubble)] /\
      routed_b (S (length D)) (EMouse 4 0) (route_seq (capt_of [1]) [0; 2] 2) D = false
  | None => False
  end.
Proof. vm_compute. repeat split; reflexivity. Qed.
Print Assumptions C15_overlap_siblings_refuted.

(* dup-widget: a widget shown on two surfaces under the pointer gets two MouseEnter in a row *)
Theorem C15_dup_widget_refuted :
  match runs [] [] 0 [IStart (Node 0 5 5 [(0, 0, 0, Node 1 5 5 [(0, 0, 0, Node 1 3 3 [])])]); IMouse 0 0] with
  | Some s => hover_state false (hover_log 1 (log (co s))) = None
  | None => False
  end.
Proof. vm_compute. reflexivity. Qed.
Print Assumptions C15_dup_widget_refuted.

(* ---------------------------------------------------------------- non-vacuity *)

(* a key event consumed in the capture phase by the root: one call, nobody else is asked *)
Example C15_ex_key_consumed :
  match runs [CFocus 2] [0] 0 [IStart stale_tree; IRedrawReq; IFrame stale_tree] with
  | Some s =>
      match focus_handle (script_oracle [CFocus 2; CNone; CNone; CNone; CBatch false [CRedraw; CConsume]]) (capt_of [0]) 50 s (EKey 7) with
      | Some s' =>
          path s = [0; 1; 2] /\
          map entry_call (skipn (length (log (co s))) (log (co s'))) = [(0, EKey 7, Capture)] /\ f_redraw (co s') = true
      | None => False
      end
  | None => False
  end.
Proof. vm_compute. repeat split; reflexivity. Qed.

(* a key event nobody consumes: capture root, target 2, bubble 1, bubble 0 *)
Example C15_ex_key_full :
  match runs [CFocus 2] [0] 0 [IStart stale_tree; IRedrawReq; IFrame stale_tree] with
  | Some s =>
      match focus_handle (script_oracle [CFocus 2]) (capt_of [0]) 50 s (EKey 7) with
      | Some s' =>
          map entry_call (skipn (length (log (co s))) (log (co s'))) =
            [(0, EKey 7, Capture); (2, EKey 7, Target); (1, EKey 7, Bubble); (0, EKey 7, Bubble)]
      | None => False
      end
  | None => False
  end.
Proof. vm_compute. reflexivity. Qed.

(* the guard of C15_focus_change_once_history is satisfiable by an oracle that does move the focus *)
Definition ex_oracle : list entry -> wid -> event -> phase -> cmd :=
  fun _ _ ev _ => match ev with EKey k => CFocus k | _ => CNone end.
Example C15_ex_focus_guard :
  no_focus_from_focusout ex_oracle /\
  match run ex_oracle (fun _ => false) 50 (init_st 0) [IEv (EKey 1); IEv (EKey 2)] with
  | Some s => focus_log (log (co s)) = [(0, EFocusOut); (1, EFocusIn); (1, EFocusOut); (2, EFocusIn)] /\ focused (co s) = 2
  | None => False
  end.
Proof. split; [intros lg w ph; reflexivity|]. vm_compute. repeat split; reflexivity. Qed.

(* hover: enter root and child, move inside the child (leave+enter with new coordinates), leave *)
Example C15_ex_hover :
  match runs [] [] 0 [IStart overlap_tree; IMouse 0 0; IMouse 1 0; IMouse 20 0] with
  | Some s =>
      last_hits s = [] /\ hover_log 1 (log (co s)) = [EEnter; ELeave; EEnter; ELeave] /\
      hover_state false (hover_log 1 (log (co s))) = Some false
  | None => False
  end.
Proof. vm_compute. repeat split; reflexivity. Qed.

(* a nested batch: every leaf once, the terminal commands in order *)
Example C15_ex_batch :
  handle_cmd (script_oracle []) 50 (init_core 0)
    (CBatch false [COut 0 1; CBatch true [CRedraw; CBatch false [COut 1 2; CQuit]]; CNone; COut 0 1]) =
  Some (mkCore [] [COut 0 1; CRedraw; COut 1 2; CQuit; COut 0 1] true false true false false 0).
Proof. vm_compute. reflexivity. Qed.

(* non-vacuity: the hypotheses hold at the start of App.Run and of a direct history, and
   the three clauses are falsifiable *)
Example C15_ex_obs_hyps :
  hov_tracks (mkHov (Node 0 0 0 []) None []) (init_st 0) /\
  hov_tracks (mkHov (Node (-1) 0 0 []) None []) (d_init 0 0 [0]) /\
  wf16 overlap_tree /\ tree_wf (PUpdate overlap_tree).
Proof.
  assert (W : wf16 overlap_tree) by (repeat constructor; lia).
  repeat split; try exact W; try (repeat constructor; lia).
Qed.

(* a capture handler (root 0) moves the focus from 1 to 2 without consuming: the target call
   must go to 2; a target call to 1 is rejected *)
Example C15_ex_key_target :
  let good := [(0, EKey 9, Capture, CFocus 2); (1, EFocusOut, Target, CNone); (2, EFocusIn, Target, CNone);
               (2, EKey 9, Target, CNone); (0, EKey 9, Bubble, CNone)] in
  let bad  := [(0, EKey 9, Capture, CFocus 2); (1, EFocusOut, Target, CNone); (2, EFocusIn, Target, CNone);
               (1, EKey 9, Target, CNone); (0, EKey 9, Bubble, CNone)] in
  key_route_obs (capt_of [0]) [0; 1] 1 (EKey 9) good = true /\
  key_route_obs (capt_of [0]) [0; 1] 1 (EKey 9) bad = false.
Proof. vm_compute. split; reflexivity. Qed.

(* overlapping siblings 1 (below) and 2 (on top) at (4,0): the target must be 2 *)
Example C15_ex_mouse_target :
  let ev := EMouse 4 0 in
  mouse_route_obs (capt_of []) overlap_tree 4 0
    [(2, EEnter, Target, CNone); (2, ev, Target, CNone); (1, ev, Bubble, CNone); (0, ev, Bubble, CNone)] = true /\
  mouse_route_obs (capt_of []) overlap_tree 4 0
    [(1, EEnter, Target, CNone); (1, ev, Target, CNone); (0, ev, Bubble, CNone)] = false.
Proof. vm_compute. split; reflexivity. Qed.

(* the root shrinks away from a resting pointer at (8,0): the observer expects nobody hovered,
   a root that got no MouseLeave is rejected *)
Example C15_ex_hover_shrink :
  let h1 := hov_track false (mkHov (Node 0 10 5 []) None []) (IMouse 8 0) in
  let h2 := hov_track false h1 (PUpdate (Node 0 6 5 [])) in
  hv_set h1 = [0] /\ hv_set h2 = [] /\
  hover_obs (fun _ => false) [(0, EEnter, Target, CNone)] (hv_set h2) = false /\
  hover_obs (fun _ => false) [(0, EEnter, Target, CNone); (0, ELeave, Target, CNone)] (hv_set h2) = true.
Proof. vm_compute. repeat split; reflexivity. Qed.

(* ticks with two layouts.  Root 0 shows the focused input 1; the pointer rests at (0,2); the
   next tick first draws a panel 3 under the pointer (rl_t1), whose MouseEnter handler asks for
   a redraw, and the second layout (rl_t2) shows the input inside a capturing form 2: the tick
   is laid out twice, the path is root > form > input, the hit list is the one of the first
   layout, and a key is offered form:capture, input:target, form:bubble, root:bubble.  The
   observation predicate accepts that history and rejects the one in which the key skips the
   form (a path computed from the discarded first layout). *)
Definition rl_t0 := Node 0 20 5 [(0, 0, 0, Node 1 5 1 [])].
Definition rl_t1 := Node 0 20 5 [(0, 0, 0, Node 1 5 1 []); (0, 2, 0, Node 3 10 2 [])].
Definition rl_t2 := Node 0 20 5 [(0, 0, 0, Node 2 5 1 [(0, 0, 0, Node 1 5 1 [])]); (0, 2, 0, Node 3 10 2 [])].
Definition rl_script := [CFocus 1; CNone; CNone; CNone; CNone; CRedraw].
Definition rl_history (key_calls : list call3) : fcase :=
  ([2], 0, rl_script,
   [(FI (IStart rl_t0), ([(0, EInit, Target); (0, EFocusOut, Target); (1, EFocusIn, Target)], 0));
    (FI IRedrawReq, ([], 0));
    (FFrame2 rl_t0 rl_t0, ([], 1));
    (FI (IMouse 0 2), ([(0, EEnter, Target); (0, EMouse 0 2, Target)], 0));
    (FI IRedrawReq, ([], 0));
    (FFrame2 rl_t1 rl_t2, ([(3, EEnter, Target)], 2));
    (FI (IEv (EKey 7)), (key_calls, 0))]).
Example C15_ex_relayout :
  let good := [(2, EKey 7, Capture); (1, EKey 7, Target); (2, EKey 7, Bubble); (0, EKey 7, Bubble)] in
  let bad := [(1, EKey 7, Target); (0, EKey 7, Bubble)] in
  f_case_ok (rl_history good) = true /\ f_case_holds (rl_history good) = true /\
  f_case_ok (rl_history bad) = false /\ f_case_holds (rl_history bad) = false /\
  match frun (script_oracle rl_script) (capt_of [2]) 50 (init_st 0)
          [FI (IStart rl_t0); FI IRedrawReq; FFrame2 rl_t0 rl_t0; FI (IMouse 0 2); FI IRedrawReq; FFrame2 rl_t1 rl_t2] with
  | Some s => path s = [0; 2; 1] /\ last_frame s = sort_tree rl_t2 /\ map h_wid (last_hits s) = [0; 3]
  | None => False
  end.
Proof. vm_compute. repeat split; reflexivity. Qed.

(* the same widget 3 shown by two different parents (4, then 5) at the same place while the
   pointer rests on it: the old parent must get MouseLeave and the new one MouseEnter, and
   the next press is routed through the new parent *)
Definition sh_ta := Node 0 10 3 [(0, 0, 0, Node 4 10 3 [(0, 0, 0, Node 3 10 1 [])])].
Definition sh_tb := Node 0 10 3 [(0, 0, 0, Node 5 10 3 [(0, 0, 0, Node 3 10 1 [])])].
Definition sh_history (tick_calls press_calls : list call3) : fcase :=
  ([], 0, [],
   [(FI (IStart sh_ta), ([(0, EInit, Target)], 0));
    (FI (IMouse 3 0), ([(0, EEnter, Target); (4, EEnter, Target); (3, EEnter, Target);
                        (3, EMouse 3 0, Target); (4, EMouse 3 0, Bubble); (0, EMouse 3 0, Bubble)], 0));
    (FI IRedrawReq, ([], 0));
    (FFrame2 sh_tb sh_tb, (tick_calls, 1));
    (FI (IMouse 3 0), (press_calls, 0))]).
Example C15_ex_shared_widget :
  let press w := [(3, EMouse 3 0, Target); (w, EMouse 3 0, Bubble); (0, EMouse 3 0, Bubble)] in
  f_case_ok (sh_history [(4, ELeave, Target); (5, EEnter, Target)] (press 5)) = true /\
  f_case_holds (sh_history [(4, ELeave, Target); (5, EEnter, Target)] (press 5)) = true /\
  f_case_holds (sh_history [] (press 4)) = false /\
  f_case_holds (sh_history [(4, ELeave, Target); (5, EEnter, Target)] (press 4)) = false.
Proof. vm_compute. repeat split; reflexivity. Qed.

(* the hypotheses of C15_frames_step_sound hold at the start of App.Run and for the inputs of
   the two histories above *)
Example C15_ex_frames_init :
  f_inv 0 (f_spec_init 0) (init_st 0) /\
  f_app_input (FFrame2 rl_t1 rl_t2) = true /\
  Forall (fun t => NoDup (ids t) /\ wf16 t) (ftrees (FFrame2 rl_t1 rl_t2)) /\
  no_focus_from_focusout ex_oracle.
Proof.
  split; [apply f_init_inv|]. split; [reflexivity|]. split.
  - repeat constructor; cbn; try lia; intuition (try lia).
  - intros lg w ph. reflexivity.
Qed.
