(* C07 — only advertised terminal features are used; fallbacks are faithful.
   This file contains statements only; proofs live in proofs/.

   Colour fallback.  Two models of Color.asIndex: as_index (model/Colour.v, exact integer distance
   scaled by 10^4) and as_index_f (model/ColourFloat.v, the float64 arithmetic of the Go code:
   IEEE-754 binary64, round to nearest even, as specified by Coq's Floats.SpecFloat = the
   computational content of Flocq's binary64).  Proved: both return a nearest palette entry for
   every colour and every table; the float comparison follows the exact order on all of
   [-255,255]^3 x [-255,255]^3; the two models return the same entry unless the exact minimum is
   attained by two entries (and then they can differ: C07_float_int_can_differ).
   Capabilities from DECRPM replies: what every reply value establishes (model/CapReplies.v) and
   that the model of handleSequence + New's loop (model/Input.v) reports exactly that, for all
   lists of reports.
   Quirks (model/Quirks.v): terminal identity (XTVERSION / tertiary-DA replies) x environment
   variables -> corrected flags in closed form, and New's order quirks -> enableModes: modes set
   at start-up and after Resume, reported capabilities and the width method are those of one and
   the same flag set, for every environment and reply list (theorems C07_quirks_...).
   Still assumed (trusted base): the Go compiler evaluates the expression in binary64 without
   fusing multiply and add (true on amd64 with GOAMD64=v1; the differential run compares bit
   patterns of the same expression compiled by the same toolchain). *)
From Coq Require Import Floats.SpecFloat.
From Vx Require Import base.Prelude gen.GenPalette model.Colour model.ColourFloat model.RenderTypes model.Render model.Gate
  model.CapReplies proofs.ColourProofs proofs.ColourFloatProofs proofs.ColourFloatFlocq proofs.GateProofs.
From Vx Require model.Input proofs.CapRepliesProofs.

(* Without RGB support a colour is sent as Color.asIndex of it.  For every 32-bit colour
   value c: a non-RGB colour is unchanged; an RGB colour becomes a palette index n with
   16 <= n <= 255 whose palette entry is nearest to c under the weighted distance, i.e.
   no entry of the (translated) palette is strictly nearer. *)
Theorem C07_fallback_colour_nearest : forall c : Z,
  if is_rgb c
  then exists n best, as_index c = index_color n /\ 16 <= n <= 255 /\
                      zget colorIndex3 (n - 16) = Some best /\
                      forall v, In v colorIndex3 -> wdist (split3 c) best <= wdist (split3 c) v
  else as_index c = c.
Proof. intros c; exact (nearest_ok_spec colorIndex3 c (as_index c) (as_index_nearest c)). Qed.
Print Assumptions C07_fallback_colour_nearest.

(* ---- the float64 arithmetic of asIndex ---- *)

(* Order.  For all channel differences d, d' in [-255,255]^3 (all that uint8 channels can produce):
   if the exact weighted distance 900 dr^2 + 3481 dg^2 + 121 db^2 of d is strictly smaller than
   that of d', then Go's `trial(d) < trial(d')` is true (and `trial(d') < trial(d)` false), and
   `trial(d) == 0` holds exactly for d = (0,0,0). *)
Theorem C07_float_distance_order : forall dr dg db er eg eb,
  diff_ok dr && diff_ok dg && diff_ok db && diff_ok er && diff_ok eg && diff_ok eb = true ->
  (wd dr dg db < wd er eg eb ->
     f64ltb (fdist dr dg db) (fdist er eg eb) = true /\ f64ltb (fdist er eg eb) (fdist dr dg db) = false) /\
  (f64eqb (fdist dr dg db) f64zero = true <-> dr = 0 /\ dg = 0 /\ db = 0).
Proof. exact float_distance_order. Qed.
Print Assumptions C07_float_distance_order.

(* every trial value is +0 for the zero difference and otherwise a positive normal double within
   relative error 2^-49 of the exact distance (the predicate the differential run evaluates on
   the bit patterns Go produced); the model satisfies the whole per-case predicate *)
Theorem C07_float_trial_spec : forall dr dg db er eg eb o,
  diff_ok dr && diff_ok dg && diff_ok db && diff_ok er && diff_ok eg && diff_ok eb = true ->
  trial_ok dr dg db (bits64 (fdist dr dg db)) = true /\
  fcase_ok (dr, dg, db, (er, eg, eb), fcase_model (dr, dg, db, (er, eg, eb), o)) = true.
Proof. exact float_trial_spec. Qed.
Print Assumptions C07_float_trial_spec.

(* Nearest.  The float loop of asIndex (first strict float minimum in table order, early exit
   when dist == 0, uint8(i+16)), run on ANY table of at most 240 32-bit entries, returns for every
   colour value c: c itself if c is not RGB; otherwise a palette index n in 16..255 whose entry is
   at minimal exact weighted distance from c. *)
Theorem C07_float_asindex_nearest : forall (tbl : list Z) (c : Z),
  tbl <> [] -> zlen tbl <= 240 ->
  let pal := map split3 tbl in
  if is_rgb c
  then exists n best, as_index_f_pal pal c = index_color n /\ 16 <= n <= 255 /\
                      zget pal (n - 16) = Some best /\
                      forall v, In v pal -> wdist (split3 c) best <= wdist (split3 c) v
  else as_index_f_pal pal c = c.
Proof. exact float_asindex_nearest. Qed.
Print Assumptions C07_float_asindex_nearest.

(* the same for the palette of color.go *)
Theorem C07_float_fallback_colour_nearest : forall c : Z,
  if is_rgb c
  then exists n best, as_index_f c = index_color n /\ 16 <= n <= 255 /\
                      zget colorIndex3 (n - 16) = Some best /\
                      forall v, In v colorIndex3 -> wdist (split3 c) best <= wdist (split3 c) v
  else as_index_f c = c.
Proof. intros c; exact (nearest_ok_spec colorIndex3 c (as_index_f c) (as_index_f_nearest c)). Qed.
Print Assumptions C07_float_fallback_colour_nearest.

(* Ties.  Float and integer model return the same entry whenever exactly one table entry attains
   the exact minimum (bd = the minimum found by the integer scan) ... *)
Theorem C07_float_int_agree_unless_tie : forall (tbl : list Z) (c i bd : Z),
  zlen tbl <= 240 -> is_rgb c = true ->
  let pal := map split3 tbl in
  scan (split3 c) pal 0 None = Some (i, bd) -> min_count (split3 c) pal bd = 1 ->
  as_index_f_pal pal c = as_index_pal pal c.
Proof. exact float_int_agree_unless_tie. Qed.
Print Assumptions C07_float_int_agree_unless_tie.

(* ... and on an exact tie they may differ: for #346570 the entries 59 (#5f5f5f) and
   240 (#585858) are both at exact distance 1824385/10^4; the float values differ in the last bit and the
   float loop (like the Go code) takes the later entry, the integer scan the first. *)
Theorem C07_float_int_can_differ :
  let c := rgb_color 52 101 112 in
  as_index_f c = index_color 240 /\ as_index c = index_color 59 /\
  exists a b, zget colorIndex3 (240 - 16) = Some a /\ zget colorIndex3 (59 - 16) = Some b /\
              wdist (split3 c) a = wdist (split3 c) b /\
              f64ltb (fdist3 (split3 c) a) (fdist3 (split3 c) b) = true.
Proof. exact float_int_can_differ. Qed.
Print Assumptions C07_float_int_can_differ.

(* the function the differential run evaluates (integer scan when the minimum is unique, tabulated
   float loop otherwise) is the float model, for every colour *)
Theorem C07_checked_function_is_float_model : forall c : Z, as_index_x c = as_index_f c.
Proof. exact as_index_x_eq. Qed.
Print Assumptions C07_checked_function_is_float_model.

(* the model's arithmetic is Flocq's binary64: the same expression over
   Flocq.IEEE754.BinarySingleNaN (Bmult, Bplus, Bdiv, binary_normalize; prec 53, emax 1024,
   mode_NE) has the spec_float image fdist, for ALL integers; comparisons are Bltb / Beqb.
   (Depends on the axioms of the standard library's real numbers, because Flocq's operations
   contain proofs about reals; no other theorem of this file does.) *)
Theorem C07_fdist_is_flocq_binary64 : forall dr dg db : Z,
  BinarySingleNaN.B2SF (bdist dr dg db) = fdist dr dg db /\
  (forall x y : b64, BinarySingleNaN.Bltb x y = f64ltb (BinarySingleNaN.B2SF x) (BinarySingleNaN.B2SF y)) /\
  (forall x y : b64, BinarySingleNaN.Beqb x y = f64eqb (BinarySingleNaN.B2SF x) (BinarySingleNaN.B2SF y)).
Proof. intros dr dg db. exact (conj (bdist_sf dr dg db) (conj bltb_sf beqb_sf)). Qed.
Print Assumptions C07_fdist_is_flocq_binary64.

(* the palette the theorem speaks about is the one in color.go (translated on every run) *)
Theorem C07_palette_is_translated : colorIndex3 = map split3 colorIndex /\ zlen colorIndex = 240.
Proof. exact (conj colorIndex3_spec eq_refl). Qed.
Print Assumptions C07_palette_is_translated.

(* ---- capabilities established by DECRPM replies, for every reply value ---- *)

(* What a reply CSI ? Pd ; Ps $ y to a DECRQM query establishes: the mode is advertised exactly
   for Ps = 1 (set) and 2 (reset), and for 3 (permanently set) in the case of mode 2027 only;
   0 (not recognised), 4 (permanently reset), any other value, a missing or empty value and no
   reply establish nothing (model/CapReplies.v rpm_advertises). *)
Theorem C07_decrpm_value_meaning : forall m v,
  rpm_advertises m (RpmVal v) = true <-> (v = 1 \/ v = 2 \/ (m = 2027 /\ v = 3)).
Proof. exact CapRepliesProofs.decrpm_value_meaning. Qed.
Print Assumptions C07_decrpm_value_meaning.

(* For EVERY list of DECRPM reports a terminal sends before its DA1 reply - any modes (asked for
   or not), any values, reports without or with an empty value, several reports for one mode,
   any order - the capabilities that handleSequence + the start-up loop of New (the model of
   model/Input.v, tied to the code by C03 and by the rpm stream here) have collected when the
   loop ends are exactly the advertised ones: synchronized output iff some report advertises
   2026, Unicode core iff 2027, colour-scheme reports iff 2031, and no other capability. *)
Theorem C07_decrpm_reported_exactly_advertised : forall rs : list (Z * rpm),
  exists cp, reported_caps rs = Some cp /\
    Input.c_sync cp = mode_advertised 2026 rs /\
    Input.c_unicode cp = mode_advertised 2027 rs /\
    Input.c_theme cp = mode_advertised 2031 rs /\
    forall c, Input.caps_get cp c = cap_spec rs c.
Proof. exact CapRepliesProofs.decrpm_reported_exactly_advertised. Qed.
Print Assumptions C07_decrpm_reported_exactly_advertised.

(* Vocabulary gating.  For EVERY renderer state, every list of drawing calls and every kind of
   frame end, every token the renderer writes is in the vocabulary the advertised capability
   set allows: direct colour only with RGB (otherwise at most one parameter: a palette index),
   underline colour and 4:n styles only with styled underlines (otherwise plain 4 / 24), OSC 66
   only with explicit width, mode 2026 only with synchronized output, and only baseline SGR
   attribute codes.  (Modes set at start-up/shutdown - kitty keyboard, 2027, 8452, 2031 - are
   C04's lists.) *)
Theorem C07_vocab_gated : forall (s : vstate) (ops : list op) (e : frame_end),
  frame_allowed (v_caps s) (snd (do_frame s ops e)) = true.
Proof. exact frame_tokens_allowed. Qed.
Print Assumptions C07_vocab_gated.

(* without RGB support every colour is sent as at most one parameter *)
Theorem C07_no_rgb_one_param : forall cp c, cap_rgb cp = false -> zlen (col_params cp c) <= 1.
Proof. intros cp c H. unfold col_params. rewrite H. apply fallback_params_len. Qed.
Print Assumptions C07_no_rgb_one_param.

(* Width method: with Unicode core or explicit width advertised graphemes are measured the
   Unicode way, with the kitty quirk without ZWJ joining, otherwise per code point - whatever
   the three flags are (the definition is the specification here; the differential run compares
   RenderedWidth on real instances with the library's gwidth under the selected method). *)
Theorem C07_width_method_matches : forall u e n,
  width_method u e n = (if u || e then UnicodeStd else if n then NoZWJ else Wcwidth) /\
  (width_method u e n = UnicodeStd <-> u || e = true).
Proof. intros u e n. unfold width_method. split; [reflexivity|]. destruct (u || e); [tauto|]. destruct n; split; congruence. Qed.
Print Assumptions C07_width_method_matches.

(* non-vacuity of the hypotheses of the float theorems *)
Example C07_float_example :
  diff_ok 255 && diff_ok (-255) && diff_ok 0 && diff_ok 11 && diff_ok 0 && diff_ok 30 = true /\
  wd 0 0 29 < wd 11 0 0 /\ wd 11 0 0 = wd 0 0 30 /\
  (colorIndex <> [] /\ zlen colorIndex <= 240) /\
  (is_rgb (rgb_color 1 0 0) = true /\ scan (split3 (rgb_color 1 0 0)) colorIndex3 0 None = Some (0, 900) /\
   min_count (split3 (rgb_color 1 0 0)) colorIndex3 900 = 1) /\
  bits64 c30 = 4599075939470750515 /\ bits64 c59 = 4603489467105573601 /\ bits64 c11 = 4592590756007337001 /\
  bits64 (fdist 255 255 255) = 4673776059897578782.
Proof. vm_compute. repeat split; discriminate. Qed.

(* DECRPM: "permanently reset" advertises nothing, "permanently set" only Unicode core *)
Example C07_decrpm_example :
  mode_advertised 2027 [(2026, RpmVal 3); (2027, RpmVal 4); (2031, RpmEmpty)] = false /\
  mode_advertised 2026 [(2026, RpmVal 3); (2027, RpmVal 4); (2031, RpmEmpty)] = false /\
  mode_advertised 2027 [(2027, RpmVal 0); (2027, RpmVal 3)] = true.
Proof. repeat split. Qed.

(* non-vacuity: an RGB colour that is not a palette entry *)
Example C07_example : is_rgb (rgb_color 1 0 0) = true /\ as_index (rgb_color 1 0 0) = index_color 16.
Proof. vm_compute. split; reflexivity. Qed.

From Vx Require Import model.Parser model.Quirks proofs.QuirksProofs.

(* ---- quirks: terminal identity x environment -> ONE corrected flag set ---- *)

(* New's reply loop, for EVERY list of replies (DECRPM reports, XTVERSION replies, tertiary-DA
   replies of either kind, any number, any order) and either outcome of the explicit-width probe:
   the loop ends at the DA1 reply and has learned: Unicode core iff some report advertises 2027;
   explicit width iff the probe said so; styled underlines iff some tertiary-DA reply is VTE's;
   and the terminal's name is the text of the LAST XTVERSION reply - a tertiary-DA reply never
   names the terminal. *)
Theorem C07_startup_identity_and_flags : forall (ew : bool) (rs : list sreply),
  exists su, collected ew rs = Some su /\
    Input.c_unicode (Input.su_caps su) = spec_adv2027 rs /\
    Input.c_explicit (Input.su_caps su) = ew /\
    Input.c_nozwj (Input.su_caps su) = false /\
    Input.c_smulx (Input.su_caps su) = spec_vte rs /\
    Input.su_termid su = spec_termid [] rs.
Proof. exact collected_spec. Qed.
Print Assumptions C07_startup_identity_and_flags.

(* applyQuirks (identity rules, then the environment rules in source order) in closed form, for
   every environment and every state of New: it changes neither the name nor styled underlines,
   and the three width flags become
     unicode core   = FORCE_UNICODE or (not FORCE_WCWIDTH and (reported or name = "tmux 3.4"))
     explicit width = probed and not FORCE_WCWIDTH and not FORCE_NOZWJ
     no-ZWJ         = not DISABLE_NOZWJ and (FORCE_NOZWJ or already set or name starts with "kitty"). *)
Theorem C07_quirks_closed_form : forall (env : qenv) (su : Input.startup),
  let su' := apply_quirks_env env su in
  let id := Input.su_termid su in
  Input.su_termid su' = id /\ Input.c_smulx (Input.su_caps su') = Input.c_smulx (Input.su_caps su) /\
  flags_of (Input.su_caps su') =
    mkW (e_unicode env || (negb (e_wcwidth env) && (Input.c_unicode (Input.su_caps su) || zlist_eqb id s_tmux34)))
        (Input.c_explicit (Input.su_caps su) && negb (e_wcwidth env) && negb (e_nozwj env))
        (negb (e_no_nozwj env) && (e_nozwj env || Input.c_nozwj (Input.su_caps su) || Input.prefixb s_kitty id)).
Proof. exact apply_quirks_env_closed. Qed.
Print Assumptions C07_quirks_closed_form.

(* ONE AND THE SAME flag set.  For every environment, probe outcome, reply list and probe
   graphemes, the model of New (loop, quirks, THEN enterAltScreen/enableModes) + Suspend + Resume +
   Close yields: the name and the flags of the specification; the same flags after Resume; mode
   2027 set in New exactly when `unicode core and not explicit width` holds of THE REPORTED flags,
   reset in Suspend, set again in Resume, reset in Close exactly then; and every probe measured
   in both sessions with the method the reported flags select.  In particular
   unicode method <=> unicode core or explicit width, and mode 2027 set <=> unicode core reported
   and not explicit width, in the first session and after Suspend/Resume. *)
Theorem C07_quirks_one_flag_set : forall (env : qenv) (ew : bool) (rs : list sreply) (probes : list (Z * Z * Z)),
  exists o, quirk_model env ew rs probes = Some o /\
    o_termid o = spec_termid [] rs /\ o_smulx o = spec_vte rs /\
    o_flags o = spec_flags env ew rs /\ o_flags2 o = o_flags o /\
    o_counts o = phase_counts (b2n (uses_2027 (o_flags o))) (o_flags o) /\
    o_w1 o = map (probe_width (width_method (w_unicode (o_flags o)) (w_explicit (o_flags o)) (w_nozwj (o_flags o)))) probes /\
    o_w2 o = o_w1 o.
Proof. exact quirk_model_spec. Qed.
Print Assumptions C07_quirks_one_flag_set.

(* the model's output always satisfies the predicate the differential run evaluates on the
   implementation's observation, and an observation equal to the model's cannot raise an alarm *)
Theorem C07_quirks_model_satisfies_predicate : forall env ew rs probes,
  (exists o, quirk_model env ew rs probes = Some o /\ qobs_ok env ew rs probes o = true) /\
  (forall o, c07_quirk_mismatches [(env, ew, rs, probes, o)] = [] -> c07_quirk_violations [(env, ew, rs, probes, o)] = []).
Proof. intros env ew rs probes. split; [apply quirk_model_ok|intros o; apply quirk_agree_implies_ok]. Qed.
Print Assumptions C07_quirks_model_satisfies_predicate.

(* The order of New matters: with enableModes BEFORE applyQuirks, a terminal named "tmux 3.4" that
   does not report 2027 ends with Unicode core reported (and the Unicode width method) while mode
   2027 was not set in New - set only by a later Resume, and reset for a mode never set. *)
Theorem C07_quirks_order_matters :
  exists o, quirk_model_steps [NEnable; NQuirks] env0 false tmux34_replies [] = Some o /\
            qobs_ok env0 false tmux34_replies [] o = false /\
            w_unicode (o_flags o) = true /\ o_counts o = [(0, 0); (0, 1); (1, 0); (0, 1)].
Proof. exact quirks_after_enable_refuted. Qed.
Print Assumptions C07_quirks_order_matters.

(* examples: kitty that also answers the tertiary DA query with a unit id stays kitty (no-ZWJ
   method); FORCE_WCWIDTH on a terminal reporting 2027: per code point, mode 2027 never written *)
Example C07_quirks_example :
  let kitty := SXtversion [107; 105; 116; 116; 121; 40; 48; 46; 51; 53; 41] in
  let unit := SDa3 [48; 48; 48; 48; 48; 48; 48; 48] in
  spec_flags env0 false [kitty; unit] = mkW false false true /\
  spec_termid [] [kitty; unit] = [107; 105; 116; 116; 121; 40; 48; 46; 51; 53; 41] /\
  spec_flags (mkQenv true false false false) true [SRpm 2027 (RpmVal 2)] = mkW false false false /\
  (exists o, quirk_model (mkQenv true false false false) true [SRpm 2027 (RpmVal 2)] [] = Some o /\
             o_counts o = [(0, 0); (0, 0); (0, 0); (0, 0)]).
Proof. repeat split. eexists. split; [vm_compute; reflexivity|reflexivity]. Qed.

(* ---- quirks: the graphics protocol ---- *)
From Vx Require Import model.QuirksGfx proofs.QuirksGfxProofs.

(* New's steps in source order (reply loop, applyQuirks, the VAXIS_GRAPHICS switch,
   reportWinsize) settle, for EVERY combination of replies and environment, on: half blocks when
   no pixel size is known; otherwise the protocol an explicit VAXIS_GRAPHICS word names;
   otherwise half blocks under ASCIINEMA_REC; otherwise the best protocol the replies
   established (kitty, sixel), at least half blocks.  Model and specification therefore flag
   the same cases of any case list. *)
Theorem C07_quirks_graphics_protocol : forall i : gin,
  gfx_model i = gfx_spec i /\
  (forall cases, c07_gfx_mismatches cases = c07_gfx_violations cases).
Proof. intros i. split; [apply gfx_model_is_spec|apply gfx_agree_implies_ok]. Qed.
Print Assumptions C07_quirks_graphics_protocol.

(* with the quirks after the VAXIS_GRAPHICS switch an explicit choice is lost under asciinema *)
Theorem C07_quirks_graphics_order_matters :
  let i := mkGin false true true 5 true in
  gfx_run [GLoop; GEnvSwitch; GQuirks; GWinsize] i = 2 /\ gfx_spec i = 4.
Proof. exact gfx_quirks_last_refuted. Qed.
Print Assumptions C07_quirks_graphics_order_matters.
