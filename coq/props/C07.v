(* C07 — only advertised terminal features are used; fallbacks are faithful.
   This file contains statements only; proofs live in proofs/. *)
From Vx Require Import base.Prelude gen.GenPalette model.Colour model.RenderTypes model.Render model.Gate
  proofs.ColourProofs proofs.GateProofs.

(* Without RGB support a colour is sent as Color.asIndex of it.  For every 32-bit colour
   value c: a non-RGB colour is unchanged; an RGB colour becomes a palette index n with
   16 <= n <= 255 whose palette entry is nearest to c under the weighted distance, i.e.
   no entry of the (translated) palette is strictly nearer. *)
Theorem C07_fallback_colour_nearest : forall c : Z,
  if is_rgb c
  then exists n best, as_index c = index_color n /\ 16 <= n <= 255 /\
                      zget colorIndex3 (n - 16) = Some best /\
                      forall v, In v colorIndex3 -> wdist (split3 c) best <= wdist (split3 c) v
  else as_index c = c.
Proof. intros c; exact (nearest_ok_spec colorIndex3 c (as_index c) (as_index_nearest c)). Qed.
Print Assumptions C07_fallback_colour_nearest.

(* the palette the theorem speaks about is the one in color.go (translated on every run) *)
Theorem C07_palette_is_translated : colorIndex3 = map split3 colorIndex /\ zlen colorIndex = 240.
Proof. exact (conj colorIndex3_spec eq_refl). Qed.
Print Assumptions C07_palette_is_translated.

(* Vocabulary gating.  For EVERY renderer state, every list of drawing calls and every kind of
   frame end, every token the renderer writes is in the vocabulary the advertised capability
   set allows: direct colour only with RGB (otherwise at most one parameter: a palette index),
   underline colour and 4:n styles only with styled underlines (otherwise plain 4 / 24), OSC 66
   only with explicit width, mode 2026 only with synchronized output, and only baseline SGR
   attribute codes.  (Modes set at start-up/shutdown - kitty keyboard, 2027, 8452, 2031 - are
   C04's lists.) *)
Theorem C07_vocab_gated : forall (s : vstate) (ops : list op) (e : frame_end),
  frame_allowed (v_caps s) (snd (do_frame s ops e)) = true.
Proof. exact frame_tokens_allowed. Qed.
Print Assumptions C07_vocab_gated.

(* without RGB support every colour is sent as at most one parameter *)
Theorem C07_no_rgb_one_param : forall cp c, cap_rgb cp = false -> zlen (col_params cp c) <= 1.
Proof. intros cp c H. unfold col_params. rewrite H. apply fallback_params_len. Qed.
Print Assumptions C07_no_rgb_one_param.

(* Width method: with Unicode core or explicit width advertised graphemes are measured the
   Unicode way, with the kitty quirk without ZWJ joining, otherwise per code point - whatever
   the three flags are (the definition is the specification here; the differential run compares
   RenderedWidth on real instances with the library's gwidth under the selected method). *)
Theorem C07_width_method_matches : forall u e n,
  width_method u e n = (if u || e then UnicodeStd else if n then NoZWJ else Wcwidth) /\
  (width_method u e n = UnicodeStd <-> u || e = true).
Proof. intros u e n. unfold width_method. split; [reflexivity|]. destruct (u || e); [tauto|]. destruct n; split; congruence. Qed.
Print Assumptions C07_width_method_matches.

(* non-vacuity: an RGB colour that is not a palette entry *)
Example C07_example : is_rgb (rgb_color 1 0 0) = true /\ as_index (rgb_color 1 0 0) = index_color 16.
Proof. vm_compute. split; reflexivity. Qed.
