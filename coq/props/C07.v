(* C07 — only advertised terminal features are used; fallbacks are faithful.
   This file contains statements only; proofs live in proofs/. *)
From Vx Require Import base.Prelude gen.GenPalette model.Colour proofs.ColourProofs.

(* Without RGB support a colour is sent as Color.asIndex of it.  For every 32-bit colour
   value c: a non-RGB colour is unchanged; an RGB colour becomes a palette index n with
   16 <= n <= 255 whose palette entry is nearest to c under the weighted distance, i.e.
   no entry of the (translated) palette is strictly nearer. *)
Theorem C07_fallback_colour_nearest : forall c : Z,
  if is_rgb c
  then exists n best, as_index c = index_color n /\ 16 <= n <= 255 /\
                      zget colorIndex3 (n - 16) = Some best /\
                      forall v, In v colorIndex3 -> wdist (split3 c) best <= wdist (split3 c) v
  else as_index c = c.
Proof. intros c; exact (nearest_ok_spec colorIndex3 c (as_index c) (as_index_nearest c)). Qed.
Print Assumptions C07_fallback_colour_nearest.

(* the palette the theorem speaks about is the one in color.go (translated on every run) *)
Theorem C07_palette_is_translated : colorIndex3 = map split3 colorIndex /\ zlen colorIndex = 240.
Proof. exact (conj colorIndex3_spec eq_refl). Qed.
Print Assumptions C07_palette_is_translated.

(* non-vacuity: an RGB colour that is not a palette entry *)
Example C07_example : is_rgb (rgb_color 1 0 0) = true /\ as_index (rgb_color 1 0 0) = index_color 16.
Proof. vm_compute. split; reflexivity. Qed.
