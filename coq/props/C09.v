(* C09 — key decoding and binding matching are exact and protocol-independent.
   Statements only; proofs live in proofs/KeysProofs.v.  The model (model/Keys.v) follows key.go;
   the tables are translated from key.go on every run (gen/GenKeys.v).  [u : uni] is the package
   unicode as an oracle: every theorem holds for every oracle satisfying the stated hypotheses.
   The String() clause is stated three times: for all key events (C09_description_function_of_chord),
   for every encoding - legacy, kitty, xterm modifyOtherKeys - of 4672 chords against the chord's own
   Key value (C09_description_of_encoding, ..._encoding_independent, ..._after_history), and together
   with Matches for the both-expressible chords (C09_cross_protocol).  The model follows fix bc2c33a
   (a BS-coded Backspace report decodes to KeyBackspace); C09_own_binding_every_encoding is the theorem
   that fix makes true, C09_own_binding_unfixed_refuted shows it false of the code before. *)
From Vx Require Import base.Prelude gen.GenKeys model.Keys proofs.KeysProofs.
From Vx Require Import model.ParserTypes model.Parser model.KeysStream proofs.KeysStreamProofs.
Local Open Scope Z_scope.

(* ---------- matching ---------- *)

(* A binding (r, mods) matches a key event only if every modifier bit other than Shift (bit 0),
   Caps Lock (bit 6) and Num Lock (bit 7) is identical: Alt, Ctrl, Super, Hyper, Meta are bits 1-5. *)
Theorem C09_matches_sound : forall (u : uni) (k : key) (r mods : Z),
  matches u k r mods = true ->
  forall n, 0 <= n -> n <> 0 -> n <> 6 -> n <> 7 -> Z.testbit mods n = Z.testbit (k_mods k) n.
Proof. exact matches_sound_bits. Qed.
Print Assumptions C09_matches_sound.

(* Caps Lock and Num Lock never affect matching, on the event's side or on the binding's side. *)
Theorem C09_locks_irrelevant : forall (u : uni) (k : key) (r m1 m2 km1 km2 : Z),
  Z.ldiff m1 192 = Z.ldiff m2 192 -> Z.ldiff km1 192 = Z.ldiff km2 192 ->
  matches u (with_mods k km1) r m1 = matches u (with_mods k km2) r m2.
Proof. exact locks_irrelevant. Qed.
Print Assumptions C09_locks_irrelevant.

(* If the Shift bits of event and binding differ, one of the documented rules applies: the binding
   rune is the event's shifted code and the binding has no Shift; or the binding rune is a graphic
   non-letter equal to the key code or the shifted code; or the binding has Shift, its rune is
   lower-case and the event's text is that rune upper-cased. *)
Theorem C09_shift_forgiven_only : forall (u : uni) (k : key) (r mods : Z),
  matches u k r mods = true -> Z.testbit mods 0 <> Z.testbit (k_mods k) 0 ->
  (k_shifted k = r /\ Z.testbit mods 0 = false)
  \/ (u_letter u r = false /\ u_graphic u r = true /\ (k_code k = r \/ k_shifted k = r))
  \/ (Z.testbit mods 0 = true /\ u_lower u r = true /\ k_text k = [rune_fix (u_toupper u r)]).
Proof. exact shift_forgiven_only_prop. Qed.
Print Assumptions C09_shift_forgiven_only.

(* The chord the user pressed matches its own binding, whatever the lock state on either side. *)
Theorem C09_self_match : forall (u : uni) (k : key) (l1 l2 : Z),
  Z.ldiff l1 192 = 0 -> Z.ldiff l2 192 = 0 ->
  matches u (with_mods k (Z.lxor (k_mods k) l1)) (k_code k) (Z.lxor (k_mods k) l2) = true.
Proof. exact self_match. Qed.
Print Assumptions C09_self_match.

(* The predicate evaluated on the implementation's observations (stream "match") holds of the model. *)
Theorem C09_match_predicate_holds : forall (u : uni) (k : key) (r mods : Z),
  match_obs_ok u k r mods (matches u k r mods) = true.
Proof. exact match_obs_ok_model. Qed.
Print Assumptions C09_match_predicate_holds.

(* ---------- decoding ---------- *)

(* The translated tables say what the protocols say (spec_table is written by hand from the xterm /
   VT220 function-key numbers and the kitty functional-key numbers): for every number and final. *)
Theorem C09_tables_exact :
  (forall n fin, special_code n fin = spec_code n fin) /\ ss3Keys = ss3_spec.
Proof. exact (conj special_code_exact ss3_table_exact). Qed.
Print Assumptions C09_tables_exact.

(* legacy byte: a printed character; upper-case = Shift + lower-case letter with the shifted code;
   DEL = Backspace.  For every rune and every oracle in which case mapping does not produce DEL. *)
Theorem C09_decode_legacy_byte : forall (u : uni) (r : Z) (rest : list Z),
  u_upper u 127 = false -> (u_upper u r = true -> u_tolower u r <> 127) ->
  decode_key u (SPrint (r :: rest)) =
    if r =? 127 then mkKey [] KeyBackspace 0 0 0 0
    else if u_upper u r then mkKey (r :: rest) (u_tolower u r) r 0 ModShift 0
    else mkKey (r :: rest) r 0 0 0 0.
Proof. exact decode_print_roundtrip. Qed.
Print Assumptions C09_decode_legacy_byte.

Theorem C09_decode_c0 : forall (u : uni) (b : Z), 0 <= b < 32 ->
  decode_key u (SC0 b) =
    if b =? 8 then mkKey [] KeyBackspace 0 0 0 0
    else if b =? 9 then mkKey [] KeyTab 0 0 0 0
    else if b =? 13 then mkKey [] KeyEnter 0 0 0 0
    else if b =? 27 then mkKey [] KeyEsc 0 0 0 0
    else if b =? 0 then mkKey [] 64 0 0 ModCtrl 0
    else if b <=? 26 then mkKey [] (b + 96) 0 0 ModCtrl 0
    else mkKey [] (b + 64) 0 0 ModCtrl 0.
Proof. exact decode_c0_roundtrip. Qed.
Print Assumptions C09_decode_c0.

Theorem C09_decode_esc : forall (u : uni) (i : list Z) (c : Z),
  decode_key u (SESC i c) = mkKey [] c 0 0 ModAlt 0.
Proof. exact decode_esc_roundtrip. Qed.
Print Assumptions C09_decode_esc.

Theorem C09_decode_ss3 : forall (u : uni) (c k : Z),
  lookup1 ss3_spec c = Some k -> decode_key u (SSS3 c) = mkKey [] k 0 0 0 0.
Proof. exact decode_ss3_roundtrip. Qed.
Print Assumptions C09_decode_ss3.

(* CSI n[:s[:b]] [; m[:e] [; text]] F — this is `CSI n;m ~`, `CSI 1;m X` and `CSI ... u` with every
   combination of the optional fields (absent, or present and empty = 0), all 31-bit key codes,
   all modifier values, all event types, all texts.  [shape_spec]: code by the protocol tables,
   modifiers m-1 (none when absent/empty), event e-1 (press when absent/empty), the given text, or
   the documented Shift work-around text; back-tab (CSI [1;m] Z) is Tab with Shift added. *)
Theorem C09_decode_csi : forall (u : uni) (x : csi_shape),
  shape_ok x = true -> decode_key u (shape_seq x) = shape_spec u x.
Proof. exact decode_shape_roundtrip. Qed.
Print Assumptions C09_decode_csi.

(* xterm modifyOtherKeys: CSI 27 ; m ; k ~ *)
Theorem C09_decode_other_keys : forall (u : uni) (m k : Z),
  small m = true -> small k = true -> decode_key u (other_keys_seq m k) = other_keys_spec u m k.
Proof. exact decode_other_keys_roundtrip. Qed.
Print Assumptions C09_decode_other_keys.

(* The predicate evaluated on the implementation's observations (stream "decode"): whatever an
   encoding specifies is what the model decodes. *)
Theorem C09_decode_predicate_holds : forall (u : uni) (e : encoding) (k : key),
  u_upper u 127 = false -> (forall r, u_upper u r = true -> u_tolower u r <> 127) ->
  enc_spec u e = Some k -> decode_key u (enc_seq e) = k.
Proof. exact enc_roundtrip. Qed.
Print Assumptions C09_decode_predicate_holds.

(* ---------- cross-protocol ---------- *)

(* [both_expressible] (model/Keys.v, fixed before the check was first run): printable ASCII typed
   without Shift; Shift+letter (legacy: the upper-case byte); Alt+character (ESC c) for the c that
   form a complete escape sequence; Alt+Shift+letter (ESC C); Ctrl+letter except h i m, Ctrl+\ and
   Ctrl+]; Tab, Shift+Tab, Enter, Esc, Backspace, Alt+Backspace; arrows, Home, End, Insert, Delete,
   PgUp, PgDown, KP_Begin, F1-F20 with each of the 64 modifier sets.  [legacy_encs]/[kitty_encs] list
   every legacy / kitty encoding of the chord (SS3 and CSI forms, with or without alternate codes,
   base-layout code, text, explicit press event, Caps/Num Lock bits).
   For every such chord and every pair of encodings outside the two recorded findings, the decoded
   keys have the same String() and match exactly the same bindings (r, mods), r <> 0 (the rune 0
   stands for "unset" in Key).  For every oracle that agrees with ASCII on ASCII, has no class for
   out-of-range values, and never upper-cases a lower-case rune to an ASCII non-letter. *)
Theorem C09_cross_protocol : forall (u : uni), upper_hyp u -> ascii_like u ->
  forall (c : chord) (sl sk : kseq),
  In c both_expressible -> In sl (legacy_encs c) -> In sk (kitty_encs c) ->
  guard_esc_upper c = false -> guard_shift_noalt c sk = false ->
  key_string u (decode_key u sl) = key_string u (decode_key u sk) /\
  forall r mods, r <> 0 -> matches u (decode_key u sl) r mods = matches u (decode_key u sk) r mods.
Proof.
  intros u H1 H2 c sl sk Hc Hl Hk G1 G2. apply (cross_protocol u H1 H2 c sl sk Hc Hl Hk).
  unfold cross_guard. now rewrite G1, G2.
Qed.
Print Assumptions C09_cross_protocol.

(* finding esc-upper: Alt+Shift+a. legacy ESC A decodes to "Alt+A", kitty CSI 97:65;4u to "Alt+Shift+a";
   the binding Alt+Shift+a matches only the kitty event. *)
Theorem C09_cross_protocol_esc_upper_refuted :
  let c := mkChord 97 3 in let sl := SESC [] 65 in let sk := SCSI [] [[97; 65]; [4]] 117 in
  In c both_expressible /\ In sl (legacy_encs c) /\ In sk (kitty_encs c) /\ guard_esc_upper c = true /\
  key_string ascii_uni (decode_key ascii_uni sl) = [65; 108; 116; 43; 65] /\
  key_string ascii_uni (decode_key ascii_uni sk) = [65; 108; 116; 43; 83; 104; 105; 102; 116; 43; 97] /\
  matches ascii_uni (decode_key ascii_uni sl) 97 3 = false /\
  matches ascii_uni (decode_key ascii_uni sk) 97 3 = true.
Proof. exact cross_esc_upper_refuted. Qed.
Print Assumptions C09_cross_protocol_esc_upper_refuted.

(* finding kitty-shift-without-alternate: Shift+a. legacy byte A matches the binding ('A', no mods);
   kitty CSI 97;2u (no shifted alternate code) does not. *)
Theorem C09_cross_protocol_shift_noalt_refuted :
  let c := mkChord 97 1 in let sl := SPrint [65] in let sk := SCSI [] [[97]; [2]] 117 in
  In c both_expressible /\ In sl (legacy_encs c) /\ In sk (kitty_encs c) /\ guard_shift_noalt c sk = true /\
  matches ascii_uni (decode_key ascii_uni sl) 65 0 = true /\
  matches ascii_uni (decode_key ascii_uni sk) 65 0 = false.
Proof. exact cross_shift_noalt_refuted. Qed.
Print Assumptions C09_cross_protocol_shift_noalt_refuted.

(* ---------- the description (String()) under every encoding ---------- *)

(* String() is a function of the chord: two key events that are the same key (the code points BS and
   DEL are both Backspace), carry the same Shift/Alt/Ctrl/Super/Hyper/Meta set (none for a release) and,
   for a key printed as a rune, the same Caps Lock state, have the same String().  For ALL key events
   (any code, text, alternate codes, 64-bit masks, event types) and every oracle.  This is also the second
   predicate of stream "string" (a key and a variation of it built by the harness): it holds of the model. *)
Theorem C09_description_function_of_chord : forall (u : uni) (a b : key),
  kdesc_equivb a b = true -> key_string u a = key_string u b.
Proof. intros u a b H. exact (kdesc_equiv_sound a b H u). Qed.
Print Assumptions C09_description_function_of_chord.

(* [desc_chord]: a printable ASCII character as typed without Shift, Tab, Enter, Esc or Backspace with any
   of the 64 sets of Shift/Alt/Ctrl/Super/Hyper/Meta.  [all_encs]: every legacy encoding, every kitty
   encoding (as above) and every xterm modifyOtherKeys report of the chord (CSI 27;m;code~ and CSI code;m u
   with lock bits, explicit press event, absent modifier field; Backspace under both of its code points,
   DEL and BS).  Whatever the encoding, the decoded key is described exactly as the Key value a program
   writes for the chord, Key{Keycode, Modifiers} ([chord_key]); the legacy ESC <upper-case letter> form of
   the recorded finding esc-upper is the only exclusion. *)
Theorem C09_description_of_encoding : forall (u : uni), ascii_like u ->
  forall (c : chord) (s : kseq),
  desc_chord c = true -> In s (all_encs c) -> guard_esc_upper_seq c s = false ->
  key_string u (decode_key u s) = key_string u (chord_key c).
Proof. exact description_of_encoding. Qed.
Print Assumptions C09_description_of_encoding.

(* hence any two encodings of the chord - legacy, kitty or xterm, DEL-coded or BS-coded - yield the
   same String(), for all 64 modifier sets (also those no legacy byte can express) *)
Theorem C09_description_encoding_independent : forall (u : uni), ascii_like u ->
  forall (c : chord) (s1 s2 : kseq),
  desc_chord c = true -> In s1 (all_encs c) -> In s2 (all_encs c) ->
  guard_esc_upper_seq c s1 = false -> guard_esc_upper_seq c s2 = false ->
  key_string u (decode_key u s1) = key_string u (decode_key u s2).
Proof. exact description_encoding_independent. Qed.
Print Assumptions C09_description_encoding_independent.

(* The predicate evaluated on the implementation's observations (stream "desc") holds of the model. *)
Theorem C09_desc_predicate_holds : forall (u : uni), ascii_like u ->
  forall (c : chord) (s1 s2 : kseq),
  desc_chord c = true -> In s1 (all_encs c) -> In s2 (all_encs c) ->
  desc_obs_ok c s1 s2 (key_string u (chord_key c))
              (key_string u (decode_key u s1)) (key_string u (decode_key u s2)) = true.
Proof. exact desc_obs_ok_model. Qed.
Print Assumptions C09_desc_predicate_holds.

(* ---------- the chord the user pressed matches its own binding under every encoding ---------- *)

(* MatchString of a printed binding, for ANY event k and any printed key k0 in [sm_scope]:
   k.MatchString(k0.String()) = k.Matches(k0.Keycode, k0.Modifiers). *)
Theorem C09_binding_string_of_key : forall (u : uni), lower_hyp u -> fold_hyp u ->
  forall k0 k : key, sm_scope k0 = true ->
  match_string u k (key_string u k0) = matches u k (k_code k0) (k_mods k0).
Proof. exact string_binding_parse. Qed.
Print Assumptions C09_binding_string_of_key.

(* For each of the 4672 chords of [desc_chord] and EVERY encoding in [all_encs] (legacy bytes, kitty reports
   with or without alternates / text / lock bits / press event, xterm modifyOtherKeys reports, Backspace
   under both code points): the decoded key matches the chord's binding (code, modifiers), and - unless
   the binding string is unparseable, recorded finding plus-binding - MatchString of its own String().
   Explicit guards: esc-upper (the legacy ESC <upper-case letter> form) and plus-binding ('+' with
   modifiers); kitty-shift-without-alternate concerns the binding of the upper-case rune, not the chord's
   own binding (lower-case code with Shift), and needs no guard here. *)
Theorem C09_own_binding_every_encoding : forall (u : uni), ascii_like u -> lower_hyp u -> fold_hyp u ->
  forall (c : chord) (s : kseq),
  desc_chord c = true -> In s (all_encs c) -> guard_esc_upper_seq c s = false ->
  matches u (decode_key u s) (ch_code c) (ch_mods c) = true /\
  (guard_plus_binding c = false ->
   match_string u (decode_key u s) (key_string u (decode_key u s)) = true).
Proof.
  intros u Ha Hl Hf c s Hc Hs Hg. split.
  - exact (own_binding_matches u Ha c s Hc Hs Hg).
  - intros Hp. exact (own_binding_string u Ha Hl Hf c s Hc Hs Hg Hp).
Qed.
Print Assumptions C09_own_binding_every_encoding.

(* The instance fix bc2c33a makes true: Backspace with any modifier set, under every encoding - the C0
   byte BS, the byte DEL, ESC DEL, CSI 127;m u, CSI 8;m u, CSI 27;m;127~, CSI 27;m;8~, with lock bits -
   matches the binding (KeyBackspace, mods) and the binding string that is its own String(). *)
Theorem C09_backspace_own_binding : forall (u : uni), ascii_like u -> lower_hyp u -> fold_hyp u ->
  forall (m : Z) (s : kseq), 0 <= m <= 63 -> In s (all_encs (mkChord KeyBackspace m)) ->
  matches u (decode_key u s) KeyBackspace m = true /\
  match_string u (decode_key u s) (key_string u (decode_key u s)) = true.
Proof. exact backspace_own_binding. Qed.
Print Assumptions C09_backspace_own_binding.

(* ... and was false of decodeKey before that fix ([decode_key_unfixed]: no BS normalisation in the CSI
   case): Ctrl+Backspace as CSI 27;5;8~ kept key code 8 and matched neither binding. *)
Theorem C09_own_binding_unfixed_refuted :
  let c := mkChord KeyBackspace 4 in let s := SCSI [] [[27]; [5]; [8]] 126 in
  desc_chord c = true /\ existsb (kseq_eqb s) (all_encs c) = true /\ guard_esc_upper_seq c s = false /\
  guard_plus_binding c = false /\
  k_code (decode_key_unfixed ascii_uni s) = 8 /\
  matches ascii_uni (decode_key_unfixed ascii_uni s) KeyBackspace 4 = false /\
  match_string ascii_uni (decode_key_unfixed ascii_uni s) (key_string ascii_uni (decode_key_unfixed ascii_uni s)) = false /\
  matches ascii_uni (decode_key ascii_uni s) KeyBackspace 4 = true.
Proof. exact own_binding_unfixed_refuted. Qed.
Print Assumptions C09_own_binding_unfixed_refuted.

(* The second predicate of stream "desc" (own binding on every observation) holds of the model. *)
Theorem C09_own_predicate_holds : forall (u : uni), ascii_like u -> lower_hyp u -> fold_hyp u ->
  forall (c : chord) (s : kseq), desc_chord c = true -> In s (all_encs c) ->
  own_obs_ok c s (matches u (decode_key u s) (ch_code c) (ch_mods c))
                 (match_string u (decode_key u s) (key_string u (decode_key u s))) = true.
Proof. exact own_obs_ok_model. Qed.
Print Assumptions C09_own_predicate_holds.

(* ---------- one long-lived parser instance: a report decodes the same after any history ---------- *)
(* model/KeysStream.v composes decodeKey with the model of ansi/parser.go (model/Parser.v, interpreting
   the tables translated from parser.go on every run).  [report]: a typed character, a control byte,
   ESC c (including ESC \, Alt+\), SS3 c, any complete CSI (key report in the legacy or the kitty
   encoding, or a terminal reply such as DA1, DECRPM, CPR, the kitty flags answer), an OSC reply
   terminated by BEL or by ST.  [clean_b]: the parser is in ground, ST suppression off, no pending exit
   action, no collected OSC payload.

   From ANY clean parser state, i.e. whatever went through the same instance before, a report
   delivers exactly what it delivers on its own ([report_items]: one sequence, with exactly its
   intermediates, decoded parameters, final or payload) and leaves the parser clean again: no parser
   state survives from one report to the next. *)
Theorem C09_report_from_any_clean_state : forall (p : pst) (r : report),
  clean_b p = true -> report_ok r = true ->
  exists p', feed p (report_wire r) = (p', report_items r, true) /\ clean_b p' = true.
Proof. exact report_from_clean_b. Qed.
Print Assumptions C09_report_from_any_clean_state.

(* Hence the event stream (delivered sequence, decoded Key) of any history of reports is the
   concatenation of what each report yields when it is the only input of a fresh parser. *)
Theorem C09_stream_history_independent : forall (u : uni) (p : pst) (rs : list report),
  clean_b p = true -> Forall (fun r => report_ok r = true) rs ->
  run_events u p (flat_map report_wire rs) = flat_map (fun r => run_events u pinit (report_wire r)) rs.
Proof. exact stream_history_independent_b. Qed.
Print Assumptions C09_stream_history_independent.

(* Bridge from bytes to the sequences the decode theorems are stated on: the wire form of a sequence
   ([kseq_wire]: the character, the control byte, ESC c, ESC O c, ESC [ n:s:b;m:e;t... F with the
   numbers in decimal) is delivered as exactly that sequence, once, after any history; so
   C09_decode_* and C09_decode_predicate_holds say what the BYTES decode to, whatever was typed or
   answered before. *)
Theorem C09_key_after_history : forall (u : uni) (p : pst) (hist : list report) (s : kseq) (w : list Z),
  clean_b p = true -> Forall (fun r => report_ok r = true) hist -> kseq_wire s = Some w ->
  run_events u p (flat_map report_wire hist ++ w) =
  run_events u p (flat_map report_wire hist) ++ [(s, decode_key u s)].
Proof. exact key_after_history_b. Qed.
Print Assumptions C09_key_after_history.

(* The Esc key (a lone ESC byte followed by silence: the escape timer fires), from any clean state *)
Theorem C09_esc_key_from_any_clean_state : forall p : pst, clean_b p = true ->
  exists p1 p2, feed p [27] = (p1, [], true) /\ timer_fire p1 = (p2, [IC0 27]) /\ clean_b p2 = true.
Proof. exact lone_esc_clean_b. Qed.
Print Assumptions C09_esc_key_from_any_clean_state.

(* Byte level, one parser instance from creation to the end of its input: the predicate the stream
   check evaluates on the implementation (first clause of c09_stream_violations) holds of the model. *)
Theorem C09_stream_predicate_holds : forall (u : uni) (rs : list report),
  Forall (fun r => report_ok r = true) rs ->
  Forall (fun r => forallb (fun b => in_range b 0 127) (report_wire r) = true) rs ->
  stream_events u [flat_map report_wire rs] = flat_map (fun r => stream_events u [report_wire r]) rs.
Proof. exact stream_bytes_independent_b. Qed.
Print Assumptions C09_stream_predicate_holds.

(* Every legacy and every kitty encoding of every both-expressible chord has a wire form (the Esc
   key itself is the lone ESC byte of the theorem above). *)
Theorem C09_chord_encodings_have_wire : chords_have_wire = true.
Proof. exact chords_have_wire_true. Qed.
Print Assumptions C09_chord_encodings_have_wire.

(* The cross-encoding clause regardless of what was typed before: after any history of reports
   through the same parser instance, the legacy bytes and the kitty bytes of a both-expressible chord
   each add exactly one event, and the two keys have the same String() and match the same bindings. *)
Theorem C09_cross_protocol_after_history : forall (u : uni), upper_hyp u -> ascii_like u ->
  forall (hist : list report) (c : chord) (sl sk : kseq) (wl wk : list Z),
  Forall (fun r => report_ok r = true) hist ->
  In c both_expressible -> In sl (legacy_encs c) -> In sk (kitty_encs c) ->
  guard_esc_upper c = false -> guard_shift_noalt c sk = false ->
  kseq_wire sl = Some wl -> kseq_wire sk = Some wk ->
  let h := flat_map report_wire hist in
  exists kl kk,
    run_events u pinit (h ++ wl) = run_events u pinit h ++ [(sl, kl)] /\
    run_events u pinit (h ++ wk) = run_events u pinit h ++ [(sk, kk)] /\
    key_string u kl = key_string u kk /\
    forall r mods, r <> 0 -> matches u kl r mods = matches u kk r mods.
Proof. exact cross_after_history. Qed.
Print Assumptions C09_cross_protocol_after_history.

(* Every encoding of every described chord has a wire form (the Esc key itself is the lone ESC byte),
   and the description clause holds regardless of what was typed before: after any history of reports
   through the same parser instance the bytes of the encoding add exactly one event, described as the
   chord's own Key value. *)
Theorem C09_desc_encodings_have_wire : desc_have_wire = true.
Proof. exact desc_have_wire_true. Qed.
Print Assumptions C09_desc_encodings_have_wire.

Theorem C09_description_after_history : forall (u : uni), ascii_like u ->
  forall (hist : list report) (c : chord) (s : kseq) (w : list Z),
  Forall (fun r => report_ok r = true) hist ->
  desc_chord c = true -> In s (all_encs c) -> guard_esc_upper_seq c s = false ->
  kseq_wire s = Some w ->
  let h := flat_map report_wire hist in
  exists k,
    run_events u pinit (h ++ w) = run_events u pinit h ++ [(s, k)] /\
    key_string u k = key_string u (chord_key c).
Proof. exact description_after_history. Qed.
Print Assumptions C09_description_after_history.

(* ---------- binding strings ---------- *)

(* The binding-string parser reads back what String() prints: for each of the 64 combinations of
   Meta/Hyper/Super/Ctrl/Alt/Shift printed in String()'s order ([pre_b]), followed by a key name or a
   rune without '+', MatchString is Matches on exactly that modifier mask ([mask_b]) and on the key the
   name stands for ([name_target]: the rune itself, or the first keyNames entry equal under case folding). *)
Theorem C09_binding_string_parse : forall (u : uni), lower_hyp u ->
  forall (k : key) (b5 b4 b3 b2 b1 b0 : bool) (name : list Z),
  noplus name = true -> name <> [] ->
  match_string u k (pre_b b5 b4 b3 b2 b1 b0 ++ name) = matches u k (name_target u name) (mask_b b5 b4 b3 b2 b1 b0).
Proof. exact match_string_printed_b. Qed.
Print Assumptions C09_binding_string_parse.

(* The chord the user pressed matches its own binding string: MatchString (String k) for every key event
   in [sm_scope]: not a release (String drops the modifiers of a release), no Caps Lock (String upper-cases
   the rune), any of the 256 masks otherwise, and a key that is a valid rune from '!' on other than '+' and
   DEL, or a named key whose name leads back to it (all of keyNames except the finding
   keyname-print-duplicate, see C09_name_unique_failures). *)
Theorem C09_string_self_match : forall (u : uni), lower_hyp u -> fold_hyp u ->
  forall k : key, sm_scope k = true -> match_string u k (key_string u k) = true.
Proof. exact string_self_match. Qed.
Print Assumptions C09_string_self_match.

Theorem C09_name_unique_failures :
  map fst (filter (fun kn => negb (name_unique (fst kn))) keyNames) = [KeyPrintScreen].
Proof. exact name_unique_failures. Qed.
Print Assumptions C09_name_unique_failures.

(* ---------- non-vacuity ---------- *)
Example C09_ex_sound : matches ascii_uni (mkKey [65] 97 65 0 1 0) 65 0 = true
                       /\ matches ascii_uni (mkKey [65] 97 65 0 1 0) 65 4 = false.
Proof. vm_compute. split; reflexivity. Qed.
Example C09_ex_shift : matches ascii_uni (mkKey [58] 59 58 0 1 0) 58 0 = true
                       /\ Z.testbit 0 0 <> Z.testbit (k_mods (mkKey [58] 59 58 0 1 0)) 0.
Proof. split; [vm_compute; reflexivity|discriminate]. Qed.
Example C09_ex_oracle : u_upper ascii_uni 127 = false /\ (forall r, u_upper ascii_uni r = true -> u_tolower ascii_uni r <> 127).
Proof. exact ascii_uni_hyps. Qed.
Example C09_ex_csi :
  shape_ok (mkShape 97 65 0 1 6 3 2 (Some [1]) 117) = true /\
  decode_key ascii_uni (shape_seq (mkShape 97 65 0 1 6 3 2 (Some [1]) 117)) = mkKey [1] 97 65 0 5 2 /\
  shape_ok (mkShape 1 0 0 0 5 0 1 None 90) = true /\
  decode_key ascii_uni (shape_seq (mkShape 1 0 0 0 5 0 1 None 90)) = mkKey [] 9 0 0 5 0 /\
  decode_key ascii_uni (shape_seq (mkShape 57376 0 0 0 0 0 0 None 117)) = mkKey [] KeyF13 0 0 0 0.
Proof. vm_compute. repeat split; reflexivity. Qed.
Example C09_ex_ss3 : lookup1 ss3_spec 80 = Some KeyF01.
Proof. reflexivity. Qed.
Example C09_ex_cross_hyps : upper_hyp ascii_uni /\ ascii_like ascii_uni.
Proof. exact (conj ascii_uni_upper_hyp ascii_uni_like). Qed.
Example C09_ex_cross_size : zlen both_expressible = 2181.
Proof. vm_compute. reflexivity. Qed.
Example C09_ex_string_hyps : lower_hyp ascii_uni /\ fold_hyp ascii_uni.
Proof. exact (conj ascii_uni_lower_hyp ascii_uni_fold_hyp). Qed.
Example C09_ex_string_scope :
  sm_scope (mkKey [] KeyUp 0 0 (16 + 4 + 128) 0) = true /\
  key_string ascii_uni (mkKey [] KeyUp 0 0 (16 + 4 + 128) 0) = [72; 121; 112; 101; 114; 43; 67; 116; 114; 108; 43; 85; 112] /\
  sm_scope (mkKey [58] 59 58 0 1 0) = true /\ sm_scope (mkKey [] KeyPrintScreen 0 0 0 0) = false.
Proof. vm_compute. repeat split; reflexivity. Qed.
(* Ctrl+Backspace: no legacy byte expresses it; kitty CSI 127;5u, xterm CSI 27;5;127~ and the BS-coded
   CSI 27;5;8~ / CSI 8;5u are all "Ctrl+BackSpace"; the plain key as the byte DEL, the byte BS and CSI 8u;
   two key events the universal theorem identifies *)
Example C09_ex_description :
  let c := mkChord KeyBackspace 4 in
  desc_chord c = true /\ guard_esc_upper_seq c (SCSI [] [[27]; [5]; [8]] 126) = false /\
  existsb (kseq_eqb (SCSI [] [[27]; [5]; [8]] 126)) (all_encs c) = true /\
  existsb (kseq_eqb (SCSI [] [[8]; [5]] 117)) (all_encs c) = true /\
  existsb (kseq_eqb (SCSI [] [[127]; [5]] 117)) (all_encs c) = true /\
  key_string ascii_uni (decode_key ascii_uni (SCSI [] [[27]; [5]; [8]] 126)) = [67; 116; 114; 108; 43; 66; 97; 99; 107; 83; 112; 97; 99; 101] /\
  key_string ascii_uni (chord_key c) = [67; 116; 114; 108; 43; 66; 97; 99; 107; 83; 112; 97; 99; 101] /\
  existsb (kseq_eqb (SCSI [] [[8]] 117)) (all_encs (mkChord KeyBackspace 0)) = true /\
  existsb (kseq_eqb (SC0 8)) (all_encs (mkChord KeyBackspace 0)) = true /\
  existsb (kseq_eqb (SPrint [127])) (all_encs (mkChord KeyBackspace 0)) = true /\
  kdesc_equivb (mkKey [] 8 0 0 (4 + 128) 1) (mkKey [8] 127 0 0 (4 + 64) 0) = true /\
  kdesc_equivb (mkKey [] 97 0 0 4 0) (mkKey [] 97 0 0 5 0) = false.
Proof. vm_compute. repeat split; reflexivity. Qed.
(* a BEL-terminated OSC 11 reply, two keys, then Alt+\ in the legacy (ESC \) and the kitty (CSI 92;3u)
   encoding, through one parser instance: all reports are in the domain, both chords arrive *)
Example C09_ex_history :
  let hist := [ROscBel [49; 49; 59; 114; 103; 98; 58; 48; 47; 48; 47; 48]; RPrint 97; RC0 24; RCsi [63] [54; 50; 59; 52] [] 99; ROscSt [49; 48; 59; 120]] in
  forallb report_ok hist = true /\ clean_b pinit = true /\
  kseq_wire (SESC [] 92) = Some [27; 92] /\ kseq_wire (SCSI [] [[92]; [3]] 117) = Some [27; 91; 57; 50; 59; 51; 117] /\
  run_events ascii_uni pinit (flat_map report_wire hist ++ [27; 92] ++ [27; 91; 57; 50; 59; 51; 117]) =
    [(SOther, key0); (SPrint [97], mkKey [97] 97 0 0 0 0); (SC0 24, mkKey [] 120 0 0 4 0);
     (SCSI [63] [[62]; [4]] 99, mkKey [] 62 0 0 3 0); (SOther, key0);
     (SESC [] 92, mkKey [] 92 0 0 2 0); (SCSI [] [[92]; [3]] 117, mkKey [] 92 0 0 2 0)] /\
  stream_events ascii_uni [[27; 93; 49; 49; 7; 97]; [27]; [27; 92]] =
    [(SOther, key0); (SPrint [97], mkKey [97] 97 0 0 0 0); (SC0 27, mkKey [] KeyEsc 0 0 0 0); (SESC [] 92, mkKey [] 92 0 0 2 0)].
Proof. vm_compute. repeat split; reflexivity. Qed.
