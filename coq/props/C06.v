(* C06 - the embedded terminal shows what a VT/xterm would show (core vocabulary).
   This file contains statements only.  The emulator model is model/Term.v (widgets/term
   after the fixes listed in the report), the reference terminal is model/VtSpec.v (written
   from the VT510 manual / xterm ctlseqs, independent of the Go code: lists of lists, firstn /
   skipn / repeat / app, Z.min / Z.max clamps, [dflt] for omitted or zero parameters), the
   bridge (abstraction [abs], encoding [enc]) is model/TermAbs.v, the decidable statement of
   the property on one observed history is model/VtCheck.v, proofs are in
   proofs/TermRefine{,2,3,4,5,6}.v.

   - [vop]: printable narrow and wide glyphs, CR, LF, IND, RI, NEL, CUU CUD CUF CUB CNL CPL
     CHA HPA VPA HPR VPR CUP HVP, ED, EL, ECH, ICH, DCH, IL, DL, SU, SD, DECSTBM, DECSC, DECRC,
     entering/leaving the alternate screen (1049), SGR and hyperlinks (OSC 8 ; params ; URI:
     params without ';', the URI everything after the second ';' - it may contain ';', ':'
     and '='); a numeric parameter is [Om] (omitted) or [Ex n] (explicit, zero included).
   - [enc o]: the sequence the parser delivers for the operation ([TCsi [] [[n]] final] ...);
     omitted, zero and explicit parameters are three different encodings and all are covered.
   - [run_spec]: the reference terminal; [None] exactly where the property leaves behaviour
     unconstrained - an operation other than printing, CR, absolute positioning and SGR in
     the deferred-wrap state - or outside the vocabulary (glyph widths other than 1 and 2,
     parameters that do not fit a machine integer).
   - [abs]: what the emulator shows: per cell the glyph with width and style, or for a cell
     without visible ink (empty or a space without attributes, underline and hyperlink) its
     background colour; the cursor, the deferred-wrap flag, the pen, the scrolling region
     and the saved cursors.

   Proved at full strength: [term_refines_vt] for all operations of the vocabulary (one
   simulation lemma per operation: sim_print, sim_cr, sim_lf, sim_ind, sim_ri, sim_nel,
   sim_cuu .. sim_vpr, sim_cup, sim_ed, sim_el, sim_ech, sim_ich, sim_dch, sim_il, sim_dl,
   sim_su, sim_sd, sim_decstbm, sim_decsc, sim_decrc, sim_alt_on, sim_alt_off, SGR,
   sim_link_osc), for all
   sizes from 2x2 up to 65535x65535 (the emulator clamps parameters to 16 bits as VTs do;
   the clamp is invisible up to that size), for every prefix of every history.

   The differential run: [vt_holds_every] (model/VtCheck.v) is the statement of the property on
   one observed history - after every prefix on which the reference terminal is defined, what
   the observation shows of the implementation's state is the reference terminal's: on EVERY
   observation the size, the cursor, the deferred-wrap flag and the scrolling region, on the
   complete ones also grid, pen and saved cursors.  [C06_no_mismatch_no_violation]: a history on
   which the implementation was observed to do what the model does satisfies it (so the
   predicate cannot raise an alarm on code the model describes, and "no mismatch" implies "no
   violation"); [C06_every_observation_stronger]: it implies the statement on the complete
   observations alone ([vt_holds], the predicate used before).

   SGR in every spelling (model/VtSgrSpell.v, proofs/VtSgrSpellProofs.v): [xop] extends the
   vocabulary by SGR sequences whose indexed and direct colours - foreground 38, background
   48, underline colour 58 (and 59) - are written with semicolons, with colons, with colons
   and the colourspace slot (empty = 0, or a number; ignored), by colon forms that spell
   nothing (38:5, 38:2:r:g) and semicolon forms cut short by the end of the sequence (no
   effect).  [C06_sgr_spellings]: the emulator's SGR on any such parameter list is the
   reference pen, which does not depend on the spelling; [C06_term_refines_vt_spellings]: the
   refinement theorem for histories over the extended vocabulary;
   [C06_spellings_no_mismatch_no_violation]: the statement of the differential stream sgrx. *)
From Vx Require Import base.Prelude base.ListX model.Colour model.Sgr model.Term model.TermCheck
  model.VtSpec model.TermAbs model.VtCheck model.VtSgrSpell proofs.TermProofs proofs.TermRefine proofs.TermRefine5
  proofs.TermRefine6 proofs.VtSgrSpellProofs.

Theorem C06_term_refines_vt : forall (w h : Z) (ops : list vop),
  2 <= w <= 65535 -> 2 <= h <= 65535 ->
  forall n v, run_spec (vt_init w h) (firstn n ops) = Some v ->
  exists t0 t, term_start w h = TOk t0 /\ run_term t0 (firstn n ops) = TOk t /\ abs t = v.
Proof. exact term_refines_vt. Qed.
Print Assumptions C06_term_refines_vt.

(* the simulation step it rests on: one operation, from any state the emulator can be in *)
Theorem C06_simulation_step : forall (w h : Z) (t : term) (o : vop),
  Inv w h t -> vop_ok o = true -> (t_last t = true -> allowed_pending o = true) ->
  exists t', update t (enc o) = TOk t' /\ Inv w h t' /\ abs t' = spec_op (abs t) o.
Proof. exact sim_step. Qed.
Print Assumptions C06_simulation_step.

(* the start state is the reference terminal's start state *)
Theorem C06_start : forall w h, 2 <= w <= 65535 -> 2 <= h <= 65535 ->
  Inv w h (start_state w h) /\ abs (start_state w h) = vt_init w h.
Proof. exact start_inv. Qed.
Print Assumptions C06_start.

(* SGR of the vocabulary against the consumer model of C18 *)
Theorem C06_sgr : forall cs st, forallb sgrc_ok cs = true ->
  term_sgr (flat_map enc_sgrc cs) st = Ok (spec_sgr st cs).
Proof. exact sim_sgr_pen. Qed.
Print Assumptions C06_sgr.

(* hyperlinks: whatever the URI contains - further ';' included - the pen's link is the whole
   URI and the link parameters are the text between the first two ';' *)
Theorem C06_link : forall (t : term) (ps uri : text), no_semicolon ps = true ->
  update t (enc (Link ps uri)) = TOk (set_pen t (mkStyle (spen (t_pen t)) uri ps)).
Proof. exact sim_link_osc. Qed.
Print Assumptions C06_link.

(* the decidable statement on observed histories: whenever the observations are the model's
   (complete or light ones, in any mixture), the statement holds on every observation *)
Theorem C06_no_mismatch_no_violation : forall c : vt_case,
  vt_case_wf c = true -> hist_model_ok (vt_history c) = true -> vt_holds_every c = true.
Proof. exact no_mismatch_no_violation. Qed.
Print Assumptions C06_no_mismatch_no_violation.

(* and it is at least as strong as the statement on the complete observations alone *)
Theorem C06_every_observation_stronger : forall c : vt_case,
  vt_holds_every c = true -> vt_holds c = true.
Proof. exact holds_every_holds. Qed.
Print Assumptions C06_every_observation_stronger.

(* non-vacuity: the history "a", then CUU on a 2x2 screen with the model's own observations
   (the first and the last complete, the middle one light) is well-formed, agrees with the
   model and satisfies the statement; the same history with the cursor observed one line too
   low after the CUU (a light observation) is rejected, while the statement on the complete
   observations alone does not see it *)
Definition C06_light_of (o : obs) : obs :=
  mkObs (o_out o) (o_rows o) (o_cols o) (o_row o) (o_col o) (o_last o) (o_top o) (o_bot o)
        (o_left o) (o_right o) (o_ev o) (o_plens o) (o_alens o) None.
Definition C06_lower (o : obs) : obs :=
  mkObs (o_out o) (o_rows o) (o_cols o) (o_row o + 1) (o_col o) (o_last o) (o_top o) (o_bot o)
        (o_left o) (o_right o) (o_ev o) (o_plens o) (o_alens o) None.
Definition C06_case (t0 t1 t3 : term) (o2 : obs) : vt_case :=
  (2, 2, obs_of t0, [(Print [97] 1, enc (Print [97] 1), obs_of t1); (CUU Om, enc (CUU Om), o2);
                     (LF, enc LF, obs_of t3)]).
Example C06_example_check :
  match term_start 2 2 with
  | TOk t0 =>
      match run_term t0 [Print [97] 1], run_term t0 [Print [97] 1; CUU Om], run_term t0 [Print [97] 1; CUU Om; LF] with
      | TOk t1, TOk t2, TOk t3 =>
          vt_case_wf (C06_case t0 t1 t3 (C06_light_of (obs_of t2))) = true /\
          hist_model_ok (vt_history (C06_case t0 t1 t3 (C06_light_of (obs_of t2)))) = true /\
          vt_holds_every (C06_case t0 t1 t3 (C06_light_of (obs_of t2))) = true /\
          vt_holds_every (C06_case t0 t1 t3 (C06_lower (obs_of t2))) = false /\
          vt_holds (C06_case t0 t1 t3 (C06_lower (obs_of t2))) = true
      | _, _, _ => False
      end
  | _ => False
  end.
Proof. vm_compute. repeat split; reflexivity. Qed.

(* non-vacuity: a target with ';', ':' and '=' ("a;v=2:b;c", params "id=x:k=v") is inside the
   vocabulary and the glyph printed under it carries the whole target on both sides *)
Example C06_example_link :
  let uri := [97; 59; 118; 61; 50; 58; 98; 59; 99] in
  let ps := [105; 100; 61; 120; 58; 107; 61; 118] in
  let ops := [Link ps uri; Print [97] 1; Link [] []; Print [98] 1] in
  forallb vop_ok ops = true /\
  match run_spec (vt_init 3 2) ops, term_start 3 2 with
  | Some v, TOk t0 =>
      match run_term t0 ops with
      | TOk t => vt_eqb (abs t) v = true /\
                 nth 0 (nth 0 (v_grid v) []) (Blank 0) = Glyph [97] 1 (mkStyle pen0 uri ps) /\
                 nth 1 (nth 0 (v_grid v) []) (Blank 0) = Glyph [98] 1 style0
      | _ => False
      end
  | _, _ => False
  end.
Proof. vm_compute. repeat split; reflexivity. Qed.

(* non-vacuity: a history with a wide glyph at the right edge, wrapping, a scrolling region,
   insert/delete with omitted, zero and huge parameters, erase with a coloured background and
   the alternate screen is inside the vocabulary, the reference terminal is defined on it, and
   the emulator's abstraction equals it (computed on both sides) *)
Example C06_example :
  let ops := [SGR [SBg 4; SBold]; Print [97] 1; Print [98] 1; Print [20013] 2; Print [99] 1;
              CUP (Ex 2) Om; DECSTBM (Ex 1) (Ex 2); CUP (Ex 2) (Ex 2); ICH (Ex 0); LF; LF;
              IL Om; CUP Om (Ex 3); DCH (Ex 9223372036854775807); SGR [SBgIdx 200]; ED (Ex 1);
              AltOn; Print [120] 1; CHA (Ex 2); EL Om; AltOff; RI; CNL (Ex 65536); ECH (Ex 2); SU (Ex 1)] in
  match run_spec (vt_init 3 3) ops, term_start 3 3 with
  | Some v, TOk t0 =>
      match run_term t0 ops with
      | TOk t => vt_eqb (abs t) v = true /\ v_row v = 1 /\ v_col v = 0
      | _ => False
      end
  | _, _ => False
  end.
Proof. vm_compute. repeat split; reflexivity. Qed.

(* the reference terminal is silent exactly in the deferred-wrap state *)
Example C06_example_pending :
  run_spec (vt_init 2 2) [Print [97] 1; Print [98] 1; LF] = None /\
  (exists v, run_spec (vt_init 2 2) [Print [97] 1; Print [98] 1; CR; LF] = Some v).
Proof. split; [vm_compute; reflexivity | eexists; vm_compute; reflexivity]. Qed.

(* ------------------------------------------------------------------ SGR in every spelling *)

(* whatever the spelling of the extended colours (semicolons, colons, colourspace slot), for
   foreground, background and underline colour, anywhere in a parameter list: the emulator's
   pen is the reference terminal's, and that depends on the command only *)
Theorem C06_sgr_spellings : forall xs st, xsgrs_ok xs = true ->
  term_sgr (flat_map xenc xs) st = Ok (xspec_sgr st xs).
Proof. exact xsgr_pen. Qed.
Print Assumptions C06_sgr_spellings.

Theorem C06_term_refines_vt_spellings : forall (w h : Z) (ops : list xop),
  2 <= w <= 65535 -> 2 <= h <= 65535 ->
  forall n v, xrun_spec (vt_init w h) (firstn n ops) = Some v ->
  exists t0 t, term_start w h = TOk t0 /\ xrun_term t0 (firstn n ops) = TOk t /\ abs t = v.
Proof. exact xterm_refines_vt. Qed.
Print Assumptions C06_term_refines_vt_spellings.

Theorem C06_spellings_no_mismatch_no_violation : forall c : xvt_case,
  xvt_case_wf c = true -> hist_model_ok (xvt_history c) = true -> xvt_holds_every c = true.
Proof. exact x_no_mismatch_no_violation. Qed.
Print Assumptions C06_spellings_no_mismatch_no_violation.

(* non-vacuity: the five spellings of the background RGB(10,20,30) are inside the vocabulary,
   are five different parameter lists and give one pen; the forms that spell nothing leave a
   coloured pen alone; a pen that took the slot for the red component is a different pen *)
Example C06_example_spellings :
  let sps := [SpSemi; SpColon; SpColonCs 0; SpColonCs 1] in
  forallb (fun sp => xsgrs_ok [XC SBold; XRgb TBg sp 10 20 30; XIdx TUl true 9]) sps = true /\
  map (fun sp => xenc (XRgb TBg sp 10 20 30)) sps =
    [[[48]; [2]; [10]; [20]; [30]]; [[48; 2; 10; 20; 30]]; [[48; 2; 0; 10; 20; 30]]; [[48; 2; 1; 10; 20; 30]]] /\
  map (fun sp => term_sgr (flat_map xenc [XC SBold; XRgb TBg sp 10 20 30; XIdx TUl true 9]) pen0) sps =
    repeat (Ok (mkPen 0 (rgb_color 10 20 30) (index_color 9) 0 aBold)) 4 /\
  rgb_color 10 20 30 <> rgb_color 0 10 20 /\
  xsgrs_ok [XShort TFg [5]; XShort TBg [2; 1; 2]; XCut TUl [2; 7]] = true /\
  term_sgr (flat_map xenc [XShort TFg [5]; XShort TBg [2; 1; 2]; XCut TUl [2; 7]]) (mkPen 1 2 3 0 0) = Ok (mkPen 1 2 3 0 0) /\
  xsgrs_ok [XCut TFg [5]; XC SBold] = false.
Proof. vm_compute. repeat split; try reflexivity. discriminate. Qed.
