(* C13 — keys, pastes and mouse events forwarded into the embedded terminal arrive intact.
   Statements only; proofs live in proofs/TermKeysProofs.v. *)
From Vx Require Import base.Prelude gen.GenKeys gen.GenTermKeys model.Keys model.ParserTypes model.Parser
  model.TermMouse model.TermKeys proofs.TermKeysProofs.
Local Open Scope Z_scope.

Theorem C13_special_key_roundtrip : forall (u : uni) (seg : list Z -> list (list Z)) (k : key) (md : tmodes),
  existsb (Z.eqb (k_code k)) special_keys = true -> mods_in_scope k = true ->
  exists k', forward u seg md (TKey k) = [HKey k'] /\ roundtrip_ok u k [HKey k'] = true /\
             k_code k' = k_code k /\ k_mods k' = chord_mods k.
Proof. intros u seg k md Hc Hm. exact (special_roundtrip u seg k _ _ md Hc Hm eq_refl eq_refl). Qed.
Print Assumptions C13_special_key_roundtrip.
