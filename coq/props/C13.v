(* C13 — keys, pastes and mouse events forwarded into the embedded terminal arrive intact.
   Statements only; proofs live in proofs/TermKeysProofs.v, TermKeysChild.v, TermKeysTie.v, TermHistProofs.v,
   TermKeysMarked.v (the end marker of the differential run), TermCutProofs.v (child output cut anywhere).

   Vocabulary (model/TermKeys.v, model/TermMouse.v):
     term_update u md e   the BYTES widgets/term's Model.Update writes to the child for the event e when the
                          child has selected the modes md (encodeXterm over the key maps translated from
                          widgets/term/key.go on every run; handleMouse; the paste brackets);
     host_read u seg bs   what a Vaxis makes of those bytes followed by silence: the ANSI parser of C02
                          (parse_segments, on bytes), handleSequence's dispatch, decodeKey of C09 and
                          parseMouseEvent;
     forward u seg md e   = host_read u seg (term_update u md e);
     xterm_expressible    the chords the xterm legacy encoding can express, fixed in model/TermKeys.v before any
                          proof: unmodified printable keys with their text; Shift + lower-case letter with the
                          upper-case text (and Shift + a non-letter that Shift leaves alone); Alt + a character c
                          for which ESC c is one escape sequence; Ctrl + letter other than h, i, m (whose C0
                          codes are Backspace, Tab, Enter) and Ctrl + @ \ ] ^ _; every key of xtermKeymap with every combination of
                          Shift/Alt/Ctrl; Tab, Enter, Esc, Backspace unmodified and Shift+Tab.  Caps Lock and
                          Num Lock may be set in any of them; Super/Hyper/Meta may not.
   [u : uni] is package unicode, [seg] is uniseg's grapheme clustering: oracles.  The oracle hypotheses are
   [oracle_ok u] (DEL is not upper-case, no upper-case rune lower-cases to DEL, among ASCII exactly a-z are lower-case) and
   [seg [r] = [[r]]] (one code point is one cluster). *)
From Vx Require model.Term.
From Vx Require Import base.Prelude gen.GenKeys gen.GenTermKeys model.Keys model.ParserTypes model.Parser
  model.TermMouse model.TermKeys model.TermHist proofs.TermKeysProofs proofs.TermKeysChild proofs.TermKeysTie
  proofs.TermHistProofs proofs.TermKeysMarked proofs.TermCutProofs.
Local Open Scope Z_scope.

(* ---------- keys ---------- *)

(* key_forward_roundtrip.  For every xterm-expressible chord and EVERY mode set of the child (DECCKM, DECKPAM
   and all others): exactly one key event arrives; it Matches the chord's key code and modifiers; its
   modifiers other than Shift are the chord's; it is a press.  The special keys x 32 modifier masks
   (8 Shift/Alt/Ctrl sets x lock bits) x 4 mode sets, the Alt characters, the Ctrl letters and Tab/Enter/Esc
   are finite domains closed by vm_compute; printable keys are proved for every rune. *)
Theorem C13_key_forward_roundtrip : forall (u : uni) (seg : list Z -> list (list Z)) (k : key) (md : tmodes),
  (forall r, seg [r] = [[r]]) -> oracle_ok u ->
  xterm_expressible u k = true ->
  roundtrip_ok u k (forward u seg md (TKey k)) = true.
Proof. exact key_forward_roundtrip. Qed.
Print Assumptions C13_key_forward_roundtrip.

(* chords that produce text (unmodified, Shift) arrive with exactly that text *)
Theorem C13_key_forward_text : forall (u : uni) (seg : list Z -> list (list Z)) (k : key) (md : tmodes),
  (forall r, seg [r] = [[r]]) -> oracle_ok u ->
  mods_in_scope k = true -> chord_plain k || chord_shift u k = true ->
  text_ok k (forward u seg md (TKey k)) = true.
Proof. exact key_forward_text. Qed.
Print Assumptions C13_key_forward_text.

(* Any key that produced one printable code point of text with at most Shift held — Caps Lock, AltGr, compose,
   Shift+digit, whatever the key code: exactly one key event arrives, it carries that text and matches the text
   rune without modifiers.  (The key code itself is beyond the legacy encoding: it sends the character.) *)
Theorem C13_key_forward_any_text : forall (u : uni) (seg : list Z -> list (list Z)) (k : key) (md : tmodes),
  (forall r, seg [r] = [[r]]) -> oracle_ok u ->
  mods_in_scope k = true -> chord_text k = true ->
  textchord_ok u k (forward u seg md (TKey k)) = true.
Proof. exact key_forward_textchord. Qed.
Print Assumptions C13_key_forward_any_text.

(* Ctrl + an ASCII character that xterm maps to a control code (Space 2-8 / ? @ A-Z [ \ ] ^ _ a-z;
   [xterm_ctrl_code] is written by hand from xterm's ctlseqs) is written as exactly that code.  Of these
   only the chords of xterm_expressible come back as themselves: NUL is Ctrl+@ = Ctrl+2 = Ctrl+Space, etc. *)
Theorem C13_ctrl_codes_are_xterms : forall (u : uni) (k : key) (deckpam decckm : bool) (b : Z),
  oracle_ok u -> mods_in_scope k = true -> chord_mods k = ModCtrl ->
  xterm_ctrl_code (k_code k) = Some b -> encode_xterm u k deckpam decckm = [b].
Proof. exact ctrl_codes_xterm. Qed.
Print Assumptions C13_ctrl_codes_are_xterms.

(* special keys, with no hypothesis on the oracles, and exactly: the decoded event has the chord's key code and
   precisely its Shift/Alt/Ctrl set.  Bound: the 22 keys of xtermKeymap, modifier masks 0..255 without
   Super/Hyper/Meta, the 4 DECCKM/DECKPAM settings. *)
Theorem C13_special_key_roundtrip : forall (u : uni) (seg : list Z -> list (list Z)) (k : key) (md : tmodes),
  existsb (Z.eqb (k_code k)) special_keys = true -> mods_in_scope k = true ->
  exists k', forward u seg md (TKey k) = [HKey k'] /\ roundtrip_ok u k [HKey k'] = true /\
             k_code k' = k_code k /\ k_mods k' = chord_mods k.
Proof. exact special_roundtrip. Qed.
Print Assumptions C13_special_key_roundtrip.

(* cursor_mode_selects.  DECCKM set => the SS3 form, reset => the CSI form, for the unmodified cursor keys
   (finals as in VT100/xterm, [cursor_finals] is written by hand) ... *)
Theorem C13_cursor_mode_selects : forall (u : uni) (k : key) (deckpam : bool) (x : Z),
  xterm_mods (k_mods k) = 0 -> lookup1 cursor_finals (k_code k) = Some x ->
  encode_xterm u k deckpam true = [27; 79; x] /\ encode_xterm u k deckpam false = [27; 91; x].
Proof. exact cursor_mode_selects. Qed.
Print Assumptions C13_cursor_mode_selects.

(* ... and it changes nothing else *)
Theorem C13_cursor_mode_only_cursor_keys : forall (u : uni) (k : key) (deckpam : bool),
  xterm_mods (k_mods k) <> 0 \/ lookup1 cursor_finals (k_code k) = None ->
  encode_xterm u k deckpam true = encode_xterm u k deckpam false.
Proof. exact cursor_mode_only_cursor. Qed.
Print Assumptions C13_cursor_mode_only_cursor_keys.

(* Full statement demanded by the property, NOT provable (recorded finding keypad-mode-ignored):
     forall k, keypad_guard k = true -> encode_xterm u k true decckm <> encode_xterm u k false decckm
   i.e. for a keypad key (KeyKeyPad0 ...) the child's keypad mode selects the encoding.  What holds instead:
   DECKPAM / DECKPNM select nothing, for any key: applicationKeymap and numericKeymap are the same table and
   the keypad keys are in neither.  The refutation is on the corpus case of the finding (keypad 0). *)
Theorem C13_keypad_mode_selects_nothing : forall (u : uni) (k : key) (decckm : bool),
  encode_xterm u k true decckm = encode_xterm u k false decckm.
Proof. exact keypad_mode_selects_nothing. Qed.
Print Assumptions C13_keypad_mode_selects_nothing.

Theorem C13_keypad_mode_selects_refuted :
  exists k, keypad_guard k = true /\ encode_xterm ascii_uni k true false = encode_xterm ascii_uni k false false.
Proof. exact keypad_mode_refuted. Qed.
Print Assumptions C13_keypad_mode_selects_refuted.

(* ---------- mouse ---------- *)

(* mouse_forward_roundtrip.  Under SGR mode (1006) and a tracking mode that enables the event (1000: presses and
   releases; 1002: those and drags; 1003: those and all motion), for ALL buttons the SGR report can carry
   (button_ok: the bits of the decoder's button mask, which covers every MouseButton constant), all columns and
   rows >= 0 (below MaxInt64) and press / release / motion: exactly one mouse event arrives, with the same
   button, row, column and event type.  Its modifiers are 0 (see the next theorem). *)
Theorem C13_mouse_forward_roundtrip : forall (u : uni) (seg : list Z -> list (list Z)) (md : tmodes) (m : mouse),
  m_sgr md = true -> mouse_enabled md m = true -> button_ok (ms_button m) = true ->
  in_i63 (ms_col m) = true -> in_i63 (ms_row m) = true ->
  forward u seg md (TMouse m) = [HMouse (mkMouse (ms_button m) (ms_row m) (ms_col m) (ms_type m) 0)].
Proof. exact mouse_forward_roundtrip. Qed.
Print Assumptions C13_mouse_forward_roundtrip.

(* The modifiers held with a mouse event are never forwarded (outside the text of the property, which asks
   for button, position and type; proposed finding mouse-modifiers-dropped). *)
Theorem C13_mouse_modifiers_dropped : forall (md : tmodes) (m : mouse),
  handle_mouse md m = handle_mouse md (mkMouse (ms_button m) (ms_row m) (ms_col m) (ms_type m) 0).
Proof. exact mouse_modifiers_dropped. Qed.
Print Assumptions C13_mouse_modifiers_dropped.

(* nothing_unless_enabled.  A press, release or motion event the child has not enabled writes nothing:
   no tracking mode => nothing (whatever 1006 says); motion without 1003, drag without 1002/1003 => nothing.
   The one exception is alternate scroll, specified exactly: in the alternate screen with mode 1007 and no
   tracking mode, a wheel event becomes three cursor-up / cursor-down keys. *)
Theorem C13_nothing_unless_enabled : forall (md : tmodes) (m : mouse),
  is_click m || (ms_type m =? EventMotion) = true -> mouse_enabled md m = false ->
  handle_mouse md m =
    if altscroll_applies md m
    then (if ms_button m =? MouseWheelUp then ss3_up ++ ss3_up ++ ss3_up else ss3_down ++ ss3_down ++ ss3_down)
    else [].
Proof. exact nothing_unless_enabled. Qed.
Print Assumptions C13_nothing_unless_enabled.

(* ---------- paste ---------- *)

(* with mode 2004 the brackets are written and arrive as paste-start / paste-end; without it nothing is written *)
Theorem C13_paste_brackets : forall (u : uni) (seg : list Z -> list (list Z)) (md : tmodes),
  (m_paste md = true -> forward u seg md TPasteStart = [HPasteStart] /\ forward u seg md TPasteEnd = [HPasteEnd]) /\
  (m_paste md = false -> term_update u md TPasteStart = [] /\ term_update u md TPasteEnd = []).
Proof. exact paste_forward. Qed.
Print Assumptions C13_paste_brackets.

(* ---------- where the modes come from: the child's output ---------- *)
(* Vocabulary (model/TermMouse.v, model/TermKeys.v):
     mode_params b params md   mode.go decset (b = true) / decrst (b = false) over the WHOLE parameter list of one
                               control function: every parameter is visited, in order (None = param[0] of an empty
                               parameter, the Go panic);
     child_csi / child_esc     csi.go / esc.go dispatch restricted to the input-related modes ("?h", "?l", ESC =,
                               ESC >, ESC c);
     child_items its md        term.go update over the parsed output; child_modes bs = child_items (parse_bytes bs)
                               modes0 with the ANSI parser of C02 on the BYTES the child wrote;
     reqs_of its               the DECSET / DECRST / keypad / reset requests contained in the output;
     asked rs                  the specification reading: for each mode the child's LAST WORD, i.e. the last DECSET /
                               DECRST that names the mode anywhere in its parameter list — whatever else the list
                               names (1049, 47, 1047 ...), in whatever order — or the last full reset;
     listed n params           mode n is named by one of the parameters. *)

(* child_output_selects_modes.  Whatever the child writes: the modes the encoders consume are, mode by mode, the
   child's last word.  Any number of parameters per control function, any order, any subset, on the primary and on
   the alternate screen (the state before is arbitrary). *)
Theorem C13_child_output_selects_modes : forall (its : list item) (md md' : tmodes),
  child_items its md = Some md' -> md' = asked_from md (reqs_of its).
Proof. exact child_items_asked. Qed.
Print Assumptions C13_child_output_selects_modes.

(* ... from the bytes *)
Theorem C13_child_bytes_select_modes : forall (bs : list Z) (md : tmodes),
  child_modes bs = Some md -> md = asked (reqs_of (parse_bytes bs)).
Proof. intros bs md H. exact (child_items_asked _ _ _ H). Qed.
Print Assumptions C13_child_bytes_select_modes.

(* the mode switches never panic on parameters as the parser delivers them (never empty) *)
Theorem C13_child_output_total : forall (its : list item) (md : tmodes),
  Forall params_ok its -> exists md', child_items its md = Some md'.
Proof. exact child_items_total. Qed.
Print Assumptions C13_child_output_total.

(* child_decrst_disables.  After a DECRST — at the end of any output — every mode it names is off, wherever the
   mode stands in the parameter list and whatever else the list names: no paste brackets; no mouse report (only
   alternate scroll, and not even that when 1049 or 1007 is named too); cursor keys in the CSI form. *)
Theorem C13_child_decrst_disables : forall (u : uni) (its : list item) (params : list (list Z)) (md : tmodes),
  child_items (its ++ [ICsi [63] params 108]) modes0 = Some md ->
  (listed 2004 params = true -> term_update u md TPasteStart = [] /\ term_update u md TPasteEnd = []) /\
  (listed 1000 params = true -> listed 1002 params = true -> listed 1003 params = true ->
     forall m, is_click m || (ms_type m =? EventMotion) = true ->
       handle_mouse md m =
         if altscroll_applies md m
         then (if ms_button m =? MouseWheelUp then ss3_up ++ ss3_up ++ ss3_up else ss3_down ++ ss3_down ++ ss3_down)
         else []) /\
  (listed 1000 params = true -> listed 1002 params = true -> listed 1003 params = true ->
     listed 1049 params || listed 1007 params = true ->
     forall m, is_click m || (ms_type m =? EventMotion) = true -> handle_mouse md m = []) /\
  (listed 1 params = true ->
     forall k x, xterm_mods (k_mods k) = 0 -> lookup1 cursor_finals (k_code k) = Some x ->
       term_update u md (TKey k) = [27; 91; x]).
Proof. exact child_decrst_disables. Qed.
Print Assumptions C13_child_decrst_disables.

(* child_decset_enables.  After a DECSET every mode it names is on: the paste brackets arrive; with 1006 and a
   tracking mode named, presses and releases arrive; cursor keys in the SS3 form. *)
Theorem C13_child_decset_enables : forall (u : uni) (seg : list Z -> list (list Z)) (its : list item)
    (params : list (list Z)) (md : tmodes),
  child_items (its ++ [ICsi [63] params 104]) modes0 = Some md ->
  (listed 2004 params = true -> forward u seg md TPasteStart = [HPasteStart] /\ forward u seg md TPasteEnd = [HPasteEnd]) /\
  (listed 1006 params = true -> listed 1000 params || listed 1002 params || listed 1003 params = true ->
     forall m, is_click m = true -> button_ok (ms_button m) = true -> in_i63 (ms_col m) = true -> in_i63 (ms_row m) = true ->
       forward u seg md (TMouse m) = [HMouse (mkMouse (ms_button m) (ms_row m) (ms_col m) (ms_type m) 0)]) /\
  (listed 1 params = true ->
     forall k x, xterm_mods (k_mods k) = 0 -> lookup1 cursor_finals (k_code k) = Some x ->
       term_update u md (TKey k) = [27; 79; x]).
Proof. exact child_decset_enables. Qed.
Print Assumptions C13_child_decset_enables.

(* one control function with several parameters = the same parameters one control function each (the
   single-parameter operations [apply_op] of the key and mouse streams are the one-parameter instance), and a
   parameter list may be cut anywhere *)
Theorem C13_parameter_list_is_sequence : forall (b : bool) (ns : list Z) (p1 p2 : list (list Z)) (md : tmodes),
  mode_params b (map (fun n => [n]) ns) md = Some (fold_left (fun m n => dec_mode m n b) ns md) /\
  mode_params b (p1 ++ p2) md = match mode_params b p1 md with Some m => mode_params b p2 m | None => None end.
Proof. intros b ns p1 p2 md. split; [apply mode_params_singletons|apply mode_params_app]. Qed.
Print Assumptions C13_parameter_list_is_sequence.

(* modes_tie_emulator.  The emulator model of C05/C06 (model/Term.v: csi -> fold_params decset1 / decrst1) and this
   mode model agree on the control functions and the state they share: whenever Term.v's DECSET / DECRST returns,
   this model returns too (both visit every parameter and panic on the same empty one), and the alternate-screen
   bit (Term.m_smcup, which gates alternate scroll here) is the same afterwards; likewise after RIS. *)
Theorem C13_modes_tie_emulator : forall (b : bool) (t t' : Term.term) (params : list (list Z)) (md : tmodes),
  Term.csi t [63] params (if b then 104 else 108) = Term.TOk t' ->
  Term.m_smcup (Term.t_md t) = m_smcup md ->
  exists md', child_csi md [63] params (if b then 104 else 108) = Some md' /\
              Term.m_smcup (Term.t_md t') = m_smcup md'.
Proof. exact modes_tie_emulator. Qed.
Print Assumptions C13_modes_tie_emulator.

Theorem C13_modes_tie_emulator_ris : forall (t t' : Term.term) (md : tmodes),
  Term.esc t [] 99 = Term.TOk t' -> Term.m_smcup (Term.t_md t') = m_smcup (child_esc md [] 99).
Proof. exact modes_tie_ris. Qed.
Print Assumptions C13_modes_tie_emulator_ris.

(* ---------- histories: ONE embedded terminal, many steps ---------- *)
(* Vocabulary (model/TermHist.v):
     hstep                     one step in the life of one Model: SOut its = the child wrote something (the parsed
                               sequences, each through Model.update), SEv e = the host called Model.Update(e);
     hist_run u md h           the history h from the state md: the byte strings written to the PTY, one per
                               forwarded event, in order, and the final state (None = decset/decrst panicked);
     child_output h            everything the child wrote in h; count_events h = the number of events in h;
     hist_spec u md0 rs h      the same list computed with NO state but the requests the child has made so far;
     hobs / hist_violation     what the harness observes of one real Model, and the history predicate it evaluates:
                               every moment satisfies the one-event predicates under the modes the child had ASKED
                               for at that moment, and two moments with the same event and the same relevant modes
                               were answered with the same bytes;
     model_obs u seg md h      the model's own observation of the history h. *)

(* hist_no_memory.  Every interleaving of child output — DECSET / DECRST of any modes (1, 66, 1000, 1002, 1003, 1006,
   1007, 1049, 2004 ...) in any parameter lists, keypad switches, RIS, anything else — and forwarded key / paste /
   mouse events on ONE emulator: what is written for each event is what its encoder writes under the child's last
   word on each mode at that moment.  No memory of earlier events, of earlier values of a mode, of what was written. *)
Theorem C13_hist_no_memory : forall (u : uni) (h : list hstep) (md0 : tmodes) (rs : list creq) (outs : list (list Z)) (md' : tmodes),
  hist_run u (asked_from md0 rs) h = Some (outs, md') ->
  outs = hist_spec u md0 rs h /\ md' = asked_from md0 (rs ++ reqs_of (child_output h)).
Proof. exact hist_run_spec. Qed.
Print Assumptions C13_hist_no_memory.

(* ... pointwise: the event after the prefix h1, from a fresh emulator *)
Theorem C13_hist_event_output : forall (u : uni) (h1 : list hstep) (e : tevent) (h2 : list hstep) (outs : list (list Z)) (md' : tmodes),
  hist_run u modes0 (h1 ++ SEv e :: h2) = Some (outs, md') ->
  nth (count_events h1) outs [] = term_update u (asked (reqs_of (child_output h1))) e.
Proof. exact hist_event_output. Qed.
Print Assumptions C13_hist_event_output.

(* events leave no trace: taking an event out of a history changes neither what is written for the other events nor
   the final state; the state after a history is the state after the child's output alone *)
Theorem C13_hist_event_erasable : forall (u : uni) (md : tmodes) (h1 : list hstep) (e : tevent) (h2 : list hstep)
    (outs : list (list Z)) (md' : tmodes),
  hist_run u md (h1 ++ SEv e :: h2) = Some (outs, md') ->
  exists o1 o2 md1, hist_run u md h1 = Some (o1, md1) /\
                    hist_run u md (h1 ++ h2) = Some (o1 ++ o2, md') /\
                    outs = o1 ++ term_update u md1 e :: o2.
Proof. exact hist_event_erasable. Qed.
Print Assumptions C13_hist_event_erasable.

Theorem C13_hist_state_is_childs : forall (u : uni) (h : list hstep) (md : tmodes) (outs : list (list Z)) (md' : tmodes),
  hist_run u md h = Some (outs, md') ->
  hist_run u md (drop_events h) = Some ([], md') /\ child_items (child_output h) md = Some md'.
Proof. intros u h md outs md' H. split; [exact (hist_state_is_childs u h md outs md' H)|exact (hist_run_state u h md outs md' H)]. Qed.
Print Assumptions C13_hist_state_is_childs.

(* a history panics only where the child's output does (never on parameters as the parser delivers them) *)
Theorem C13_hist_total : forall (u : uni) (h : list hstep) (md : tmodes),
  Forall params_ok (child_output h) -> exists outs md', hist_run u md h = Some (outs, md').
Proof. exact hist_run_total. Qed.
Print Assumptions C13_hist_total.

(* of the modes only those the clause names matter: DECCKM / DECKPAM for a key, 2004 for a paste boundary, the
   tracking modes, 1006 and alternate scroll (1007, 1049) for a mouse event *)
Theorem C13_relevant_modes_only : forall (u : uni) (e : tevent) (a b : tmodes),
  relevant_eqb e a b = true -> term_update u a e = term_update u b e.
Proof. exact relevant_update. Qed.
Print Assumptions C13_relevant_modes_only.

(* hist_nothing_unless_enabled.  At any moment of any history: nothing is written for a paste boundary when the
   child's last word on 2004 is "off" — however often it had it on, whatever was forwarded before — and nothing for
   a mouse event it has not enabled at that moment (alternate scroll aside, specified exactly). *)
Theorem C13_hist_nothing_unless_enabled : forall (u : uni) (h1 : list hstep) (e : tevent) (h2 : list hstep)
    (outs : list (list Z)) (md' : tmodes),
  hist_run u modes0 (h1 ++ SEv e :: h2) = Some (outs, md') ->
  let rs := reqs_of (child_output h1) in
  (last_word [2004] rs false = false -> (e = TPasteStart \/ e = TPasteEnd) -> nth (count_events h1) outs [] = []) /\
  (forall m, e = TMouse m -> is_click m || (ms_type m =? EventMotion) = true -> mouse_enabled (asked rs) m = false ->
     nth (count_events h1) outs [] =
       if altscroll_applies (asked rs) m
       then (if ms_button m =? MouseWheelUp then ss3_up ++ ss3_up ++ ss3_up else ss3_down ++ ss3_down ++ ss3_down)
       else []).
Proof. exact hist_nothing_unless_enabled. Qed.
Print Assumptions C13_hist_nothing_unless_enabled.

(* hist_forwarded_arrives.  At any moment of any history: what the child has enabled at that moment arrives — the
   paste brackets, SGR mouse reports, every xterm-expressible chord — and the cursor keys follow DECCKM as it
   stands at that moment. *)
Theorem C13_hist_forwarded_arrives : forall (u : uni) (seg : list Z -> list (list Z)) (h1 : list hstep) (e : tevent)
    (h2 : list hstep) (outs : list (list Z)) (md' : tmodes),
  (forall r, seg [r] = [[r]]) -> oracle_ok u ->
  hist_run u modes0 (h1 ++ SEv e :: h2) = Some (outs, md') ->
  let rs := reqs_of (child_output h1) in
  let got := host_read u seg (nth (count_events h1) outs []) in
  (last_word [2004] rs false = true -> (e = TPasteStart -> got = [HPasteStart]) /\ (e = TPasteEnd -> got = [HPasteEnd])) /\
  (forall m, e = TMouse m -> m_sgr (asked rs) = true -> mouse_enabled (asked rs) m = true ->
     button_ok (ms_button m) = true -> in_i63 (ms_col m) = true -> in_i63 (ms_row m) = true ->
     got = [HMouse (mkMouse (ms_button m) (ms_row m) (ms_col m) (ms_type m) 0)]) /\
  (forall k, e = TKey k -> xterm_expressible u k = true -> roundtrip_ok u k got = true) /\
  (forall k x, e = TKey k -> xterm_mods (k_mods k) = 0 -> lookup1 cursor_finals (k_code k) = Some x ->
     nth (count_events h1) outs [] = [27; (if last_word [1] rs false then 79 else 91); x]).
Proof. exact hist_forwarded_arrives. Qed.
Print Assumptions C13_hist_forwarded_arrives.

(* the model satisfies the predicates the harness evaluates on observations: one event ... *)
Theorem C13_model_satisfies_event_predicates : forall (u : uni) (seg : list Z -> list (list Z)) (md : tmodes),
  (forall r, seg [r] = [[r]]) -> oracle_ok u ->
  (forall k, key_violation u k md (term_update u md (TKey k)) (Some (forward u seg md (TKey k))) = false) /\
  (forall e, (forall k, e <> TKey k) -> event_violation md e (term_update u md e) (Some (forward u seg md e)) = false).
Proof.
  intros u seg md Hseg Ho. split; [intros k; apply key_violation_model; assumption|intros e He; apply event_violation_model; exact He].
Qed.
Print Assumptions C13_model_satisfies_event_predicates.

(* ... and a whole history: the model's observation of ANY history passes the history predicate (every moment under
   the modes asked for at that moment, and the no-memory clause), so on the hist stream "no mismatch" implies "no
   violation" and the predicate raises no false alarm on an implementation the model describes *)
Theorem C13_hist_model_no_violation : forall (u : uni) (seg : list Z -> list (list Z)) (h : list hstep),
  (forall r, seg [r] = [[r]]) -> oracle_ok u ->
  hist_violation u (model_obs u seg modes0 h) = false.
Proof. exact hist_model_no_violation. Qed.
Print Assumptions C13_hist_model_no_violation.

(* ---------- the end marker of the differential run ---------- *)
(* Vocabulary (model/TermKeys.v, proofs/TermKeysMarked.v):
     host_read_marked u seg pause bs   what the key / paste / mouse / child / hist / cut streams compare against: the
                               harness injects the bytes and then (after a pause longer than the Escape timer when
                               [pause] is set, in the same read otherwise) the focus-in report ESC [ I, and takes what
                               the host posted before it;
     nonneg bs                 no element is negative (every []byte);
     ends_esc bs               the last byte is ESC — the harness's rule for [pause];
     reads_on bs / timer_off bs / marker_sound pause bs   decidable: the read loop is still running after bs / the
                               Escape timer is not armed after bs / reads_on && (pause || timer_off). *)

(* marked_is_read.  For EVERY byte string, with the pause rule the harness uses: the marked read is host_read, i.e.
   the theorems about host_read / forward speak about exactly what the streams evaluate.  (From every parser state
   the marker's ESC ends whatever is pending as the end of input would, and ESC [ I is one focus-in report; the
   marker's bytes are no UTF-8 continuation bytes, so decoding never runs into it.) *)
Theorem C13_marked_is_read : forall (u : uni) (seg : list Z -> list (list Z)) (bs : list Z),
  nonneg bs = true -> host_read_marked u seg (ends_esc bs) bs = Some (host_read u seg bs).
Proof. exact marked_is_read_bytes. Qed.
Print Assumptions C13_marked_is_read.

(* a pause is always sound, for every byte string (lone ESC, half a CSI, an open OSC/DCS/APC string, cut UTF-8 ...) *)
Theorem C13_marked_paused_is_read : forall (u : uni) (seg : list Z -> list (list Z)) (bs : list Z),
  nonneg bs = true -> host_read_marked u seg true bs = Some (host_read u seg bs).
Proof. intros u seg bs H. apply marked_paused. apply nonneg_reads_on. exact H. Qed.
Print Assumptions C13_marked_paused_is_read.

(* the general form: whenever the decidable side condition holds, whatever [pause] is *)
Theorem C13_marked_sound : forall (u : uni) (seg : list Z -> list (list Z)) (pause : bool) (bs : list Z),
  marker_sound pause bs = true -> host_read_marked u seg pause bs = Some (host_read u seg bs).
Proof. exact marked_is_read. Qed.
Print Assumptions C13_marked_sound.

(* ---------- child output cut at ANY point ---------- *)
(* Vocabulary (model/TermHist.v):
     cstep                     CRaw rs = one read of the PTY returned the runes rs (for 7-bit output a rune is a byte:
                               decode_all_ascii7), CEvt e = the host called Model.Update(e);
     carried                   what survives between two reads besides the modes: the state of the ONE ansi.Parser of
                               the emulator (model/Parser.v pst of C02 — state function, collected intermediates and
                               parameters, pending string) and whether its read loop is running; carried0 = fresh;
     cfeed c rs                Parser.v's [feed] from the carried state: the new carried state, the sequences delivered;
     cut_run u md c h          the cut history h on one emulator: bytes written per event, final modes;
     cut_stream h              the pieces glued together; stream_items c rs = the sequences the stream rs delivers read
                               in ONE piece from c; cut_events h = the number of events in h. *)

(* hist_no_memory for arbitrary chunkings.  Child output cut ANYWHERE — in the middle of ESC [ ? 2004 h, between
   the parameters, byte by byte — interleaved with forwarded events: what is written for each event is what its
   encoder writes under the child's last word on each mode at that moment (a request counts from the piece that
   completes it), and the final modes are a function of the glued stream alone. *)
Theorem C13_hist_no_memory_any_cut : forall (u : uni) (h : list cstep) (c : carried) (md0 : tmodes) (rs : list creq)
    (outs : list (list Z)) (md' : tmodes),
  cut_run u (asked_from md0 rs) c h = Some (outs, md') ->
  outs = hist_spec u md0 rs (cut_hist c h) /\
  md' = asked_from md0 (rs ++ reqs_of (stream_items c (cut_stream h))).
Proof. intros u h c md0 rs outs md'. exact (cut_run_spec u h c md0 rs outs md'). Qed.
Print Assumptions C13_hist_no_memory_any_cut.

(* ... pointwise: the event after the pieces h1 is answered under the requests COMPLETED in the glued stream of h1 *)
Theorem C13_cut_event_output : forall (u : uni) (h1 : list cstep) (e : tevent) (h2 : list cstep) (c : carried)
    (outs : list (list Z)) (md' : tmodes),
  cut_run u modes0 c (h1 ++ CEvt e :: h2) = Some (outs, md') ->
  nth (cut_events h1) outs [] = term_update u (asked (reqs_of (stream_items c (cut_stream h1)))) e.
Proof. intros u h1 e h2 c outs md'. exact (cut_event_output u h1 e h2 c outs md'). Qed.
Print Assumptions C13_cut_event_output.

(* where the stream was cut, and what was forwarded in between, is irrelevant *)
Theorem C13_cut_chunking_irrelevant : forall (u : uni) (c : carried) (h1 h1' : list cstep) (e : tevent)
    (h2 h2' : list cstep) (outs outs' : list (list Z)) (md' md'' : tmodes),
  cut_stream h1 = cut_stream h1' ->
  cut_run u modes0 c (h1 ++ CEvt e :: h2) = Some (outs, md') ->
  cut_run u modes0 c (h1' ++ CEvt e :: h2') = Some (outs', md'') ->
  nth (cut_events h1) outs [] = nth (cut_events h1') outs' [].
Proof. intros u c h1 h1' e h2 h2' outs outs' md' md''. exact (cut_chunking_irrelevant u c h1 h1' e h2 h2' outs outs' md' md''). Qed.
Print Assumptions C13_cut_chunking_irrelevant.

(* k reads and one read of the same stream leave the same emulator (from any carried parser state, any modes) *)
Theorem C13_cut_pieces_glue : forall (u : uni) (c : carried) (md : tmodes) (l : list (list Z)),
  cut_run u md c (map CRaw l) = cut_run u md c [CRaw (concat l)].
Proof. exact cut_pieces_glue. Qed.
Print Assumptions C13_cut_pieces_glue.

(* tie to the one-piece model of C13_child_bytes_select_modes: 7-bit output cut at ANY byte offsets ends in the modes
   the one-piece parse (parse_bytes, C02) of the same bytes asks for *)
Theorem C13_cut_bytes_any_offsets : forall (u : uni) (l : list (list Z)) (outs : list (list Z)) (md' : tmodes),
  forallb (fun b => (0 <=? b) && (b <? 128)) (concat l) = true ->
  cut_run u modes0 carried0 (map CRaw l) = Some (outs, md') ->
  md' = asked (reqs_of (parse_bytes (concat l))).
Proof. exact cut_bytes_any_offsets. Qed.
Print Assumptions C13_cut_bytes_any_offsets.

(* the model's observation of any cut history passes the predicate the cut stream evaluates *)
Theorem C13_cut_model_no_violation : forall (u : uni) (seg : list Z -> list (list Z)) (c : carried) (h : list cstep),
  (forall r, seg [r] = [[r]]) -> oracle_ok u ->
  hist_violation u (model_obs u seg modes0 (cut_hist c h)) = false.
Proof. exact cut_model_no_violation. Qed.
Print Assumptions C13_cut_model_no_violation.

(* ---------- non-vacuity ---------- *)
Example C13_ex_oracles : oracle_ok ascii_uni /\ (forall r, rune_seg [r] = [[r]]).
Proof. exact (conj ascii_oracle_ok (fun r => eq_refl)). Qed.

(* one chord of each class is expressible; Shift+Tab arrives as back-tab, Ctrl+Alt+a is outside the set *)
Example C13_ex_expressible :
  xterm_expressible ascii_uni (mkKey [97] 97 0 0 0 0) = true /\               (* a *)
  xterm_expressible ascii_uni (mkKey [65] 97 65 0 (1 + 64) 0) = true /\        (* Shift+a, Caps Lock on *)
  xterm_expressible ascii_uni (mkKey [] 120 0 0 2 0) = true /\                 (* Alt+x *)
  xterm_expressible ascii_uni (mkKey [] 99 0 0 4 0) = true /\                  (* Ctrl+c *)
  xterm_expressible ascii_uni (mkKey [] KeyF05 0 0 7 0) = true /\              (* Ctrl+Alt+Shift+F5 *)
  xterm_expressible ascii_uni (mkKey [] KeyTab 0 0 1 0) = true /\              (* Shift+Tab *)
  xterm_expressible ascii_uni (mkKey [] 97 0 0 6 0) = false /\                 (* Ctrl+Alt+a *)
  xterm_expressible ascii_uni (mkKey [] 92 0 0 4 0) = true /\                  (* Ctrl+\ *)
  chord_text (mkKey [65] 97 0 0 64 0) = true /\                                (* a with Caps Lock: text A *)
  term_update ascii_uni modes0 (TKey (mkKey [65] 97 0 0 64 0)) = [65] /\
  xterm_ctrl_code 32 = Some 0 /\ term_update ascii_uni modes0 (TKey (mkKey [] 32 0 0 4 0)) = [0] /\  (* Ctrl+Space *)
  forward ascii_uni rune_seg modes0 (TKey (mkKey [] KeyTab 0 0 1 0)) = [HKey (mkKey [] KeyTab 0 0 1 0)] /\
  forward ascii_uni rune_seg (apply_ops [OpSet 1]) (TKey (mkKey [] KeyUp 0 0 0 0)) = [HKey (mkKey [] KeyUp 0 0 0 0)] /\
  term_update ascii_uni (apply_ops [OpSet 1]) (TKey (mkKey [] KeyUp 0 0 0 0)) = [27; 79; 65].
Proof. vm_compute. repeat split; reflexivity. Qed.

(* the mouse hypotheses are satisfiable; a drag with only 1003 set arrives; with only 1006 nothing is written *)
Example C13_ex_mouse :
  let md := apply_ops [OpSet 1003; OpSet 1006] in
  let m := mkMouse MouseLeftButton 4 3 EventMotion ModCtrl in
  m_sgr md = true /\ mouse_enabled md m = true /\ button_ok (ms_button m) = true /\
  in_i63 (ms_col m) = true /\ in_i63 (ms_row m) = true /\
  forward ascii_uni rune_seg md (TMouse m) = [HMouse (mkMouse MouseLeftButton 4 3 EventMotion 0)] /\
  term_update ascii_uni (apply_ops [OpSet 1006]) (TMouse (mkMouse MouseLeftButton 4 3 EventPress 0)) = [] /\
  mouse_enabled (apply_ops [OpSet 1000]) m = false /\
  altscroll_applies (apply_ops [OpSet 1049]) (mkMouse MouseWheelUp 0 0 EventPress 0) = true.
Proof. vm_compute. repeat split; reflexivity. Qed.

(* the child's output as bytes: ESC[?2004h ESC[?1000;1006h ESC[?1h, then the clean-up ESC[?1049;1;1000;2004l sent on
   the primary screen — 1049 first: afterwards paste, mouse and DECCKM are off, nothing is written for a paste
   boundary or a click and Up is CSI A; the hypotheses of the two theorems above are satisfiable *)
Example C13_ex_child :
  let setup := [27; 91; 63; 50; 48; 48; 52; 104] ++ [27; 91; 63; 49; 48; 48; 48; 59; 49; 48; 48; 54; 104] ++ [27; 91; 63; 49; 104] in
  let cleanup := [27; 91; 63; 49; 48; 52; 57; 59; 49; 59; 49; 48; 48; 48; 59; 50; 48; 48; 52; 108] in
  let click := TMouse (mkMouse MouseLeftButton 4 3 EventPress 0) in
  child_modes setup = Some (mkModes false true true true false false true false false) /\
  child_update ascii_uni setup TPasteStart = Some paste_start_seq /\
  child_update ascii_uni setup click = Some [27; 91; 60; 48; 59; 52; 59; 53; 77] /\
  child_update ascii_uni setup (TKey (mkKey [] KeyUp 0 0 0 0)) = Some [27; 79; 65] /\
  reqs_of (parse_bytes (setup ++ cleanup)) = [QSet [2004]; QSet [1000; 1006]; QSet [1]; QReset [1049; 1; 1000; 2004]] /\
  child_modes (setup ++ cleanup) = Some (mkModes false false false false false false true false false) /\
  child_update ascii_uni (setup ++ cleanup) TPasteStart = Some [] /\
  child_update ascii_uni (setup ++ cleanup) click = Some [] /\
  child_update ascii_uni (setup ++ cleanup) (TKey (mkKey [] KeyUp 0 0 0 0)) = Some [27; 91; 65] /\
  parse_bytes cleanup = [ICsi [63] [[1049]; [1]; [1000]; [2004]] 108; IEof] /\
  listed 2004 [[1049]; [1]; [1000]; [2004]] = true /\ listed 1 [[1049]; [1]; [1000]; [2004]] = true /\
  Forall params_ok (parse_bytes (setup ++ cleanup)).
Proof. vm_compute. repeat split; try reflexivity. repeat constructor; discriminate. Qed.

(* a history on one emulator: the child enables bracketed paste, a paste is forwarded, the child disables it, a second
   paste is forwarded (only the pasted key is written), RIS, Up in the CSI form; the predicate accepts the model's
   observation and rejects an emulator that remembers the first paste (ESC [ 201 ~ written with 2004 off) *)
Example C13_ex_history :
  let on := parse_bytes [27; 91; 63; 50; 48; 48; 52; 104] in
  let off := parse_bytes [27; 91; 63; 50; 48; 48; 52; 108] in
  let x := TKey (mkKey [120] 120 0 0 0 3) in
  let h := [SOut on; SEv TPasteStart; SEv x; SEv TPasteEnd; SOut off; SEv TPasteStart; SEv x; SEv TPasteEnd] in
  hist_run ascii_uni modes0 h = Some ([paste_start_seq; [120]; paste_end_seq; []; [120]; []], modes0) /\
  Forall params_ok (child_output h) /\
  hist_violation ascii_uni (model_obs ascii_uni rune_seg modes0 h) = false /\
  hist_violation ascii_uni [OOut [QSet [2004]] []; OEv TPasteEnd false paste_end_seq (Some [HPasteEnd]);
                            OOut [QReset [2004]] []; OEv TPasteEnd false paste_end_seq (Some [HPasteEnd])] = true /\
  relevant_eqb TPasteEnd modes0 (apply_ops [OpSet 1; OpSet 1000]) = true.
Proof. vm_compute. repeat split; try reflexivity. repeat constructor; discriminate. Qed.

(* the marker: the hypotheses are satisfiable; a lone ESC needs the pause (without it ESC ESC [ I is read as Alt+... and
   the side condition says so); a cut history: ESC [ ? 2 0 | paste | 0 4 h | paste — the first paste is answered under
   2004 off (the request is not complete), the second under 2004 on; byte by byte gives the same *)
Example C13_ex_marker_and_cut :
  nonneg [27; 91; 50; 48; 48; 126] = true /\ ends_esc [27; 91; 50; 48; 48; 126] = false /\
  ends_esc [27] = true /\ marker_sound false [27] = false /\ marker_sound true [27] = true /\
  host_read_marked ascii_uni rune_seg true [27] = Some [HKey (mkKey [] KeyEsc 0 0 0 0)] /\
  marker_sound false [27; 91; 63] = true /\
  cut_run ascii_uni modes0 carried0 [CRaw [27; 91; 63; 50; 48]; CEvt TPasteStart; CRaw [48; 52; 104]; CEvt TPasteStart]
    = Some ([[]; paste_start_seq], mkModes false false true false false false false false false) /\
  cut_run ascii_uni modes0 carried0 (map (fun b => CRaw [b]) [27; 91; 63; 50; 48; 48; 52; 104] ++ [CEvt TPasteStart])
    = Some ([paste_start_seq], mkModes false false true false false false false false false) /\
  forallb (fun b => (0 <=? b) && (b <? 128)) (concat [[27; 91; 63; 50; 48]; [48; 52; 104]]) = true.
Proof. vm_compute. repeat split; reflexivity. Qed.
