(* C03 — every terminal report becomes the right event; the input loop survives any input.
   This file contains statements only; proofs live in proofs/InputProofs.v.

   Vocabulary (model/Input.v, model/Mouse.v, model/Parser.v):
     item            what the ANSI parser delivers (C02's model; parse_bytes : bytes -> list item)
     handle          vaxis.go handleSequence;   run / run_steps: the input goroutine, alone or
                     interleaved with the application's own queries (appact)
     outcome         Ok state emits | Panic | Blocks
     q_stalled s = None   the application keeps reading Events() (a full queue that nobody
                     reads blocks the loop by design: back-pressure, not a defect)
     dec, b64        oracles: decodeKey (property C09) and base64 decoding
     spec_user       the user events a sequence of delivered items stands for, defined from the
                     shape of each item only (classify / spec_item), independently of handle
     ACursorArm / ACursorWrite   the two statements of CursorPosition's prologue as separately
                     scheduled steps (ACursorQuery = both at once); cursor_prog = their order in
                     /repo's source, translated by gen/input.go into gen/GenInput.v
     spec_wire / spec_answers    the same specification from the terminal's side: a report
                     CSI .. R is the reply from the moment the query is WRITTEN (not: from the
                     moment the flag is armed); the answers the callers must receive
     sched_ok prog   the schedules that can happen when the prologue runs in the order prog
     clip_answer / spec_clips    the clipboard hand-off from the terminal's side: the text an
                     OSC 52 report carries (fields of the payload, split right to left), and what
                     the callers of ClipboardPop must receive: the reports that arrive while they
                     wait; a report nobody waits for is forgotten, never kept for a later call
     hcase_violation the property predicate evaluated on every observation of the differential
                     stream "handle" (model/InputCheck.v); model_obs: the observation the model
                     predicts
     cq / cq_answer / krun   (model/InputColour.v) the CONTENT side of the colour queries: the calls
                     QueryColor c, QueryForeground, QueryBackground; what a caller makes of the payload
                     it receives (fmt.Sscanf with the text that names what was asked, "4;<index>;" /
                     "10;" / "11;", then rgb:%x/%x/%x; Color(0) when the scan fails); calls interleaved
                     with delivered sequences (a call takes the payload parked in its 1-slot reply
                     channel or waits for the next one offered); the trace = the steps with the returns
                     of the calls (KRet) where they happen
     report_colour / strict_report   the same from the terminal's side, independent of Sscanf: a
                     payload is a report for a query when it begins with the text naming what was
                     asked followed by rgb:, its '/'-separated fields are hexadecimal numerals of which
                     the low byte counts; the strict form has exactly three fields of 1..4 digits
     zround_model / zspec / zcase_violation   (model/InputCheck.v) the size hand-off with
                     VAXIS_FORCE_XTWINOPS: rounds of Resize()+Render() against a terminal that reports
                     its size; zspec is the predicate of the stream "size" read from the terminal's
                     side (the Resize event of a round carries the size reported IN that round);
                     clean_round: a round in which the terminal answers with its two reports
     answers_ok / fresh_ok / ccase_violation   the property predicate of the differential stream
                     "colour": every colour handed to a caller is Color(0) or the colour of a report,
                     delivered before, that names what the caller asked for; a call that meets no
                     leftovers returns at the first report on its channel, with exactly its colour
                     when the report is strict *)
From Vx Require Import base.Prelude gen.GenInput model.Parser model.Mouse model.Input model.InputCheck proofs.InputProofs
  model.InputColour proofs.InputColourProofs.

(* Every sequence the parser can deliver is well formed (no empty CSI parameter), for every
   byte stream and every segmentation of it by silences. *)
Theorem C03_parser_delivers_wellformed : forall bs segs,
  Forall (fun it => wf_item it = true) (parse_bytes bs) /\
  Forall (fun it => wf_item it = true) (parse_segments segs).
Proof. intros bs segs. exact (conj (parse_bytes_wf bs) (parse_segments_wf segs)). Qed.
Print Assumptions C03_parser_delivers_wellformed.

(* input_total: in EVERY state and for EVERY deliverable sequence handleSequence returns
   normally: no panic (index out of range), no blocked channel send. *)
Theorem C03_input_total : forall dec b64 s it,
  wf_item it = true -> q_stalled s = None ->
  exists s' es, handle dec b64 s it = Ok s' es /\ q_stalled s' = None.
Proof. exact input_total. Qed.
Print Assumptions C03_input_total.

(* ... composed with the parser over BYTES: whatever bytes the terminal sends, in whatever state,
   the input loop consumes them all, and the user events delivered are exactly the ones the
   stream stands for, in order. *)
Theorem C03_any_bytes_survive_and_deliver : forall dec b64 bs s,
  q_stalled s = None ->
  exists s' es, run dec b64 s (parse_bytes bs) = Ok s' es /\ q_stalled s' = None /\
    user_events es = spec_user dec (paste s) (req_cursor s) (map SItem (parse_bytes bs)).
Proof. exact run_bytes. Qed.
Print Assumptions C03_any_bytes_survive_and_deliver.

Theorem C03_any_segments_survive_and_deliver : forall dec b64 segs s,
  q_stalled s = None ->
  exists s' es, run dec b64 s (parse_segments segs) = Ok s' es /\ q_stalled s' = None /\
    user_events es = spec_user dec (paste s) (req_cursor s) (map SItem (parse_segments segs)).
Proof. exact run_segments. Qed.
Print Assumptions C03_any_segments_survive_and_deliver.

(* ... and under every interleaving with the application's own queries and their time-outs
   (cursor position asked / timed out / flag cleared, clipboard wait / leave, replies taken
   from the reply channels): all arrival timings relative to outstanding queries. *)
Theorem C03_any_interleaving_survives_and_delivers : forall dec b64 l s,
  Forall step_ok l -> q_stalled s = None ->
  exists s' es, run_steps dec b64 s l = Ok s' es /\ q_stalled s' = None /\
    user_events es = spec_user dec (paste s) (req_cursor s) l.
Proof. exact run_steps_spec. Qed.
Print Assumptions C03_any_interleaving_survives_and_delivers.

(* mouse_roundtrip: an SGR report for button b at (col,row) with any modifiers, motion flag and
   press/release decodes to exactly these fields. *)
Theorem C03_mouse_roundtrip : forall b col row shift alt ctrl motion release,
  button_ok b = true -> int64_ok col = true -> int64_ok row = true ->
  parse_mouse [60] (sgr_params b col row shift alt ctrl motion) (sgr_final release)
  = Some (Some (sgr_mouse b col row shift alt ctrl motion release)).
Proof. exact mouse_roundtrip. Qed.
Print Assumptions C03_mouse_roundtrip.

(* parseMouseEvent equals the protocol's definition (div/mod/testbit formulation) on every
   deliverable CSI M / CSI m, and never panics on one. *)
Theorem C03_mouse_decoder_is_spec : forall inter ps fin,
  wf_item (ICsi inter ps fin) = true -> fin = 77 \/ fin = 109 ->
  parse_mouse inter ps fin = Some (spec_mouse inter ps fin).
Proof. intros inter ps fin H. apply parse_mouse_spec. apply wf_csi_iff in H. exact H. Qed.
Print Assumptions C03_mouse_decoder_is_spec.

(* user_input_exact: a stream of encoded user reports (keys, SGR mouse, focus, paste brackets
   with arbitrary content) interleaved with anything that is not user input (replies solicited
   or not, repeated, malformed, garbage: any deliverable sequence classified UInternal, and
   cursor-position reports while a request is outstanding) and with the application's queries
   yields exactly one event per report, in order, keys between the brackets marked as pasted.
   Guard [stream_ok]: a key of the form CSI ... R (F3 with modifiers in legacy encoding) is not
   sent while a cursor-position request is outstanding: the two are the same bytes (the kitty
   protocol encodes F3 differently for this reason). *)
Theorem C03_user_input_exact : forall dec b64 l s,
  stream_ok (req_cursor s) l = true -> q_stalled s = None ->
  exists s' es, run_steps dec b64 s (map enc_elem l) = Ok s' es /\
    user_events es = deliver dec (paste s) (reports_of l).
Proof. exact user_input_exact. Qed.
Print Assumptions C03_user_input_exact.

(* The queue assumption is only about blocking: in ANY state (the application may have stopped
   reading and the queue may be full) a deliverable sequence never panics the goroutine, and
   the only way to block is the event queue's back-pressure. *)
Theorem C03_never_panics_blocks_only_on_full_queue : forall dec b64 s it,
  wf_item it = true ->
  match handle dec b64 s it with
  | Ok s' _ => q_stalled s = None -> q_stalled s' = None
  | Panic _ => False
  | Blocks _ => q_stalled s <> None
  end.
Proof. exact handle_safe. Qed.
Print Assumptions C03_never_panics_blocks_only_on_full_queue.

Theorem C03_no_interleaving_panics : forall dec b64 l s,
  Forall item_wf_step l ->
  match run_steps dec b64 s l with Panic _ => False | _ => True end.
Proof. exact run_steps_never_panics. Qed.
Print Assumptions C03_no_interleaving_panics.

(* reply_updates_exactly, frame half: whatever handleSequence does on a deliverable sequence,
   every state component it changes and every internal event it emits belongs to what that
   sequence reports ([frame], [ev_source] in proofs/InputProofs.v: e.g. the paste flag only by
   CSI 200/201 ~, the character size only by CSI 8/48 t, chColor only by an OSC 4 payload, the
   capability event CSync only by CSI 2026;v $y, ...; the capability table itself never). *)
Theorem C03_reply_updates_only_its_own : forall dec b64 s it s' es,
  wf_item it = true -> handle dec b64 s it = Ok s' es ->
  frame it s s' /\ Forall (fun e => ev_source e it = true) (events_of es).
Proof. intros dec b64 s it s' es Hw E. exact (handle_exact dec b64 s it Hw s' es E). Qed.
Print Assumptions C03_reply_updates_only_its_own.

(* reply_updates_exactly, answer half: each reply delivers its answer; an unsolicited or
   repeated one is dropped instead of wedging the loop (the defects repaired in /repo). *)
Theorem C03_answer_size_report : forall dec b64 inter h w s,
  q_stalled s = None -> 0 <= size_done s <= 1 ->
  exists s' es, handle dec b64 s (ICsi inter [[8]; [h]; [w]] 116) = Ok s' es /\
    next_size s' = mkSize w h (s_xpix (next_size s)) (s_ypix (next_size s)) /\
    (c_chars (vcaps s) = true -> es = [] /\ size_done s' = 1) /\
    (c_chars (vcaps s) = false -> es = [Ev (ECap CChars)] /\ size_done s' = size_done s).
Proof. exact answer_size_chars. Qed.
Print Assumptions C03_answer_size_report.

Theorem C03_answer_cursor_position : forall dec b64 inter r c s,
  req_cursor s = true ->
  handle dec b64 s (ICsi inter [[r]; [c]] 82) =
  if w_cursor s then Ok (set_w_cursor (set_req s false) false) [ToCursor r c]
  else Ok (set_req s false) [].
Proof. exact answer_cursor. Qed.
Print Assumptions C03_answer_cursor_position.

Theorem C03_answer_colour : forall dec b64 payload s,
  q_stalled s = None -> c_osc4 (vcaps s) = true -> prefixb [52] (gostring payload) = true ->
  exists s', handle dec b64 s (IOsc payload) = Ok s' [Ev (ECap COsc4)] /\
    ch_color s' = match ch_color s with None => Some (gostring payload) | Some x => Some x end.
Proof. exact answer_color. Qed.
Print Assumptions C03_answer_colour.

Theorem C03_answer_clipboard : forall dec b64 sel v b s,
  b64 (gostring v) = Some b ->
  existsb (Z.eqb 59) (gostring sel) = false -> existsb (Z.eqb 59) (gostring v) = false ->
  handle dec b64 s (IOsc ([53; 50; 59] ++ sel ++ [59] ++ v)) =
  if w_clip s then Ok (set_w_clip s false) [ToClip b] else Ok s [].
Proof. exact answer_clipboard. Qed.
Print Assumptions C03_answer_clipboard.

Theorem C03_answer_cursor_style : forall dec b64 inter' ps n s, 48 <= n <= 54 ->
  handle dec b64 s (IDcs 114 (36 :: inter') ps [n; 32; 113]) = Ok (set_user_cursor s (n - 48)) [].
Proof. exact answer_cursor_style. Qed.
Print Assumptions C03_answer_cursor_style.

(* The request side.  CursorPosition arms the request flag BEFORE the query reaches the terminal
   (order of the statements of its translated body), its time-out branch disarms it and the
   other branch receives the answer; the callers without a flag (ClipboardPop, QueryColor,
   QueryForeground, QueryBackground) write their query before they wait for the reply. *)
Theorem C03_request_armed_before_query_written :
  cursor_prog = [ACursorArm; ACursorWrite] /\
  cursor_position_select = [[PStore 0 false]; [PRecv 0]] /\
  (exists q, clipboard_pop_body = [PWrite q; PRecv 1]) /\
  (exists q, query_color_body = [PWrite q; PRecv 2]) /\
  (exists q, query_foreground_body = [PWrite q; PRecv 3]) /\
  (exists q, query_background_body = [PWrite q; PRecv 4]).
Proof. exact (conj cursor_prog_order request_bodies). Qed.
Print Assumptions C03_request_armed_before_query_written.

(* ... and therefore, for EVERY schedule of the input goroutine against the statements of the
   application's calls in that order (the goroutine may run between any two statements; a reply
   may be handled before the write has even returned to its caller): a report that answers a
   written query is consumed, never surfaces as user input, and its position reaches the caller
   that is still waiting; everything else is delivered as the stream says.  Specification from
   the terminal's side (spec_wire, spec_answers): independent of when the flag is armed. *)
Theorem C03_solicited_cursor_reply_consumed_and_answered : forall dec b64 l s,
  sched_ok cursor_prog (req_cursor s) [] l = true -> q_stalled s = None ->
  exists s' es, run_steps dec b64 s l = Ok s' es /\ q_stalled s' = None /\
    user_events es = spec_wire dec (paste s) (req_cursor s) l /\
    cursors_of es = spec_answers (req_cursor s) (w_cursor s) l.
Proof. exact solicited_cursor_reply. Qed.
Print Assumptions C03_solicited_cursor_reply_consumed_and_answered.

(* The clipboard hand-off, for EVERY interleaving of delivered sequences with calls to
   ClipboardPop (started / answered / context expired) and EVERY state, without any hypothesis on
   the sequences or on the queue: the callers receive exactly the texts of the OSC 52 reports
   that arrive while they are waiting, in order.  In particular an unsolicited, repeated or late
   report (nobody waiting) leaves nothing behind: the next call is answered by the report the
   terminal sends to THAT call (the unbuffered chClipboard is a rendezvous). *)
Theorem C03_clipboard_answers_exact : forall dec b64 l s s' es,
  run_steps dec b64 s l = Ok s' es -> clips_of es = spec_clips b64 (w_clip s) l.
Proof. exact run_steps_clips. Qed.
Print Assumptions C03_clipboard_answers_exact.

(* per sequence: a report hands its text to the waiting caller (who then stops waiting) or is
   dropped; no other sequence touches the hand-off *)
Theorem C03_clipboard_report_answers_only_the_waiting_call : forall dec b64 s it s' es,
  handle dec b64 s it = Ok s' es ->
  (clips_of es, w_clip s') =
  match clip_answer b64 it with
  | Some b => (if w_clip s then [b] else [], false)
  | None => ([], w_clip s)
  end.
Proof. intros dec b64 s it s' es E. exact (handle_clips dec b64 s it s' es E). Qed.
Print Assumptions C03_clipboard_report_answers_only_the_waiting_call.

(* The property predicate of the differential stream "handle" (no crash on deliverable
   sequences, no wedge, user events = spec_wire, cursor answers = spec_answers, clipboard answers
   = spec_clips) holds on the observation the MODEL predicts, for every case input whose schedule
   can happen and every start state a snapshot describes: a case on which implementation and
   model agree is a case on which the property holds, and the predicate raises no false alarm on
   code the model describes. *)
Theorem C03_handle_predicate_sound : forall bits bs p rq rs sz uc sd lc lf lb steps kt bt obs,
  sched_ok cursor_prog rq [] steps = true ->
  let inp := (bits, None, bs, (p, rq, rs, sz, uc, sd, lc, lf, lb)) in
  hcase_violation (inp, steps, (kt, bt), model_obs (hcase_model (inp, steps, (kt, bt), obs))) = false.
Proof.
  intros bits bs p rq rs sz uc sd lc lf lb steps kt bt obs H.
  exact (handle_predicate_sound bits bs (p, rq, rs, sz, uc, sd, lc, lf, lb) steps kt bt obs H).
Qed.
Print Assumptions C03_handle_predicate_sound.

(* The size hand-off (VAXIS_FORCE_XTWINOPS): "a size reply answers its own request".  For every
   history of rounds in which the terminal answers each request with its two reports (any sizes,
   any number of rounds), from every state in which no token is left in chSizeDone and both
   report capabilities are known: when the observed Resize events are the ones the model predicts
   (no mismatch in the stream "size"), the predicate of the stream holds (zspec, read from the
   terminal's side: the event of a round carries the size reported in that round).
   NOT proved here: the same with user input interleaved in a round (exercised by the stream). *)
Theorem C03_size_predicate_sound : forall dec b64 (ps : list ((Z * Z * Z * Z) * option size)) s win pix,
  size_ready s ->
  zrounds_model dec b64 s win (map clean_round ps) = true ->
  zspec win pix (map clean_round ps) = true.
Proof. intros dec b64 ps s win pix. exact (size_predicate_sound dec b64 ps s win pix). Qed.
Print Assumptions C03_size_predicate_sound.
(* non-vacuity: a state after start-up is size_ready, and a history with a changed and an
   unchanged size is accepted by the model with exactly one Resize event *)
Example C03_example_size_history :
  size_ready (set_caps vx0 (caps_set (caps_set caps0 CChars) CPix)) /\
  zrounds_model (fun _ => key_none) (fun _ => None) (set_caps vx0 (caps_set (caps_set caps0 CChars) CPix)) (80, 24)
    (map clean_round [((480, 800, 30, 100), Some (mkSize 100 30 800 480)); ((480, 800, 30, 100), None)]) = true.
Proof. split; [repeat split; reflexivity | vm_compute; reflexivity]. Qed.

(* The start-up loop of New learns exactly the capabilities whose events precede the DA1 reply
   (kitty keyboard unless disabled), stops at it and leaves everything after it in the queue. *)
Theorem C03_startup_collects_exactly : forall dk evs su,
  let '(su', rest, got) := collect_caps dk su evs in
  rest = after_da1 evs /\ got = existsb is_da1 evs /\
  forall c, caps_get (su_caps su') c =
            caps_get (su_caps su) c ||
            (existsb (is_cap c) (before_da1 evs) && negb (dk && capev_eqb c CKittyKb)).
Proof. exact collect_caps_exact. Qed.
Print Assumptions C03_startup_collects_exactly.

(* Full strength FAILS during start-up (recorded finding startup-typeahead): user input that
   arrives before the DA1 reply is consumed by New's loop and never reaches the application.
   After start-up the full-strength theorems above apply (they hold for every state). *)
Theorem C03_startup_loses_typeahead_refuted :
  exists dec dk items,
    spec_user dec false true (map SItem items) <> [] /\
    filter is_user (startup_delivered dec dk items) = [].
Proof. exact startup_loses_typeahead_refuted. Qed.
Print Assumptions C03_startup_loses_typeahead_refuted.

(* mouse_roundtrip over BYTES: ESC [ < digits ; digits ; digits M|m (any digit strings that fit
   in an int, leading zeros included) is delivered by the parser model as the one CSI carrying
   the numbers they denote, and the input loop, in any state, turns those bytes into exactly one
   mouse event with the encoded button, position, modifiers and type. *)
Theorem C03_sgr_bytes_parse : forall d1 d2 d3 fin,
  fits d1 = true -> fits d2 = true -> fits d3 = true -> fin = 77 \/ fin = 109 ->
  parse_bytes ([27; 91; 60] ++ d1 ++ 59 :: d2 ++ 59 :: d3 ++ [fin]) =
  [ICsi [60] [[dval d1]; [dval d2]; [dval d3]] fin; IEof].
Proof. exact sgr_bytes_parse. Qed.
Print Assumptions C03_sgr_bytes_parse.

Theorem C03_sgr_bytes_become_the_event : forall dec b64 s b col row sh al ct mo rel d1 d2 d3,
  button_ok b = true -> int64_ok col = true -> int64_ok row = true ->
  fits d1 = true -> fits d2 = true -> fits d3 = true ->
  dval d1 = sgr_cb b sh al ct mo -> dval d2 = col + 1 -> dval d3 = row + 1 ->
  q_stalled s = None ->
  exists s' es,
    run dec b64 s (parse_bytes ([27; 91; 60] ++ d1 ++ 59 :: d2 ++ 59 :: d3 ++ [sgr_final rel])) = Ok s' es /\
    user_events es = [EMouse (sgr_mouse b col row sh al ct mo rel)].
Proof. exact sgr_bytes_event. Qed.
Print Assumptions C03_sgr_bytes_become_the_event.

(* ---------- the content of the colour replies (QueryColor / QueryForeground / QueryBackground) ----------
   "Replies ... update exactly the answer they report": the requester half of the chColor / chFg /
   chBg hand-off.  (The hand-off itself, offer / drop when the slot is full, is C03_answer_colour
   and C03_reply_updates_only_its_own above.) *)

(* Whatever payload a caller receives: if it makes a colour of it at all, the payload is a report
   (terminal-side reading, independent of Sscanf) that begins with the text naming what THIS caller
   asked for, and the colour is the one the report states. *)
Theorem C03_colour_scan_accepts_only_reports_for_what_was_asked : forall q p,
  cq_answer q p <> 0 -> report_colour (cq_head q) p = Some (cq_answer q p).
Proof. exact answer_is_report. Qed.
Print Assumptions C03_colour_scan_accepts_only_reports_for_what_was_asked.

(* A report for palette entry i is never taken as the answer to a query for another entry j
   (unsolicited, repeated or stale reports parked in chColor included): Color(0), "unknown". *)
Theorem C03_colour_report_for_another_entry_is_unknown : forall i j rest,
  0 <= i < 256 -> 0 <= j < 256 -> i <> j ->
  cq_answer (QColor (index_colour j)) ([52; 59] ++ dec_u8 i ++ [59] ++ rest) = 0.
Proof. exact other_entry_unknown. Qed.
Print Assumptions C03_colour_report_for_another_entry_is_unknown.

(* For EVERY state, every interleaving of calls with delivered sequences (any payloads: matching,
   for another entry, malformed, duplicated, stale) and every set of callers already blocked: each
   colour returned to a caller is Color(0), or the colour of a report that names what that caller
   asked for and that was delivered before the return (or lay in a reply channel at the start); an
   RGB colour passed to QueryColor comes back unchanged.  [known seen v]: v was delivered (or
   parked at the start), or no caller makes a colour of it. *)
Theorem C03_colour_answers_come_from_reports_for_the_asked_entry : forall dec b64 l s w seen,
  Forall blocking w -> Forall (known seen) (parked s) ->
  answers_ok seen (fst (fst (krun dec b64 s w l))) = true.
Proof. intros dec b64 l s w seen. exact (krun_answers_ok dec b64 l s w seen). Qed.
Print Assumptions C03_colour_answers_come_from_reports_for_the_asked_entry.

(* The answer half: the application reads its queue, nothing is parked in the reply channel, the
   call passes its guards (capability known; an indexed colour for QueryColor) and the terminal
   then sends the strict report for what was asked: the call returns exactly the reported colour
   and the channel is empty again. *)
Theorem C03_colour_strict_reply_answers_the_waiting_call : forall dec b64 s q p v,
  q_stalled s = None -> q_get q s = None -> cq_pre (vcaps s) q = None ->
  strict_report (cq_head q) (gostring p) = Some v ->
  exists fin, krun dec b64 s [] [KCall q; KItem (IOsc p)] = ([KCall q; KItem (IOsc p); KRet q v], 0, Some fin)
              /\ q_get q fin = None.
Proof. exact strict_reply_answers. Qed.
Print Assumptions C03_colour_strict_reply_answers_the_waiting_call.

(* The property predicate of the differential stream "colour" (neither crash nor wedge on
   deliverable sequences; every answer is Color(0) or comes from a report, delivered before, for
   what was asked; a call that meets no leftovers is answered by the first report on its channel,
   exactly when that report is strict) holds on the observation the MODEL predicts, for every case
   input without any hypothesis: no mismatch implies no violation, and the predicate raises no
   false alarm on code the model describes. *)
Theorem C03_colour_predicate_sound : forall bits sn0 steps obs,
  ccase_violation ((bits, sn0), steps, ccase_obs (ccase_model ((bits, sn0), steps, obs))) = false.
Proof. exact colour_predicate_sound. Qed.
Print Assumptions C03_colour_predicate_sound.

(* ---------- non-vacuity ---------- *)
(* ESC [ < 20 ; 10 ; 5 M  is Shift+Ctrl+left press at column 9, row 4 *)
Example C03_example_sgr_bytes :
  fits [50; 48] = true /\ fits [49; 48] = true /\ fits [53] = true /\
  dval [50; 48] = sgr_cb 0 true false true false /\ dval [49; 48] = 9 + 1 /\ dval [53] = 4 + 1 /\
  button_ok 0 = true.
Proof. exact sgr_bytes_example. Qed.

Definition ex_dec (it : item) : ikey :=
  match it with IPrint (r :: _) => mkIKey [r] r 0 0 0 0 | ICsi _ _ f => mkIKey [] f 0 0 0 0 | _ => mkIKey [] 0 0 0 0 0 end.
Definition ex_stream : list selem :=
  [SUser (RKey (IPrint [97])); SOther (ICsi [63] [[62]; [4]] 99); SUser RPasteStart;
   SOther (ICsi [] [[8]; [24]; [80]] 116); SOther (ICsi [] [[8]; [24]; [80]] 116);
   SUser (RKey (IPrint [98])); SUser (RMouse 64 9 4 true false true false false);
   SAct ACursorQuery; SOther (ICsi [] [[5]; [7]] 82); SUser RPasteEnd;
   SUser (RKey (ICsi [] [[1]; [2]] 82)); SOther (IOsc [52; 59; 49]); SUser RFocusOut].

(* the hypotheses of C03_user_input_exact are met by a stream with repeated unsolicited size
   reports, a solicited cursor report, a paste and a later F3-as-CSI-R key; and the delivered
   events are the expected eight *)
Example C03_example_stream :
  stream_ok false ex_stream = true /\
  (forall b64, exists s' es, run_steps ex_dec b64 vx0 (map enc_elem ex_stream) = Ok s' es /\
     user_events es =
     [EKey (mkIKey [97] 97 0 0 0 0); EPasteStart; EKey (mkIKey [98] 98 0 0 0 EventPaste);
      EMouse (mkMouse 64 4 9 EventPress 5); EPasteEnd; EKey (mkIKey [] 82 0 0 0 0); EFocusOut]).
Proof.
  split; [vm_compute; reflexivity|]. intros b64.
  destruct (C03_user_input_exact ex_dec b64 ex_stream vx0 eq_refl eq_refl) as (s' & es & E & Hu).
  exists s', es. split; [exact E|]. rewrite Hu. reflexivity.
Qed.

(* the well-formedness hypothesis matters: on a CSI with an empty parameter (which the parser
   never builds) handleSequence does index out of range *)
Example C03_example_wf_needed :
  handle ex_dec (fun _ => None) vx0 (ICsi [63] [[]] 99) = Panic [] /\
  wf_item (ICsi [63] [[]] 99) = false.
Proof. split; reflexivity. Qed.

(* the queue hypothesis matters: with nobody reading and no free slot the loop blocks (by design) *)
Example C03_example_backpressure :
  handle ex_dec (fun _ => None) (set_q vx0 (Some 0)) (IPrint [97]) = Blocks [].
Proof. reflexivity. Qed.

(* the byte-level composition on a concrete stream: ESC [ < 0 ; 3 ; 4 M  a  ESC [ I *)
Example C03_example_bytes :
  parse_bytes [27; 91; 60; 48; 59; 51; 59; 52; 77; 97; 27; 91; 73] =
    [ICsi [60] [[0]; [3]; [4]] 77; IPrint [97]; ICsi [] [] 73; IEof] /\
  match run ex_dec (fun _ => None) vx0 (parse_bytes [27; 91; 60; 48; 59; 51; 59; 52; 77; 97; 27; 91; 73]) with
  | Ok _ es => user_events es = [EMouse (mkMouse 0 3 2 EventPress 0); EKey (mkIKey [97] 97 0 0 0 0); EFocusIn]
  | _ => False
  end.
Proof. split; vm_compute; reflexivity. Qed.

(* the hypothesis of C03_solicited_cursor_reply_consumed_and_answered is met by the schedule of
   a terminal that is faster than the writer: a key, the flag armed, another key squeezed in
   before the write, the query written, the reply handled at once, more input, and a second
   call whose reply comes after its time-out fired (dropped) -- the first caller gets 5;7 and
   the application sees the three keys only *)
Definition ex_sched : list step :=
  [SItem (IPrint [97]); SApp ACursorArm; SItem (IPrint [98]); SApp ACursorWrite;
   SItem (ICsi [] [[5]; [7]] 82); SItem (IPrint [99]);
   SApp ACursorArm; SApp ACursorWrite; SApp ACursorTimerFires; SItem (ICsi [] [[1]; [1]] 82);
   SApp ACursorGiveUp].
Example C03_example_fast_terminal :
  sched_ok cursor_prog false [] ex_sched = true /\
  (forall b64, exists s', run_steps ex_dec b64 vx0 ex_sched =
     Ok s' [Ev (EKey (mkIKey [97] 97 0 0 0 0)); Ev (EKey (mkIKey [98] 98 0 0 0 0)); ToCursor 5 7;
            Ev (EKey (mkIKey [99] 99 0 0 0 0))]) /\
  spec_answers false false ex_sched = [(5, 7)].
Proof. split; [vm_compute; reflexivity|]. split; [|vm_compute; reflexivity]. intros b64. eexists. vm_compute. reflexivity. Qed.

(* the order obligation matters: had the query been written before the flag is armed, the
   schedule "reply handled between the two statements" would be admissible, the solicited report
   would surface as a key and the caller would get nothing *)
Example C03_example_order_matters : forall dec b64,
  sched_ok swapped_prog false [] fast_reply_schedule = true /\
  spec_wire dec false false fast_reply_schedule = [] /\
  spec_answers false false fast_reply_schedule = [(5, 7)] /\
  exists s', run_steps dec b64 vx0 fast_reply_schedule = Ok s' [Ev (EKey (dec (ICsi [] [[5]; [7]] 82)))].
Proof. exact order_matters. Qed.

(* the clipboard hand-off on a concrete schedule: an unsolicited report ("old"), a call answered
   by the report sent to it ("new"), a repeated report, a call whose context expires, its late
   answer, and a third call answered by its own report: the callers get "new" and "3rd", never
   "old" or "late"; the schedule meets the hypothesis of C03_handle_predicate_sound *)
Definition ex_b64 (s : list Z) : option (list Z) :=
  match s with [a; b] => Some [a; b; 33] | _ => None end.
Definition ex_osc52 (a b : Z) : item := IOsc [53; 50; 59; 99; 59; a; b].
Definition ex_clip_sched : list step :=
  [SItem (ex_osc52 111 108); SApp AClipWait; SItem (IPrint [97]); SItem (ex_osc52 110 101);
   SItem (ex_osc52 110 101); SApp AClipWait; SApp AClipLeave; SItem (ex_osc52 108 97);
   SItem (IOsc [53; 50; 59; 99]); SApp AClipWait; SItem (ex_osc52 51 114); SApp AClipLeave].
Example C03_example_clipboard :
  sched_ok cursor_prog false [] ex_clip_sched = true /\
  spec_clips ex_b64 false ex_clip_sched = [[110; 101; 33]; [51; 114; 33]] /\
  exists s', run_steps ex_dec ex_b64 vx0 ex_clip_sched =
    Ok s' [Ev (EKey (mkIKey [97] 97 0 0 0 0)); ToClip [110; 101; 33]; ToClip [51; 114; 33]].
Proof. split; [vm_compute; reflexivity|]. split; [vm_compute; reflexivity|]. eexists. vm_compute. reflexivity. Qed.

(* the colour hand-off on a concrete schedule (OSC 4 known): a stray report for entry 3, a call
   for entry 5 (takes the parked report: it names another entry, so "unknown"), the terminal's
   reply for entry 5 (nobody waits: parked), a second call for entry 5 (answered by that report),
   then a call answered directly by a strict reply in capitals; never entry 3's colour for entry 5.
   The hypotheses of C03_colour_strict_reply_answers_the_waiting_call are met by the last call. *)
Definition ex_s4 : vxstate := set_caps vx0 (caps_set caps0 COsc4).
Definition ex_rep3 : list Z := [52; 59; 51; 59; 114; 103; 98; 58; 49; 49; 49; 49; 47; 50; 50; 50; 50; 47; 51; 51; 51; 51].
Definition ex_rep5 : list Z := [52; 59; 53; 59; 114; 103; 98; 58; 97; 97; 97; 97; 47; 98; 98; 98; 98; 47; 99; 99; 99; 99].
Definition ex_rep7 : list Z := [52; 59; 55; 59; 114; 103; 98; 58; 70; 70; 47; 48; 47; 49; 50; 51].
Example C03_example_stale_colour_report :
  fst (fst (krun ex_dec (fun _ => None) ex_s4 []
    [KItem (IOsc ex_rep3); KCall (QColor (index_colour 5)); KItem (IOsc ex_rep5);
     KCall (QColor (index_colour 5)); KCall (QColor (index_colour 7)); KItem (IOsc ex_rep7)])) =
  [KItem (IOsc ex_rep3); KCall (QColor (index_colour 5)); KRet (QColor (index_colour 5)) 0;
   KItem (IOsc ex_rep5); KCall (QColor (index_colour 5));
   KRet (QColor (index_colour 5)) (rgb_colour 170 187 204);
   KCall (QColor (index_colour 7)); KItem (IOsc ex_rep7); KRet (QColor (index_colour 7)) (rgb_colour 255 0 35)] /\
  report_colour (cq_head (QColor (index_colour 5))) ex_rep3 = None /\
  report_colour (cq_head (QColor (index_colour 3))) ex_rep3 = Some (rgb_colour 17 34 51) /\
  strict_report (cq_head (QColor (index_colour 7))) (gostring ex_rep7) = Some (rgb_colour 255 0 35) /\
  cq_pre (vcaps ex_s4) (QColor (index_colour 7)) = None.
Proof. vm_compute. repeat split; reflexivity. Qed.
