(* C14 — vxfw layout contract and surface addressing hold for every constraint.
   Statements only; proofs live in proofs/SurfaceProofs.v, proofs/WidgetsProofs.v,
   proofs/WidgetsHistProofs.v and proofs/RenderProofs.v.

   Full statement (properties.jsonl): every built-in widget, for every drawing constraint,
   returns a surface no larger than the maximum it was given, centres a child that fits so
   that it lies fully inside its parent with margins equal to within one cell, and does not
   panic for zero, tiny or very large constraints or contents.  Surface addressing is exact
   for all surface sizes including those with more than 65 535 cells, and rendering a surface
   tree paints each child at its offset, clipped to its parent, in z-order.

   What is proved below, over the model of the code as it is now (after the fixes listed in
   the report): all of it, for every uint16 constraint, every list of lines and every character
   width, with these limits — the line scanners and ctx.Characters are oracles (the theorems
   hold for whatever lines they yield); list.Dynamic is modelled in its initial scroll state and
   in the states a history of draws without events reaches from it (scrolling by events is
   C19); styles and the cursor part of render are not modelled.  The contract is proved for a
   single draw of a fresh value and for every draw of every history of draws on one value.
   Render is proved for ANY window handed to Surface.render (any chain of Window.New frames:
   larger than the root surface — App.Run hands the root the whole terminal window —, equal,
   smaller, offset): besides the pointwise [shown] specification, every painted cell is a
   buffer cell of some node at its offset, inside the window's clip and inside the rectangle
   of every ancestor of that node below the root (C14_render_clipped_to_all_ancestors); the
   root's own clip is the window it is handed (Surface.render's interface); App.Run (fix 185add5)
   hands the root a window of the root's own size, so under App.Run every painted cell also lies
   inside the root surface (C14_app_render_clipped_to_root; the old call is refuted).
   App.Run over a HISTORY of terminal resizes (shrink, grow again, same size; a frame after each):
   no window survives between frames — frame k is the single-frame model of step k alone, painted
   through a window of the CURRENT terminal size (C14_app_history_frame_independent), the model's
   history meets the decidable check of stream apphist (C14_app_history_meets_spec), and a root
   window fetched once and refitted with Window.New on Resize is refuted
   (C14_cached_root_window_refuted).  "In z-order" is the mathematical order of the integers
   (sorter_ok quantifies over all of Z; C14_z_order_extremes at the ends of Go's int range). *)
From Vx Require Import base.Prelude model.Surface model.Widgets model.WidgetsHist
  proofs.SurfaceProofs proofs.WidgetsProofs proofs.RenderProofs proofs.PaintProofs
  proofs.WidgetsHistProofs.
From Coq Require Import Permutation Sorted.

(* ================================================================== surface addressing *)

(* NewSurface(w,h) has exactly w*h cells for all uint16 sizes (also above 65535 cells). *)
Theorem C14_new_surface_len : forall (A : Type) (blank : A) w h,
  0 <= w < 65536 -> 0 <= h < 65536 ->
  wf_node (new_surface blank w h) /\ zlen (s_buf (new_surface blank w h)) = w * h.
Proof. intros A blank w h Hw Hh; split; [apply new_surface_wf | apply new_surface_len]; assumption. Qed.
Print Assumptions C14_new_surface_len.

(* WriteCell with any uint16 coordinates on any well-formed surface (len(Buffer) = w*h, which
   NewSurface establishes and WriteCell keeps): it never indexes out of range, keeps size,
   children and buffer length, and changes exactly buffer index row*w+col when col < w and
   row < h, nothing otherwise. *)
Theorem C14_surface_addressing : forall (A : Type) (s : surface A) col row c,
  wf_node s -> 0 <= col < 65536 -> 0 <= row < 65536 ->
  exists s', write_cell s col row c = Some s' /\
    s_w s' = s_w s /\ s_h s' = s_h s /\ s_kids s' = s_kids s /\ wf_node s' /\
    forall i, zget (s_buf s') i =
              if (col <? s_w s) && (row <? s_h s) && (i =? row * s_w s + col) then Some c
              else zget (s_buf s) i.
Proof. intros A s col row c Hwf Hc Hr; apply write_cell_spec; [exact Hwf|lia|lia]. Qed.
Print Assumptions C14_surface_addressing.

(* In the coordinates in which render reads the buffer (cell i is painted at column i mod w,
   row i / w): after WriteCell(col,row,c) the cell shown at (col',row') is c exactly at the
   addressed cell when that is inside the surface, and what it was everywhere else. *)
Theorem C14_write_lands_in_addressed_cell : forall (A : Type) (s s' : surface A) col row c col' row',
  wf_node s -> 0 <= col < 65536 -> 0 <= row < 65536 -> write_cell s col row c = Some s' ->
  cell_at s' col' row' =
    if (col <? s_w s) && (row <? s_h s) && (col' =? col) && (row' =? row) then Some c
    else cell_at s col' row'.
Proof. intros A s s' col row c col' row' Hwf Hc Hr; apply write_cell_cell_at; [exact Hwf|lia|lia]. Qed.
Print Assumptions C14_write_lands_in_addressed_cell.

(* Any sequence of writes on NewSurface(w,h): no panic, and the observation of the model
   (buffer length, non-blank cells) passes the decidable check [surface_ok] that the
   differential run applies to the implementation: w*h cells, each holding the last write
   addressed to it. *)
Theorem C14_write_sequence_ok : forall w h ws,
  0 <= w < 65536 -> 0 <= h < 65536 -> Forall write_nonneg ws ->
  surface_ok ((w, h, ws), surface_run (w, h, ws)) = true.
Proof. exact surface_run_ok. Qed.
Print Assumptions C14_write_sequence_ok.

(* non-vacuity: a well-formed surface with more than 65535 cells, a write into its last cell *)
Example C14_example_big :
  wf_node (new_surface 0 300 300) /\ zlen (s_buf (new_surface 0 300 300)) = 90000 /\
  match write_cell (new_surface 0 300 300) 299 299 7 with
  | Some s' => zget (s_buf s') 89999 = Some 7
  | None => False
  end.
Proof. split; [apply new_surface_wf; lia|]. split; vm_compute; reflexivity. Qed.

(* ================================================================== layout contract *)

(* Text and RichText (soft wrap or not), for every list of lines the scanner may yield, every
   character width and every constraint 0..65535: Draw does not panic, the surface is well
   formed, its width is within Max.Width and its height is exactly min(Max.Height, #lines). *)
Theorem C14_text_size : forall soft lines maxw maxh,
  0 <= maxw < 65536 -> 0 <= maxh < 65536 ->
  exists s, text_draw soft lines maxw maxh = DOk s /\ wf_tree s /\
            0 <= s_w s <= maxw /\ s_h s = Z.min maxh (zlen lines) /\ s_kids s = [].
Proof. exact text_draw_spec. Qed.
Print Assumptions C14_text_size.

(* Every tree of built-in widgets (Text, RichText, Center, Button, TextField, list.Dynamic in
   its initial state; arbitrarily nested), every constraint 0..65535, every content: Draw
   either returns a well-formed surface tree no larger than the maximum, or panics — and it
   panics only if a widget that documents "bounded constraints required" (Center, Button,
   Dynamic) is handed an unbounded (65535) one. *)
Theorem C14_size_within_max : forall ws maxw maxh,
  0 <= maxw < 65536 -> 0 <= maxh < 65536 ->
  match draw ws maxw maxh with
  | DOk s => wf_tree s /\ 0 <= s_w s <= maxw /\ 0 <= s_h s <= maxh
  | DPanic => contract_panic ws maxw maxh = true
  end.
Proof. exact draw_contract_all. Qed.
Print Assumptions C14_size_within_max.

(* in particular: no panic at all for Text, RichText and TextField, whatever the constraint,
   and none for a Center of them under bounded constraints (zero and tiny ones included) *)
Theorem C14_no_panic_leaves : forall rich soft lines chars maxw maxh,
  0 <= maxw < 65536 -> 0 <= maxh < 65536 ->
  draw (WText rich soft lines) maxw maxh <> DPanic /\ draw (WField chars) maxw maxh <> DPanic /\
  (maxw < 65535 -> maxh < 65535 ->
   draw (WCenter (WText rich soft lines)) maxw maxh <> DPanic /\ draw (WButton lines) maxw maxh <> DPanic).
Proof. exact no_panic_leaves. Qed.
Print Assumptions C14_no_panic_leaves.

(* Center with ANY child widget (an arbitrary function of the constraint) that honours the
   contract under bounded constraints: the surface has exactly the maximum size, the child is
   its only sub-surface, lies fully inside, and the right/bottom margin exceeds the left/top
   margin by 0 or 1. *)
Theorem C14_center_margins : forall (child : Z -> Z -> cres) maxw maxh chS,
  0 <= maxw < 65535 -> 0 <= maxh < 65535 -> child maxw maxh = COk chS ->
  0 <= s_w chS <= maxw -> 0 <= s_h chS <= maxh ->
  exists s offX offY, center_draw child maxw maxh = DOk s /\ s_w s = maxw /\ s_h s = maxh /\
    s_kids s = [(offX, offY, 0, chS)] /\
    0 <= offX /\ offX + s_w chS <= maxw /\ 0 <= (maxw - s_w chS - offX) - offX <= 1 /\
    0 <= offY /\ offY + s_h chS <= maxh /\ 0 <= (maxh - s_h chS - offY) - offY <= 1.
Proof. exact center_margins. Qed.
Print Assumptions C14_center_margins.

(* Center over any tree of built-in widgets: the child always fits, so it is always centred *)
Theorem C14_center_builtin_margins : forall ch maxw maxh chS,
  0 <= maxw < 65535 -> 0 <= maxh < 65535 -> draw ch maxw maxh = DOk chS ->
  exists s offX offY, draw (WCenter ch) maxw maxh = DOk s /\ s_w s = maxw /\ s_h s = maxh /\
    s_kids s = [(offX, offY, 0, chS)] /\
    0 <= offX /\ offX + s_w chS <= maxw /\ 0 <= (maxw - s_w chS - offX) - offX <= 1 /\
    0 <= offY /\ offY + s_h chS <= maxh /\ 0 <= (maxh - s_h chS - offY) - offY <= 1.
Proof. exact center_builtin_margins. Qed.
Print Assumptions C14_center_builtin_margins.

(* Button: its label (a soft-wrapped Text of any content) is centred in a surface of exactly
   the maximum size *)
Theorem C14_button_margins : forall lines maxw maxh,
  0 <= maxw < 65535 -> 0 <= maxh < 65535 ->
  exists s offX offY chS, button_draw lines maxw maxh = DOk s /\ s_w s = maxw /\ s_h s = maxh /\
    s_kids s = [(offX, offY, 0, chS)] /\ text_draw true lines maxw maxh = DOk chS /\
    0 <= offX /\ offX + s_w chS <= maxw /\ 0 <= (maxw - s_w chS - offX) - offX <= 1 /\
    0 <= offY /\ offY + s_h chS <= maxh /\ 0 <= (maxh - s_h chS - offY) - offY <= 1.
Proof. exact button_margins. Qed.
Print Assumptions C14_button_margins.

(* The model's observation of every Draw passes the decidable contract check [draw_ok] that
   the differential run applies to the implementation's observations: a panic only where
   documented; otherwise well-formed surfaces and EVERY widget of the returned tree within the
   maximum it was given by its parent (the child of a Center / Button within the parent's
   maximum and centred, every item of a Dynamic within Max.Width - colOffset). *)
Theorem C14_draw_meets_contract : forall ws maxw maxh,
  0 <= maxw < 65536 -> 0 <= maxh < 65536 ->
  draw_ok ((ws, maxw, maxh), draw_run (ws, maxw, maxh)) = true.
Proof. exact draw_run_ok. Qed.
Print Assumptions C14_draw_meets_contract.

(* non-vacuity: four lines under Max.Height = 2 (the input that used to return height 3), and
   a button whose label is taller than the button *)
Example C14_example_text :
  text_draw false [[(4, 1)]; [(5, 1)]; [(6, 1)]; [(7, 1)]] 10 2 =
    DOk (Surf 1 2 [(4, 1); (5, 1)] []) /\
  match draw (WButton [[(4, 1)]; [(5, 1)]; [(6, 1)]; [(7, 1)]]) 10 2 with
  | DOk s => s_kids s = [(4, 0, 0, Surf 1 2 [(4, 1); (5, 1)] [])]
  | DPanic => False
  end /\
  draw (WCenter (WField [])) 65535 3 = DPanic /\ contract_panic (WCenter (WField [])) 65535 3 = true.
Proof. repeat split; vm_compute; reflexivity. Qed.

(* ================================================================== histories of draws on one widget value *)

(* An application draws the SAME widget value every frame, with changing constraints and with
   fields changed in between.  [sdraw ws top maxw maxh] (model/WidgetsHist.v) is Draw as a method
   on the object: it reads and returns the one piece of state a Draw of a built-in widget
   writes, the scroll index [top] of the list.Dynamic reached from the root through Center
   widgets; [hist_run top steps] threads it through a sequence of draws.

   The object as built behaves as the [draw] of the theorems above. *)
Theorem C14_history_fresh_value : forall ws maxw maxh,
  snd (sdraw ws 0 maxw maxh) = draw ws maxw maxh.
Proof. exact sdraw_fresh. Qed.
Print Assumptions C14_history_fresh_value.

(* "No larger than the maximum, panic only where documented" for a draw in ANY state that
   earlier draws may have left behind, every widget tree, every constraint 0..65535. *)
Theorem C14_history_size_within_max : forall ws top maxw maxh,
  0 <= maxw < 65536 -> 0 <= maxh < 65536 ->
  match snd (sdraw ws top maxw maxh) with
  | DOk s => wf_tree s /\ 0 <= s_w s <= maxw /\ 0 <= s_h s <= maxh
  | DPanic => contract_panic ws maxw maxh = true
  end.
Proof. exact sdraw_contract_all. Qed.
Print Assumptions C14_history_size_within_max.

(* Every step of every history (any length, any sequence of constraints — zero, tiny, repeated,
   unbounded —, any change of the fields between the steps, any initial scroll state) passes
   the decidable contract check [draw_ok] (every widget of the tree within the maximum it was
   given, well-formed surfaces, centred child, panic only where documented); this is the
   violation predicate the differential run applies to every step of the implementation's
   histories. *)
Theorem C14_history_meets_contract : forall steps top, Forall in_u16 steps ->
  forallb draw_ok (combine steps (hist_run top steps)) = true.
Proof. exact hist_run_contract. Qed.
Print Assumptions C14_history_meets_contract.

(* History-independence.  For Text, RichText, Button, TextField and Centers of them Draw writes
   no field: from any state, every step returns exactly what a freshly built copy with the same
   fields returns for that constraint — Draw is a function of (fields, constraint). *)
Theorem C14_draw_function_of_fields_and_constraint : forall steps top,
  forallb (fun inp : draw_input => negb (scroll_root (fst (fst inp)))) steps = true ->
  hist_run top steps = map draw_run steps.
Proof. exact hist_stateless. Qed.
Print Assumptions C14_draw_function_of_fields_and_constraint.

(* list.Dynamic keeps a scroll position between draws by design (C19's subject), so its Draw is
   a function of (fields, scroll state, constraint).  For every widget tree, Dynamic included:
   as long as each step, taken alone on a fresh value, leaves the scroll index at 0
   ([step_anchored], decidable), every step of the history returns what a fresh copy returns. *)
Theorem C14_history_independent : forall steps,
  forallb step_anchored steps = true -> hist_run 0 steps = map draw_run steps.
Proof. exact hist_independent. Qed.
Print Assumptions C14_history_independent.

(* ... which is guaranteed, for every constraint, by the fields alone when the list has Gap > 0
   or (Gap = 0) a first item that is a Text/RichText with at least one line. *)
Theorem C14_history_independent_fields : forall steps, Forall in_u16 steps ->
  forallb (fun inp : draw_input => anchored_fields (fst (fst inp))) steps = true ->
  hist_run 0 steps = map draw_run steps.
Proof. exact hist_anchored_fields. Qed.
Print Assumptions C14_history_independent_fields.

(* non-vacuity: a soft-wrapped text drawn with an ordinary, a zero and the same zero constraint
   (the scanner yields no line for width 0); a list with Gap 1 drawn three times *)
Example C14_example_history :
  hist_run 0 [(WText false true [[(4, 1); (5, 1)]; [(6, 1)]], 20, 5); (WText false true [], 0, 0);
              (WText false true [], 0, 0)]
  = [(0, ONode 2 2 4 [(0, (4, 1)); (1, (5, 1)); (2, (6, 1))] []); (0, ONode 0 0 0 [] []); (0, ONode 0 0 0 [] [])] /\
  forallb step_anchored [(WList true 1 [WText false true []; WText false true [[(4, 1)]]], 10, 4);
                         (WList true 1 [WText false true []; WText false true [[(4, 1)]]], 0, 0)] = true /\
  Forall in_u16 [(WText false true [], 0, 0); (WList true 1 [], 65535, 3)].
Proof. split; [vm_compute; reflexivity|]. split; [vm_compute; reflexivity|]. repeat constructor; cbn; lia. Qed.

(* ================================================================== render *)

(* Surface.render of any well-formed surface tree into any window (a chain of Window.New
   frames), applied to any screen, for whatever order sort.Slice gives equal z-indices:
   no panic; a screen cell inside the window's clip shows what [shown] prescribes — the
   surface's own buffer cell at that point, overridden by each child that covers the point,
   children taken in sorted order, each child (and its whole subtree) placed at its offset
   and confined to its own rectangle — and every other screen cell is left untouched. *)
Theorem C14_render_paints : forall (A : Type) (sorter : list Z -> list nat) (s : surface A) win (sc : screen A),
  wf_tree s -> win <> [] -> screen_wf sc ->
  exists ps sc', render_gen sorter win s = Some ps /\ screen_apply sc ps = Some sc' /\
    sc_cols sc' = sc_cols sc /\ sc_rows sc' = sc_rows sc /\
    forall x y, 0 <= x < sc_cols sc -> 0 <= y < sc_rows sc ->
      screen_get sc' x y =
        match (let '(ox, oy) := win_org win in
               if win_clip win x y then shown sorter s ox oy x y else None) with
        | Some c => Some c
        | None => screen_get sc x y
        end.
Proof. intros A sorter s win sc; apply render_paints_screen. Qed.
Print Assumptions C14_render_paints.

(* z-order: for any sort that yields a permutation ascending in z (sort.Slice's contract),
   [shown] is "own cell, then the children in some ascending-z order, later over earlier" *)
Theorem C14_render_sorted_order : forall (A : Type) (sorter : list Z -> list nat), sorter_ok sorter ->
  forall w h (buf : list A) kids ox oy x y,
  exists kids', Permutation kids' kids /\ StronglySorted Z.le (map kid_z kids') /\
    shown sorter (Surf w h buf kids) ox oy x y =
    fold_left later
      (map (fun k => if in_rect (ox + kid_col k) (oy + kid_row k) (s_w (kid_surf k)) (s_h (kid_surf k)) x y
                     then shown sorter (kid_surf k) (ox + kid_col k) (oy + kid_row k) x y else None) kids')
      (if in_rect ox oy w h x y then zget buf ((y - oy) * w + (x - ox)) else None).
Proof. intros A sorter Hs w h buf kids ox oy x y; apply shown_sorted; exact Hs. Qed.
Print Assumptions C14_render_sorted_order.

(* ... hence, order-free: at every point either no child shows anything and the surface's own
   cell is shown, or the shown cell comes from a child whose z-index is >= that of every
   child showing something at that point. *)
Theorem C14_render_z_order : forall (A : Type) (sorter : list Z -> list nat), sorter_ok sorter ->
  forall w h (buf : list A) kids ox oy x y,
  ((forall k, In k kids -> kid_shows sorter ox oy x y k = None) /\
   shown sorter (Surf w h buf kids) ox oy x y =
     (if in_rect ox oy w h x y then zget buf ((y - oy) * w + (x - ox)) else None)) \/
  (exists k c, In k kids /\ kid_shows sorter ox oy x y k = Some c /\
     shown sorter (Surf w h buf kids) ox oy x y = Some c /\
     forall k' c', In k' kids -> kid_shows sorter ox oy x y k' = Some c' -> kid_z k' <= kid_z k).
Proof. intros A sorter Hs w h buf kids ox oy x y; apply shown_topmost; exact Hs. Qed.
Print Assumptions C14_render_z_order.

(* the hypothesis is satisfiable: the executable sorter (stable insertion sort, which is what
   sort.Slice runs for up to 12 elements) meets it *)
Theorem C14_stable_sorter_ok : sorter_ok stable_perm.
Proof. exact stable_perm_ok. Qed.
Print Assumptions C14_stable_sorter_ok.

(* Clipping to ALL ancestors, for every window.  App.Run hands the root surface the whole terminal
   window, so the root's window may be LARGER than the root surface (a root widget that returns
   less than the terminal), equal to it or smaller; [win] is any chain of Window.New frames.
   After render every screen cell is either untouched or shows buffer cell (x - ox', y - oy') of
   SOME node of the tree placed at its offset (ox',oy' = sum of the offsets on its path), and the
   point lies inside the window's clip and inside the rectangle of EVERY node on the path from
   the root's child down to that node ([path] lists those rectangles): nothing a descendant
   paints escapes any of its ancestors, however many same-size wrappers lie in between.  (The
   root's own clip is the window it is handed: that is Surface.render's interface.) *)
Theorem C14_render_clipped_to_all_ancestors :
  forall (A : Type) (sorter : list Z -> list nat) (s : surface A) win (sc : screen A),
  wf_tree s -> win <> [] -> screen_wf sc ->
  exists ps sc', render_gen sorter win s = Some ps /\ screen_apply sc ps = Some sc' /\
    forall x y, 0 <= x < sc_cols sc -> 0 <= y < sc_rows sc ->
      screen_get sc' x y = screen_get sc x y \/
      exists c path, screen_get sc' x y = Some c /\ win_clip win x y = true /\
        paint_path s (fst (win_org win)) (snd (win_org win)) x y c path /\
        Forall (fun r => rect_has r x y = true) path.
Proof. intros A sorter s win sc; apply render_clipped_to_ancestors. Qed.
Print Assumptions C14_render_clipped_to_all_ancestors.

(* [justified] (model/Surface.v) is the decidable form of "there is such a path" that the
   differential run evaluates on every painted cell of the real screen *)
Theorem C14_justified_iff_path : forall (s : surface Z) ox oy x y v,
  justified s ox oy x y v = true <->
  exists path, paint_path s ox oy x y v path /\ Forall (fun r => rect_has r x y = true) path.
Proof.
  intros s ox oy x y v; split; [apply justified_paint_path|].
  intros (path & Hp & Hall); eapply paint_path_justified; eassumption.
Qed.
Print Assumptions C14_justified_iff_path.

(* Where a window can exceed its surface: the window Surface.render makes for a child is never
   larger than the child, so only the root's window can be larger than its surface; and
   Window.New(0,0,w,h) of a window no larger than w x h clips exactly like that window (a
   same-size child at (0,0) gets a clip equal to its parent's everywhere BELOW the root, and a
   strictly smaller one directly under a root that is smaller than its window). *)
Theorem C14_child_window_within_child : forall (win : window) col row cols rows,
  0 <= cols -> 0 <= rows ->
  win_w (win_new win col row cols rows) <= cols /\ win_h (win_new win col row cols rows) <= rows.
Proof. exact win_new_within. Qed.
Print Assumptions C14_child_window_within_child.

Theorem C14_same_size_child_window : forall (win : window) w h x y,
  win <> [] -> 0 <= w -> 0 <= h ->
  win_clip (win_new win 0 0 w h) x y =
    win_clip win x y && in_rect (fst (win_org win)) (snd (win_org win)) w h x y /\
  (win_w win <= w -> win_h win <= h -> win_clip (win_new win 0 0 w h) x y = win_clip win x y).
Proof.
  intros win w h x y Hne Hw Hh. split; [|intros; apply win_new_same_size; assumption].
  pose proof (win_new_spec win 0 0 w h x y Hne Hw Hh) as H.
  destruct (win_org win) as [ox oy]; cbn [fst snd]. destruct H as [_ ->].
  now rewrite !Z.add_0_r.
Qed.
Print Assumptions C14_same_size_child_window.

(* The model's screen after render passes the decidable checks that the differential run
   applies to the real Vaxis screen: [render_ok2] = every cell is what [shown] prescribes AND the
   clipping clause [clipped_ok] (every painted cell inside the window's clip and justified). *)
Theorem C14_render_meets_spec : forall cols rows (s : surface Z), 0 <= cols -> 0 <= rows ->
  render_ok ((cols, rows, s), render_run (cols, rows, s)) = true /\
  render_ok2 ((cols, rows, s), render_run (cols, rows, s)) = true.
Proof. intros cols rows s Hc Hr; split; [apply render_run_ok | apply render_run_ok2]; assumption. Qed.
Print Assumptions C14_render_meets_spec.

(* The same with the window handed to render being the terminal window narrowed by ANY sequence
   of Window.New calls (offsets and sizes of any sign, also the "-1 = the rest" sizes): larger
   than, equal to, smaller than or partly outside the root surface. *)
Theorem C14_render_any_window_meets_spec : forall cols rows frames (s : surface Z), 0 <= cols -> 0 <= rows ->
  renderwin_ok ((cols, rows, frames, s), renderwin_run (cols, rows, frames, s)) = true.
Proof. exact renderwin_run_ok. Qed.
Print Assumptions C14_render_any_window_meets_spec.

(* App.Run's render call (after fix 185add5): the root surface is rendered into
   vx.Window().New(0, 0, rootW, rootH).  For every tree, every terminal size and every screen,
   every painted cell lies inside the ROOT surface's rectangle as well (and inside the terminal,
   and inside every ancestor on its path): the root clips its children like every other surface.
   Corollary of C14_render_clipped_to_all_ancestors and the clip of Window.New at the root. *)
Theorem C14_app_render_clipped_to_root :
  forall (A : Type) (sorter : list Z -> list nat) (s : surface A) cols rows (sc : screen A),
  wf_tree s -> screen_wf sc ->
  exists ps sc', render_gen sorter (app_window cols rows s) s = Some ps /\ screen_apply sc ps = Some sc' /\
    forall x y, 0 <= x < sc_cols sc -> 0 <= y < sc_rows sc ->
      screen_get sc' x y = screen_get sc x y \/
      exists c path, screen_get sc' x y = Some c /\
        in_rect 0 0 (s_w s) (s_h s) x y = true /\ in_rect 0 0 cols rows x y = true /\
        paint_path s 0 0 x y c path /\ Forall (fun r => rect_has r x y = true) path.
Proof. intros A sorter s cols rows sc; apply apprun_clipped_to_root. Qed.
Print Assumptions C14_app_render_clipped_to_root.

(* the model of App.Run's frame passes the decidable check applied to the real App.Run's frames:
   [apprun_ok] = renderwin_ok for that window AND [root_clip_ok] (no painted cell outside the
   root surface) *)
Theorem C14_app_render_meets_spec : forall cols rows (s : surface Z), 0 <= cols -> 0 <= rows ->
  apprun_ok ((cols, rows, s), apprun_run (cols, rows, s)) = true.
Proof. exact apprun_run_ok. Qed.
Print Assumptions C14_app_render_meets_spec.

(* the call before the fix (window = the whole terminal) violated the clause: a 4x2 root in a
   6x4 terminal with a child at (3,1) painted cells 12, 13, 14 outside the root *)
Theorem C14_old_app_render_refuted :
  let t := Surf 4 2 [1;2;3;4;5;6;7;8] [(3, 1, 0, Surf 2 2 [11;12;13;14] [])] in
  apprun_old_run (6, 4, t) = (0, [[1;2;3;4;0;0]; [5;6;7;11;12;0]; [0;0;0;13;14;0]; [0;0;0;0;0;0]]) /\
  apprun_ok ((6, 4, t), apprun_old_run (6, 4, t)) = false /\
  apprun_run (6, 4, t) = (0, [[1;2;3;4;0;0]; [5;6;7;11;0;0]; [0;0;0;0;0;0]; [0;0;0;0;0;0]]).
Proof. cbv zeta. repeat split; vm_compute; reflexivity. Qed.
Print Assumptions C14_old_app_render_refuted.

(* non-vacuity / the class: a 4x2 root in a 6x4 terminal (its window is larger than the root)
   wrapping a same-size child at (0,0) whose own child overhangs it by one row and one column:
   only the grandchild's cell inside BOTH the child and the window is painted; the same tree in a
   sub-window at (1,1) of size 3x2 (smaller than the root) *)
Example C14_example_wrapper :
  let t := Surf 4 2 [1;2;3;4;5;6;7;8]
             [(0, 0, 0, Surf 4 2 [21;22;23;24;25;26;27;28] [(3, 1, 0, Surf 2 2 [11;12;13;14] [])])] in
  wf_tree t /\
  render_run (6, 4, t) = (0, [[21;22;23;24;0;0]; [25;26;27;11;0;0]; [0;0;0;0;0;0]; [0;0;0;0;0;0]]) /\
  renderwin_run (6, 4, [(1, 1, 3, 2)], t) = (0, [[0;0;0;0;0;0]; [0;21;22;23;0;0]; [0;25;26;27;0;0]; [0;0;0;0;0;0]]).
Proof. cbv zeta. split; [apply tree_wf_b_sound; vm_compute; reflexivity|]. split; vm_compute; reflexivity. Qed.

(* non-vacuity: a 3x1 parent with two overlapping children; the higher z wins at x = 1, the
   child hanging over the right edge is clipped to the parent's window *)
Example C14_example_render :
  wf_tree (Surf 3 1 [1; 2; 3] [(1, 0, 5, Surf 1 1 [9] []); (0, 0, 0, Surf 2 1 [7; 8] []); (2, 0, 1, Surf 4 1 [4; 5; 6; 6] [])]) /\
  render_run (6, 2, Surf 3 1 [1; 2; 3] [(1, 0, 5, Surf 1 1 [9] []); (0, 0, 0, Surf 2 1 [7; 8] []); (2, 0, 1, Surf 4 1 [4; 5; 6; 6] [])])
  = (0, [[7; 9; 4; 5; 6; 6]; [0; 0; 0; 0; 0; 0]]).
Proof. split; [apply tree_wf_b_sound; vm_compute; reflexivity | vm_compute; reflexivity]. Qed.

(* ================================================================== layout + render composed *)

(* What App.layout + Surface.render do for any tree of built-in widgets and any window size:
   Draw with Max = window size, render the result into a window of the root surface's own size
   (App.Run's call after fix 185add5) on a cleared screen.
   Unless a documented-unbounded panic occurs nothing panics, and every screen cell shows what
   [shown] prescribes for the drawn tree (blank where the tree paints nothing). *)
Theorem C14_layout_then_render : forall ws cols rows, 0 <= cols < 65536 -> 0 <= rows < 65536 ->
  match draw ws cols rows with
  | DPanic => contract_panic ws cols rows = true /\ paint_run (ws, cols, rows) = (1, [])
  | DOk s =>
      exists sc, paint_run (ws, cols, rows) = (0, sc_buf sc) /\ screen_wf sc /\
        sc_cols sc = cols /\ sc_rows sc = rows /\
        forall x y, 0 <= x < cols -> 0 <= y < rows ->
          screen_get sc x y =
            Some (match (if in_rect 0 0 (s_w s) (s_h s) x y then shown stable_perm s 0 0 x y else None) with
                  | Some c => c | None => wblank end)
  end.
Proof. exact layout_then_render. Qed.
Print Assumptions C14_layout_then_render.

Theorem C14_paint_meets_spec : forall ws cols rows, 0 <= cols < 65536 -> 0 <= rows < 65536 ->
  paint_ok ((ws, cols, rows), paint_run (ws, cols, rows)) = true.
Proof. exact paint_run_ok. Qed.
Print Assumptions C14_paint_meets_spec.

(* non-vacuity: a button "OK" (ids 4,5) on a 6x3 screen: the label is centred on the middle row *)
Example C14_example_paint :
  paint_run (WButton [[(4, 1); (5, 1)]], 6, 3) =
    (0, [[(0,0); (0,0); (0,0); (0,0); (0,0); (0,0)];
         [(0,0); (0,0); (4,1); (5,1); (0,0); (0,0)];
         [(0,0); (0,0); (0,0); (0,0); (0,0); (0,0)]]).
Proof. vm_compute; reflexivity. Qed.

(* ================================================================== regression witnesses *)

(* The code before the fixes violated the property; witnesses over the old definitions. *)
Theorem C14_old_new_surface_refuted :
  zlen (s_buf (new_surface_u16 0 300 300)) = 24464 /\ 300 * 300 = 90000.
Proof. exact old_new_surface_refuted. Qed.
Print Assumptions C14_old_new_surface_refuted.

Theorem C14_old_write_cell_refuted :
  write_cell_u16 (new_surface_u16 0 3 2) 0 2 7 = None /\
  match write_cell_u16 (new_surface 0 300 300) 299 299 7 with
  | Some s' => (zget (s_buf s') (299 * 300 + 299), zget (s_buf s') 24463)
  | None => (None, None)
  end = (Some 0, Some 7).
Proof. exact (conj old_write_cell_height_refuted old_write_cell_wrap_refuted). Qed.
Print Assumptions C14_old_write_cell_refuted.

Theorem C14_old_text_height_refuted :
  container_size_old [[(4, 1)]; [(5, 1)]; [(6, 1)]; [(7, 1)]] 10 2 0 0 = (1, 3).
Proof. exact old_container_size_refuted. Qed.
Print Assumptions C14_old_text_height_refuted.

(* Center computes its offsets in uint16: a child that does NOT fit (which no built-in widget
   produces any more) would be placed at a wrapped-around offset, e.g. row 32767 *)
Theorem C14_center_misfit_offset : u16 (2 - 3) / 2 = 32767.
Proof. exact center_offset_misfit. Qed.
Print Assumptions C14_center_misfit_offset.

(* ================================================================== App.Run over a history of terminal resizes *)

(* One App.Run, the terminal resized between frames (any sequence of sizes: shrinking, growing
   again, the same size).  The model's history passes the decidable check applied to the real
   App.Run ([apphist_ok]: no panic, one screen per step, and every frame satisfies [apprun_ok]
   for the terminal size of ITS OWN step): "no mismatch" implies "no violation" for stream apphist. *)
Theorem C14_app_history_meets_spec : forall inp : apphist_input,
  sizes_nonneg inp = true -> apphist_ok (inp, apphist_run inp) = true.
Proof. exact apphist_run_ok. Qed.
Print Assumptions C14_app_history_meets_spec.

(* no window survives between frames: frame k of any history of well-formed trees is App.Run's
   single frame [apprun_run] of step k alone — painted through a window of the CURRENT terminal
   size, whatever the sizes before were *)
Theorem C14_app_history_frame_independent : forall (inp : apphist_input) k i,
  sizes_nonneg inp = true -> forallb (fun i : render_input => tree_wf_b (snd i)) inp = true ->
  nth_error inp k = Some i ->
  fst (apphist_run inp) = 0 /\ nth_error (snd (apphist_run inp)) k = Some (snd (apprun_run i)).
Proof. exact apphist_run_frame. Qed.
Print Assumptions C14_app_history_frame_independent.

(* non-vacuity and regression witness: 5x2 -> 3x1 -> 6x2.  A root window fetched once and refitted
   with Window.New on Resize can never grow again: it paints only the 3x1 corner of the last frame
   and fails the check *)
Theorem C14_cached_root_window_refuted :
  sizes_nonneg grow_hist = true /\
  apphist_run grow_hist = (0, [[[1;2;3;4;5];[6;7;8;9;10]]; [[11;12;13]]; [[21;22;23;24;25;26];[27;28;29;30;41;42]]]) /\
  apphist_cached_run grow_hist = (0, [[[1;2;3;4;5];[6;7;8;9;10]]; [[11;12;13]]; [[21;22;23;0;0;0];[0;0;0;0;0;0]]]) /\
  apphist_ok (grow_hist, apphist_cached_run grow_hist) = false /\
  apphist_obs_eqb (apphist_run grow_hist) (apphist_cached_run grow_hist) = false.
Proof. exact apphist_cached_refuted. Qed.
Print Assumptions C14_cached_root_window_refuted.

(* "in z-order" is the mathematical order of the integers ([sorter_ok] quantifies over all of Z):
   at the ends of Go's int range — an overlay at MaxInt over a background at -1, whichever is
   added first, MinInt below everything — where a difference of two z-indices does not fit an int *)
Theorem C14_z_order_extremes :
  let maxint := 9223372036854775807 in let minint := -9223372036854775808 in
  let bg := Surf 2 1 [7;8] [] in let ov := Surf 1 1 [9] [] in let lo := Surf 2 1 [5;6] [] in
  stable_perm [-1; maxint] = [0%nat; 1%nat] /\ stable_perm [maxint; -1] = [1%nat; 0%nat] /\
  stable_perm [-1; maxint; 0] = [0%nat; 2%nat; 1%nat] /\ stable_perm [1; minint; maxint; -1] = [1%nat; 3%nat; 0%nat; 2%nat] /\
  render_run (3, 1, Surf 3 1 [1;2;3] [(0, 0, -1, bg); (0, 0, maxint, ov)]) = (0, [[9;8;3]]) /\
  render_run (3, 1, Surf 3 1 [1;2;3] [(0, 0, maxint, ov); (0, 0, -1, bg)]) = (0, [[9;8;3]]) /\
  render_run (3, 1, Surf 3 1 [1;2;3] [(0, 0, -1, bg); (0, 0, maxint, ov); (0, 0, minint, lo)]) = (0, [[9;8;3]]).
Proof. exact z_extreme_order. Qed.
Print Assumptions C14_z_order_extremes.
