(* C14 — vxfw layout contract and surface addressing hold for every constraint.
   Statements only; proofs live in proofs/SurfaceProofs.v and proofs/WidgetsProofs.v. *)
From Vx Require Import base.Prelude model.Surface proofs.SurfaceProofs.

(* ---- Surface addressing.
   NewSurface(w,h) has exactly w*h cells for all uint16 sizes (also above 65535 cells). *)
Theorem C14_new_surface_len : forall (A : Type) (blank : A) w h,
  0 <= w < 65536 -> 0 <= h < 65536 ->
  wf_node (new_surface blank w h) /\ zlen (s_buf (new_surface blank w h)) = w * h.
Proof. intros A blank w h Hw Hh; split; [apply new_surface_wf | apply new_surface_len]; assumption. Qed.
Print Assumptions C14_new_surface_len.

(* WriteCell with any uint16 coordinates on any well-formed surface (len(Buffer) = w*h, which
   NewSurface establishes and WriteCell keeps): it never indexes out of range, keeps size,
   children and buffer length, and changes exactly buffer index row*w+col when col < w and
   row < h, nothing otherwise. *)
Theorem C14_surface_addressing : forall (A : Type) (s : surface A) col row c,
  wf_node s -> 0 <= col < 65536 -> 0 <= row < 65536 ->
  exists s', write_cell s col row c = Some s' /\
    s_w s' = s_w s /\ s_h s' = s_h s /\ s_kids s' = s_kids s /\ wf_node s' /\
    forall i, zget (s_buf s') i =
              if (col <? s_w s) && (row <? s_h s) && (i =? row * s_w s + col) then Some c
              else zget (s_buf s) i.
Proof. intros A s col row c Hwf Hc Hr; apply write_cell_spec; [exact Hwf|lia|lia]. Qed.
Print Assumptions C14_surface_addressing.

(* In the coordinates in which render reads the buffer (cell i is painted at column i mod w,
   row i / w): after WriteCell(col,row,c) the cell shown at (col',row') is c exactly at the
   addressed cell when that is inside the surface, and what it was everywhere else. *)
Theorem C14_write_lands_in_addressed_cell : forall (A : Type) (s s' : surface A) col row c col' row',
  wf_node s -> 0 <= col < 65536 -> 0 <= row < 65536 -> write_cell s col row c = Some s' ->
  cell_at s' col' row' =
    if (col <? s_w s) && (row <? s_h s) && (col' =? col) && (row' =? row) then Some c
    else cell_at s col' row'.
Proof. intros A s s' col row c col' row' Hwf Hc Hr; apply write_cell_cell_at; [exact Hwf|lia|lia]. Qed.
Print Assumptions C14_write_lands_in_addressed_cell.

(* non-vacuity: a well-formed surface with more than 65535 cells, a write into its last cell *)
Example C14_example_big :
  wf_node (new_surface 0 300 300) /\ zlen (s_buf (new_surface 0 300 300)) = 90000 /\
  match write_cell (new_surface 0 300 300) 299 299 7 with
  | Some s' => zget (s_buf s') 89999 = Some 7
  | None => False
  end.
Proof. split; [apply new_surface_wf; lia|]. split; vm_compute; reflexivity. Qed.

(* The code before the fixes (uint16 product in NewSurface, `row > Height`, uint16 index in
   WriteCell) violated each clause; kept as regression witnesses over the old definitions. *)
Theorem C14_old_new_surface_refuted :
  zlen (s_buf (new_surface_u16 0 300 300)) = 24464 /\ 300 * 300 = 90000.
Proof. exact old_new_surface_refuted. Qed.
Print Assumptions C14_old_new_surface_refuted.

Theorem C14_old_write_cell_refuted :
  write_cell_u16 (new_surface_u16 0 3 2) 0 2 7 = None.
Proof. exact old_write_cell_height_refuted. Qed.
Print Assumptions C14_old_write_cell_refuted.
