(* C11 — windows clip.  Statements only; proofs live in proofs/WindowProofs.v. *)
From Vx Require Import base.Prelude base.ListX model.Window proofs.WindowProofs.
