(* C11 — windows clip: drawing never escapes a window or its ancestors.
   Statements only; proofs live in proofs/WindowProofs.v, the vocabulary (WF, visible, origin,
   in_clip, updated_at, clipped, path_ok, layout_ok, edges_ok ...) in model/Window.v.

   A window is [Root f] (Parent == nil) or [Child f parent]; a frame holds Column, Row,
   Width, Height as four arbitrary integers.  [origin w] is the sum of the offsets up to the
   root, [in_clip w x y] says that the absolute point lies in the rectangle
   origin + [0,Width) x [0,Height) of w and of each of its ancestors, and
   [visible w s x y = in_clip w x y && on_screen s x y] is the clip of the property.
   Grapheme/line segmentation and width measurement are oracles: every theorem quantifies
   over arbitrary [measure], [remeasure], [trailing] and over arbitrary cluster lists.

   State that survives between calls (a screen is never reset between drawing calls of a
   frame): every theorem quantifies over an arbitrary well-formed screen, C11_sequence_clip
   composes them over any sequence of calls through different windows, and the stream "seq"
   of the differential run decides the property step by step on the screens observed before
   and after each call (C11_sequence_predicate_sound).

   The whole observation predicate (core clauses and the further clauses: reading order as a
   subsequence test, stored width = measured width, non-overlap) is sound for the model when
   the width oracles give no negative width (C11_observation_holds_sound,
   C11_sequence_holds_sound; the hypothesis is decided per case, a case outside it counts as
   a mismatch, and it cannot be dropped: C11_widths_hypothesis_needed), so that a run without
   mismatch has no violation (C11_no_mismatch_no_violation); what the further clauses say in
   words is C11_more_predicate_meaning, and the fact behind them, for any screen contents
   found, is C11_changed_cells_reading_order.

   Measuring: the capability-dependent choice between the segmenter's widths and
   Vaxis.characterWidth is the pair (remeasure, measure), universally quantified everywhere
   (the differential run uses all eight settings unicodeCore x explicitWidth x noZWJ).  The
   width of a line segment in Wrap is the sum over the EXPANDED characters (a tab = eight
   blanks): C11_wrap_total_expanded; the per-cluster fit does not depend on it:
   C11_wrap_segment_fits_any_start.

   Not covered here: the rendering of screenNext to the terminal (C01).  On the level of
   glyphs (a wide cluster covers more than its cell) C11_text_no_overhang covers the text
   helpers on windows made by Vaxis.Window/New; for Window literals that are larger than
   their parent it is false, see C11_overhang_literal_refuted. *)
From Vx Require Import base.Prelude base.ListX model.Window proofs.WindowProofs proofs.WindowMoreProofs.
Require Import Sorted.

(* ---------------------------------------------------------------- SetCell / SetStyle *)

(* setcell_clip.  For every chain of nested windows (any depth, any integer offsets and
   sizes), every coordinate and every well-formed screen: SetCell does not panic; if the
   point origin+offset lies in the rectangle of the window and of every ancestor and on the
   screen, exactly the cell at origin+offset becomes the given cell and every other cell is
   untouched; otherwise the screen is unchanged. *)
Theorem C11_setcell_clip : forall (w : window) (s : screen) (col row : Z) (c : cell),
  WF s ->
  let X := fst (origin w) + col in
  let Y := snd (origin w) + row in
  exists s', win_setcell w s col row c = Some s' /\
    if visible w s X Y then updated_at s s' X Y (fun _ => c) else s' = s.
Proof. exact setcell_clip. Qed.
Print Assumptions C11_setcell_clip.

(* the same for SetStyle: only the style of that one cell changes *)
Theorem C11_setstyle_clip : forall (w : window) (s : screen) (col row st : Z),
  WF s ->
  let X := fst (origin w) + col in
  let Y := snd (origin w) + row in
  exists s', win_setstyle w s col row st = Some s' /\
    if visible w s X Y then updated_at s s' X Y (fun old => mkCell (cg old) (cw old) st) else s' = s.
Proof. exact setstyle_clip. Qed.
Print Assumptions C11_setstyle_clip.

(* Window.Origin() returns the origin used above *)
Theorem C11_origin : forall w, win_origin w = origin w.
Proof. exact win_origin_spec. Qed.
Print Assumptions C11_origin.

(* ---------------------------------------------------------------- draw_clip *)

(* Every drawing call (SetCell, SetStyle, Fill, Clear, Print, PrintTruncate, Println, Wrap),
   on any window chain, with any arguments, any text and any oracle answers: returns (no
   panic), leaves a well-formed screen of the same size, and changes no cell outside the
   intersection of the window, all its ancestors and the screen. *)
Theorem C11_draw_clip :
  forall (measure : text -> Z) (remeasure : bool) (trailing : text -> bool)
         (w : window) (s : screen) (o : op),
  WF s ->
  exists s' ret, run_op_with measure remeasure trailing w s o = Some (s', ret) /\
    WF s' /\ same_dims s s' /\
    forall X Y, visible w s X Y = false -> sget s' X Y = sget s X Y.
Proof. exact run_op_clipped. Qed.
Print Assumptions C11_draw_clip.

(* a sequence of SetCell calls leaves, inside the clip, the last cell put at each point and
   nothing else (the semantics all text helpers are reduced to below) *)
Theorem C11_placements_exact : forall (w : window) (ps : list placement) (s : screen),
  WF s ->
  exists s', draw_places w s ps = Some s' /\ WF s' /\ same_dims s s' /\
    forall X Y, sget s' X Y =
      if visible w s X Y
      then match last_at ps (X - fst (origin w)) (Y - snd (origin w)) with
           | Some c => Some c
           | None => sget s X Y
           end
      else sget s X Y.
Proof. exact draw_exact. Qed.
Print Assumptions C11_placements_exact.

(* Fill (and Clear = Fill with a blank): afterwards exactly the clip carries the cell *)
Theorem C11_fill_exact : forall (w : window) (s : screen) (c : cell),
  WF s ->
  exists s', win_fill w s c = Some s' /\ WF s' /\ same_dims s s' /\
    forall X Y, sget s' X Y = if visible w s X Y then Some c else sget s X Y.
Proof. exact fill_exact. Qed.
Print Assumptions C11_fill_exact.

(* ---------------------------------------------------------------- print_layout *)

(* Print is: compute the layout [print_places] (pure), then SetCell each placement *)
Theorem C11_print_is_layout :
  forall measure remeasure (w : window) (s : screen) (segs : list segment),
  let r := print_places measure remeasure (fw (wframe w)) (fh (wframe w)) (items_of segs) 0 0 in
  win_print measure remeasure w s segs =
  match draw_places w s (fst r) with None => None | Some s' => Some (s', snd r) end.
Proof. intros; unfold win_print, win_size; apply print_loop_places. Qed.
Print Assumptions C11_print_is_layout.

(* The layout of Print, for any window size (also zero or negative), any text and widths >= 0:
   - every cluster is placed with its whole glyph between column 0 and the window's width,
     never above row 0;
   - placements walk in reading order from (0,0) to the returned position: a cluster goes to
     the current position or to column 0 of a later row, the next position is right after
     it (advance by its width);
   - if the text has no line break, a later row is the next row and is started only when the
     row is full or the next cluster does not fit in the rest of it;
   - the cells are the clusters (whole grapheme, its width, the segment's style) that are no
     line break and are not wider than the window, in order, each exactly once: all of
     them unless the text ran below the window, otherwise a prefix. *)
Theorem C11_print_layout :
  forall measure remeasure (cols rows : Z) (items : list (character * Z)),
  (forall it, In it items -> 0 <= item_width measure remeasure it) ->
  let r := print_places measure remeasure cols rows items 0 0 in
  let ps := fst r in
  let all := map (item_cell measure remeasure) (filter (printable measure remeasure cols) items) in
  (forall p, In p ps -> 0 <= fst (fst p) /\ fst (fst p) + cw (snd p) <= cols /\ 0 <= snd (fst p)) /\
  path_ok (0, 0) ps (snd r) /\ layout_ok (no_newline items) cols ps /\
  (exists n, map snd ps = firstn n all) /\ (snd (snd r) <= rows -> map snd ps = all).
Proof. exact print_layout. Qed.
Print Assumptions C11_print_layout.

(* A line break starts a new row: in the layout of  a ++ [line break] ++ b  every cluster is
   either one of the layout of [a] alone (and lies in or above the row where [a] ended) or
   lies strictly below that row. *)
Theorem C11_print_line_break :
  forall measure remeasure (cols rows : Z) (a b : list (character * Z)) (nl : character * Z) (col row : Z) (p : placement),
  has_nl (gr (fst nl)) = true ->
  In p (fst (print_places measure remeasure cols rows (a ++ nl :: b) col row)) ->
  let ra := print_places measure remeasure cols rows a col row in
  (In p (fst ra) /\ snd (fst p) <= snd (snd ra)) \/ snd (snd ra) < snd (fst p).
Proof. intros measure remeasure cols rows a b nl col row p; apply print_line_break. Qed.
Print Assumptions C11_print_line_break.

(* Println and PrintTruncate draw [println_places] / [ptrunc_places] *)
Theorem C11_println_is_layout :
  forall measure remeasure (w : window) (s : screen) (row : Z) (segs : list segment),
  win_println measure remeasure w s row segs =
  if row >=? fh (wframe w) then Some s
  else draw_places w s (println_places measure remeasure (fw (wframe w)) (items_of segs) 0 row).
Proof. intros; unfold win_println, win_size. destruct (row >=? fh (wframe w)); [reflexivity|apply println_loop_places]. Qed.
Print Assumptions C11_println_is_layout.

Theorem C11_print_truncate_is_layout :
  forall measure remeasure (w : window) (s : screen) (row : Z) (segs : list segment),
  win_print_truncate measure remeasure w s row segs =
  if row >=? fh (wframe w) then Some s
  else draw_places w s (ptrunc_places measure remeasure (fw (wframe w)) (items_of segs) 0 row).
Proof. intros; unfold win_print_truncate, win_size. destruct (row >=? fh (wframe w)); [reflexivity|apply ptrunc_loop_places]. Qed.
Print Assumptions C11_print_truncate_is_layout.

(* one row, left to right, each cluster right after the previous one; Println places the
   clusters of a prefix of the text, whole, and every glyph ends inside the window *)
Theorem C11_println_layout :
  forall measure remeasure (cols : Z) (items : list (character * Z)) (row : Z),
  let ps := println_places measure remeasure cols items 0 row in
  (forall p, In p ps -> snd (fst p) = row /\ fits_in cols p) /\
  (exists en, path_ok (0, row) ps en) /\
  (exists n, map snd ps = map (item_cell measure remeasure) (firstn n items)).
Proof.
  intros measure remeasure cols items row ps.
  destruct (println_layout measure remeasure cols items 0 row) as (H1 & H2 & H3).
  split; [|split; assumption].
  intros p Hp; split; [apply H1; exact Hp|eapply println_places_fits; exact Hp].
Qed.
Print Assumptions C11_println_layout.

(* PrintTruncate: a prefix of the clusters, then the ellipsis (one column) iff a cluster was cut *)
Theorem C11_print_truncate_layout :
  forall measure remeasure (cols : Z) (items : list (character * Z)) (row : Z),
  let ps := ptrunc_places measure remeasure cols items 0 row in
  (forall p, In p ps -> snd (fst p) = row /\ fits_in cols p) /\
  (exists en, path_ok (0, row) ps en) /\
  (exists n, map (fun p => cg (snd p)) ps = map (fun it => gr (fst it)) (firstn n items)
             \/ (n < length items)%nat /\
                map (fun p => cg (snd p)) ps = map (fun it => gr (fst it)) (firstn n items) ++ [ellipsis]).
Proof.
  intros measure remeasure cols items row ps.
  destruct (ptrunc_layout measure remeasure cols items 0 row) as (H1 & H2 & H3).
  split; [|split; assumption].
  intros p Hp; split; [apply H1; exact Hp|eapply ptrunc_places_fits; exact Hp].
Qed.
Print Assumptions C11_print_truncate_layout.

(* Wrap draws [wrap_places]; its placements walk in reading order from (0,0) to the returned
   position and no glyph overhangs the window's right edge *)
Theorem C11_wrap_layout :
  forall measure remeasure trailing (w : window) (s : screen) (lsegs : list lineseg),
  let r := wrap_places measure remeasure trailing (fw (wframe w)) (fh (wframe w)) lsegs 0 0 in
  win_wrap measure remeasure trailing w s lsegs =
    match draw_places w s (fst r) with None => None | Some s' => Some (s', snd r) end /\
  path_ok (0, 0) (fst r) (snd r) /\
  (forall p, In p (fst r) -> fits_in (fw (wframe w)) p).
Proof.
  intros measure remeasure trailing w s lsegs r. split; [|split].
  - unfold win_wrap, win_size; apply wrap_loop_places.
  - apply wrap_places_path.
  - intros p Hp; eapply wrap_places_fits; exact Hp.
Qed.
Print Assumptions C11_wrap_layout.

(* Measuring a line segment.  Inside one line segment the no-overhang guarantee depends
   neither on the column/row at which the segment starts nor on the value Wrap computed for
   the width of the whole segment (which only chooses that start): from ANY start, every
   cluster placed fits in the rest of its row or is at most one column wide.  So no way of
   measuring the segment (per cluster, by string width, under any capability setting) may
   switch the per-cluster test off. *)
Theorem C11_wrap_segment_fits_any_start :
  forall (trailing : text -> bool) (cols : Z) (chars : list character) (st col row : Z) (p : placement),
  In p (fst (wrap_chars_places trailing cols chars st col row)) -> fits_in cols p.
Proof. exact wrap_chars_places_fits. Qed.
Print Assumptions C11_wrap_segment_fits_any_start.

(* ... and the segment width Wrap compares with the window width is the sum over the
   characters the clusters EXPAND to, each measured by the method in force (remeasure =
   !unicodeCore || !explicitWidth; measure = characterWidth, which depends on the noZWJ
   quirk): a tab contributes eight blanks whatever width the segmenter reported for it. *)
Theorem C11_wrap_total_expanded :
  forall (measure : text -> Z) (remeasure : bool) (cls : list (text * Z)),
  zsum (map wd (map (measured measure remeasure) (characters cls))) =
  zsum (map (cluster_total measure remeasure) cls).
Proof. exact wrap_total_expanded. Qed.
Print Assumptions C11_wrap_total_expanded.

(* with both capabilities (no re-measuring) a tab adds exactly 8 to the segment width *)
Theorem C11_wrap_total_tab : forall (measure : text -> Z) (w : Z) (cls : list (text * Z)),
  zsum (map wd (map (measured measure false) (characters (([9], w) :: cls)))) =
  8 + zsum (map wd (map (measured measure false) (characters cls))).
Proof. exact wrap_total_tab. Qed.
Print Assumptions C11_wrap_total_tab.

(* Characters never splits or merges clusters: every character is a whole cluster with the
   width the segmenter reported, or one of the spaces that replace a tab *)
Theorem C11_characters_whole : forall (cls : list (text * Z)) (ch : character),
  In ch (characters cls) ->
  (In (gr ch, wd ch) cls /\ gr ch <> [9]) \/ (ch = mkChar [32] 1 /\ exists w, In ([9], w) cls).
Proof. exact characters_whole. Qed.
Print Assumptions C11_characters_whole.

(* ---------------------------------------------------------------- constructor_clamps *)

(* New, for every parent and all four integer arguments: the child's right and bottom edge
   never exceed the parent's size; a size that is non-negative and fits is kept, otherwise
   it becomes what is left of the parent; with a non-negative offset the child's rectangle
   lies inside the parent's. *)
Theorem C11_constructor_clamps : forall (w : window) (col row cols rows : Z),
  let f := wframe (win_new w col row cols rows) in
  let p := wframe w in
  win_new w col row cols rows = Child f w /\
  fcol f = col /\ frow f = row /\
  col + fw f <= fw p /\ row + fh f <= fh p /\
  (0 <= cols -> cols + col <= fw p -> fw f = cols) /\
  (0 <= rows -> rows + row <= fh p -> fh f = rows) /\
  (fw f = cols \/ fw f = fw p - col) /\ (fh f = rows \/ fh f = fh p - row) /\
  (0 <= col -> 0 <= row -> forall x y, in_rect (win_new w col row cols rows) x y = true -> in_rect w x y = true).
Proof.
  intros w col row cols rows. cbn zeta. unfold win_new, win_size; cbn [wframe fcol frow fw fh].
  split; [reflexivity|]. split; [reflexivity|]. split; [reflexivity|].
  split; [apply clamp_size_edge|]. split; [apply clamp_size_edge|].
  split; [apply clamp_size_keeps|]. split; [apply clamp_size_keeps|].
  split; [apply clamp_size_cases|]. split; [apply clamp_size_cases|].
  intros Hc Hr x y. apply (win_new_inside_parent w col row cols rows x y Hc Hr).
Qed.
Print Assumptions C11_constructor_clamps.

(* hence every window made from Vaxis.Window() by any number of New calls has all edges
   within its parent and within the screen *)
Theorem C11_constructed_edges : forall (s : screen) (steps : list (Z * Z * Z * Z)),
  edges_ok (build_window s (None, map (fun a => (true, a)) steps)) (scols s) (srows s) = true.
Proof.
  intros s steps. apply build_window_edges. unfold built_by_constructors; cbn [fst snd].
  induction steps; cbn [map forallb fst]; auto.
Qed.
Print Assumptions C11_constructed_edges.

(* ---------------------------------------------------------------- glyphs *)

(* On such windows the text helpers never let a glyph spill: whenever Print, PrintTruncate,
   Println or Wrap changed a cell, all columns covered by the new cell's glyph (max 1 width)
   lie in the window, in every ancestor and on the screen.  (Before the fix to Print/Wrap in
   /repo a wide cluster was placed in the last column.) *)
Theorem C11_text_no_overhang :
  forall measure remeasure trailing (w : window) (s : screen) (o : op) s' ret X Y c,
  WF s -> edges_ok w (scols s) (srows s) = true -> is_text_op o = true ->
  run_op_with measure remeasure trailing w s o = Some (s', ret) ->
  sget s' X Y = Some c -> sget s X Y <> Some c ->
  forall i, 0 <= i < glyph_w c -> visible w s (X + i) Y = true.
Proof. exact text_no_overhang. Qed.
Print Assumptions C11_text_no_overhang.

(* The hypothesis on the edges is needed: a Window literal that is wider than its parent
   (the constructors never produce one) lets Print put a wide cluster where its parent ends.
   Screen 5x2, root 5x2, New(0,0,3,2), then the literal Window{Width: 4, Height: 2, Parent: ...}:
   Print "ab" + a width-2 cluster puts that cluster at column 2, its right half is column 3,
   outside the 3-column parent. *)
Theorem C11_overhang_literal_refuted :
  exists (w : window) (s : screen) (o : op) s' ret X Y c i,
    WF s /\ is_text_op o = true /\
    run_op_with (fun _ => 0) false (fun _ => false) w s o = Some (s', ret) /\
    sget s' X Y = Some c /\ sget s X Y <> Some c /\ 0 <= i < glyph_w c /\
    visible w s (X + i) Y = false.
Proof.
  pose (s := bg_screen (mkCell [46] 1 99) 5 2).
  pose (w := Child (mkFrame 0 0 4 2) (win_new (root_window s) 0 0 3 2)).
  pose (o := OPrint [([([97], 1); ([98], 1); ([20013], 2)], 1)]).
  exists w, s, o. eexists. eexists. exists 2, 0, (mkCell [20013] 2 1), 1.
  split; [apply bg_screen_WF; lia|]. split; [reflexivity|].
  split; [vm_compute; reflexivity|].
  split; [reflexivity|]. split; [vm_compute; discriminate|]. split; [vm_compute; split; [discriminate|reflexivity]|].
  reflexivity.
Qed.
Print Assumptions C11_overhang_literal_refuted.

(* ---------------------------------------------------------------- the harness predicate *)

(* The differential run evaluates two decidable predicates on every case (input together
   with what the implementation did): [case_agrees] (the model computes the same frames,
   origin, changed cells and result) and [case_holds = case_core_holds && case_more_holds]
   (the property, stated on the observation alone).  Whatever agrees with the model satisfies
   the core predicate: no panic, New clamps, every changed cell in the clip, SetCell/SetStyle
   change exactly the cell at origin+offset iff it is in the clip, no glyph of a text helper
   outside the clip on constructed windows.  ([case_more_holds]: see the section "the
   further clauses" below.) *)
Theorem C11_observation_predicate_sound : forall c : case,
  0 <= c_cols c -> 0 <= c_rows c -> case_agrees c = true -> case_core_holds c = true.
Proof. exact agrees_core_holds. Qed.
Print Assumptions C11_observation_predicate_sound.

(* ---------------------------------------------------------------- sequences of calls *)

(* State that survives between calls.  Any number of drawing calls, each through its own
   window (any chains, any arguments, any texts and oracle answers), executed one after the
   other on the same screen: no call panics, the screen keeps its shape, and a cell that lies
   in the clip of none of the windows used is the same afterwards as before -- whatever the
   earlier calls left on the screen (in particular: a wide cluster cut by a later window's
   edge keeps its cell outside that window). *)
Theorem C11_sequence_clip :
  forall (measure : text -> Z) (remeasure : bool) (trailing : text -> bool)
         (steps : list (window * op)) (s : screen),
  WF s ->
  exists s', run_seq_with measure remeasure trailing s steps = Some s' /\ WF s' /\ same_dims s s' /\
    forall X Y, outside_all s steps X Y = true -> sget s' X Y = sget s X Y.
Proof. intros measure remeasure trailing steps s; apply run_seq_clipped. Qed.
Print Assumptions C11_sequence_clip.

(* reading an observed screen back from the list of its cells that differ from the
   background (the form in which the harness ships a screen) is faithful *)
Theorem C11_observed_screen_faithful : forall (bg : cell) (s : screen) (x y : Z) (c : cell),
  sget s x y = Some c -> obs_at bg (screen_diff bg s) x y = c.
Proof. exact obs_at_screen_diff. Qed.
Print Assumptions C11_observed_screen_faithful.

(* ... and [changed_cells] of two such lists is exactly the set of cells in which the two
   screens differ, with the new content *)
Theorem C11_changed_cells_exact : forall (bg : cell) (s s' : screen) (x y : Z) (c : cell),
  WF s -> WF s' -> same_dims s s' ->
  (In (x, y, c) (changed_cells bg (scols s) (srows s) (screen_diff bg s) (screen_diff bg s')) <->
   sget s' x y = Some c /\ exists c0, sget s x y = Some c0 /\ c0 <> c).
Proof. exact changed_cells_screens. Qed.
Print Assumptions C11_changed_cells_exact.

(* The stream "seq" runs several calls through different windows on one screen without
   resetting it and evaluates, for every step, [step_core_holds] on the screen observed
   before and the screen observed after the step: no panic, New clamps, Origin() = sum of
   the offsets, every cell that CHANGED lies in the clip of that step's window, SetCell /
   SetStyle change exactly the cell at origin+offset iff it is in the clip (SetStyle keeps
   the character found there), no glyph of a text helper outside the clip on constructed
   windows.  A sequence on which the implementation agrees with the model at every step
   satisfies it: the predicate cannot raise an alarm on code the model describes. *)
Theorem C11_sequence_predicate_sound : forall c : scase,
  0 <= q_cols c -> 0 <= q_rows c -> scase_agrees c = true -> scase_core_holds c = true.
Proof. exact scase_agrees_core_holds. Qed.
Print Assumptions C11_sequence_predicate_sound.

(* ---------------------------------------------------------------- the further clauses *)

(* Reading order, measured width and non-overlap, on the model, for ANY screen found.  For
   every window chain, well-formed screen, text helper call, text and oracles whose widths
   (under the measuring in force) are not negative: take the cells the call changed, in
   row-major order (any strictly row-major list [d] of cells that are different afterwards).
   Then their graphemes occur in this order among the clusters of the text (followed by the
   ellipsis for PrintTruncate): later text never appears before earlier text, and a cell
   never holds a piece of a cluster; when re-measuring is in force each such cell carries the
   measured width of its grapheme (or is the ellipsis); and the glyph of one changed cell ends
   at or before the next changed cell of its row. *)
Theorem C11_changed_cells_reading_order :
  forall (measure : text -> Z) (remeasure : bool) (trailing : text -> bool)
         (w : window) (s : screen) (o : op) s' ret (d : list (Z * Z * cell)),
  WF s -> is_text_op o = true -> op_widths_ok measure remeasure o = true ->
  run_op_with measure remeasure trailing w s o = Some (s', ret) ->
  StronglySorted dlt d ->
  (forall x y c, In (x, y, c) d -> sget s' x y = Some c /\ sget s x y <> Some c) ->
  subseq (map dcg d) (op_expected o) = true /\
  (remeasure = true ->
   forallb (fun e => zlist_eqb (cg (snd e)) ellipsis || (cw (snd e) =? measure (cg (snd e)))) d = true) /\
  no_overlap d = true.
Proof. exact text_more_changed. Qed.
Print Assumptions C11_changed_cells_reading_order.

(* the two lists the differential run uses are such row-major lists *)
Theorem C11_observed_lists_row_major : forall bg s cols rows prev post,
  StronglySorted dlt (screen_diff bg s) /\ StronglySorted dlt (changed_cells bg cols rows prev post).
Proof. intros; split; [apply screen_diff_sorted|apply changed_cells_sorted]. Qed.
Print Assumptions C11_observed_lists_row_major.

(* [subseq] is exactly "is a subsequence of" *)
Theorem C11_subseq_spec : forall a b : list text, subseq a b = true <-> Sub a b.
Proof. intros a b; split; [apply subseq_sound|apply subseq_complete]. Qed.
Print Assumptions C11_subseq_spec.

(* Soundness of the whole predicate of stream "draw": a case on which the implementation
   agrees with the model satisfies the core clauses AND the further clauses.  Hypotheses
   (both decided by [case_inputs_ok], which the run evaluates on every case): the screen
   size is no negative number, no oracle width is negative. *)
Theorem C11_observation_more_sound : forall c : case,
  0 <= c_cols c -> 0 <= c_rows c -> case_widths_ok c = true -> case_agrees c = true -> case_more_holds c = true.
Proof. exact agrees_more_holds. Qed.
Print Assumptions C11_observation_more_sound.

Theorem C11_observation_holds_sound : forall c : case,
  0 <= c_cols c -> 0 <= c_rows c -> case_widths_ok c = true -> case_agrees c = true -> case_holds c = true.
Proof. exact agrees_holds. Qed.
Print Assumptions C11_observation_holds_sound.

(* ... and of stream "seq": every step, decided on the cells that changed between the screen
   observed before and the screen observed after it *)
Theorem C11_sequence_more_sound : forall c : scase,
  0 <= q_cols c -> 0 <= q_rows c -> scase_widths_ok c = true -> scase_agrees c = true -> scase_more_holds c = true.
Proof. exact scase_agrees_more_holds. Qed.
Print Assumptions C11_sequence_more_sound.

Theorem C11_sequence_holds_sound : forall c : scase,
  0 <= q_cols c -> 0 <= q_rows c -> scase_widths_ok c = true -> scase_agrees c = true -> scase_holds c = true.
Proof. exact scase_agrees_holds. Qed.
Print Assumptions C11_sequence_holds_sound.

(* What the run computes.  A case whose size or oracle widths are outside the hypotheses is
   listed as a mismatch, so for any list of cases: no mismatch => no violation. *)
Theorem C11_no_mismatch_no_violation :
  (forall cases, c11_draw_mismatches cases = [] -> c11_draw_violations cases = []) /\
  (forall cases, c11_seq_mismatches cases = [] -> c11_seq_violations cases = []).
Proof. split; [exact draw_no_mismatch_no_violation|exact seq_no_mismatch_no_violation]. Qed.
Print Assumptions C11_no_mismatch_no_violation.

(* The hypothesis on the widths cannot be dropped: with a cluster of width -1 (no segmenter
   or terminal reports one) Println steps back and overwrites its first cluster; the model's
   own output then fails the reading-order clause. *)
Theorem C11_widths_hypothesis_needed :
  exists c : case, 0 <= c_cols c /\ 0 <= c_rows c /\ case_agrees c = true /\
                   case_widths_ok c = false /\ case_more_holds c = false.
Proof.
  exists (mkCase 3 1 (mkCell [46] 1 99) (None, []) false
            [([97], (1, false)); ([98], (-1, false)); ([99], (1, false))]
            (OPrintln 0 [([([97], 1); ([98], -1); ([99], 1)], 2)])
            (mkObs 0 [mkFrame 0 0 3 1] (0, 0) [(0, 0, mkCell [99] 1 2); (1, 0, mkCell [98] (-1) 2)] (0, 0))).
  vm_compute. repeat split; discriminate.
Qed.
Print Assumptions C11_widths_hypothesis_needed.

(* What the further clauses say, on the observation alone.  If [case_more_holds] accepts the
   observation of a text helper, then
   - reading order: the graphemes of the changed cells, read row by row and left to right,
     occur in this order among the clusters of the text (then the ellipsis of PrintTruncate);
   - never split: every changed cell holds one whole character of the text (a grapheme
     cluster, or one blank of an expanded tab: C11_characters_whole) or the ellipsis;
   - when the terminal's measurement is in force the cell carries the measured width;
   - on constructed windows any two changed cells e1 before e2 of one row satisfy
     column e1 + width e1 <= column e2: left to right, each glyph clear of the next
     (the column advances by at least the cluster's width). *)
Theorem C11_more_predicate_meaning : forall c : case,
  case_more_holds c = true -> is_text_op (c_op c) = true ->
  let d := o_diff (c_obs c) in
  Sub (map dcg d) (op_expected (c_op c)) /\
  (forall e, In e d -> cg (snd e) = ellipsis \/ exists ch, In ch (op_chars (c_op c)) /\ cg (snd e) = gr ch) /\
  (c_remeasure c = true ->
   forall e, In e d -> cg (snd e) = ellipsis \/ cw (snd e) = tab_measure (c_tab c) (cg (snd e))) /\
  (built_by_constructors (c_win c) = true -> StronglySorted after_glyph d).
Proof. exact more_holds_meaning. Qed.
Print Assumptions C11_more_predicate_meaning.

(* The exact advance and the new-row rules are not visible in an observation that was
   clipped; they are proved of the layout (C11_print_layout, C11_print_line_break,
   C11_println_layout, C11_print_truncate_layout, C11_wrap_layout) and reach an agreeing
   observation through this: the cells that differ from the background afterwards are
   exactly the last cluster that layout (a walk in reading order whose glyphs fit) put at
   each point of the clip. *)
Theorem C11_agreeing_observation_is_layout_trace : forall c : case,
  0 <= c_cols c -> 0 <= c_rows c -> case_agrees c = true -> is_text_op (c_op c) = true ->
  let s := bg_screen (c_bg c) (c_cols c) (c_rows c) in
  let w := build_window s (c_win c) in
  let ps := op_places (tab_measure (c_tab c)) (c_remeasure c) (tab_trailing (c_tab c)) w (c_op c) in
  (exists st en, path_ok st ps en) /\
  (forall p, In p ps -> fits_in (fw (wframe w)) p) /\
  forall x y cl, In (x, y, cl) (o_diff (c_obs c)) <->
    visible w s x y = true /\ last_at ps (x - fst (origin w)) (y - snd (origin w)) = Some cl /\ cl <> c_bg c.
Proof. exact agrees_trace. Qed.
Print Assumptions C11_agreeing_observation_is_layout_trace.

(* ---------------------------------------------------------------- non-vacuity *)

Example C11_example_case :
  let c := mkCase 3 2 (mkCell [46] 1 99) (None, [(true, (1, 0, 2, 9))]) false []
             (OSetCell 1 1 (mkCell [120] 1 3))
             (mkObs 0 [mkFrame 1 0 2 2; mkFrame 0 0 3 2] (1, 0) [(2, 1, mkCell [120] 1 3)] (0, 0)) in
  case_agrees c = true /\ case_holds c = true.
Proof. vm_compute. split; reflexivity. Qed.


(* a well-formed screen exists; resize produces one *)
Example C11_example_wf : WF (bg_screen zero_cell 5 4) /\
  exists s, screen_resize 5 4 = Some s /\ WF s.
Proof.
  split; [apply bg_screen_WF; lia|]. destruct (screen_resize 5 4) as [s|] eqn:E; [|discriminate].
  exists s; split; [reflexivity|]. apply (screen_resize_WF 5 4 s E).
Qed.

(* a chain with a negative offset and an oversized literal: one SetCell inside the clip
   (lands at origin + offset = (1,1)), one inside the window but outside its parent *)
Example C11_example_setcell :
  let s := bg_screen zero_cell 5 4 in
  let w := Child (mkFrame (-1) 0 9 9) (win_new (root_window s) 1 1 2 2) in
  origin w = (0, 1) /\
  visible w s 1 1 = true /\
  (exists s', win_setcell w s 1 0 (mkCell [120] 1 3) = Some s' /\ sget s' 1 1 = Some (mkCell [120] 1 3)) /\
  visible w s 3 1 = false /\
  win_setcell w s 3 0 (mkCell [120] 1 3) = Some s.
Proof. vm_compute. repeat split; eauto. Qed.

(* the layout of "ab" + wide + "d" in a window of 3 columns: the wide cluster starts row 1 *)
Example C11_example_print :
  fst (print_places (fun _ => 0) false 3 2
         (items_of [([([97], 1); ([98], 1); ([20013], 2); ([100], 1)], 7)]) 0 0) =
  [(0, 0, mkCell [97] 1 7); (1, 0, mkCell [98] 1 7); (0, 1, mkCell [20013] 2 7); (2, 1, mkCell [100] 1 7)].
Proof. reflexivity. Qed.

(* ... its hypothesis holds there, and a line break is recognised *)
Example C11_example_print_hyp :
  let items := items_of [([([97], 1); ([13; 10], 0); ([20013], 2)], 7)] in
  (forall it, In it items -> 0 <= item_width (fun _ => 0) false it) /\
  has_nl [13; 10] = true /\
  fst (print_places (fun _ => 0) false 3 2 items 0 0) = [(0, 0, mkCell [97] 1 7); (0, 1, mkCell [20013] 2 7)].
Proof.
  cbn zeta. split; [|split; reflexivity].
  intros it [<-|[<-|[<-|[]]]]; vm_compute; discriminate.
Qed.

(* the hypotheses of C11_text_no_overhang are met by a constructed window on which Print
   really changes cells *)
Example C11_example_no_overhang :
  let s := bg_screen zero_cell 5 4 in
  let w := win_new (win_new (root_window s) 1 0 3 9) (-1) 1 9 (-1) in
  WF s /\ edges_ok w (scols s) (srows s) = true /\
  exists s' ret, run_op_with (fun _ => 0) false (fun _ => false) w s
                   (OPrint [([([97], 1); ([20013], 2); ([98], 1)], 1)]) = Some (s', ret) /\
                 sget s' 1 1 = Some (mkCell [20013] 2 1) /\ sget s' 3 1 = Some (mkCell [98] 1 1).
Proof.
  cbn zeta. split; [apply bg_screen_WF; lia|]. split; [reflexivity|].
  vm_compute. eexists; eexists; split; [reflexivity|split; reflexivity].
Qed.

(* a sequence: Println of "ab" + wide + "cd" through the root of a 6x1 screen, then a window
   whose left edge (column 3) cuts the wide cluster (columns 2-3), then SetCell at its column
   0: the model agrees with this observation and the step predicate holds; had the cell at
   column 2 (outside the second window) been blanked as well, the predicate would fail *)
Example C11_example_sequence :
  let bg := mkCell [46] 1 99 in
  let line := [(0, 0, mkCell [97] 1 2); (1, 0, mkCell [98] 1 2); (2, 0, mkCell [19990] 2 2);
               (4, 0, mkCell [99] 1 2); (5, 0, mkCell [100] 1 2)] in
  let st1 := ((None, []), OPrintln 0 [([([97], 1); ([98], 1); ([19990], 2); ([99], 1); ([100], 1)], 2)],
              mkObs 0 [mkFrame 0 0 6 1] (0, 0) line (0, 0)) in
  let win2 := (None, [(true, (3, 0, 3, 1))]) in
  let good := [(0, 0, mkCell [97] 1 2); (1, 0, mkCell [98] 1 2); (2, 0, mkCell [19990] 2 2);
               (3, 0, mkCell [120] 1 5); (4, 0, mkCell [99] 1 2); (5, 0, mkCell [100] 1 2)] in
  let bad := [(0, 0, mkCell [97] 1 2); (1, 0, mkCell [98] 1 2); (2, 0, mkCell [32] 1 2);
              (3, 0, mkCell [120] 1 5); (4, 0, mkCell [99] 1 2); (5, 0, mkCell [100] 1 2)] in
  let mk d := mkSCase 6 1 bg false [([97], (1, false)); ([98], (1, false)); ([19990], (2, false)); ([99], (1, false)); ([100], (1, false))]
                [st1; (win2, OSetCell 0 0 (mkCell [120] 1 5), mkObs 0 [mkFrame 3 0 3 1; mkFrame 0 0 6 1] (3, 0) d (0, 0))] in
  scase_agrees (mk good) = true /\ scase_holds (mk good) = true /\
  scase_agrees (mk bad) = false /\ scase_core_holds (mk bad) = false.
Proof. vm_compute. repeat split; reflexivity. Qed.


(* a tab whose eight blanks end in the last column of a 3-column window, followed by a wide
   closing punctuation mark (no line break allowed before it, so both are ONE line segment of
   width 10 > 3): the model starts a new row for the wide cluster; under every measuring
   method the observation "wide cluster in column 2" is rejected by the predicate *)
Example C11_example_tab_run :
  let bg := mkCell [46] 1 99 in
  let sp := mkCell [32] 1 3 in
  let blanks := [(0, 0, sp); (1, 0, sp); (2, 0, sp); (0, 1, sp); (1, 1, sp); (2, 1, sp); (0, 2, sp); (1, 2, sp)] in
  let mk rem d ret := mkCase 6 4 bg (None, [(true, (0, 0, 3, -1))]) rem [([32], (1, false)); ([12290], (2, false))]
                (OWrap [([([9], 0); ([12290], 2)], 3)])
                (mkObs 0 [mkFrame 0 0 3 4; mkFrame 0 0 6 4] (0, 0) d ret) in
  let good := blanks ++ [(0, 3, mkCell [12290] 2 3)] in
  let bad := blanks ++ [(2, 2, mkCell [12290] 2 3)] in
  case_agrees (mk false good (2, 3)) = true /\ case_holds (mk false good (2, 3)) = true /\
  case_agrees (mk true good (2, 3)) = true /\ case_holds (mk true good (2, 3)) = true /\
  case_agrees (mk false bad (0, 3)) = false /\ case_holds (mk false bad (0, 3)) = false /\
  case_holds (mk true bad (0, 3)) = false.
Proof. vm_compute. repeat split; reflexivity. Qed.

(* the hypotheses of the soundness theorems for the whole predicate hold on the cases above
   (and the predicate that decides them rejects a negative width) *)
Example C11_example_inputs_ok :
  let bg := mkCell [46] 1 99 in
  let sp := mkCell [32] 1 3 in
  let blanks := [(0, 0, sp); (1, 0, sp); (2, 0, sp); (0, 1, sp); (1, 1, sp); (2, 1, sp); (0, 2, sp); (1, 2, sp)] in
  let c := mkCase 6 4 bg (None, [(true, (0, 0, 3, -1))]) true [([32], (1, false)); ([12290], (2, false))]
                (OWrap [([([9], 0); ([12290], 2)], 3)])
                (mkObs 0 [mkFrame 0 0 3 4; mkFrame 0 0 6 4] (0, 0) (blanks ++ [(0, 3, mkCell [12290] 2 3)]) (2, 3)) in
  case_inputs_ok c = true /\ case_agrees c = true /\ case_holds c = true /\
  c11_draw_mismatches [c] = [] /\
  op_widths_ok (fun _ => 0) false (OPrintln 0 [([([98], -1)], 2)]) = false.
Proof. vm_compute. repeat split; reflexivity. Qed.

(* a row-major list of changed cells as in C11_changed_cells_reading_order: Print of
   "ab" + wide + "d" through a 3-column window at column 1 of a 5x2 screen *)
Example C11_example_reading_order :
  let s := bg_screen (mkCell [46] 1 99) 5 2 in
  let w := win_new (root_window s) 1 0 3 2 in
  let o := OPrint [([([97], 1); ([98], 1); ([20013], 2); ([100], 1)], 7)] in
  let d := [(1, 0, mkCell [97] 1 7); (2, 0, mkCell [98] 1 7); (1, 1, mkCell [20013] 2 7); (3, 1, mkCell [100] 1 7)] in
  op_widths_ok (fun _ => 0) false o = true /\ StronglySorted dlt d /\
  exists s' ret, run_op_with (fun _ => 0) false (fun _ => false) w s o = Some (s', ret) /\
    forall x y c, In (x, y, c) d -> sget s' x y = Some c /\ sget s x y <> Some c.
Proof.
  cbn zeta. split; [reflexivity|]. split.
  - repeat constructor; unfold dlt; cbn [fst snd]; lia.
  - eexists; eexists; split; [vm_compute; reflexivity|].
    intros x y c [H|[H|[H|[H|[]]]]]; inversion H; subst x y c; (split; [vm_compute; reflexivity|vm_compute; discriminate]).
Qed.
