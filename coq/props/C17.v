(* C17 — line editors behave like an ideal grapheme line editor.  Statements only. *)
From Vx Require Import base.Prelude base.ListX model.IdealEditor model.Editors proofs.EditorsProofs.

Theorem C17_placeholder : i_index (@mkIdeal Z [] []) = 0.
Proof. reflexivity. Qed.
Print Assumptions C17_placeholder.
