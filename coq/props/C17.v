(* C17 — line editors behave like an ideal grapheme line editor.
   Statements only; proofs live in proofs/EditorsProofs.v.

   Vocabulary (model/IdealEditor.v, model/Editors.v):
     ideal G            the specification: a zipper of grapheme clusters (text, cursor index)
     i_run isw e ops    the ideal editor after the operations ops
     tf / tf_run        vxfw TextField (Value, cursor, cached count n) / HandleEvent + methods
     ti / ti_run        widgets/textinput Model (content, cursor, offset, paste) / Update, SetContent, Draw
     tf_abs, ti_abs     the ideal operations a history of widget operations stands for
     seg, chars, alnum  oracles: uniseg segmentation, vaxis.Characters, unicode letter/number

   Hypothesis of the refinement theorems, stated in each of them: segmentation is
   BOUNDARY-STABLE on the alphabet A, i.e. a concatenation of clusters of A segments back
   into exactly those clusters.  (Without it the property is not even well defined: typing
   "e" and then U+0301 merges two insertions into one cluster.)  Key decoding/matching
   belongs to C09: the widgets' dispatch is an abstract operation alphabet here; the MODIFIER
   MASK of a key event is modelled in front of it (model/EditorKeys.v, last section: which
   masks type a key's Text, which keep a bound key bound). *)
From Vx Require Import base.Prelude base.ListX model.IdealEditor model.Editors proofs.EditorsProofs model.EditorKeys proofs.EditorKeysProofs.

(* ---------------------------------------------------------------- TextField *)

(* From any starting content and cursor (the TextField holding what an ideal editor e0
   holds), after every finite sequence of key events and method calls whose inserted texts
   are concatenations of alphabet clusters: the run does not fail, Value segments into
   exactly the ideal editor's clusters, the cursor is at the ideal editor's index, the
   cached count is the number of clusters, and the cursor is within the text. *)
Theorem C17_textfield_refines_ideal :
  forall (seg : text -> option (list text)) (A : list text),
    (forall cs, in_alpha A cs -> seg (concat cs) = Some cs) ->
    forall (e0 : ideal text) (os : list tf_op),
      in_alpha A (i_text e0) -> Forall (tf_op_ok A) os ->
      exists st' log, tf_run seg (tf_of_ideal e0) os = Some (st', log) /\
        let e' := i_run (fun _ => false) e0 (map (tf_abs seg) os) in
        seg (tf_value st') = Some (i_text e') /\ tf_cursor st' = i_index e' /\
        tf_n st' = zlen (i_text e') /\ 0 <= tf_cursor st' <= zlen (i_text e').
Proof. exact tf_refines_ideal. Qed.
Print Assumptions C17_textfield_refines_ideal.

Theorem C17_textfield_cursor_in_range :
  forall (seg : text -> option (list text)) (A : list text),
    (forall cs, in_alpha A cs -> seg (concat cs) = Some cs) ->
    forall e0 os st' log, in_alpha A (i_text e0) -> Forall (tf_op_ok A) os ->
      tf_run seg (tf_of_ideal e0) os = Some (st', log) ->
      exists cs, seg (tf_value st') = Some cs /\ 0 <= tf_cursor st' <= zlen cs /\ tf_n st' = zlen cs.
Proof. exact tf_cursor_in_range. Qed.
Print Assumptions C17_textfield_cursor_in_range.

(* Programmatic edits whose argument is DERIVED FROM THE TEXT THE FIELD HOLDS (derived_from:
   the current text itself, a prefix or suffix of it, the text twice or extended, another
   normalisation of it, ...), after any history, with the cursor wherever the history left it:
   InsertStringAtCursor inserts it at the cursor like any other text (no "already there"
   shortcut); after Reset, and after Enter, putting such a text back gives exactly that
   text with the cursor (and the cached count) at its end. *)
Theorem C17_textfield_reinsert_derived_text :
  forall (seg : text -> option (list text)) (A : list text),
    (forall cs, in_alpha A cs -> seg (concat cs) = Some cs) ->
    forall e0 os, in_alpha A (i_text e0) -> Forall (tf_op_ok A) os ->
      let e' := i_run (fun _ => false) e0 (map (tf_abs seg) os) in
      forall ks, derived_from A (i_text e') ks ->
        (exists log, tf_run seg (tf_of_ideal e0) (os ++ [TInsertApi (concat ks)]) =
                     Some (tf_of_ideal (i_step (fun _ => false) e' (IIns ks)), log)) /\
        (exists log, tf_run seg (tf_of_ideal e0) (os ++ [TResetApi; TInsertApi (concat ks)]) =
                     Some (mkTf (concat ks) (zlen ks) (zlen ks), log)) /\
        (exists log, tf_run seg (tf_of_ideal e0) (os ++ [TKey TkEnter; TText (concat ks)]) =
                     Some (mkTf (concat ks) (zlen ks) (zlen ks), log)).
Proof. exact tf_reinsert_derived. Qed.
Print Assumptions C17_textfield_reinsert_derived_text.

(* Callbacks, for every oracle, state and operation: Enter calls OnSubmit with the value
   (and nothing else; the field is then reset without an OnChange); any other event calls
   OnChange with the new value iff the value changed; exported methods never call back. *)
Theorem C17_textfield_callbacks_exact :
  forall seg st o st' log,
    tf_handle seg st o = Some (st', log) ->
    match o with
    | TKey TkEnter => log = [CbSubmit (tf_value st)]
    | TText _ | TKey _ | TIgnored =>
        (tf_value st' <> tf_value st -> log = [CbChange (tf_value st')]) /\
        (tf_value st' = tf_value st -> log = [])
    | _ => log = []
    end.
Proof. exact tf_callbacks_reading. Qed.
Print Assumptions C17_textfield_callbacks_exact.

(* the decidable callback predicate the differential run evaluates on the implementation's
   observations is satisfied by the model on every step *)
Theorem C17_textfield_callbacks_checker :
  forall seg st o st' log,
    tf_handle seg st o = Some (st', log) -> tf_cb_ok o (tf_value st) (tf_value st') log = true.
Proof. exact tf_callbacks_exact. Qed.
Print Assumptions C17_textfield_callbacks_checker.

(* While the text fits the widget (and a uint16), the cursor of the drawn surface is at
   the display width of the text before the cursor. *)
Theorem C17_textfield_drawn_cursor_column :
  forall chars st maxw maxh cs,
    maxw <> 0 -> maxh <> 0 -> chars (tf_value st) = Some cs -> widths_ok cs ->
    cl_width cs < maxw -> maxw <= 65535 -> 0 <= tf_cursor st <= zlen cs ->
    tf_draw chars st maxw maxh = Some (cl_width (firstn (Z.to_nat (tf_cursor st)) cs)).
Proof. exact tf_drawn_cursor_column. Qed.
Print Assumptions C17_textfield_drawn_cursor_column.

(* ---------------------------------------------------------------- textinput *)

(* From any starting content, cursor, scroll offset, prompt and pending paste buffer, after
   every finite sequence of key events, paste brackets, other events, SetContent and Draw
   (any window width): no operation panics or hangs, the content is exactly the ideal
   editor's cluster list, it is the segmentation of its own String(), the cursor is at the
   ideal editor's index and within the text. *)
Theorem C17_textinput_refines_ideal :
  forall (chars : text -> option (list cluster)) (alnum : Z -> bool) (A : list cluster),
    (forall cs, in_alpha A cs -> chars (cl_text cs) = Some cs) ->
    forall (e0 : ideal cluster) off paste pr (os : list ti_op),
      in_alpha A (i_text e0) -> (exists ps, in_alpha A ps /\ paste = cl_text ps) ->
      Forall (ti_op_ok A) os ->
      exists m', ti_run chars alnum (ti_of_ideal e0 off paste pr) os = Some m' /\
        let e' := i_run (ti_isw alnum) e0 (ti_abs chars paste os) in
        ti_content m' = i_text e' /\ ti_cursor m' = i_index e' /\
        chars (cl_text (ti_content m')) = Some (ti_content m') /\
        0 <= ti_cursor m' <= zlen (ti_content m').
Proof. exact ti_refines_ideal. Qed.
Print Assumptions C17_textinput_refines_ideal.

Theorem C17_textinput_cursor_in_range :
  forall chars alnum (A : list cluster),
    (forall cs, in_alpha A cs -> chars (cl_text cs) = Some cs) ->
    forall e0 off paste pr os m',
      in_alpha A (i_text e0) -> (exists ps, in_alpha A ps /\ paste = cl_text ps) ->
      Forall (ti_op_ok A) os ->
      ti_run chars alnum (ti_of_ideal e0 off paste pr) os = Some m' ->
      0 <= ti_cursor m' <= zlen (ti_content m').
Proof. exact ti_cursor_in_range. Qed.
Print Assumptions C17_textinput_cursor_in_range.

(* SetContent in EVERY state — whatever content, cursor, scroll offset and paste buffer the
   widget holds, in particular when it already holds exactly the text it is given and the
   cursor is not at its end: the content becomes the segmentation of the argument and the
   cursor goes to its end; offset, paste buffer and prompt are kept. *)
Theorem C17_textinput_setcontent_every_state :
  forall chars alnum (A : list cluster),
    (forall cs, in_alpha A cs -> chars (cl_text cs) = Some cs) ->
    forall (m : ti) ks, in_alpha A ks ->
      ti_step chars alnum m (OSetContent (cl_text ks)) =
      TiOk (mkTi ks (zlen ks) (ti_offset m) (ti_paste m) (ti_prompt m)) None.
Proof. exact ti_set_content_every_state. Qed.
Print Assumptions C17_textinput_setcontent_every_state.

(* After any history, SetContent with a text derived from the widget's own content (itself, a
   prefix, a suffix, an extension, another normalisation ...): that text, cursor at its end —
   which is what the ideal editor holding the widget's text and cursor does with ISet. *)
Theorem C17_textinput_setcontent_derived_text :
  forall chars alnum (A : list cluster),
    (forall cs, in_alpha A cs -> chars (cl_text cs) = Some cs) ->
    forall e0 off paste pr os m',
      in_alpha A (i_text e0) -> (exists ps, in_alpha A ps /\ paste = cl_text ps) ->
      Forall (ti_op_ok A) os ->
      ti_run chars alnum (ti_of_ideal e0 off paste pr) os = Some m' ->
      forall ks, derived_from A (ti_content m') ks ->
        ti_step chars alnum m' (OSetContent (cl_text ks)) =
          TiOk (mkTi ks (zlen ks) (ti_offset m') (ti_paste m') (ti_prompt m')) None /\
        i_step (ti_isw alnum) (i_make (ti_content m') (ti_cursor m')) (ISet ks) = i_make ks (zlen ks).
Proof. exact ti_setcontent_derived. Qed.
Print Assumptions C17_textinput_setcontent_derived_text.

(* the instance a "content unchanged" shortcut breaks: SetContent(String()) keeps the text
   and moves the cursor to the end *)
Theorem C17_textinput_setcontent_same_text :
  forall chars alnum (A : list cluster),
    (forall cs, in_alpha A cs -> chars (cl_text cs) = Some cs) ->
    forall e0 off paste pr os m',
      in_alpha A (i_text e0) -> (exists ps, in_alpha A ps /\ paste = cl_text ps) ->
      Forall (ti_op_ok A) os ->
      ti_run chars alnum (ti_of_ideal e0 off paste pr) os = Some m' ->
      exists m'', ti_run chars alnum m' [OSetContent (cl_text (ti_content m'))] = Some m'' /\
        ti_content m'' = ti_content m' /\ ti_cursor m'' = zlen (ti_content m').
Proof. exact ti_setcontent_same_text. Qed.
Print Assumptions C17_textinput_setcontent_same_text.

(* Draw terminates in every state and for every window width: the fuel of the model's
   scroll loop (cursor - offset + 1 iterations) always suffices. *)
Theorem C17_textinput_draw_terminates : forall (m : ti) (winW : Z), ti_draw m winW <> DrawHang.
Proof. exact ti_draw_no_hang. Qed.
Print Assumptions C17_textinput_draw_terminates.

(* The loop as it was before the fix never terminates in a window at most scrolloff (4)
   columns wider than the prompt (col = prompt width) ... *)
Theorem C17_textinput_unfixed_draw_hangs :
  forall fuel cs cursor offset col w,
    widths_ok cs -> w <= col + scrolloff -> scroll_loop_orig fuel cs cursor offset col w = None.
Proof. exact scroll_loop_orig_hangs. Qed.
Print Assumptions C17_textinput_unfixed_draw_hangs.

(* ... and whenever it did terminate, the fixed loop scrolls to the same place. *)
Theorem C17_textinput_draw_fix_conservative :
  forall fuel cs cursor col w offset o,
    scroll_loop_orig fuel cs cursor offset col w = Some o ->
    exists o', scroll_loop (S (Z.to_nat (cursor - offset))) cs cursor offset col w = Some o' /\
               scroll_back cursor o' = scroll_back cursor o.
Proof. exact draw_fix_conservative. Qed.
Print Assumptions C17_textinput_draw_fix_conservative.

(* Drawn cursor column.  Full statement (what the property says, and what the differential
   run evaluates as `violations`): "whenever prompt + text fit the window the cursor is
   shown at prompt width + width of the text before the cursor".  The widget violates it:
   recorded finding textinput-sticky-offset (KNOWN_FINDINGS.txt; guard = ti_case_known; the
   two refutations below are its witnesses).  Proved: the statement with that finding
   excluded, i.e. (1) no earlier Draw has scrolled (offset = 0), and (2) the widget's
   4-column scroll margin fits as well. *)
Theorem C17_textinput_drawn_cursor_column_partial :
  forall (m : ti) (w : Z),
    widths_ok (ti_prompt m) -> widths_ok (ti_content m) ->
    0 <= ti_cursor m <= zlen (ti_content m) -> ti_offset m = 0 ->
    cl_width (ti_prompt m) + cl_width (ti_content m) + scrolloff < w ->
    ti_draw m w = DrawDone 0 (Some (cl_width (ti_prompt m) +
                                    cl_width (firstn (Z.to_nat (ti_cursor m)) (ti_content m)))).
Proof. exact ti_drawn_cursor_column. Qed.
Print Assumptions C17_textinput_drawn_cursor_column_partial.

(* The scroll offset survives between frames, so the guard "no earlier Draw has scrolled"
   is a statement about the history of frames.  The three theorems below state what the
   widget guarantees about that history; the differential run evaluates exactly this as the
   guarded frame predicate (ti_draws_ok false; its scroll record ti_scrolled_next is
   computed from window width, prompt, text and cursor index of the frames alone).

   (a) A frame that reaches the text (window wider than the prompt) with the cursor within
   the first scrolloff graphemes resets the view: the offset is 0 afterwards, whatever it
   was (so every frame of an emptied field forgets the scroll of the previous line). *)
Theorem C17_textinput_frame_resets_view :
  forall (m : ti) (w : Z),
    widths_ok (ti_prompt m) -> ti_reached (ti_prompt m) w = true -> ti_cursor m <= scrolloff ->
    exists c, ti_draw m w = DrawDone 0 (Some c).
Proof. exact ti_draw_resets. Qed.
Print Assumptions C17_textinput_frame_resets_view.

(* (b) The specification's scroll record is sound for every state, width and frame: if it
   says "unscrolled" after a frame (and was right before it), the offset is 0. *)
Theorem C17_textinput_scroll_record_sound :
  forall (m : ti) (w : Z) (scrolled : bool) o shown,
    widths_ok (ti_prompt m) -> widths_ok (ti_content m) ->
    (scrolled = false -> ti_offset m = 0) ->
    ti_draw m w = DrawDone o shown ->
    ti_scrolled_next (ti_prompt m) w scrolled (ti_content m) (ti_cursor m) = false -> o = 0.
Proof. exact ti_scrolled_next_sound. Qed.
Print Assumptions C17_textinput_scroll_record_sound.

(* (c) For every state and every finite history of operations and frames (any widths): a
   sequence of observations that agrees with the model step by step satisfies the guarded
   frame predicate.  So "no disagreement" implies "no unguarded violation" for the drawn
   cursor column: in every frame in which prompt + text + margin fit, the cursor is within
   the text, and the view is unscrolled (offset 0, or no frame since the last resetting
   frame could have scrolled), the cursor is shown at prompt width + width before the cursor. *)
Theorem C17_textinput_frames_of_agreeing_run :
  forall (al : list Z) (steps : list ti_stepc) (m : ti) (scrolled : bool),
    widths_okb (ti_prompt m) = true -> ti_obs_widths_ok steps = true ->
    (scrolled = false -> ti_offset m = 0) ->
    ti_agree al m steps = true ->
    ti_draws_ok false (ti_prompt m) (ti_offset m) scrolled steps = true.
Proof. exact ti_agree_frames_ok. Qed.
Print Assumptions C17_textinput_frames_of_agreeing_run.

(* guard (1) is needed: type 20 narrow characters, Draw at width 10, then Draw at width 80 —
   everything fits, yet the cursor is shown in column 5, not 20 *)
Theorem C17_textinput_sticky_offset_refuted :
  exists chars alnum s m,
    ti_run chars alnum (ti_new []) [OEv (EDefault false s); ODraw 10] = Some m /\
    ti_cursor m = 20 /\ cl_width (ti_content m) = 20 /\ ti_draw m 80 = DrawDone 15 (Some 5).
Proof.
  destruct ti_sticky_offset_witness as (m & H1 & _ & H2 & H3 & H4).
  exists (chars_tab demo_alpha), demo_alnum, (repeat 97 20), m. auto.
Qed.
Print Assumptions C17_textinput_sticky_offset_refuted.

(* guard (2) is needed: 7 narrow characters in a 10-column window fit, the cursor is shown
   in column 5 behind a truncation mark *)
Theorem C17_textinput_scroll_margin_refuted :
  exists chars alnum s m,
    ti_run chars alnum (ti_new []) [OEv (EDefault false s)] = Some m /\
    ti_offset m = 0 /\ ti_cursor m = 7 /\ cl_width (ti_content m) = 7 /\
    ti_draw m 10 = DrawDone 2 (Some 5).
Proof.
  destruct ti_scroll_margin_witness as (m & H).
  exists (chars_tab demo_alpha), demo_alnum, (repeat 97 7), m. exact H.
Qed.
Print Assumptions C17_textinput_scroll_margin_refuted.

(* tf_op_ok excludes assignments to the exported field Value (API misuse, an observation
   only).  That guard is needed: the
   cached count is then stale and End does not move to the end of the text. *)
Theorem C17_textfield_direct_value_refuted :
  exists seg os st log,
    tf_run seg tf_empty os = Some (st, log) /\
    tf_cursor st <> i_index (i_run (fun _ => false) (mkIdeal [] []) (map (tf_abs seg) os)).
Proof.
  destruct tf_direct_value_witness as [H1 H2].
  exists (seg_tab demo_alpha), [TSetValue [97; 98]; TKey TkEnd], (mkTf [97; 98] 0 0), [].
  split; [exact H1|]. cbv zeta in H2. rewrite H2. discriminate.
Qed.
Print Assumptions C17_textfield_direct_value_refuted.

(* ---------------------------------------------------------------- non-vacuity *)

(* the stability hypothesis is satisfiable: tokenisation over any alphabet in which a
   cluster is determined by its first rune is boundary-stable *)
Theorem C17_stable_oracle_exists :
  forall A : list cluster, head_distinct A ->
    (forall cs, in_alpha A cs -> chars_tab A (cl_text cs) = Some cs) /\
    (forall ts, in_alpha (map fst A) ts -> seg_tab A (concat ts) = Some ts).
Proof. intros A H; split; intros; [now apply chars_tab_stable | now apply seg_tab_stable]. Qed.
Print Assumptions C17_stable_oracle_exists.

(* a concrete alphabet with narrow, wide, combining, ZWJ and flag clusters *)
Example C17_demo_alphabet : head_distinct demo_alpha /\ zlen demo_alpha = 10.
Proof. split; [exact demo_alpha_head_distinct | reflexivity]. Qed.

(* TextField: type "a世", Left, type e+U+0301, Home, Delete, End, Backspace, Ctrl+k at the
   end, from a field already holding a flag: the operations satisfy the hypotheses and
   the run visits insertion in the middle, both deletions and the no-op kill *)
Example C17_example_textfield :
  let seg := seg_tab demo_alpha in
  let A := map fst demo_alpha in
  let e0 := mkIdeal [[127462; 127482]] [] in
  let os := [TText [97; 19990]; TKey TkLeft; TText [101; 769]; TKey TkHome; TKey TkDelete;
             TKey TkEnd; TKey TkBackspace; TKey TkKill] in
  in_alpha A (i_text e0) /\ Forall (tf_op_ok A) os /\
  tf_run seg (tf_of_ideal e0) os =
    Some (mkTf [97; 101; 769] 2 2,
          [CbChange [127462; 127482; 97; 19990]; CbChange [127462; 127482; 97; 101; 769; 19990];
           CbChange [97; 101; 769; 19990]; CbChange [97; 101; 769]]).
Proof.
  cbv zeta. split; [|split].
  - repeat constructor; cbn; tauto.
  - repeat constructor.
    + exists [[97]; [19990]]. split; [repeat constructor; cbn; tauto | reflexivity].
    + exists [[101; 769]]. split; [repeat constructor; cbn; tauto | reflexivity].
  - vm_compute. reflexivity.
Qed.

(* textinput: SetContent "ab -1世", word back, kill word ("ab -"), a two-chunk paste, Draw in a
   4-column window (which used to hang) *)
Example C17_example_textinput :
  let chars := chars_tab demo_alpha in
  let os := [OSetContent [97; 98; 32; 45; 49; 19990]; OEv (EKey IkWordB);
             OEv (EKey IkKillWord); OEv (EPasteChunk [101; 769]); OEv (EPasteChunk [128105; 8205; 128103]);
             OEv EPasteEnd; ODraw 4; OEv (EKey IkWordF)] in
  Forall (ti_op_ok demo_alpha) os /\
  ti_run chars demo_alnum (ti_new []) os =
    Some (mkTi [([101; 769], 1); ([128105; 8205; 128103], 2); ([49], 1); ([19990], 2)] 4 0 [] []).
Proof.
  cbv zeta. split.
  - repeat constructor.
    + exists [([97], 1); ([98], 1); ([32], 1); ([45], 1); ([49], 1); ([19990], 2)].
      split; [repeat constructor; cbn; tauto | reflexivity].
    + exists [([101; 769], 1)]. split; [repeat constructor; cbn; tauto | reflexivity].
    + exists [([128105; 8205; 128103], 2)]. split; [repeat constructor; cbn; tauto | reflexivity].
  - vm_compute. reflexivity.
Qed.

(* frames: a 20-column line drawn in a 10-column window scrolls (offset 15); Ctrl+u and a
   frame of the empty field reset the view; 5 characters set afterwards are drawn in full
   with the cursor in column 5.  The hypotheses of C17_textinput_frames_of_agreeing_run hold
   for these observations, and so does the property as stated.  The same history with the
   scroll surviving the empty frame (offset 15 kept, the 5 characters then drawn from the
   second one with the cursor in column 4) is rejected by the guarded frame predicate. *)
Example C17_example_textinput_frames :
  let a : cluster := ([97], 1) in
  let l20 := repeat a 20 in let l5 := repeat a 5 in
  let hist (off4 off5 off6 col6 : Z) : list ti_stepc :=
    [ (OSetContent (cl_text l20), [(cl_text l20, l20)], (l20, 20, 0, 0, -1, true));
      (ODraw 10, [], (l20, 20, 15, 0, 5, true));
      (OEv (EKey IkKillStart), [], ([], 0, 15, 0, -1, true));
      (ODraw 10, [], ([], 0, off4, 0, 0, true));
      (OSetContent (cl_text l5), [(cl_text l5, l5)], (l5, 5, off5, 0, -1, true));
      (ODraw 10, [], (l5, 5, off6, 0, col6, true)) ] in
  widths_okb (ti_prompt (ti_new [])) = true /\ ti_obs_widths_ok (hist 0 0 0 5) = true /\
  ti_agree [97] (ti_new []) (hist 0 0 0 5) = true /\
  ti_spec_ok true [] [97] (mkIdeal [] []) 0 (hist 0 0 0 5) = true /\
  ti_agree [97] (ti_new []) (hist 15 15 1 4) = false /\
  ti_draws_ok false [] 0 false (hist 15 15 1 4) = false.
Proof. vm_compute. repeat split; reflexivity. Qed.

(* derived texts, after cursor motions: the field holds a 世 é, the cursor is moved two to the
   left; SetContent with the very same text puts the cursor at the end (3, not 1); with a
   prefix and with the text extended likewise.  TextField: the same line, Home, then Reset
   and the line again: cursor and count 3. *)
Example C17_example_derived_edits :
  let chars := chars_tab demo_alpha in
  let x : list cluster := [([97], 1); ([19990], 2); ([101; 769], 1)] in
  let pre := [OSetContent (cl_text x); OEv (EKey IkLeft); OEv (EKey IkLeft)] in
  derived_from demo_alpha x x /\ derived_from demo_alpha x (firstn 2 x) /\
  derived_from demo_alpha x (x ++ [([98], 1)]) /\
  ti_run chars demo_alnum (ti_new []) pre = Some (mkTi x 1 0 [] []) /\
  ti_run chars demo_alnum (ti_new []) (pre ++ [OSetContent (cl_text x)]) = Some (mkTi x 3 0 [] []) /\
  ti_run chars demo_alnum (ti_new []) (pre ++ [OSetContent (cl_text (firstn 2 x))]) = Some (mkTi (firstn 2 x) 2 0 [] []) /\
  ti_run chars demo_alnum (ti_new []) (pre ++ [OSetContent (cl_text (x ++ [([98], 1)]))]) = Some (mkTi (x ++ [([98], 1)]) 4 0 [] []) /\
  exists log, tf_run (seg_tab demo_alpha) tf_empty [TInsertApi (cl_text x); TKey TkHome; TResetApi; TInsertApi (cl_text x)] =
    Some (mkTf (cl_text x) 3 3, log).
Proof.
  cbv zeta. repeat split; try (unfold derived_from; repeat constructor; cbn; tauto); try (vm_compute; reflexivity).
  eexists. vm_compute. reflexivity.
Qed.

(* ------------------------------------------------- modifier masks of key events *)

(* model/EditorKeys.v puts the bits of vaxis.ModifierMask in front of the operation
   alphabets: which event a key press with mask m is for each widget (the differential run
   ships the real mask of every key event it sends).

   textinput: a key with Text is typed unless Ctrl, Alt or Super is held — for EVERY mask
   without those three bits (Shift, Hyper, Meta, Caps Lock, Num Lock and any further bit in
   any combination) it is the event "typed text", which the refinement theorems above turn
   into one insertion at the cursor; with one of the three bits it is a chord. *)
Theorem C17_textinput_text_key_typed_iff_no_chord_bit :
  forall m s, (Z.land m chord_bits = 0 -> ti_typed m s = EDefault false s) /\
              (Z.land m chord_bits <> 0 -> ti_typed m s = EDefault true s).
Proof. intros; split; [apply ti_typed_plain | apply ti_typed_chord]. Qed.
Print Assumptions C17_textinput_text_key_typed_iff_no_chord_bit.

(* setting further non-chord bits (lock state, Shift, Hyper, Meta) on ANY key event changes
   neither the event nor the widget's step; and a typed key with such a mask and non-empty
   Text is an insertion of the ideal editor *)
Theorem C17_textinput_lock_bits_do_not_matter :
  forall chars alnum st m x s, Z.land x chord_bits = 0 ->
    ti_typed (Z.lor m x) s = ti_typed m s /\
    ti_step chars alnum st (OEv (ti_typed (Z.lor m x) s)) = ti_step chars alnum st (OEv (ti_typed m s)) /\
    (Z.land m chord_bits = 0 -> forall c tbl,
       ti_iop (OEv (ti_typed (Z.lor m x) (c :: s))) tbl = IIns (match tbl with (_, cs) :: _ => cs | [] => [] end)).
Proof.
  intros. split; [apply ti_typed_lor; assumption | split; [apply ti_typed_step; assumption |]].
  intros. rewrite ti_typed_lor by assumption. apply ti_typed_is_insertion; assumption.
Qed.
Print Assumptions C17_textinput_lock_bits_do_not_matter.

(* bound keys: Num Lock never changes what a bound key does; Caps Lock does not change the
   named keys (but un-binds the Ctrl/Alt+letter bindings of textinput: String() upper-cases
   the key code); TextField keeps every binding under both lock bits and types a key with
   Text whatever its mask *)
Theorem C17_bound_keys_under_lock_bits :
  (forall own m letter k, Z.land m retitle_bits = 0 -> Z.testbit m 6 = false \/ letter = false ->
     ti_bound own m letter k = EKey k) /\
  (forall own m k, Z.testbit m 6 = true -> ti_bound own m true k = EDefault (ti_mods_block (Z.lor own m)) []) /\
  (forall m k, Z.land m retitle_bits = 0 -> tf_bound m k = TKey k) /\
  (forall m s, tf_typed m s = TText s).
Proof.
  split; [exact ti_bound_keeps | split; [exact ti_bound_caps_letter | split; [exact tf_bound_keeps | reflexivity]]].
Qed.
Print Assumptions C17_bound_keys_under_lock_bits.

(* the masks are not vacuous: Caps Lock, Num Lock, all five non-chord bits together type;
   Ctrl + Caps Lock is a chord; Ctrl+a under Num Lock is Home, under Caps Lock it is not;
   "ab", Left, then "C" with Caps Lock held: "aCb", cursor 2 *)
Example C17_example_modifier_masks :
  ti_typed ModCapsLock [67] = EDefault false [67] /\ ti_typed ModNumLock [67] = EDefault false [67] /\
  ti_typed (ModShift + ModHyper + ModMeta + ModCapsLock + ModNumLock) [67] = EDefault false [67] /\
  ti_typed (ModCtrl + ModCapsLock) [67] = EDefault true [67] /\
  ti_bound ModCtrl ModNumLock true IkHome = EKey IkHome /\
  ti_bound ModCtrl ModCapsLock true IkHome = EDefault true [] /\
  ti_bound 0 ModCapsLock false IkHome = EKey IkHome /\
  tf_bound (ModCapsLock + ModNumLock) TkHome = TKey TkHome /\ tf_bound ModShift TkHome = TIgnored /\
  let chars := chars_tab demo_alpha in
  let ab : list cluster := [([97], 1); ([98], 1)] in
  ti_run chars demo_alnum (ti_new []) [OSetContent (cl_text ab); OEv (EKey IkLeft); OEv (ti_typed ModCapsLock [98])] =
    Some (mkTi [([97], 1); ([98], 1); ([98], 1)] 2 0 [] []).
Proof. cbv zeta. repeat split; vm_compute; reflexivity. Qed.
