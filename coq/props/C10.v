(* C10 — concurrent use is race-free and deadlock-free; shutdown completes.
   Statements only; proofs in proofs/ConcProofs.v; model in model/Conc.v; the access table
   gen/GenAccess.v is translated from /repo's Go sources on every run.

   THE FULL PROPERTY (properties.jsonl) speaks about the Go memory model, the real scheduler
   and real time.  None of these exists in Gallina, so the claim is PARTIAL.  What is proved:

   (B) over a labelled transition system of the queue and of the parser shutdown handshake,
       for ALL interleavings, all queue sizes N, any number of posters, all scripts and inputs:
         C10_fifo_per_poster, C10_blocking_never_dropped, C10_input_fifo   (order, no loss)
         C10_shutdown_completes, C10_shutdown_can_return                   (progress + ranking)
         C10_library_goroutines_end                                        (no goroutine left)
       with the refuted histories kept beside them:
         C10_suspend_then_close_refuted     finding key suspend-then-close
         C10_close_full_queue_refuted       finding key close-full-queue
   (A) over the translated table of every access to every field of Vaxis, writer and
       ansi.Parser, a lock-set discipline, closed by vm_compute (finite: the bound is "the
       access sites of this working tree", about 290 after merging duplicates):
         C10_lockset_ok, C10_lockset_ok_nosignal, C10_lockset_exclusions_exact,
         C10_lockset_analysis_sound

   (D) over a second labelled transition system, of the QUERY / REPLY hand-off (model/ConcQuery.v:
       QueryForeground / QueryBackground / QueryColor, CursorPosition, ClipboardPop, reportWinsize on
       one side, handleSequence on the other), parametric in a configuration that is re-read from the
       Go source on every run (channel capacities, non-blocking / timed / blocking sends, the protocol
       of the cursor-position request flag), for ALL interleavings of any number of querying
       goroutines, the input goroutine, arriving replies and keys, and timers that may fire at any
       moment (replies early, while parked, late, never, unsolicited, duplicated):
         C10_query_cfg_ok                        the translated configuration has the two sound shapes
         C10_query_parked_reply                  a reply handled while the caller is parked: exactly it
         C10_query_early_reply                   ... handled BEFORE the caller's receive: exactly it
         C10_colour_query_no_loss                no reply dropped, FIFO, a blocked caller = a reply not
                                                 yet arrived (guard: honest terminal, <= cap callers)
         C10_timed_query_no_loss                 the same with a deadline on the receive (the size request of
                                                 reportWinsize): no report dropped — the early one included —
                                                 while the deadline does not fire; C10_size_late_report_refuted
         C10_query_unbuffered_no_stale           rendezvous kinds keep nothing beyond the offer
         C10_query_no_lost_key, C10_query_consumed_only_while_outstanding, C10_query_keys_conserved
         C10_query_handler_progress, C10_query_handler_rank   bounded offers only
         C10_query_model_satisfies_property      the model's run of every scenario of <= 3 actions
                                                 satisfies the predicate evaluated on the implementation
       with the refuted statements kept beside them:
         C10_stale_colour_reply_refuted          finding key stale-colour-reply
         C10_colour_concurrent_queries_refuted   finding key colour-query-concurrent
         C10_cpr_rearm_race_refuted              finding key cpr-rearm-race
         C10_colour_unbuffered_refuted, C10_clipboard_nonblocking_refuted,
         C10_clipboard_buffered_refuted, C10_cpr_flag_sticky_refuted   each clause of qcfg_ok is needed

   (F) a goroutine that posts while holding a mutex the main goroutine takes (widgets/spinner:
       ticker goroutine vs Draw), model/ConcLock.v, the kind of post being read from the translated
       table posts_under_lock:
         C10_no_blocking_post_under_lock, C10_lock_progress   (every queue size, fill level, schedule)
         C10_lock_blocking_refuted                            (why the post must not be the blocking one)

   NOT proved (stated in the evidence): that the syntactic table is what the compiler and the
   runtime execute; termination under an unfair scheduler (the theorem gives: no deadlock
   and a bound on the work of the handshake, i.e. termination under weak fairness); the
   10 ms ESC timer and the values of the 10/50/100 ms query timeouts (time is not modelled: in
   (D) a timer may fire at any moment, and the early-reply theorem is stated for the runs in
   which the offer's timer does not fire before the caller reaches its receive; C08 covers the
   ESC timer); signals; console EOF; several parser generations alive at once; the two LTSs are
   not composed (in (D) the delivery of a decoded key never blocks; the full event queue is (B)). *)
From Vx Require Import base.Prelude gen.GenAccess model.Conc proofs.ConcProofs model.ConcQuery proofs.ConcQueryProofs
  model.ConcLock proofs.ConcLockProofs.
From Coq Require String.
Import String.StringSyntax.

(* ---------------------------------------------------------------------------------- *)
(* (B) order and loss                                                                   *)
(* ---------------------------------------------------------------------------------- *)

(* In every reachable state, for every poster i: what PollEvent has delivered from i, and
   that followed by what is still queued from i, is a subsequence of i's script, in order. *)
Theorem C10_fifo_per_poster : forall (N : nat) (ans : bool) (script : nat -> list post) (s : state) (i : nat),
  reachable N ans script s ->
  Subseq (proj i (delivered s)) (map snd (script i)) /\
  Subseq (proj i (delivered s ++ q s)) (map snd (script i)).
Proof. exact fifo_subsequence. Qed.
Print Assumptions C10_fifo_per_poster.

(* A poster that only uses PostEventBlocking loses nothing:
   delivered ++ queued ++ not yet performed (incl. the post it is blocked in) = its script. *)
Theorem C10_blocking_never_dropped : forall (N : nat) (ans : bool) (script : nat -> list post) (s : state) (i : nat),
  reachable N ans script s ->
  (forall p, In p (script i) -> fst p = true) ->
  proj i (delivered s) ++ proj i (q s) ++ map snd (todo s i) = map snd (script i).
Proof. exact fifo_no_loss. Qed.
Print Assumptions C10_blocking_never_dropped.

(* Terminal input (parser goroutine -> sequences channel -> input goroutine -> queue):
   nothing is lost, duplicated or reordered, on every schedule without Resume (Resume
   discards what the old parser had buffered): delivered ++ queued ++ still in the pipeline
   = everything the terminal sent. *)
Theorem C10_input_fifo : forall (N : nat) (ans : bool) (script : nat -> list post) (tr : list label) (s : state),
  forallb (fun l => negb (is_resume l)) tr = true ->
  run N ans tr (init script) = Some s ->
  proj_input (delivered s) ++ proj_input (q s) ++ pipeline s = typed s.
Proof. exact input_fifo. Qed.
Print Assumptions C10_input_fifo.

(* ---------------------------------------------------------------------------------- *)
(* (B) shutdown                                                                         *)
(* ---------------------------------------------------------------------------------- *)

(* From every reachable state in which main is inside Close or Suspend — the first one on
   this parser generation (guard susp_done = 0: the history Suspend();Close() is excluded,
   see the refutation below) — with a terminal that answers DA1, along EVERY schedule
   (posters, typing, polling interleaved at will):
     - the handshake steps (main, parser goroutine, input goroutine) taken are bounded by the
       ranking function plus the cost of what the user types meanwhile, and
     - at the end either Close/Suspend has returned, or a handshake step is enabled, or the
       input goroutine is blocked posting into a full queue (finding close-full-queue).
   So: no deadlock other than the full queue, and termination under weak fairness. *)
Theorem C10_shutdown_completes : forall (N : nat) (script : nat -> list post) (s : state) (tr : list label) (s' : state),
  reachable N true script s -> in_shutdown (mp s) = true -> susp_done s = O ->
  forallb (fun l => negb (is_call l)) tr = true -> run N true tr s = Some s' ->
  (rank s' + hs_count tr <= rank s + typed_cost tr)%nat /\
  (returned (mp s') = true \/
   (exists l, handshake l = true /\ enabled N true l s' = true) \/
   ((N <= List.length (q s'))%nat /\ exists x r, ip s' = IPost (x :: r))).
Proof. exact shutdown_completes. Qed.
Print Assumptions C10_shutdown_completes.

(* ... and they DO reach the return label when the queue has room for what is still on its
   way (events in the input pipeline, the DA1 reply's event, Close's own QuitEvent): from
   every such reachable state a run of at most [rank s] handshake steps ends in the return
   label. *)
Theorem C10_shutdown_can_return : forall (N : nat) (script : nat -> list post) (s : state),
  reachable N true script s -> in_shutdown (mp s) = true -> susp_done s = O ->
  (List.length (q s) + List.length (pipeline s)
   + match mp s with MPostQuit => 2 | MSendClose _ | MWriteDA1 _ => 1 | _ => 0 end <= N)%nat ->
  exists tr s', forallb handshake tr = true /\ run N true tr s = Some s' /\ returned (mp s') = true
                /\ (List.length tr <= rank s)%nat.
Proof.
  intros N script s Hr Hsh Hsd Hroom. apply (shutdown_can_return N script s Hr Hsh Hsd).
  unfold room, pending_main. destruct (mp s); simpl in *; exact Hroom.
Qed.
Print Assumptions C10_shutdown_can_return.

(* When Close/Suspend has returned the parser goroutine has ended; the input goroutine has
   ended or can take its next step towards EOF, unless the queue is full. *)
Theorem C10_library_goroutines_end : forall (N : nat) (ans : bool) (script : nat -> list post) (s : state),
  reachable N ans script s -> returned (mp s) = true ->
  pp s = PDone /\
  (ip s = IDone \/ enabled N ans LInput s = true \/
   ((N <= List.length (q s))%nat /\ exists x r, ip s = IPost (x :: r))).
Proof. exact library_goroutines_end. Qed.
Print Assumptions C10_library_goroutines_end.

(* REFUTED (confirmed defect, finding key suspend-then-close): after Suspend has returned, a
   Close (or a second Suspend) without Resume never returns, on any schedule. *)
Theorem C10_suspend_then_close_refuted : forall (N : nat) (ans : bool) (script : nat -> list post) (s s0 : state),
  reachable N ans script s -> mp s = MSuspended ->
  (step N ans LCallClose s = Some s0 \/ step N ans LCallSuspend s = Some s0) ->
  forall tr s', run N ans tr s0 = Some s' -> returned (mp s') = false.
Proof. exact suspend_then_close_refuted. Qed.
Print Assumptions C10_suspend_then_close_refuted.

(* REFUTED (finding key close-full-queue): queue full, the input goroutine blocked posting,
   the sequences channel full and the parser blocked emitting a sequence or EOF — Close/Suspend entered in
   that state never returns (nobody polls while main is inside Close). *)
Theorem C10_close_full_queue_refuted : forall (N : nat) (ans : bool) (s : state),
  (N <= List.length (q s))%nat -> (exists x r, ip s = IPost (x :: r)) -> List.length (seqs s) = 2%nat ->
  ((exists x r, pp s = PEmit (x :: r)) \/ pp s = PEof) -> closedch s = false ->
  match mp s with MPostQuit | MSendClose _ | MWriteDA1 _ | MWait _ => True | _ => False end ->
  forall tr s', run N ans tr s = Some s' -> returned (mp s') = false.
Proof.
  intros N ans s H1 H2 H3 H4 H5 H6. apply close_full_queue_refuted. repeat split; assumption.
Qed.
Print Assumptions C10_close_full_queue_refuted.

(* ---------------------------------------------------------------------------------- *)
(* (A) lock sets                                                                        *)
(* ---------------------------------------------------------------------------------- *)

(* THE RULE (model/Conc.v pair_ok): for two access sites a, b on the same field,
     both only read the slot (plain read, channel operation, call on an internally
     synchronised object), or both are sync/atomic accesses,
     or some lock is held at both (locks held syntactically at the site, plus the locks
     held at every call site of the enclosing function, transitively),
     or no role of a can run concurrently with a role of b (role table and concurrency
     relation: hand-written and documented in /verif/gen/access.go, emitted into GenAccess.v;
     roles of a site = roles whose entry points reach its function in the syntactic call
     graph; sites of constructors before the first goroutine is started are init-pre).
   Every site is also paired with itself (several goroutines of one role).

   With the complete role table (including the signal/panic path on which Vaxis.Close runs
   on the input goroutine, concurrently with the main goroutine) the rule holds for every
   field of Vaxis, writer and ansi.Parser except the fourteen listed. *)
Theorem C10_lockset_ok : forall (fn : Z * String.string) (a b : site),
  In fn field_names ->
  ~ In (snd fn) ["Vaxis.console"; "Vaxis.parser"; "Vaxis.tw"; "Vaxis.appIDLast"; "Vaxis.pastePending"; "Vaxis.caps"; "Vaxis.charCache";
                 "Vaxis.cursorNext"; "Vaxis.cursorLast"; "Vaxis.closed"; "Vaxis.userCursorStyle"; "Vaxis.renders";
                 "Vaxis.elapsed"; "writer.buf"]%string ->
  In a sites -> In b sites -> s_field a = fst fn -> s_field b = fst fn ->
  kinds_ok (s_kind a) (s_kind b) = true
  \/ (exists l, In l (site_locks L_full a) /\ In l (site_locks L_full b))
  \/ (forall ra rb, In ra (site_roles tbl_full a) -> In rb (site_roles tbl_full b) -> conc_roles ra rb = false).
Proof. intros fn a b H1 H2 H3 H4 H5 H6. apply pair_ok_spec. exact (lockset_ok_full fn a b H1 H2 H3 H4 H5 H6). Qed.
Print Assumptions C10_lockset_ok.

(* Without the signal/panic path (Options.NoSignals and no panic inside the input goroutine
   or a spinner: no call of Close from the input goroutine, no sigclose role) only four fields remain:
     Vaxis.parser, Vaxis.tw       written by openTty in Resume while a previous input
                                  goroutine / a Query* caller may still read them
     Vaxis.pastePending           read and written without a lock by the input goroutine, of
                                  which two can be alive after Resume (Suspend waits for the
                                  parser, not for the input goroutine)
                                  (these three: finding resume-overlap; the race detector
                                  reports exactly these in the thorough tier)
     Vaxis.userCursorStyle        written by the input goroutine under mu, read by Suspend
                                  without it (finding suspend-reads-cursorstyle) *)
Theorem C10_lockset_ok_nosignal : forall (fn : Z * String.string) (a b : site),
  In fn field_names ->
  ~ In (snd fn) ["Vaxis.parser"; "Vaxis.tw"; "Vaxis.pastePending"; "Vaxis.userCursorStyle"]%string ->
  In a sites -> In b sites -> s_field a = fst fn -> s_field b = fst fn ->
  kinds_ok (s_kind a) (s_kind b) = true
  \/ (exists l, In l (site_locks L_nosig a) /\ In l (site_locks L_nosig b))
  \/ (forall ra rb, In ra (site_roles tbl_nosig a) -> In rb (site_roles tbl_nosig b) -> conc_roles ra rb = false).
Proof. intros fn a b H1 H2 H3 H4 H5 H6. apply pair_ok_spec. exact (lockset_ok_nosig fn a b H1 H2 H3 H4 H5 H6). Qed.
Print Assumptions C10_lockset_ok_nosignal.

(* The exclusion lists are exact: each excluded field really has a conflicting pair (these
   are the `_refuted` witnesses of the unrestricted statement), and nothing else has. *)
Theorem C10_lockset_exclusions_exact :
  racy_fields tbl_full L_full =
    ["Vaxis.console"; "Vaxis.parser"; "Vaxis.tw"; "Vaxis.appIDLast"; "Vaxis.pastePending"; "Vaxis.caps"; "Vaxis.charCache";
     "Vaxis.cursorNext"; "Vaxis.cursorLast"; "Vaxis.closed"; "Vaxis.userCursorStyle"; "Vaxis.renders";
     "Vaxis.elapsed"; "writer.buf"]%string
  /\ racy_fields tbl_nosig L_nosig = ["Vaxis.parser"; "Vaxis.tw"; "Vaxis.pastePending"; "Vaxis.userCursorStyle"]%string.
Proof. exact (conj racy_full racy_nosig). Qed.
Print Assumptions C10_lockset_exclusions_exact.

(* The analysis results used above are validated, not trusted: each role's function set
   contains its entry points and is closed under the call edges; entry lock sets are empty
   for entry points and, along every call edge, included in (locks at the call site +
   caller's entry set). *)
Theorem C10_lockset_analysis_sound :
  forallb (fun rt => closed_under calls entries (fst rt) (snd rt)) tbl_full = true
  /\ locks_sound calls entries L_full = true
  /\ forallb (fun rt => closed_under calls_nosig entries_nosig (fst rt) (snd rt)) tbl_nosig = true
  /\ locks_sound calls_nosig entries_nosig L_nosig = true.
Proof. exact (conj roles_closed_full (conj locks_sound_full (conj roles_closed_nosig locks_sound_nosig))). Qed.
Print Assumptions C10_lockset_analysis_sound.

(* ---------------------------------------------------------------------------------- *)
(* (D) terminal queries                                                                 *)
(* ---------------------------------------------------------------------------------- *)

(* The facts the model is instantiated with are translated from the Go AST on every run
   (GenAccess.v: chan_caps, chan_ops and the cpr facts).  This says: each of the six reply channels is
   made once with a literal capacity, sent on by handleSequence only and received from by its query
   function only; the three colour channels and the size channel are buffered (>= 1) with a
   non-blocking send; the cursor-position and clipboard channels are unbuffered with a timed offer;
   no send can block without bound; CursorPosition sets the request flag before it writes the query
   and clears it on its time-out branch, and the handler clears it (before or after its send). *)
Theorem C10_query_cfg_ok : qcfg_ok gen_qcfg = true.
Proof. exact gen_qcfg_ok. Qed.
Print Assumptions C10_query_cfg_ok.

(* A reply that is handled while a caller is parked in its receive goes to exactly that caller
   (the first one parked), with exactly its payload.  Any configuration. *)
Theorem C10_query_parked_reply : forall (c : qcfg) (n : nat) (s : qstate) (k : kind) (v : Z) (r : list hop) (g : nat) (w : list nat),
  qreach c n s -> hp s = HRun (HSend k v :: r) -> wait s k = g :: w ->
  exists s', qstep c LH s = Some s' /\ qget s' g = QPost k (qpost c k true) (Some v) /\ wait s' k = w /\ rets s' k = rets s k ++ [v].
Proof. intros c n s k v r g w R. apply parked_gets_reply. eapply chan_inv_reach; exact R. Qed.
Print Assumptions C10_query_parked_reply.

(* EARLY replies.  The reply is handled while no caller is parked and nothing older is waiting on the
   channel (the caller is still between the write of its query and its receive).  With one of the two
   sound shapes (buffer + non-blocking send, or unbuffered + timed offer) the reply is kept — not
   dropped — and along every continuation in which the offer's timer does not fire and no other
   goroutine receives on that channel, ANY caller that then reaches its receive returns exactly v,
   at once (its step is enabled: no deadlock). *)
Theorem C10_query_early_reply : forall (c : qcfg) (n : nat) (s : qstate) (k : kind) (v : Z) (r : list hop),
  kcfg_ok (q_k c k) = true -> qreach c n s ->
  hp s = HRun (HSend k v :: r) -> wait s k = [] -> avail k s = [] ->
  exists s1, qstep c LH s = Some s1 /\ avail k s1 = [v] /\ dropped s1 k = dropped s k /\
    forall tr s2, qrun_all c (quiet_at k) tr s1 = true -> qrun c tr s1 = Some s2 ->
      forall g ops, qget s2 g = QRun k (OSelect :: ops) ->
        exists s3, qstep c (LQ g) s2 = Some s3 /\ qget s3 g = QPost k (qpost c k true) (Some v).
Proof. exact early_reply_delivered. Qed.
Print Assumptions C10_query_early_reply.

(* The colour queries (buffer, non-blocking send, receive without a timer), on every run on which the
   terminal is honest about kind k (no unsolicited or duplicated report: when a reply is handled, fewer
   replies have been handled than queries written) and at most cap(k) callers are between their write
   and the end of their receive:  no reply is ever dropped; the callers receive the replies in the order
   of arrival, none skipped; and a caller that is blocked in its receive is blocked only because fewer
   replies have arrived than queries were written (deadlock-freedom of the hand-off).  Both guards are
   needed: see the two refutations below. *)
Theorem C10_colour_query_no_loss : forall (c : qcfg) (n : nat) (k : kind) (tr : list qlabel) (s : qstate),
  k_snd (q_k c k) = SNonblock -> k_rcv (q_k c k) = RBlock ->
  qrun c tr (qinit n) = Some s -> qrun_all c (colour_hyp c k) tr (qinit n) = true ->
  dropped s k = [] /\ handled s k = rets s k ++ buf s k /\
  (forall g, qget s g = QParked k -> buf s k = [] /\ (List.length (handled s k) < nwr s k)%nat).
Proof. intros c n k tr s Hs Hr. exact (colour_no_loss c n k Hs Hr tr s). Qed.
Print Assumptions C10_colour_query_no_loss.

(* The same hand-off when the receive HAS a timer — the size request of reportWinsize (VAXIS_FORCE_XTWINOPS:
   Resize() + Render(), or New; capacity 1, non-blocking send, 100 ms deadline) — on every run on which the
   terminal is honest about kind k, at most cap(k) requesters are between their write and the end of their
   receive, and the deadline of a k-receive does not fire (the report comes in time; guard no_timeout_at):
   no report is ever dropped — in particular not the one that is handled BEFORE the requester reaches its
   receive —, the requesters receive the reports in the order of arrival, none skipped, and a requester
   parked in its receive means a report not yet arrived.  So a resize request the terminal answers in time
   is applied, with the answer of that request.  Any configuration with a non-blocking send; any k. *)
Theorem C10_timed_query_no_loss : forall (c : qcfg) (n : nat) (k : kind) (tr : list qlabel) (s : qstate),
  k_snd (q_k c k) = SNonblock ->
  qrun c tr (qinit n) = Some s -> qrun_all c (timed_hyp c k) tr (qinit n) = true ->
  dropped s k = [] /\ handled s k = rets s k ++ buf s k /\
  (forall g, qget s g = QParked k -> buf s k = [] /\ (List.length (handled s k) < nwr s k)%nat).
Proof. intros c n k tr s Hs. exact (timed_no_loss c n k Hs tr s). Qed.
Print Assumptions C10_timed_query_no_loss.

(* The guard on the deadline is needed, on the unchanged code: a size request that times out and whose
   report comes late leaves its token in the channel; the next request returns on that token before its own
   report has arrived (honest terminal, one requester at a time).  Proposed finding stale-size-token. *)
Theorem C10_size_late_report_refuted :
  qrun_all gen_qcfg (colour_hyp gen_qcfg KSize) size_late_trace (qinit 1) = true /\
  qrun_all gen_qcfg (timed_hyp gen_qcfg KSize) size_late_trace (qinit 1) = false /\
  exists s, qrun gen_qcfg size_late_trace (qinit 1) = Some s /\
            nwr s KSize = 2%nat /\ handled s KSize = [7] /\ qget s 0 = QPost KSize [] (Some 7).
Proof. exact size_late_report_witness. Qed.
Print Assumptions C10_size_late_report_refuted.

(* Rendezvous kinds (capacity 0: cursor position, clipboard) keep nothing: whenever a caller's list of
   received values grows by v, the handler is at that very step blocked offering v or performing the
   send of v.  A reply whose offer has ended (late, unsolicited, duplicated) can therefore never be
   returned by a LATER query.  Any interleaving, any timing. *)
Theorem C10_query_unbuffered_no_stale : forall (c : qcfg) (n : nat) (s : qstate) (l : qlabel) (s' : qstate) (k : kind),
  qreach c n s -> cap c k = O -> qstep c l s = Some s' ->
  rets s' k = rets s k \/
  exists v, rets s' k = rets s k ++ [v] /\ ((exists r, hp s = HOffer k v r) \/ (exists r, hp s = HRun (HSend k v :: r))).
Proof. intros c n s l s' k R. apply unbuffered_no_stale. eapply chan_inv_reach; exact R. Qed.
Print Assumptions C10_query_unbuffered_no_stale.

(* NO LOST INPUT.  With the flag protocol of flag_ok, on every run without the re-arm race (guard
   no_rearm_at, see C10_cpr_rearm_race_refuted): a CSI ... R sequence is taken for a cursor position
   report only in a state in which a CursorPosition call is outstanding ... *)
Theorem C10_query_consumed_only_while_outstanding : forall (c : qcfg) (n : nat) (tr : list qlabel) (s : qstate) (l : qlabel) (s' : qstate),
  flag_ok c = true -> k_cap (q_k c KCpr) = O ->
  qrun c tr (qinit n) = Some s -> qrun_all c no_rearm_at tr (qinit n) = true ->
  qstep c l s = Some s' -> consumed s' = consumed s \/ any_outstanding KCpr s = true.
Proof. intros c n tr s l s' Hf Hc. exact (consumed_only_while_outstanding c n Hf Hc tr s l s'). Qed.
Print Assumptions C10_query_consumed_only_while_outstanding.

(* ... so after ANY history in which no query is outstanding any more (all answered or timed out), the
   next key — Shift+F3 in its legacy encoding CSI 1;2 R and plain CSI R included — is delivered as a
   key event, and nothing is left behind. *)
Theorem C10_query_no_lost_key : forall (c : qcfg) (n : nat) (tr : list qlabel) (s : qstate) (x : seq) (rest : list seq),
  flag_ok c = true -> k_cap (q_k c KCpr) = O ->
  qrun c tr (qinit n) = Some s -> qrun_all c no_rearm_at tr (qinit n) = true ->
  any_outstanding KCpr s = false -> hp s = HRun [] -> inq s = x :: rest ->
  is_plain_key x || is_r x = true ->
  exists s', qstep c LH s = Some s' /\ out s' = out s ++ [x] /\ consumed s' = consumed s /\ hp s' = HRun [] /\ inq s' = rest.
Proof. intros c n tr s x rest Hf Hc. exact (no_lost_key c n Hf Hc tr s x rest). Qed.
Print Assumptions C10_query_no_lost_key.

(* Keys other than CSI ... R are never lost, duplicated or reordered by anything the queries do:
   delivered ++ still queued = everything the terminal sent.  Any configuration, any run. *)
Theorem C10_query_keys_conserved : forall (c : qcfg) (n : nat) (tr : list qlabel) (s : qstate),
  qrun c tr (qinit n) = Some s ->
  filter is_plain_key (out s) ++ filter is_plain_key (inq s) = arrived_keys tr.
Proof. intros c n tr s H. rewrite (keys_conserved c tr _ _ H). reflexivity. Qed.
Print Assumptions C10_query_keys_conserved.

(* The input goroutine is never blocked by a reply for longer than a bounded offer: whenever it has
   anything to do, its own next step or the timer of its offer is enabled; and each of its steps
   decreases a ranking function (at most ten steps per incoming sequence). *)
Theorem C10_query_handler_progress : forall (c : qcfg) (n : nat) (s : qstate),
  qcfg_ok c = true -> qreach c n s ->
  (hp s <> HRun [] \/ inq s <> []) -> qenabled c LH s = true \/ qenabled c LHTimeout s = true.
Proof.
  intros c n s Hok R. apply handler_progress; [eapply chan_inv_reach; exact R|].
  intros k. unfold qcfg_ok in Hok. apply Bool.andb_true_iff in Hok. destruct Hok as [Hk _].
  rewrite forallb_forall in Hk. apply Hk. destruct k; simpl; tauto.
Qed.
Print Assumptions C10_query_handler_progress.

Theorem C10_query_handler_rank : forall (c : qcfg) (s : qstate) (l : qlabel) (s' : qstate),
  (l = LH \/ l = LHTimeout) -> qstep c l s = Some s' -> (hrank s' < hrank s)%nat.
Proof. exact handler_rank. Qed.
Print Assumptions C10_query_handler_rank.

(* The tie to the differential run: the property predicate that the harness evaluates on the
   implementation's observations (query_violation: a decidable statement on one scenario and its
   observation, independent of the model) holds of the model's own run of EVERY scenario of at most
   three actions over the alphabet (20440 scenarios: each of the six query kinds — the size request of
   reportWinsize included: "a resize the terminal answers, early or while the requester waits, is applied
   with the reported size; it is lost only when the terminal does not answer" — early / prompt / never,
   a reply of each kind at rest, the three sorts of key).  Bound in the statement; closed by vm_compute. *)
Theorem C10_query_model_satisfies_property :
  forallb (fun sc => negb (query_violation (sc, exec_scn gen_qcfg sc))) (scenarios 3 0) = true.
Proof. exact model_satisfies_property_3. Qed.
Print Assumptions C10_query_model_satisfies_property.

(* REFUTED on the unchanged code (proposed finding stale-colour-reply): clause "a reply nobody waits for
   is not handed to a later query" fails for the buffered colour channels.  An OSC 11 report that arrives
   while no QueryBackground is outstanding (no query written yet) is kept in the one-slot buffer; the next
   QueryBackground returns it at once — its own answer 8 has not even arrived — and that answer is
   parked for the query after it (every later query is one behind).  The guarded predicate excludes
   exactly this class (query_known); the unguarded one fails on the model's run. *)
Theorem C10_stale_colour_reply_refuted :
  (exists s1 s2,
    qrun gen_qcfg [LArrive (SReply KBg 7); LH; LH] (qinit 1) = Some s1 /\ nwr s1 KBg = O /\ handled s1 KBg = [7] /\
    qrun gen_qcfg [LCall 0 KBg; LQ 0; LQ 0; LArrive (SReply KBg 8); LH; LH] s1 = Some s2 /\
    qget s2 0 = QPost KBg [] (Some 7) /\ dropped s2 KBg = [] /\ buf s2 KBg = [8] /\ hp s2 = HRun [])
  /\ query_violation_all ([AReply KBg 301; AQuery KBg 0 302], exec_scn gen_qcfg [AReply KBg 301; AQuery KBg 0 302]) = true
  /\ query_known ([AReply KBg 301; AQuery KBg 0 302], []) = true.
Proof. exact (conj stale_colour_reply_witness model_violates_unguarded). Qed.
Print Assumptions C10_stale_colour_reply_refuted.

(* REFUTED on the unchanged code (proposed finding colour-query-concurrent): "any number of goroutines may
   issue terminal queries without deadlock" fails for two concurrent QueryBackground calls.  Both have
   written their query and neither has reached its receive when the two answers are handled: the second
   answer finds the slot taken and is dropped by the non-blocking send.  One caller gets its colour, the
   other stays blocked although both answers arrived, and no goroutine of the library can move. *)
Theorem C10_colour_concurrent_queries_refuted :
  exists s,
    qrun gen_qcfg [LCall 0 KBg; LCall 1 KBg; LQ 0; LQ 1; LArrive (SReply KBg 1); LArrive (SReply KBg 2); LH; LH; LH; LH; LQ 0; LQ 1] (qinit 2) = Some s /\
    qget s 0 = QPost KBg [] (Some 1) /\ qget s 1 = QParked KBg /\ nwr s KBg = 2%nat /\ handled s KBg = [1; 2] /\ dropped s KBg = [2] /\
    inq s = [] /\ stuck gen_qcfg s 1 = true.
Proof. exact colour_two_queriers_witness. Qed.
Print Assumptions C10_colour_concurrent_queries_refuted.

(* REFUTED on the unchanged code (proposed finding cpr-rearm-race): without the guard no_rearm_at the
   no-lost-input theorem fails.  The handler has tested the flag for a report that belongs to a query
   which then times out; the next CursorPosition call sets the flag before the handler's send; the send
   hands the old report to the new call; the flag stays set with no call outstanding and the next
   Shift+F3 (CSI 1;2 R) is swallowed. *)
Theorem C10_cpr_rearm_race_refuted :
  exists s s',
    qrun gen_qcfg rearm_trace (qinit 1) = Some s /\ qrun_all gen_qcfg no_rearm_at rearm_trace (qinit 1) = false /\
    any_outstanding KCpr s = false /\ hp s = HRun [] /\ inq s = [SR true 258] /\ flag s = true /\
    qstep gen_qcfg LH s = Some s' /\ out s' = [] /\ consumed s' = [SR true 300; SR true 258].
Proof. exact cpr_rearm_race_witness. Qed.
Print Assumptions C10_cpr_rearm_race_refuted.

(* Each clause of qcfg_ok is needed (these are the configurations of seeded changes): *)
(* ... a non-blocking send on an UNBUFFERED colour channel drops the early reply; the caller is stuck *)
Theorem C10_colour_unbuffered_refuted :
  kcfg_ok (q_k cfg_colour_unbuffered KBg) = false /\
  exists s, qrun cfg_colour_unbuffered [LCall 0 KBg; LQ 0; LArrive (SReply KBg 7); LH; LH; LQ 0] (qinit 1) = Some s /\
            qget s 0 = QParked KBg /\ handled s KBg = [7] /\ dropped s KBg = [7] /\ stuck cfg_colour_unbuffered s 0 = true.
Proof. exact colour_unbuffered_witness. Qed.
Print Assumptions C10_colour_unbuffered_refuted.

(* ... a non-blocking send of the clipboard reply loses the early reply; ClipboardPop waits out its deadline *)
Theorem C10_clipboard_nonblocking_refuted :
  kcfg_ok (q_k cfg_clip_nonblocking KClip) = false /\
  exists s s', qrun cfg_clip_nonblocking [LCall 0 KClip; LQ 0; LArrive (SReply KClip 7); LH; LH; LQ 0] (qinit 1) = Some s /\
            qget s 0 = QParked KClip /\ dropped s KClip = [7] /\ qenabled cfg_clip_nonblocking LH s = false /\
            qstep cfg_clip_nonblocking (LQTimeout 0) s = Some s' /\ qget s' 0 = QPost KClip [] None.
Proof. exact clipboard_nonblocking_witness. Qed.
Print Assumptions C10_clipboard_nonblocking_refuted.

(* ... a BUFFERED clipboard channel keeps an unsolicited report beyond the offer and returns it later *)
Theorem C10_clipboard_buffered_refuted :
  kcfg_ok (q_k cfg_clip_buffered KClip) = false /\
  exists s, qrun cfg_clip_buffered [LArrive (SReply KClip 5); LH; LH; LArrive (SKey 1); LH; LCall 0 KClip; LQ 0; LQ 0] (qinit 1) = Some s /\
            out s = [SKey 1] /\ qget s 0 = QPost KClip [] (Some 5).
Proof. exact clipboard_buffered_witness. Qed.
Print Assumptions C10_clipboard_buffered_refuted.

(* ... a flag that the time-out branch does not clear swallows the next CSI 1;2 R, with no race involved *)
Theorem C10_cpr_flag_sticky_refuted :
  flag_ok cfg_flag_sticky = false /\
  exists s s', qrun cfg_flag_sticky sticky_trace (qinit 1) = Some s /\ qrun_all cfg_flag_sticky no_rearm_at sticky_trace (qinit 1) = true /\
            qget s 0 = QPost KCpr [] None /\ any_outstanding KCpr s = false /\
            qstep cfg_flag_sticky LH s = Some s' /\ out s' = [] /\ consumed s' = [SR true 258].
Proof. exact cpr_flag_sticky_witness. Qed.
Print Assumptions C10_cpr_flag_sticky_refuted.

(* ---------------------------------------------------------------------------------- *)
(* (F) posting under a mutex that the main goroutine takes                              *)
(* ---------------------------------------------------------------------------------- *)

(* The table of every PostEvent / PostEventBlocking / SyncFunc call made while a mutex is held
   syntactically in the same function body (translated from every non-test file of the module outside
   cmd/ on every run; today one entry: the spinner's ticker goroutine under m.mu) contains no blocking
   post. *)
Theorem C10_no_blocking_post_under_lock : gen_blocking_under_lock = false.
Proof. exact gen_no_blocking_under_lock. Qed.
Print Assumptions C10_no_blocking_post_under_lock.

(* With a non-blocking post under the mutex: in every reachable state — every queue capacity N, every
   fill level, every interleaving of the worker, other posters, and the main goroutine polling or
   drawing — a main goroutine that waits for the mutex in Draw can take it at once or after the worker's
   next step, which is enabled whatever the state of the queue; inside Draw it can always return. *)
Theorem C10_lock_progress : forall (N : nat) (s : lstate), lreach N false s ->
  (ldr s = DWant ->
     (exists s', lstep N false LDLock s = Some s' /\ ldr s' = DIn) \/
     (exists s1 s2, lstep N false LWPost s = Some s1 /\ lstep N false LDLock s1 = Some s2 /\ ldr s2 = DIn)) /\
  (ldr s = DIn -> exists s', lstep N false LDUnlock s = Some s' /\ ldr s' = DPoll).
Proof. exact lock_progress. Qed.
Print Assumptions C10_lock_progress.

(* REFUTED for a blocking post under the mutex (the configuration of a seeded change): for every queue
   capacity the state "queue full, worker waiting for room with the mutex held, main waiting for the mutex
   in Draw" is reachable, no step of anybody is enabled in it, and Draw never returns. *)
Theorem C10_lock_blocking_refuted : forall N : nat,
  exists s, lrun N true (repeat LFill N ++ [LTick; LDraw]) linit = Some s /\ ldr s = DWant /\
            (forall l, lstep N true l s = None) /\
            (forall tr s', lrun N true tr s = Some s' -> ldr s' = DWant).
Proof. exact lock_blocking_refuted. Qed.
Print Assumptions C10_lock_blocking_refuted.

(* ---------------------------------------------------------------------------------- *)
(* non-vacuity                                                                          *)
(* ---------------------------------------------------------------------------------- *)

(* a reachable state in which main waits for the mutex while the worker holds it, the queue being full *)
Example C10_lock_example :
  exists s, lrun 2 false [LFill; LFill; LTick; LDraw] linit = Some s /\ ldr s = DWant /\ lwk s = WHold /\ lqn s = 2%nat
            /\ lock_exec 2 false = true /\ lock_exec 2 true = false.
Proof. eexists. split; [vm_compute; reflexivity|]. vm_compute. repeat split; reflexivity. Qed.

(* the hypotheses of the query theorems are satisfiable on the translated configuration: a state in
   which the handler is about to send an early reply (C10_query_early_reply), a run that satisfies the
   honesty / concurrency guard and the no-re-arm guard and ends at rest with a key to deliver, and the
   channel shapes of C10_colour_query_no_loss *)
Example C10_query_examples :
  (exists s, qrun gen_qcfg [LCall 0 KClip; LQ 0; LArrive (SReply KClip 9); LH] (qinit 1) = Some s
             /\ hp s = HRun [HSend KClip 9] /\ wait s KClip = [] /\ avail KClip s = [] /\ kcfg_ok (q_k gen_qcfg KClip) = true)
  /\ (let tr := [LCall 0 KBg; LQ 0; LArrive (SReply KBg 5); LH; LH; LQ 0;
                 LCall 0 KCpr; LQ 0; LQ 0; LQ 0; LQTimeout 0; LQ 0; LArrive (SR true 258)]%nat in
      qrun_all gen_qcfg (colour_hyp gen_qcfg KBg) tr (qinit 1) = true /\ qrun_all gen_qcfg no_rearm_at tr (qinit 1) = true
      /\ exists s, qrun gen_qcfg tr (qinit 1) = Some s /\ any_outstanding KCpr s = false /\ hp s = HRun [] /\ inq s = [SR true 258]
                   /\ qget s 0 = QPost KCpr [] None /\ rets s KBg = [5])
  /\ k_snd (q_k gen_qcfg KBg) = SNonblock /\ k_rcv (q_k gen_qcfg KBg) = RBlock
  /\ flag_ok gen_qcfg = true /\ k_cap (q_k gen_qcfg KCpr) = O /\ cap gen_qcfg KClip = O.
Proof.
  split; [eexists; split; [vm_compute; reflexivity|vm_compute; repeat split; reflexivity]|].
  split; [vm_compute; split; [reflexivity|split; [reflexivity|eexists; repeat split; reflexivity]]|].
  vm_compute. repeat split; reflexivity.
Qed.

Definition ex_script : nat -> list post := script_of [[(true, 10); (false, 11); (true, 12)]; [(false, 20); (false, 21)]].

(* a reachable state inside Close with susp_done = 0 and input pending; Close then returns *)
Example C10_shutdown_example :
  exists s, run 4 true [LType [[7]]; LPost 0; LCallClose; LMain] (init ex_script) = Some s
            /\ in_shutdown (mp s) = true /\ susp_done s = O
            /\ (List.length (q s) + List.length (pipeline s) + 1 <= 4)%nat
            /\ fst (exec 4 true [AType [7]; APost 0; AClose] (None, init ex_script))
               = [(true, None); (true, None); (true, None)].
Proof. eexists. split; [vm_compute; reflexivity|]. vm_compute. repeat split; auto. Qed.

(* the hypotheses of C10_timed_query_no_loss are satisfiable on the translated configuration for the size
   request, on the very run the property is about: the report is handled before the requester's receive *)
Example C10_size_early_example :
  let tr := [LCall 0 KSize; LQ 0; LArrive (SReply KSize 5); LH; LH; LQ 0]%nat in
  k_snd (q_k gen_qcfg KSize) = SNonblock /\ k_rcv (q_k gen_qcfg KSize) = RTimed /\ cap gen_qcfg KSize = 1%nat /\
  qrun_all gen_qcfg (timed_hyp gen_qcfg KSize) tr (qinit 1) = true /\
  exists s, qrun gen_qcfg tr (qinit 1) = Some s /\ qget s 0 = QPost KSize [] (Some 5) /\ rets s KSize = [5] /\ buf s KSize = [].
Proof. exact size_early_example. Qed.

(* a reachable suspended state: the hypothesis of the refutation is satisfiable, and the
   runner reports the hang *)
Example C10_suspend_then_close_example :
  exists s, run 4 true [LCallSuspend; LMain; LMain; LParser; LParser; LParser; LParser; LMain; LMain]
                (init ex_script) = Some s
            /\ mp s = MSuspended
            /\ fst (exec 4 true [ASuspend; AClose] (None, init ex_script)) = [(true, None); (false, None)].
Proof. eexists. split; [vm_compute; reflexivity|]. vm_compute. auto. Qed.

(* a dropped non-blocking post and a blocked blocking post *)
Example C10_fifo_example :
  fst (exec 1 true [APost 1; APost 1; APost 0; APoll; APoll; APoll] (None, init ex_script))
  = [(true, None); (true, None); (false, None); (true, Some (1, 20)); (true, Some (0, 10)); (true, None)].
Proof. vm_compute. reflexivity. Qed.

(* the full-queue hang is reachable: queue of one, four keys typed, then Close *)
Example C10_close_full_queue_example :
  let s := snd (exec 1 true [APost 1; AType [1; 2; 3; 4]; AClose] (None, init ex_script)) in
  (1 <= List.length (q s))%nat /\ ip s = IPost [1] /\ List.length (seqs s) = 2%nat /\ pp s = PEmit [[4]]
  /\ closedch s = false /\ mp s = MWait true.
Proof. vm_compute. repeat split; auto. Qed.

(* the lock disjunct is really used: nextSize is written by the input goroutine and read by
   the main goroutine (roles that run concurrently), both under Vaxis.mu; and the atomic
   disjunct: resize is only ever touched through atomicLoad/atomicStore *)
Example C10_lockset_example :
  let f := field_id "Vaxis.nextSize"%string in
  existsb (fun a => existsb (fun b =>
      (s_kind a =? 1) && (s_kind b =? 0) && zmem 1 (site_locks L_full a) && zmem 1 (site_locks L_full b)
      && may_race tbl_full a b) (field_sites f)) (field_sites f) = true
  /\ forallb (fun a => s_kind a =? 2) (field_sites (field_id "Vaxis.resize"%string)) = true
  /\ (2 <= List.length (field_sites (field_id "Vaxis.resize"%string)))%nat.
Proof. vm_compute. repeat split; auto. Qed.
