(* C10 — concurrent use is race-free and deadlock-free; shutdown completes.
   Statements only; proofs in proofs/ConcProofs.v; model in model/Conc.v; the access table
   gen/GenAccess.v is translated from /repo's Go sources on every run.

   THE FULL PROPERTY (properties.jsonl) speaks about the Go memory model, the real scheduler
   and real time.  None of these exists in Gallina, so the claim is PARTIAL.  What is proved:

   (B) over a labelled transition system of the queue and of the parser shutdown handshake,
       for ALL interleavings, all queue sizes N, any number of posters, all scripts and inputs:
         C10_fifo_per_poster, C10_blocking_never_dropped, C10_input_fifo   (order, no loss)
         C10_shutdown_completes, C10_shutdown_can_return                   (progress + ranking)
         C10_library_goroutines_end                                        (no goroutine left)
       with the refuted histories kept beside them:
         C10_suspend_then_close_refuted     finding key suspend-then-close
         C10_close_full_queue_refuted       finding key close-full-queue
   (A) over the translated table of every access to every field of Vaxis, writer and
       ansi.Parser, a lock-set discipline, closed by vm_compute (finite: the bound is "the
       access sites of this working tree", about 290 after merging duplicates):
         C10_lockset_ok, C10_lockset_ok_nosignal, C10_lockset_exclusions_exact,
         C10_lockset_analysis_sound

   NOT proved (stated in the evidence): that the syntactic table is what the compiler and the
   runtime execute; termination under an unfair scheduler (the theorem gives: no deadlock
   and a bound on the work of the handshake, i.e. termination under weak fairness); the
   10 ms ESC timer and the 50/100 ms query timeouts (time is not modelled; C08 covers the
   timer); signals; console EOF; several parser generations alive at once. *)
From Vx Require Import base.Prelude gen.GenAccess model.Conc proofs.ConcProofs.
From Coq Require String.
Import String.StringSyntax.

(* ---------------------------------------------------------------------------------- *)
(* (B) order and loss                                                                   *)
(* ---------------------------------------------------------------------------------- *)

(* In every reachable state, for every poster i: what PollEvent has delivered from i, and
   that followed by what is still queued from i, is a subsequence of i's script, in order. *)
Theorem C10_fifo_per_poster : forall (N : nat) (ans : bool) (script : nat -> list post) (s : state) (i : nat),
  reachable N ans script s ->
  Subseq (proj i (delivered s)) (map snd (script i)) /\
  Subseq (proj i (delivered s ++ q s)) (map snd (script i)).
Proof. exact fifo_subsequence. Qed.
Print Assumptions C10_fifo_per_poster.

(* A poster that only uses PostEventBlocking loses nothing:
   delivered ++ queued ++ not yet performed (incl. the post it is blocked in) = its script. *)
Theorem C10_blocking_never_dropped : forall (N : nat) (ans : bool) (script : nat -> list post) (s : state) (i : nat),
  reachable N ans script s ->
  (forall p, In p (script i) -> fst p = true) ->
  proj i (delivered s) ++ proj i (q s) ++ map snd (todo s i) = map snd (script i).
Proof. exact fifo_no_loss. Qed.
Print Assumptions C10_blocking_never_dropped.

(* Terminal input (parser goroutine -> sequences channel -> input goroutine -> queue):
   nothing is lost, duplicated or reordered, on every schedule without Resume (Resume
   discards what the old parser had buffered): delivered ++ queued ++ still in the pipeline
   = everything the terminal sent. *)
Theorem C10_input_fifo : forall (N : nat) (ans : bool) (script : nat -> list post) (tr : list label) (s : state),
  forallb (fun l => negb (is_resume l)) tr = true ->
  run N ans tr (init script) = Some s ->
  proj_input (delivered s) ++ proj_input (q s) ++ pipeline s = typed s.
Proof. exact input_fifo. Qed.
Print Assumptions C10_input_fifo.

(* ---------------------------------------------------------------------------------- *)
(* (B) shutdown                                                                         *)
(* ---------------------------------------------------------------------------------- *)

(* From every reachable state in which main is inside Close or Suspend — the first one on
   this parser generation (guard susp_done = 0: the history Suspend();Close() is excluded,
   see the refutation below) — with a terminal that answers DA1, along EVERY schedule
   (posters, typing, polling interleaved at will):
     - the handshake steps (main, parser goroutine, input goroutine) taken are bounded by the
       ranking function plus the cost of what the user types meanwhile, and
     - at the end either Close/Suspend has returned, or a handshake step is enabled, or the
       input goroutine is blocked posting into a full queue (finding close-full-queue).
   So: no deadlock other than the full queue, and termination under weak fairness. *)
Theorem C10_shutdown_completes : forall (N : nat) (script : nat -> list post) (s : state) (tr : list label) (s' : state),
  reachable N true script s -> in_shutdown (mp s) = true -> susp_done s = O ->
  forallb (fun l => negb (is_call l)) tr = true -> run N true tr s = Some s' ->
  (rank s' + hs_count tr <= rank s + typed_cost tr)%nat /\
  (returned (mp s') = true \/
   (exists l, handshake l = true /\ enabled N true l s' = true) \/
   ((N <= List.length (q s'))%nat /\ exists x r, ip s' = IPost (x :: r))).
Proof. exact shutdown_completes. Qed.
Print Assumptions C10_shutdown_completes.

(* ... and they DO reach the return label when the queue has room for what is still on its
   way (events in the input pipeline, the DA1 reply's event, Close's own QuitEvent): from
   every such reachable state a run of at most [rank s] handshake steps ends in the return
   label. *)
Theorem C10_shutdown_can_return : forall (N : nat) (script : nat -> list post) (s : state),
  reachable N true script s -> in_shutdown (mp s) = true -> susp_done s = O ->
  (List.length (q s) + List.length (pipeline s)
   + match mp s with MPostQuit => 2 | MSendClose _ | MWriteDA1 _ => 1 | _ => 0 end <= N)%nat ->
  exists tr s', forallb handshake tr = true /\ run N true tr s = Some s' /\ returned (mp s') = true
                /\ (List.length tr <= rank s)%nat.
Proof.
  intros N script s Hr Hsh Hsd Hroom. apply (shutdown_can_return N script s Hr Hsh Hsd).
  unfold room, pending_main. destruct (mp s); simpl in *; exact Hroom.
Qed.
Print Assumptions C10_shutdown_can_return.

(* When Close/Suspend has returned the parser goroutine has ended; the input goroutine has
   ended or can take its next step towards EOF, unless the queue is full. *)
Theorem C10_library_goroutines_end : forall (N : nat) (ans : bool) (script : nat -> list post) (s : state),
  reachable N ans script s -> returned (mp s) = true ->
  pp s = PDone /\
  (ip s = IDone \/ enabled N ans LInput s = true \/
   ((N <= List.length (q s))%nat /\ exists x r, ip s = IPost (x :: r))).
Proof. exact library_goroutines_end. Qed.
Print Assumptions C10_library_goroutines_end.

(* REFUTED (confirmed defect, finding key suspend-then-close): after Suspend has returned, a
   Close (or a second Suspend) without Resume never returns, on any schedule. *)
Theorem C10_suspend_then_close_refuted : forall (N : nat) (ans : bool) (script : nat -> list post) (s s0 : state),
  reachable N ans script s -> mp s = MSuspended ->
  (step N ans LCallClose s = Some s0 \/ step N ans LCallSuspend s = Some s0) ->
  forall tr s', run N ans tr s0 = Some s' -> returned (mp s') = false.
Proof. exact suspend_then_close_refuted. Qed.
Print Assumptions C10_suspend_then_close_refuted.

(* REFUTED (finding key close-full-queue): queue full, the input goroutine blocked posting,
   the sequences channel full and the parser blocked emitting a sequence or EOF — Close/Suspend entered in
   that state never returns (nobody polls while main is inside Close). *)
Theorem C10_close_full_queue_refuted : forall (N : nat) (ans : bool) (s : state),
  (N <= List.length (q s))%nat -> (exists x r, ip s = IPost (x :: r)) -> List.length (seqs s) = 2%nat ->
  ((exists x r, pp s = PEmit (x :: r)) \/ pp s = PEof) -> closedch s = false ->
  match mp s with MPostQuit | MSendClose _ | MWriteDA1 _ | MWait _ => True | _ => False end ->
  forall tr s', run N ans tr s = Some s' -> returned (mp s') = false.
Proof.
  intros N ans s H1 H2 H3 H4 H5 H6. apply close_full_queue_refuted. repeat split; assumption.
Qed.
Print Assumptions C10_close_full_queue_refuted.

(* ---------------------------------------------------------------------------------- *)
(* (A) lock sets                                                                        *)
(* ---------------------------------------------------------------------------------- *)

(* THE RULE (model/Conc.v pair_ok): for two access sites a, b on the same field,
     both only read the slot (plain read, channel operation, call on an internally
     synchronised object), or both are sync/atomic accesses,
     or some lock is held at both (locks held syntactically at the site, plus the locks
     held at every call site of the enclosing function, transitively),
     or no role of a can run concurrently with a role of b (role table and concurrency
     relation: hand-written and documented in /verif/gen/access.go, emitted into GenAccess.v;
     roles of a site = roles whose entry points reach its function in the syntactic call
     graph; sites of constructors before the first goroutine is started are init-pre).
   Every site is also paired with itself (several goroutines of one role).

   With the complete role table (including the signal/panic path on which Vaxis.Close runs
   on the input goroutine, concurrently with the main goroutine) the rule holds for every
   field of Vaxis, writer and ansi.Parser except the fourteen listed. *)
Theorem C10_lockset_ok : forall (fn : Z * String.string) (a b : site),
  In fn field_names ->
  ~ In (snd fn) ["Vaxis.console"; "Vaxis.parser"; "Vaxis.tw"; "Vaxis.appIDLast"; "Vaxis.pastePending"; "Vaxis.caps"; "Vaxis.charCache";
                 "Vaxis.cursorNext"; "Vaxis.cursorLast"; "Vaxis.closed"; "Vaxis.userCursorStyle"; "Vaxis.renders";
                 "Vaxis.elapsed"; "writer.buf"]%string ->
  In a sites -> In b sites -> s_field a = fst fn -> s_field b = fst fn ->
  kinds_ok (s_kind a) (s_kind b) = true
  \/ (exists l, In l (site_locks L_full a) /\ In l (site_locks L_full b))
  \/ (forall ra rb, In ra (site_roles tbl_full a) -> In rb (site_roles tbl_full b) -> conc_roles ra rb = false).
Proof. intros fn a b H1 H2 H3 H4 H5 H6. apply pair_ok_spec. exact (lockset_ok_full fn a b H1 H2 H3 H4 H5 H6). Qed.
Print Assumptions C10_lockset_ok.

(* Without the signal/panic path (Options.NoSignals and no panic inside the input goroutine
   or a spinner: no call of Close from the input goroutine, no sigclose role) only four fields remain:
     Vaxis.parser, Vaxis.tw       written by openTty in Resume while a previous input
                                  goroutine / a Query* caller may still read them
     Vaxis.pastePending           read and written without a lock by the input goroutine, of
                                  which two can be alive after Resume (Suspend waits for the
                                  parser, not for the input goroutine)
                                  (these three: finding resume-overlap; the race detector
                                  reports exactly these in the thorough tier)
     Vaxis.userCursorStyle        written by the input goroutine under mu, read by Suspend
                                  without it (finding suspend-reads-cursorstyle) *)
Theorem C10_lockset_ok_nosignal : forall (fn : Z * String.string) (a b : site),
  In fn field_names ->
  ~ In (snd fn) ["Vaxis.parser"; "Vaxis.tw"; "Vaxis.pastePending"; "Vaxis.userCursorStyle"]%string ->
  In a sites -> In b sites -> s_field a = fst fn -> s_field b = fst fn ->
  kinds_ok (s_kind a) (s_kind b) = true
  \/ (exists l, In l (site_locks L_nosig a) /\ In l (site_locks L_nosig b))
  \/ (forall ra rb, In ra (site_roles tbl_nosig a) -> In rb (site_roles tbl_nosig b) -> conc_roles ra rb = false).
Proof. intros fn a b H1 H2 H3 H4 H5 H6. apply pair_ok_spec. exact (lockset_ok_nosig fn a b H1 H2 H3 H4 H5 H6). Qed.
Print Assumptions C10_lockset_ok_nosignal.

(* The exclusion lists are exact: each excluded field really has a conflicting pair (these
   are the `_refuted` witnesses of the unrestricted statement), and nothing else has. *)
Theorem C10_lockset_exclusions_exact :
  racy_fields tbl_full L_full =
    ["Vaxis.console"; "Vaxis.parser"; "Vaxis.tw"; "Vaxis.appIDLast"; "Vaxis.pastePending"; "Vaxis.caps"; "Vaxis.charCache";
     "Vaxis.cursorNext"; "Vaxis.cursorLast"; "Vaxis.closed"; "Vaxis.userCursorStyle"; "Vaxis.renders";
     "Vaxis.elapsed"; "writer.buf"]%string
  /\ racy_fields tbl_nosig L_nosig = ["Vaxis.parser"; "Vaxis.tw"; "Vaxis.pastePending"; "Vaxis.userCursorStyle"]%string.
Proof. exact (conj racy_full racy_nosig). Qed.
Print Assumptions C10_lockset_exclusions_exact.

(* The analysis results used above are validated, not trusted: each role's function set
   contains its entry points and is closed under the call edges; entry lock sets are empty
   for entry points and, along every call edge, included in (locks at the call site +
   caller's entry set). *)
Theorem C10_lockset_analysis_sound :
  forallb (fun rt => closed_under calls entries (fst rt) (snd rt)) tbl_full = true
  /\ locks_sound calls entries L_full = true
  /\ forallb (fun rt => closed_under calls_nosig entries_nosig (fst rt) (snd rt)) tbl_nosig = true
  /\ locks_sound calls_nosig entries_nosig L_nosig = true.
Proof. exact (conj roles_closed_full (conj locks_sound_full (conj roles_closed_nosig locks_sound_nosig))). Qed.
Print Assumptions C10_lockset_analysis_sound.

(* ---------------------------------------------------------------------------------- *)
(* non-vacuity                                                                          *)
(* ---------------------------------------------------------------------------------- *)

Definition ex_script : nat -> list post := script_of [[(true, 10); (false, 11); (true, 12)]; [(false, 20); (false, 21)]].

(* a reachable state inside Close with susp_done = 0 and input pending; Close then returns *)
Example C10_shutdown_example :
  exists s, run 4 true [LType [[7]]; LPost 0; LCallClose; LMain] (init ex_script) = Some s
            /\ in_shutdown (mp s) = true /\ susp_done s = O
            /\ (List.length (q s) + List.length (pipeline s) + 1 <= 4)%nat
            /\ fst (exec 4 true [AType [7]; APost 0; AClose] (None, init ex_script))
               = [(true, None); (true, None); (true, None)].
Proof. eexists. split; [vm_compute; reflexivity|]. vm_compute. repeat split; auto. Qed.

(* a reachable suspended state: the hypothesis of the refutation is satisfiable, and the
   runner reports the hang *)
Example C10_suspend_then_close_example :
  exists s, run 4 true [LCallSuspend; LMain; LMain; LParser; LParser; LParser; LParser; LMain; LMain]
                (init ex_script) = Some s
            /\ mp s = MSuspended
            /\ fst (exec 4 true [ASuspend; AClose] (None, init ex_script)) = [(true, None); (false, None)].
Proof. eexists. split; [vm_compute; reflexivity|]. vm_compute. auto. Qed.

(* a dropped non-blocking post and a blocked blocking post *)
Example C10_fifo_example :
  fst (exec 1 true [APost 1; APost 1; APost 0; APoll; APoll; APoll] (None, init ex_script))
  = [(true, None); (true, None); (false, None); (true, Some (1, 20)); (true, Some (0, 10)); (true, None)].
Proof. vm_compute. reflexivity. Qed.

(* the full-queue hang is reachable: queue of one, four keys typed, then Close *)
Example C10_close_full_queue_example :
  let s := snd (exec 1 true [APost 1; AType [1; 2; 3; 4]; AClose] (None, init ex_script)) in
  (1 <= List.length (q s))%nat /\ ip s = IPost [1] /\ List.length (seqs s) = 2%nat /\ pp s = PEmit [[4]]
  /\ closedch s = false /\ mp s = MWait true.
Proof. vm_compute. repeat split; auto. Qed.

(* the lock disjunct is really used: nextSize is written by the input goroutine and read by
   the main goroutine (roles that run concurrently), both under Vaxis.mu; and the atomic
   disjunct: resize is only ever touched through atomicLoad/atomicStore *)
Example C10_lockset_example :
  let f := field_id "Vaxis.nextSize"%string in
  existsb (fun a => existsb (fun b =>
      (s_kind a =? 1) && (s_kind b =? 0) && zmem 1 (site_locks L_full a) && zmem 1 (site_locks L_full b)
      && may_race tbl_full a b) (field_sites f)) (field_sites f) = true
  /\ forallb (fun a => s_kind a =? 2) (field_sites (field_id "Vaxis.resize"%string)) = true
  /\ (2 <= List.length (field_sites (field_id "Vaxis.resize"%string)))%nat.
Proof. vm_compute. repeat split; auto. Qed.
