(* C06 - the decidable statement of the property on one observed history, on EVERY
   observation: the harness ships complete observations (grid, pen, saved cursors ...) for
   the steps under test and light ones (size, cursor, deferred-wrap flag, scrolling region)
   for the others; [spec_check] of TermAbs.v compares only the complete ones with the
   reference terminal, [spec_check_every] also demands of every light observation that what
   it shows - the cursor position, the deferred-wrap flag and the scrolling region - is the
   reference terminal's.  Executable definitions only. *)
From Vx Require Import base.Prelude base.ListX model.Colour model.Sgr model.Term model.TermCheck
  model.VtSpec model.TermAbs.

(* the part of the reference terminal's state that every observation shows *)
Definition light_ok (ob : obs) (v : vt) : bool :=
  (o_rows ob =? v_rows v) && (o_cols ob =? v_cols v)
  && (o_row ob =? v_row v) && (o_col ob =? v_col v) && Bool.eqb (o_last ob) (v_pending v)
  && (o_top ob =? v_top v) && (o_bot ob =? v_bot v).

(* one observation against the reference terminal's state *)
Definition obs_shows (ob : obs) (v : vt) : bool :=
  (o_out ob =? 0) && light_ok ob v &&
  match term_of_obs ob with
  | Some t => vt_eqb (abs t) v
  | None => true
  end.

Fixpoint spec_check_every (v : option vt) (steps : list (vop * titem * obs)) : bool :=
  match steps with
  | [] => true
  | (o, it, ob) :: rest =>
      titem_eqb it (enc o) &&
      match v with
      | None => spec_check_every None rest
      | Some v0 =>
          match spec_step v0 o with
          | None => spec_check_every None rest
          | Some v1 => obs_shows ob v1 && spec_check_every (Some v1) rest
          end
      end
  end.

Definition vt_holds_every (c : vt_case) : bool :=
  let '(cols, rows, o0, steps) := c in
  (2 <=? cols) && (2 <=? rows) && obs_shows o0 (vt_init cols rows)
  && match o_full o0 with Some _ => true | None => false end
  && spec_check_every (Some (vt_init cols rows)) steps.

Definition c06_vt_violations_every (cases : list vt_case) : list Z :=
  bad_indices (fun c => negb (vt_holds_every c)) cases.

(* a case the harness can produce for a screen inside the theorem's range: the first
   observation is a complete one and every sequence fed is the encoding of its operation *)
Definition vt_case_wf (c : vt_case) : bool :=
  let '(cols, rows, o0, steps) := c in
  (2 <=? cols) && (cols <=? 65535) && (2 <=? rows) && (rows <=? 65535)
  && match o_full o0 with Some _ => true | None => false end
  && forallb (fun s : vop * titem * obs => let '(o, it, _) := s in titem_eqb it (enc o)) steps.

(* the complete observation of a model state (what the hook ships for it) *)
Definition obs_of (t : term) : obs :=
  mkObs 0 (height t) (width t) (t_row t) (t_col t) (t_last t) (t_top t) (t_bot t) (t_left t) (t_right t) (t_ev t)
        (map zlen (t_prim t)) (map zlen (t_alt t))
        (Some (mkFull (t_pen t) (t_shape t) (t_onalt t) (t_md t) (t_tabs t) (t_cs t) (t_svp t) (t_sva t)
                      (sparse_grid 0 (t_prim t)) (sparse_grid 0 (t_alt t)))).
