(* Vocabulary of the translated buffer-ownership table (coq/gen/GenOwn.v). *)
From Vx Require Import base.Prelude.
(* the parser's reusable fields, and [KLoc i]: the i-th pooled local of the function that is
   running (a buffer taken from a pool into a local variable or into a field of the sequence
   under construction; it dies when the function returns) *)
Inductive bkind := KInter | KOsc | KApc | KDcs | KLoc (n : nat).
Inductive bsrc := Fresh | PoolGet | Reslice.
Inductive oact :=
  | OAlias (k : bkind)            (* the buffer is referenced by an outgoing sequence *)
  | OEmit                         (* a sequence is delivered to the consumer *)
  | OReplace (k : bkind) (s : bsrc)   (* the parser's field / the local is re-pointed *)
  | OWrite (k : bkind).           (* the buffer is appended to *)
(* a control-flow path with loops: straight-line actions, and loops of which every iteration
   runs one of the listed bodies (any number of iterations, in any order) *)
Inductive oseg :=
  | SActs (l : list oact)
  | SLoop (bodies : list (list oact)).
