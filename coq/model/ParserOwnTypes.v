(* Vocabulary of the translated buffer-ownership table (coq/gen/GenOwn.v). *)
From Vx Require Import base.Prelude.
Inductive bkind := KInter | KOsc | KApc | KDcs.
Inductive bsrc := Fresh | PoolGet | Reslice.
Inductive oact :=
  | OAlias (k : bkind)            (* the buffer is referenced by an outgoing sequence *)
  | OEmit                         (* a sequence is delivered to the consumer *)
  | OReplace (k : bkind) (s : bsrc)   (* the parser's field is re-pointed *)
  | OWrite (k : bkind).           (* the buffer is appended to *)
