(* Model of the mouse half of property C13:
     widgets/term/mode.go   the child-selected input modes (decset / decrst, ESC = / ESC >),
     widgets/term/mouse.go  Model.handleMouse (mode gating, SGR and legacy encodings, alternate scroll),
     mouse.go               parseMouseEvent (the host-side decoder),
   and the decimal printer of fmt's %d.  The button constants and the decoder's bit masks come from
   gen/GenTermKeys.v (translated from /repo/mouse.go on every run).  Executable definitions only. *)
From Vx Require Import base.Prelude gen.GenKeys gen.GenTermKeys.
Local Open Scope Z_scope.

(* ---------- fmt %d of a Go int ---------- *)
(* digits of n >= 0, most significant first, in front of [tail]; fuel 20 covers every int64 *)
Fixpoint dec_fuel (fuel : nat) (n : Z) (tail : list Z) : list Z :=
  match fuel with
  | O => tail
  | S f => if n <? 10 then (48 + n) :: tail else dec_fuel f (n / 10) ((48 + n mod 10) :: tail)
  end.
Definition dec_to (n : Z) (tail : list Z) : list Z :=
  if n <? 0 then 45 :: dec_fuel 20 (- n) tail else dec_fuel 20 n tail.
Definition dec (n : Z) : list Z := dec_to n [].

(* ---------- the child-selected modes (mode.go) ---------- *)
Record tmodes := mkModes {
  m_deckpam : bool; m_decckm : bool; m_paste : bool;
  m_buttons : bool; m_drag : bool; m_motion : bool; m_sgr : bool;
  m_altscroll : bool; m_smcup : bool }.

(* term.New(): every input-related mode is off *)
Definition modes0 : tmodes := mkModes false false false false false false false false false.

(* one mode-setting control function received from the child *)
Inductive modeop :=
  | OpSet (n : Z)        (* CSI ? n h *)
  | OpReset (n : Z)      (* CSI ? n l *)
  | OpKpam               (* ESC = *)
  | OpKpnm.              (* ESC > *)

Definition set_decckm md b := mkModes (m_deckpam md) b (m_paste md) (m_buttons md) (m_drag md) (m_motion md) (m_sgr md) (m_altscroll md) (m_smcup md).
Definition set_deckpam md b := mkModes b (m_decckm md) (m_paste md) (m_buttons md) (m_drag md) (m_motion md) (m_sgr md) (m_altscroll md) (m_smcup md).
Definition set_paste md b := mkModes (m_deckpam md) (m_decckm md) b (m_buttons md) (m_drag md) (m_motion md) (m_sgr md) (m_altscroll md) (m_smcup md).
Definition set_buttons md b := mkModes (m_deckpam md) (m_decckm md) (m_paste md) b (m_drag md) (m_motion md) (m_sgr md) (m_altscroll md) (m_smcup md).
Definition set_drag md b := mkModes (m_deckpam md) (m_decckm md) (m_paste md) (m_buttons md) b (m_motion md) (m_sgr md) (m_altscroll md) (m_smcup md).
Definition set_motion md b := mkModes (m_deckpam md) (m_decckm md) (m_paste md) (m_buttons md) (m_drag md) b (m_sgr md) (m_altscroll md) (m_smcup md).
Definition set_sgr md b := mkModes (m_deckpam md) (m_decckm md) (m_paste md) (m_buttons md) (m_drag md) (m_motion md) b (m_altscroll md) (m_smcup md).
Definition set_altscroll md b := mkModes (m_deckpam md) (m_decckm md) (m_paste md) (m_buttons md) (m_drag md) (m_motion md) (m_sgr md) b (m_smcup md).
Definition set_smcup md b := mkModes (m_deckpam md) (m_decckm md) (m_paste md) (m_buttons md) (m_drag md) (m_motion md) (m_sgr md) (m_altscroll md) b.

(* decset / decrst restricted to the input-related modes; 1049 also switches alternate scroll *)
Definition dec_mode (md : tmodes) (n : Z) (b : bool) : tmodes :=
  if n =? 1 then set_decckm md b
  else if n =? 1000 then set_buttons md b
  else if n =? 1002 then set_drag md b
  else if n =? 1003 then set_motion md b
  else if n =? 1006 then set_sgr md b
  else if n =? 1007 then set_altscroll md b
  else if n =? 1049 then set_altscroll (set_smcup md b) b
  else if n =? 2004 then set_paste md b
  else md.

Definition apply_op (md : tmodes) (op : modeop) : tmodes :=
  match op with
  | OpSet n => dec_mode md n true
  | OpReset n => dec_mode md n false
  | OpKpam => set_deckpam md true
  | OpKpnm => set_deckpam md false
  end.

Definition apply_ops (ops : list modeop) : tmodes := fold_left apply_op ops modes0.

(* ---------- the mode state as the child's OUTPUT produces it ---------- *)
(* mode.go decset / decrst: `for _, param := range params { switch param[0] { ... } }` — every parameter
   of the control function is visited, in order, whatever the others are (1049 included: leaving the
   alternate screen does not end the loop).  param[0] of an empty parameter is the Go panic ([None]);
   the parser never delivers one. *)
Fixpoint mode_params (b : bool) (params : list (list Z)) (md : tmodes) : option tmodes :=
  match params with
  | [] => Some md
  | p :: rest =>
      match p with
      | [] => None
      | n :: _ => mode_params b rest (dec_mode md n b)
      end
  end.

(* csi.go csi(): the key is string(intermediate) + string(final); "?h" = decset, "?l" = decrst.  Every
   other CSI ("h" / "l" = SM / RM of the ANSI modes, "?$p" = DECRQM, SGR, cursor movement ...) leaves the
   input-related modes alone. *)
Definition is_decpriv (inter : list Z) : bool := zlist_eqb inter [63].        (* "?" *)
Definition child_csi (md : tmodes) (inter : list Z) (params : list (list Z)) (final : Z) : option tmodes :=
  if is_decpriv inter && (final =? 104) then mode_params true params md
  else if is_decpriv inter && (final =? 108) then mode_params false params md
  else Some md.

(* esc.go esc(): "=" DECKPAM, ">" DECKPNM, "c" RIS (vt.mode = mode{decawm, dectcem}: every input-related
   mode off) *)
Definition child_esc (md : tmodes) (inter : list Z) (final : Z) : tmodes :=
  match inter with
  | [] => if final =? 61 then set_deckpam md true
          else if final =? 62 then set_deckpam md false
          else if final =? 99 then modes0
          else md
  | _ => md
  end.

(* the input-related modes DECRQM reports (mode.go decrqm) *)
Definition mode_bit (md : tmodes) (n : Z) : option bool :=
  if n =? 1 then Some (m_decckm md)
  else if n =? 1000 then Some (m_buttons md)
  else if n =? 1002 then Some (m_drag md)
  else if n =? 1003 then Some (m_motion md)
  else if n =? 1006 then Some (m_sgr md)
  else if n =? 1007 then Some (m_altscroll md)
  else if n =? 1049 then Some (m_smcup md)
  else if n =? 2004 then Some (m_paste md)
  else None.

Definition reported_modes : list Z := [1; 1000; 1002; 1003; 1006; 1007; 1049; 2004].

(* fmt.Fprintf(vt.pty, "\x1B[?%d;%d$y", pd, ps) with ps = 1 (set) / 2 (reset), for the modes above *)
Definition decrqm_reply (md : tmodes) (n : Z) : list Z :=
  match mode_bit md n with
  | Some b => [27; 91; 63] ++ dec n ++ [59] ++ dec (if b then 1 else 2) ++ [36; 121]
  | None => []
  end.
Definition mode_report (md : tmodes) : list Z := flat_map (decrqm_reply md) reported_modes.

(* ---------- specification side: what the child asked for ---------- *)
(* The control functions of the child's output that concern the input-related modes, as the child meant
   them: DECSET / DECRST with the list of modes they name, the keypad switches, the full reset. *)
Inductive creq :=
  | QSet (ns : list Z)       (* CSI ? n1 ; n2 ; ... h *)
  | QReset (ns : list Z)     (* CSI ? n1 ; n2 ; ... l *)
  | QKpam | QKpnm            (* ESC =   ESC > *)
  | QRis.                    (* ESC c *)

Definition names (watch ns : list Z) : bool := existsb (fun n => existsb (Z.eqb n) watch) ns.

(* mode n is named by one of the parameters of a control function (its first sub-parameter) *)
Definition heads (params : list (list Z)) : list Z := map (hd 0) params.
Definition listed (n : Z) (params : list (list Z)) : bool := names [n] (heads params).

(* the child's last word on the modes [watch]: the last DECSET / DECRST that names one of them — wherever in
   its parameter list, whatever else it names — or the last full reset; [cur] if there is none *)
Fixpoint last_word (watch : list Z) (rs : list creq) (cur : bool) : bool :=
  match rs with
  | [] => cur
  | QSet ns :: t => last_word watch t (if names watch ns then true else cur)
  | QReset ns :: t => last_word watch t (if names watch ns then false else cur)
  | QRis :: t => last_word watch t false
  | _ :: t => last_word watch t cur
  end.

Fixpoint last_keypad (rs : list creq) (cur : bool) : bool :=
  match rs with
  | [] => cur
  | QKpam :: t => last_keypad t true
  | QKpnm :: t => last_keypad t false
  | QRis :: t => last_keypad t false
  | _ :: t => last_keypad t cur
  end.

(* the modes the child has selected, read off its requests.  Alternate scroll (1007) is also switched by
   1049: on when the alternate screen is entered, off when it is left. *)
Definition asked_from (md : tmodes) (rs : list creq) : tmodes :=
  mkModes (last_keypad rs (m_deckpam md)) (last_word [1] rs (m_decckm md)) (last_word [2004] rs (m_paste md))
          (last_word [1000] rs (m_buttons md)) (last_word [1002] rs (m_drag md)) (last_word [1003] rs (m_motion md))
          (last_word [1006] rs (m_sgr md)) (last_word [1007; 1049] rs (m_altscroll md)) (last_word [1049] rs (m_smcup md)).
Definition asked (rs : list creq) : tmodes := asked_from modes0 rs.

Definition creq_eqb (a b : creq) : bool :=
  match a, b with
  | QSet x, QSet y | QReset x, QReset y => list_eqb Z.eqb x y
  | QKpam, QKpam | QKpnm, QKpnm | QRis, QRis => true
  | _, _ => false
  end.

Definition modes_eqb (a b : tmodes) : bool :=
  Bool.eqb (m_deckpam a) (m_deckpam b) && Bool.eqb (m_decckm a) (m_decckm b) && Bool.eqb (m_paste a) (m_paste b) &&
  Bool.eqb (m_buttons a) (m_buttons b) && Bool.eqb (m_drag a) (m_drag b) && Bool.eqb (m_motion a) (m_motion b) &&
  Bool.eqb (m_sgr a) (m_sgr b) && Bool.eqb (m_altscroll a) (m_altscroll b) && Bool.eqb (m_smcup a) (m_smcup b).

(* ---------- vaxis.Mouse ---------- *)
Record mouse := mkMouse { ms_button : Z; ms_row : Z; ms_col : Z; ms_type : Z; ms_mods : Z }.

Definition mouse_eqb (a b : mouse) : bool :=
  (ms_button a =? ms_button b) && (ms_row a =? ms_row b) && (ms_col a =? ms_col b) &&
  (ms_type a =? ms_type b) && (ms_mods a =? ms_mods b).

(* ---------- Model.handleMouse ---------- *)
(* the result is everything Model.Update writes to the PTY for the event: the arrows written by
   handleMouse itself (alternate scroll) followed by the string it returns *)
Definition ss3_up : list Z := [27; 79; 65].
Definition ss3_down : list Z := [27; 79; 66].

(* fmt.Sprintf("\x1b[<%d;%d;%d%c", b, col+1, row+1, final): Go ints wrap at 64 bits *)
Definition sgr_report (b col row fin : Z) : list Z :=
  27 :: 91 :: 60 :: dec_to b (59 :: dec_to (i64 (col + 1)) (59 :: dec_to (i64 (row + 1)) [fin])).

(* %c of an int: the UTF-8 encoding of the code point, U+FFFD when it is not a valid one *)
Definition fmt_c (r : Z) : list Z :=
  let ok := (0 <=? r) && (r <=? 1114111) && negb ((55296 <=? r) && (r <=? 57343)) in
  let r := if ok then r else 65533 in
  if r <? 128 then [r]
  else if r <? 2048 then [192 + r / 64; 128 + r mod 64]
  else if r <? 65536 then [224 + r / 4096; 128 + (r / 64) mod 64; 128 + r mod 64]
  else [240 + r / 262144; 128 + (r / 4096) mod 64; 128 + (r / 64) mod 64; 128 + r mod 64].

Definition handle_mouse (md : tmodes) (m : mouse) : list Z :=
  if negb (m_buttons md) && negb (m_drag md) && negb (m_motion md) then
    if m_altscroll md && m_smcup md then
      (if ms_button m =? MouseWheelUp then ss3_up ++ ss3_up ++ ss3_up else []) ++
      (if ms_button m =? MouseWheelDown then ss3_down ++ ss3_down ++ ss3_down else [])
    else []
  else if negb (m_motion md) && (ms_type m =? EventMotion) && (ms_button m =? MouseNoButton) then []
  else if negb (m_drag md) && negb (m_motion md) && (ms_type m =? EventMotion) then []
  else if m_sgr md then
    if ms_type m =? EventMotion then sgr_report (i64 (ms_button m + 32)) (ms_col m) (ms_row m) 77
    else if ms_type m =? EventPress then sgr_report (ms_button m) (ms_col m) (ms_row m) 77
    else if ms_type m =? EventRelease then sgr_report (ms_button m) (ms_col m) (ms_row m) 109
    else []
  else
    (* legacy encoding: "\x1b[M%c%c%c" *)
    [27; 91; 77] ++ fmt_c (i64 (ms_button m + 32)) ++ fmt_c (i64 (i64 (32 + ms_col m) + 1)) ++ fmt_c (i64 (i64 (32 + ms_row m) + 1)).

(* ---------- parseMouseEvent (host side) ---------- *)
Inductive pm_result := PMPanic | PMNone | PMSome (m : mouse).

Definition land_ne0 (a b : Z) : bool := negb (Z.land a b =? 0).

Definition parse_mouse (inter : list Z) (ps : list (list Z)) (fin : Z) : pm_result :=
  (* if len(seq.Intermediate) != 1 && seq.Intermediate[0] != '<' : the index panics on an empty slice *)
  match (if zlen inter =? 1 then Some true
         else match inter with [] => None | i0 :: _ => Some (i0 =? 60) end) with
  | None => PMPanic
  | Some false => PMNone
  | Some true =>
      match ps with
      | [p0; p1; p2] =>
          match p0, p1, p2 with
          | b :: _, c :: _, r :: _ =>
              let ty0 := if fin =? 77 then EventPress else if fin =? 109 then EventRelease else 0 in
              let ty := if land_ne0 b mouse_motion then EventMotion else ty0 in
              let mods := Z.lor (Z.lor (if land_ne0 b mouseModShift then ModShift else 0)
                                       (if land_ne0 b mouseModAlt then ModAlt else 0))
                                (if land_ne0 b mouseModCtrl then ModCtrl else 0) in
              PMSome (mkMouse (Z.land b mouse_buttonBits) (i64 (r - 1)) (i64 (c - 1)) ty mods)
          | _, _, _ => PMPanic
          end
      | _ => PMNone
      end
  end.

(* ---------- specification side ---------- *)
(* which events a child has asked for (xterm ctlseqs): 1000 = presses and releases, 1002 = those and
   motion while a button is held, 1003 = those and all motion *)
Definition is_drag (m : mouse) : bool := (ms_type m =? EventMotion) && negb (ms_button m =? MouseNoButton).
Definition is_plain_motion (m : mouse) : bool := (ms_type m =? EventMotion) && (ms_button m =? MouseNoButton).
Definition is_click (m : mouse) : bool := (ms_type m =? EventPress) || (ms_type m =? EventRelease).

Definition tracking (md : tmodes) : bool := m_buttons md || m_drag md || m_motion md.

Definition mouse_enabled (md : tmodes) (m : mouse) : bool :=
  (is_click m && tracking md) || (is_drag m && (m_drag md || m_motion md)) || (is_plain_motion m && m_motion md).

(* a button value the SGR report can carry: only the bits of the decoder's button mask (this
   includes every MouseButton constant) *)
Definition button_ok (b : Z) : bool := Z.land b mouse_buttonBits =? b.

(* alternate scroll: in the alternate screen, with no tracking mode, wheel events become arrows *)
Definition altscroll_applies (md : tmodes) (m : mouse) : bool :=
  negb (tracking md) && m_altscroll md && m_smcup md &&
  ((ms_button m =? MouseWheelUp) || (ms_button m =? MouseWheelDown)).
