(* Correspondence functions of property C03: the case types written by harness/c03 and the
   mismatch / violation predicates evaluated on them.  Executable definitions only. *)
From Vx Require Import base.Prelude model.Parser model.Mouse model.Input.

(* ---------- oracles shipped inside a case ---------- *)
Definition keytab := list (item * ikey).
Definition key_none : ikey := mkIKey [] (-1) (-1) (-1) (-1) (-1).
Definition dec_of (t : keytab) (it : item) : ikey :=
  match find (fun e => item_eqb (fst e) it) t with
  | Some e => snd e
  | None => key_none
  end.
Definition b64tab := list (list Z * option (list Z)).
Definition b64_of (t : b64tab) (s : list Z) : option (list Z) :=
  match find (fun e => zlist_eqb (fst e) s) t with
  | Some e => snd e
  | None => None
  end.

Definition caps_of_bits (l : list bool) : caps :=
  let g n := nth n l false in
  mkCaps (g 0%nat) (g 1%nat) (g 2%nat) (g 3%nat) (g 4%nat) (g 5%nat) (g 6%nat) (g 7%nat) (g 8%nat)
         (g 9%nat) (g 10%nat) (g 11%nat) (g 12%nat) (g 13%nat) (g 14%nat) (g 15%nat) (g 16%nat).

(* read-only snapshot of a real Vaxis (hook VerifC03State):
   paste, req, resize, (cols, rows, xpix, ypix), userCursorStyle, len(chSizeDone),
   len(chColor), len(chFg), len(chBg) *)
Definition snap := (bool * bool * bool * (Z * Z * Z * Z) * Z * Z * Z * Z * Z)%type.

Definition state_of_snap (cp : caps) (q : option Z) (sn : snap) : vxstate :=
  let '(p, rq, rs, (c, r, x, y), uc, sd, lc, lf, lb) := sn in
  mkVx p rq rs cp (mkSize c r x y) uc sd
       (if 0 <? lc then Some [] else None) (if 0 <? lf then Some [] else None)
       (if 0 <? lb then Some [] else None) false false q.

Definition snap_of_state (s : vxstate) : snap :=
  let z := next_size s in
  let n (o : option (list Z)) := match o with Some _ => 1 | None => 0 end in
  (paste s, req_cursor s, resize s, (s_cols z, s_rows z, s_xpix z, s_ypix z), user_cursor s,
   size_done s, n (ch_color s), n (ch_fg s), n (ch_bg s)).

Definition snap_eqb (a b : snap) : bool :=
  let '(p, rq, rs, (c, r, x, y), uc, sd, lc, lf, lb) := a in
  let '(p', rq', rs', (c', r', x', y'), uc', sd', lc', lf', lb') := b in
  Bool.eqb p p' && Bool.eqb rq rq' && Bool.eqb rs rs' && (c =? c') && (r =? r') && (x =? x') &&
  (y =? y') && (uc =? uc') && (sd =? sd') && (lc =? lc') && (lf =? lf') && (lb =? lb').

Definition events_eqb := list_eqb event_eqb.

Definition zpair_eqb (a b : Z * Z) : bool := (fst a =? fst b) && (snd a =? snd b).

(* ---------- stream "handle": sequences of steps on one real Vaxis ---------- *)
(* input: capability bits, queue mode (None: the harness drains Events() concurrently and the
   bytes went through the real input goroutine; Some n: handleSequence was called directly and
   n queue slots were free), the injected bytes when the real goroutine was used, the state
   before, the steps (items as delivered by the real parser), the oracle tables.
   observation: 0 ok / 1 panic / 2 wedged; the events read from Events(); what the
   CursorPosition / ClipboardPop callers received; the state after. *)
Definition hcase :=
  ((list bool * option Z * option (list Z) * snap) * list step * (keytab * b64tab)
   * (Z * list event * list (Z * Z) * list (list Z) * option snap))%type.

Definition outcome_code (o : outcome) : Z :=
  match o with Ok _ _ => 0 | Panic _ => 1 | Blocks _ => 2 end.
Definition outcome_emits (o : outcome) : list emit :=
  match o with Ok _ es | Panic es | Blocks es => es end.

Definition items_of_steps (l : list step) : list item :=
  flat_map (fun s => match s with SItem it => [it] | SApp _ => [] end) l.

Definition hcase_model (c : hcase) : outcome :=
  let '((bits, q, _, sn0), steps, (kt, bt), _) := c in
  run_steps (dec_of kt) (b64_of bt) (state_of_snap (caps_of_bits bits) q sn0) steps.

(* the injected bytes, parsed by the parser model, are the delivered items (print runs merged) *)
Definition bytes_agree (bs : option (list Z)) (steps : list step) : bool :=
  match bs with
  | None => true
  | Some b => items_eqb (parse_bytes b) (canon (items_of_steps steps ++ [IEof]))
  end.

Definition hcase_mismatch (c : hcase) : bool :=
  let '((_, _, bs, _), steps, _, (code, evs, curs, clips, fin)) := c in
  let o := hcase_model c in
  negb ((outcome_code o =? code)
        && events_eqb (events_of (outcome_emits o)) evs
        && list_eqb zpair_eqb (cursors_of (outcome_emits o)) curs
        && list_eqb zlist_eqb (clips_of (outcome_emits o)) clips
        && match o, fin with
           | Ok s _, Some sn => snap_eqb (snap_of_state s) sn
           | Ok _ _, None => false
           | _, _ => true
           end
        && bytes_agree bs steps).

(* the property on one observation, without the model: the loop neither crashed nor wedged
   (a full event queue that nobody reads is back-pressure, not a wedge), the user events
   read from Events() are exactly the ones the delivered sequences stand for, in order, and
   the callers of CursorPosition received exactly the answers to their queries.  Both from the
   terminal's side ([spec_wire], [spec_answers]): a report CSI .. R is the reply, and must not
   surface as a key, from the moment the query has been written, wherever the schedule put the
   arming of the request flag.  And the callers of ClipboardPop received exactly the clipboard
   reports that arrived while they were waiting ([spec_clips]): a report nobody was waiting for
   (unsolicited, repeated, late) is forgotten, never handed to a later call *)
Definition hcase_violation (c : hcase) : bool :=
  let '((_, q, _, sn0), steps, (kt, bt), (code, evs, curs, clips, _)) := c in
  let '(p, rq, _, _, _, _, _, _, _) := sn0 in
  let backpressure := match q with Some n => zlen evs =? n | None => false end in
  if code =? 1 then forallb wf_item (items_of_steps steps)
  else if code =? 2 then negb backpressure
  else negb (events_eqb (filter is_user evs) (spec_wire (dec_of kt) p rq steps)
             && list_eqb zpair_eqb curs (spec_answers rq false steps)
             && list_eqb zlist_eqb clips (spec_clips (b64_of bt) false steps)).

(* the observation the model predicts for a case (what [hcase_mismatch] compares with) *)
Definition model_obs (o : outcome) : Z * list event * list (Z * Z) * list (list Z) * option snap :=
  (outcome_code o, events_of (outcome_emits o), cursors_of (outcome_emits o),
   clips_of (outcome_emits o), match o with Ok s _ => Some (snap_of_state s) | _ => None end).

Definition c03_handle_mismatches (cases : list hcase) : list Z := bad_indices hcase_mismatch cases.
Definition c03_handle_violations (cases : list hcase) : list Z := bad_indices hcase_violation cases.

(* ---------- stream "mouse": parseMouseEvent on one CSI ---------- *)
(* (intermediate, parameters, final), observed: 1 = panic | (0, ok, button,row,col,type,mods) *)
Definition mcase := ((list Z * list (list Z) * Z) * (Z * bool * (Z * Z * Z * Z * Z)))%type.

Definition mcase_mismatch (c : mcase) : bool :=
  let '((inter, ps, fin), (code, ok, (b, r, cl, ty, md))) := c in
  match parse_mouse inter ps fin with
  | None => negb (code =? 1)
  | Some None => negb ((code =? 0) && negb ok)
  | Some (Some m) => negb ((code =? 0) && ok && mouse_eqb m (mkMouse b r cl ty md))
  end.

(* the property on one observation: never a panic; a well-formed SGR report is decoded to
   the fields the protocol defines *)
Definition mcase_violation (c : mcase) : bool :=
  let '((inter, ps, fin), (code, ok, (b, r, cl, ty, md))) := c in
  if code =? 1 then wf_item (ICsi inter ps fin)
  else match spec_mouse inter ps fin with
       | Some m => if (fin =? 77) || (fin =? 109) then negb (ok && mouse_eqb m (mkMouse b r cl ty md)) else false
       | None => false
       end.

Definition c03_mouse_mismatches (cases : list mcase) : list Z := bad_indices mcase_mismatch cases.
Definition c03_mouse_violations (cases : list mcase) : list Z := bad_indices mcase_violation cases.

(* ---------- stream "startup": vaxis.New against a scripted terminal ---------- *)
(* input: Options.DisableKittyKeyboard, what Size() reports (cols, rows), the sequences the
   terminal sent before New returned (first the cursor-position reply, then the rest), the
   key oracle.  observation: the capability bits, appIDLast, termID after New; the events
   the application then finds in the queue. *)
Definition scase :=
  ((bool * (Z * Z)) * list item * keytab * (list bool * list Z * list Z * list event))%type.

Definition b64_none (s : list Z) : option (list Z) := None.

(* the DA1 reply ends the start-up loop *)
Definition is_da1_reply (it : item) : bool :=
  match it with ICsi inter _ fin => is_q inter && (fin =? 99) | _ => false end.
Fixpoint split_da1 (l : list item) : list item * list item :=
  match l with
  | [] => ([], [])
  | it :: t => if is_da1_reply it then ([it], t) else let '(a, b) := split_da1 t in (it :: a, b)
  end.

Fixpoint remove_resize (l : list event) : option size * list event :=
  match l with
  | [] => (None, [])
  | EResize z :: t => (Some z, t)
  | e :: t => let '(z, t') := remove_resize t in (z, e :: t')
  end.

(* the run of the input goroutine during sendQueries + the start-up loop, then (with the
   capabilities now known) whatever else the terminal sent.  Result: what New learned, the
   Resize event it posts, the other events left for the application *)
Definition startup_model (c : scase) : option (startup * size * list event) :=
  let '((dk, (cols, rows)), items, kt, _) := c in
  let s0 := app_step vx0 ACursorQuery in
  let '(pre, post) := split_da1 items in
  match run (dec_of kt) b64_none s0 pre with
  | Ok s es =>
      let explicit := match cursors_of es with (_, cl) :: _ => cl - 1 =? 1 | [] => false end in
      let su0 := mkStartup (set_explicit caps0 explicit) [] [] in
      let '(su, rest, _) := collect_caps dk su0 (events_of es) in
      let su := apply_quirks su in
      match run (dec_of kt) b64_none (set_caps s (su_caps su)) post with
      | Ok s' es' =>
          let ws := if c_inband (su_caps su) then next_size s' else mkSize cols rows 0 0 in
          Some (su, ws, rest ++ events_of es')
      | _ => None
      end
  | _ => None
  end.

Definition scase_mismatch (c : scase) : bool :=
  let '(_, _, _, (bits, appid, termid, evs)) := c in
  match startup_model c with
  | Some (su, ws, q) =>
      let '(rz, others) := remove_resize evs in
      negb (caps_eqb (su_caps su) (caps_of_bits bits) && zlist_eqb (su_appid su) appid
            && zlist_eqb (su_termid su) termid && events_eqb q others
            && match rz with Some z => size_eqb z ws | None => false end)
  | None => true
  end.

(* the property on one observation: user input that arrived during start-up is delivered *)
Definition scase_violation (c : scase) : bool :=
  let '(_, items, kt, (_, _, _, evs)) := c in
  negb (events_eqb (filter is_user evs)
          (spec_user (dec_of kt) false true (map SItem items))).

Definition c03_startup_mismatches (cases : list scase) : list Z := bad_indices scase_mismatch cases.
Definition c03_startup_violations (cases : list scase) : list Z := bad_indices scase_violation cases.
(* the recorded finding startup-typeahead: some user input precedes the DA1 reply *)
Definition scase_typeahead (c : scase) : bool :=
  let '(_, items, kt, _) := c in
  negb (zlen (spec_user (dec_of kt) false true (map SItem (fst (split_da1 items)))) =? 0).
Definition c03_startup_known (cases : list scase) : list Z := bad_indices scase_typeahead cases.

(* ---------- stream "size": size requests (VAXIS_FORCE_XTWINOPS) on one real Vaxis ---------- *)
(* History: start-up on a terminal that reports its size (CSI 14 t / CSI 18 t answered, no in-band
   reports), then rounds.  In a round the terminal has some size, the application calls Resize()
   and Render() (reportWinsize writes the request), the terminal's bytes for the round (its two
   reports, user input around them; possibly nothing: the request times out after 100 ms) are
   handled, Render returns.  Observation of a round: the Resize event that Render posted (None: no
   event).  Input: capability bits, the state after start-up, the size announced at start-up
   (cols, rows); the oracle tables. *)
Definition zround := (list step * option size)%type.
Definition zcase := ((list bool * snap * (Z * Z)) * list zround * (keytab * b64tab))%type.

Definition win_same (win : Z * Z) (z : size) : bool := (s_cols z =? fst win) && (s_rows z =? snd win).

(* Render after Resize(): reportWinsize returns nextSize when a token is in chSizeDone, Render
   announces it when it differs from winSize *)
Definition announce (win : Z * Z) (z : size) : (Z * Z) * option size :=
  if win_same win z then (win, None) else ((s_cols z, s_rows z), Some z).

(* one round of the model: a token already in chSizeDone is taken at once (before the terminal's
   bytes of this round are handled); otherwise the bytes are handled first and the token they
   leave is taken; no token: the 100 ms deadline, nothing announced *)
Definition zround_model (dec : item -> ikey) (b64 : list Z -> option (list Z))
    (s : vxstate) (win : Z * Z) (steps : list step) : option (vxstate * (Z * Z) * option size) :=
  if 0 <? size_done s then
    let z := next_size s in
    match run_steps dec b64 (app_step s ATakeSize) steps with
    | Ok s' _ => let '(w, o) := announce win z in Some (s', w, o)
    | _ => None
    end
  else
    match run_steps dec b64 s steps with
    | Ok s' _ =>
        if 0 <? size_done s' then
          let '(w, o) := announce win (next_size s') in Some (app_step s' ATakeSize, w, o)
        else Some (s', win, None)
    | _ => None
    end.

Definition osize_eqb (a b : option size) : bool :=
  match a, b with
  | Some x, Some y => size_eqb x y
  | None, None => true
  | _, _ => false
  end.

Fixpoint zrounds_model (dec : item -> ikey) (b64 : list Z -> option (list Z))
    (s : vxstate) (win : Z * Z) (rs : list zround) : bool :=
  match rs with
  | [] => true
  | (steps, obs) :: t =>
      match zround_model dec b64 s win steps with
      | Some (s', w, o) => osize_eqb o obs && zrounds_model dec b64 s' w t
      | None => false
      end
  end.

Definition zcase_mismatch (c : zcase) : bool :=
  let '((bits, sn0, win), rs, (kt, bt)) := c in
  negb (zrounds_model (dec_of kt) (b64_of bt) (state_of_snap (caps_of_bits bits) None sn0) win rs).

(* the terminal's side of a round: the size its reports of this round state (CSI 4;h;w t the
   pixels, CSI 8;h;w t the characters; None: it did not report its characters) *)
Definition size_report (it : item) : option (Z * Z * Z) :=
  match it with
  | ICsi [] ((t :: _) :: (h :: _) :: (w :: _) :: _) 116 => Some (t, h, w)
  | _ => None
  end.
Definition reported_step (acc : option (Z * Z) * (Z * Z)) (st : step) : option (Z * Z) * (Z * Z) :=
  match st with
  | SItem it =>
      match size_report it with
      | Some (t, h, w) => if t =? 4 then (fst acc, (w, h)) else if t =? 8 then (Some (w, h), snd acc) else acc
      | None => acc
      end
  | SApp _ => acc
  end.
Definition reported (pix : Z * Z) (steps : list step) : option (Z * Z) * (Z * Z) :=
  fold_left reported_step steps (None, pix).

(* the property on one observation, without the model: a size reply answers its own request.
   The Resize event of a round carries the size the terminal reported IN THAT ROUND (after the
   request), whenever it differs from the size announced last; no event otherwise.  Stated for
   histories in which every character-size report is the answer to a request (one per round, no
   unsolicited ones: those are the recorded finding C10 stale-size-token) *)
Fixpoint zspec (win : Z * Z) (pix : Z * Z) (rs : list zround) : bool :=
  match rs with
  | [] => true
  | (steps, obs) :: t =>
      let '(chars, pix') := reported pix steps in
      match chars with
      | None => osize_eqb obs None && zspec win pix' t
      | Some (c, r) =>
          let z := mkSize c r (fst pix') (snd pix') in
          if win_same win z then osize_eqb obs None && zspec win pix' t
          else osize_eqb obs (Some z) && zspec (c, r) pix' t
      end
  end.

Definition zcase_violation (c : zcase) : bool :=
  let '((_, sn0, win), rs, _) := c in
  let '(_, _, _, (_, _, x, y), _, sd, _, _, _) := sn0 in
  negb (zspec win (x, y) rs).

Definition c03_size_mismatches (cases : list zcase) : list Z := bad_indices zcase_mismatch cases.
Definition c03_size_violations (cases : list zcase) : list Z := bad_indices zcase_violation cases.
