(* C06 - an independent specification of a DEC VT / xterm compatible terminal for the core
   vocabulary of the property, written from the VT510 programmer's manual and xterm's
   ctlseqs in the plainest style: the screen is a [list (list disp)], every operation is a
   composition of firstn / skipn / repeat / app, cursor motion is Z.min / Z.max clamping and
   an omitted or zero parameter means the default ([dflt]).  It does not mention the Go
   code or its model (Term.v) and is tied to nothing but the standards; it is short enough
   to be read in minutes.  Executable definitions only.

   Decisions the standards leave open, made explicit here:
   - the deferred-wrap ("last column") state: only printing, CR, absolute positioning
     (CUP/HVP/CHA/HPA/VPA) and SGR are specified in it; any other operation makes
     [spec_step] return None - from then on the history is unconstrained (the property
     says so);
   - a cell shows either a glyph with its style or a blank with a background colour; a
     printed space without attributes, underline and hyperlink is that same blank (its
     foreground is invisible);
   - a wide glyph occupies its cell (width 2) and a space in the same style in the next
     cell; operations act on cells independently;
   - printable text is narrow (width 1) or wide (width 2); other widths are outside the
     vocabulary (None);
   - VPR / HPR stop at the last line / column (VT510), CNL / CPL move like CUD / CUU and do
     not scroll (xterm), IL / DL put the cursor in the first column (VT510);
   - entering the alternate screen (1049) saves the cursor and shows a screen cleared to
     the current background; leaving it restores screen and cursor (xterm);
   - hyperlinks (OSC 8 ; params ; URI ST, the de-facto standard implemented by VTE, iTerm2,
     xterm.js, kitty ...): params is a ':'-separated list of key=value pairs and contains
     no ';'; the URI is EVERYTHING after the second ';' of the sequence, so it may itself
     contain ';' (RFC 3986 path parameters), ':' and '='; both become part of the pen and
     of every glyph printed under it, an empty URI closes the link.  Params and URI are
     printable ASCII (bytes 32..126, as the specification demands of a URI). *)
From Vx Require Import base.Prelude model.Colour model.Sgr.

(* ------------------------------------------------------------------ display cells *)

Inductive disp := Blank (bgc : Z) | Glyph (g : text) (w : Z) (st : style).

Definition blank_like (g : text) (st : style) : bool :=
  (zlist_eqb g [] || zlist_eqb g [32]) && (attr (spen st) =? 0) && (uls (spen st) =? 0)
  && zlist_eqb (link st) [].

(* what a cell holding grapheme g of width w in style st shows *)
Definition show (g : text) (w : Z) (st : style) : disp :=
  if blank_like g st then Blank (bg (spen st)) else Glyph g (if w =? 0 then 1 else w) st.

Definition dline := list disp.
Definition dgrid := list dline.

(* ------------------------------------------------------------------ state *)

Record vt := mkVt {
  v_rows : Z; v_cols : Z;
  v_grid : dgrid;                 (* the screen shown *)
  v_hidden : option dgrid;        (* the normal screen while the alternate one is shown *)
  v_row : Z; v_col : Z;
  v_pending : bool;               (* deferred wrap: a glyph was written in the last column *)
  v_pen : style;
  v_top : Z; v_bot : Z;           (* scrolling region, 0-based, inclusive *)
  v_saved_n : Z * Z * style;      (* DECSC slot of the normal screen *)
  v_saved_a : Z * Z * style       (* DECSC slot of the alternate screen *)
}.

Definition vt_init (cols rows : Z) : vt :=
  mkVt rows cols (zrepeat (zrepeat (Blank 0) cols) rows) None 0 0 false style0 0 (rows - 1)
       (0, 0, style0) (0, 0, style0).

(* ------------------------------------------------------------------ list vocabulary *)

Definition zfirstn {A} (n : Z) (l : list A) : list A := firstn (Z.to_nat n) l.
Definition zskipn {A} (n : Z) (l : list A) : list A := skipn (Z.to_nat n) l.

(* replace element i *)
Definition put {A} (i : Z) (x : A) (l : list A) : list A :=
  zfirstn i l ++ [x] ++ zskipn (i + 1) l.
Definition at_ {A} (d : A) (i : Z) (l : list A) : A := nth (Z.to_nat i) l d.

Definition dflt (p : Z) : Z := if p =? 0 then 1 else p.

Definition blanks (v : vt) (n : Z) : dline := zrepeat (Blank (bg (spen (v_pen v)))) n.
Definition blank_line (v : vt) : dline := blanks v (v_cols v).

(* lines top..bot move up by k <= bot-top+1, blank lines appear at the bottom *)
Definition region_up (v : vt) (g : dgrid) (top bot k : Z) : dgrid :=
  zfirstn top g ++ zskipn (top + k) (zfirstn (bot + 1) g) ++ zrepeat (blank_line v) k ++ zskipn (bot + 1) g.

(* lines top..bot move down by k <= bot-top+1, blank lines appear at the top *)
Definition region_down (v : vt) (g : dgrid) (top bot k : Z) : dgrid :=
  zfirstn top g ++ zrepeat (blank_line v) k ++ zfirstn (bot + 1 - top - k) (zskipn top g) ++ zskipn (bot + 1) g.

Definition set_grid (v : vt) (g : dgrid) : vt :=
  mkVt (v_rows v) (v_cols v) g (v_hidden v) (v_row v) (v_col v) (v_pending v) (v_pen v) (v_top v) (v_bot v) (v_saved_n v) (v_saved_a v).
Definition set_pos (v : vt) (r c : Z) (p : bool) : vt :=
  mkVt (v_rows v) (v_cols v) (v_grid v) (v_hidden v) r c p (v_pen v) (v_top v) (v_bot v) (v_saved_n v) (v_saved_a v).
Definition set_vpen (v : vt) (s : style) : vt :=
  mkVt (v_rows v) (v_cols v) (v_grid v) (v_hidden v) (v_row v) (v_col v) (v_pending v) s (v_top v) (v_bot v) (v_saved_n v) (v_saved_a v).
Definition set_region (v : vt) (t b : Z) : vt :=
  mkVt (v_rows v) (v_cols v) (v_grid v) (v_hidden v) (v_row v) (v_col v) (v_pending v) (v_pen v) t b (v_saved_n v) (v_saved_a v).

Definition cur_line (v : vt) : dline := at_ [] (v_row v) (v_grid v).
Definition set_cur_line (v : vt) (l : dline) : vt := set_grid v (put (v_row v) l (v_grid v)).

(* ------------------------------------------------------------------ operations *)

(* a line feed at the cursor: scroll at the bottom margin, stop at the last line *)
Definition index_down (v : vt) : vt :=
  if v_row v =? v_bot v then set_grid v (region_up v (v_grid v) (v_top v) (v_bot v) 1)
  else if v_row v =? v_rows v - 1 then v
  else set_pos v (v_row v + 1) (v_col v) false.

Definition index_up (v : vt) : vt :=
  if v_row v =? v_top v then set_grid v (region_down v (v_grid v) (v_top v) (v_bot v) 1)
  else if v_row v =? 0 then v
  else set_pos v (v_row v - 1) (v_col v) false.

(* printing a glyph of width w (1 or 2) *)
Definition do_print (v : vt) (g : text) (w : Z) : vt :=
  (* no room left on the line, or a wrap is pending: go to the start of the next line *)
  let v := if v_pending v || (v_col v + w >? v_cols v)
           then let v' := index_down (set_pos v (v_row v) (v_col v) false) in set_pos v' (v_row v') 0 false
           else v in
  let c := v_col v in
  let l := cur_line v in
  let l := put c (show g w (v_pen v)) l in
  let l := if w =? 2 then put (c + 1) (show [32] 1 (v_pen v)) l else l in
  let v := set_cur_line v l in
  if c + w >=? v_cols v then set_pos v (v_row v) (v_cols v - 1) true
  else set_pos v (v_row v) (c + w) false.

Definition move_up (v : vt) (n : Z) : vt :=
  let stop := if v_row v >=? v_top v then v_top v else 0 in
  set_pos v (Z.max (v_row v - n) stop) (v_col v) false.

Definition move_down (v : vt) (n : Z) : vt :=
  let stop := if v_row v <=? v_bot v then v_bot v else v_rows v - 1 in
  set_pos v (Z.min (v_row v + n) stop) (v_col v) false.

Definition erase_display (v : vt) (n : Z) : vt :=
  let g := v_grid v in
  let r := v_row v in
  let c := v_col v in
  let l := cur_line v in
  if n =? 0 then
    set_grid v (zfirstn r g ++ [zfirstn c l ++ blanks v (v_cols v - c)] ++ zrepeat (blank_line v) (v_rows v - r - 1))
  else if n =? 1 then
    set_grid v (zrepeat (blank_line v) r ++ [blanks v (c + 1) ++ zskipn (c + 1) l] ++ zskipn (r + 1) g)
  else if n =? 2 then set_grid v (zrepeat (blank_line v) (v_rows v))
  else v.

Definition erase_line (v : vt) (n : Z) : vt :=
  let c := v_col v in
  let l := cur_line v in
  if n =? 0 then set_cur_line v (zfirstn c l ++ blanks v (v_cols v - c))
  else if n =? 1 then set_cur_line v (blanks v (c + 1) ++ zskipn (c + 1) l)
  else if n =? 2 then set_cur_line v (blank_line v)
  else v.

Definition erase_chars (v : vt) (n : Z) : vt :=
  let c := v_col v in
  let l := cur_line v in
  let k := Z.min n (v_cols v - c) in
  set_cur_line v (zfirstn c l ++ blanks v k ++ zskipn (c + k) l).

Definition insert_chars (v : vt) (n : Z) : vt :=
  let c := v_col v in
  let l := cur_line v in
  let k := Z.min n (v_cols v - c) in
  set_cur_line v (zfirstn c l ++ blanks v k ++ zfirstn (v_cols v - c - k) (zskipn c l)).

Definition delete_chars (v : vt) (n : Z) : vt :=
  let c := v_col v in
  let l := cur_line v in
  let k := Z.min n (v_cols v - c) in
  set_cur_line v (zfirstn c l ++ zskipn (c + k) l ++ blanks v k).

Definition in_region (v : vt) : bool := (v_top v <=? v_row v) && (v_row v <=? v_bot v).

Definition insert_lines (v : vt) (n : Z) : vt :=
  if in_region v then
    let k := Z.min n (v_bot v - v_row v + 1) in
    set_pos (set_grid v (region_down v (v_grid v) (v_row v) (v_bot v) k)) (v_row v) 0 false
  else v.

Definition delete_lines (v : vt) (n : Z) : vt :=
  if in_region v then
    let k := Z.min n (v_bot v - v_row v + 1) in
    set_pos (set_grid v (region_up v (v_grid v) (v_row v) (v_bot v) k)) (v_row v) 0 false
  else v.

Definition scroll_up_n (v : vt) (n : Z) : vt :=
  set_grid v (region_up v (v_grid v) (v_top v) (v_bot v) (Z.min n (v_bot v - v_top v + 1))).

Definition scroll_down_n (v : vt) (n : Z) : vt :=
  set_grid v (region_down v (v_grid v) (v_top v) (v_bot v) (Z.min n (v_bot v - v_top v + 1))).

(* DECSTBM: defaults are the first and the last line; needs at least two lines *)
Definition set_margins_tb (v : vt) (t b : Z) : vt :=
  let t := dflt t in
  let b := if b =? 0 then v_rows v else Z.min b (v_rows v) in
  if t <? b then set_pos (set_region v (t - 1) (b - 1)) 0 0 false else v.

Definition clamp_pos (v : vt) (s : Z * Z * style) : vt :=
  let '(r, c, p) := s in
  set_vpen (set_pos v (Z.min r (v_rows v - 1)) (Z.min c (v_cols v - 1)) false) p.

Definition on_alt (v : vt) : bool := match v_hidden v with Some _ => true | None => false end.

Definition save_cursor (v : vt) : vt :=
  let s := (v_row v, v_col v, v_pen v) in
  if on_alt v
  then mkVt (v_rows v) (v_cols v) (v_grid v) (v_hidden v) (v_row v) (v_col v) (v_pending v) (v_pen v) (v_top v) (v_bot v) (v_saved_n v) s
  else mkVt (v_rows v) (v_cols v) (v_grid v) (v_hidden v) (v_row v) (v_col v) (v_pending v) (v_pen v) (v_top v) (v_bot v) s (v_saved_a v).

Definition restore_cursor (v : vt) : vt :=
  clamp_pos v (if on_alt v then v_saved_a v else v_saved_n v).

Definition alt_on (v : vt) : vt :=
  let v := save_cursor v in
  match v_hidden v with
  | Some _ => v
  | None => mkVt (v_rows v) (v_cols v) (zrepeat (blank_line v) (v_rows v)) (Some (v_grid v))
                 (v_row v) (v_col v) (v_pending v) (v_pen v) (v_top v) (v_bot v) (v_saved_n v) (v_saved_a v)
  end.

Definition alt_off (v : vt) : vt :=
  let v := match v_hidden v with
           | Some g => mkVt (v_rows v) (v_cols v) g None (v_row v) (v_col v) (v_pending v) (v_pen v)
                            (v_top v) (v_bot v) (v_saved_n v) (v_saved_a v)
           | None => v
           end in
  restore_cursor v.

(* ------------------------------------------------------------------ SGR *)

(* the styling commands of the vocabulary (ECMA-48 8.3.117, xterm ctlseqs) *)
Inductive sgrc :=
  | SReset | SBold | SDim | SItalic | SUnderline | SBlink | SReverse | SInvisible | SStrike
  | SNormalInt | SNoItalic | SNoUnderline | SNoBlink | SNoReverse | SVisible | SNoStrike
  | SFg (n : Z) | SBg (n : Z)                 (* 30+n / 40+n, n in 0..7 *)
  | SFgBright (n : Z) | SBgBright (n : Z)     (* 90+n / 100+n *)
  | SFgIdx (n : Z) | SBgIdx (n : Z)           (* 38;5;n / 48;5;n *)
  | SFgRgb (r g b : Z) | SBgRgb (r g b : Z)   (* 38;2;r;g;b / 48;2;r;g;b *)
  | SFgDefault | SBgDefault.

Definition spec_sgr1 (p : pen) (c : sgrc) : pen :=
  match c with
  | SReset => pen0
  | SBold => set_attr p (Z.lor (attr p) aBold)
  | SDim => set_attr p (Z.lor (attr p) aDim)
  | SItalic => set_attr p (Z.lor (attr p) aItalic)
  | SUnderline => set_uls p 1
  | SBlink => set_attr p (Z.lor (attr p) aBlink)
  | SReverse => set_attr p (Z.lor (attr p) aReverse)
  | SInvisible => set_attr p (Z.lor (attr p) aInvisible)
  | SStrike => set_attr p (Z.lor (attr p) aStrike)
  | SNormalInt => set_attr p (Z.ldiff (Z.ldiff (attr p) aBold) aDim)
  | SNoItalic => set_attr p (Z.ldiff (attr p) aItalic)
  | SNoUnderline => set_uls p 0
  | SNoBlink => set_attr p (Z.ldiff (attr p) aBlink)
  | SNoReverse => set_attr p (Z.ldiff (attr p) aReverse)
  | SVisible => set_attr p (Z.ldiff (attr p) aInvisible)
  | SNoStrike => set_attr p (Z.ldiff (attr p) aStrike)
  | SFg n => set_fg p (index_color n)
  | SBg n => set_bg p (index_color n)
  | SFgBright n => set_fg p (index_color (n + 8))
  | SBgBright n => set_bg p (index_color (n + 8))
  | SFgIdx n => set_fg p (index_color n)
  | SBgIdx n => set_bg p (index_color n)
  | SFgRgb r g b => set_fg p (rgb_color r g b)
  | SBgRgb r g b => set_bg p (rgb_color r g b)
  | SFgDefault => set_fg p 0
  | SBgDefault => set_bg p 0
  end.

(* an empty SGR is a reset *)
Definition spec_sgr (p : pen) (cs : list sgrc) : pen :=
  match cs with [] => pen0 | _ => fold_left spec_sgr1 cs p end.

Definition sgrc_ok (c : sgrc) : bool :=
  match c with
  | SFg n | SBg n | SFgBright n | SBgBright n => in_range n 0 7
  | SFgIdx n | SBgIdx n => in_range n 0 255
  | SFgRgb r g b | SBgRgb r g b => in_range r 0 255 && in_range g 0 255 && in_range b 0 255
  | _ => true
  end.

(* ------------------------------------------------------------------ vocabulary *)

(* a numeric parameter: omitted, or written explicitly (0 included) *)
Inductive par := Om | Ex (n : Z).
Definition pval (p : par) : Z := match p with Om => 0 | Ex n => n end.

Inductive vop :=
  | Print (g : text) (w : Z)
  | CR | LF | IND | RI | NEL
  | CUU (p : par) | CUD (p : par) | CUF (p : par) | CUB (p : par)
  | CNL (p : par) | CPL (p : par)
  | CHA (p : par) | HPA (p : par) | VPA (p : par) | HPR (p : par) | VPR (p : par)
  | CUP (r c : par) | HVP (r c : par)
  | ED (p : par) | EL (p : par)
  | ECH (p : par) | ICH (p : par) | DCH (p : par)
  | IL (p : par) | DL (p : par)
  | SU (p : par) | SD (p : par)
  | DECSTBM (t b : par)
  | DECSC | DECRC | AltOn | AltOff
  | SGR (cs : list sgrc)
  | Link (params uri : text).

(* operations specified while a wrap is pending *)
Definition allowed_pending (o : vop) : bool :=
  match o with
  | Print _ _ | CR | CHA _ | HPA _ | VPA _ | CUP _ _ | HVP _ _ | SGR _ | Link _ _ => true
  | _ => false
  end.

Definition spec_op (v : vt) (o : vop) : vt :=
  match o with
  | Print g w => do_print v g w
  | CR => set_pos v (v_row v) 0 false
  | LF | IND => index_down v
  | RI => index_up v
  | NEL => let v' := index_down v in set_pos v' (v_row v') 0 false
  | CUU p => move_up v (dflt (pval p))
  | CUD p => move_down v (dflt (pval p))
  | CUF p => set_pos v (v_row v) (Z.min (v_col v + dflt (pval p)) (v_cols v - 1)) false
  | CUB p => set_pos v (v_row v) (Z.max (v_col v - dflt (pval p)) 0) false
  | CNL p => let v' := move_down v (dflt (pval p)) in set_pos v' (v_row v') 0 false
  | CPL p => let v' := move_up v (dflt (pval p)) in set_pos v' (v_row v') 0 false
  | CHA p | HPA p => set_pos v (v_row v) (Z.min (dflt (pval p) - 1) (v_cols v - 1)) false
  | VPA p => set_pos v (Z.min (dflt (pval p) - 1) (v_rows v - 1)) (v_col v) false
  | HPR p => set_pos v (v_row v) (Z.min (v_col v + dflt (pval p)) (v_cols v - 1)) false
  | VPR p => set_pos v (Z.min (v_row v + dflt (pval p)) (v_rows v - 1)) (v_col v) false
  | CUP r c | HVP r c =>
      set_pos v (Z.min (dflt (pval r) - 1) (v_rows v - 1)) (Z.min (dflt (pval c) - 1) (v_cols v - 1)) false
  | ED p => erase_display v (pval p)
  | EL p => erase_line v (pval p)
  | ECH p => erase_chars v (dflt (pval p))
  | ICH p => insert_chars v (dflt (pval p))
  | DCH p => delete_chars v (dflt (pval p))
  | IL p => insert_lines v (dflt (pval p))
  | DL p => delete_lines v (dflt (pval p))
  | SU p => scroll_up_n v (dflt (pval p))
  | SD p => scroll_down_n v (dflt (pval p))
  | DECSTBM t b => set_margins_tb v (pval t) (pval b)
  | DECSC => save_cursor v
  | DECRC => restore_cursor v
  | AltOn => alt_on v
  | AltOff => alt_off v
  | SGR cs => set_vpen v (mkStyle (spec_sgr (spen (v_pen v)) cs) (link (v_pen v)) (linkp (v_pen v)))
  | Link ps uri => set_vpen v (mkStyle (spen (v_pen v)) uri ps)
  end.

(* inside the vocabulary: widths 1 and 2, parameters that fit a machine integer, SGR
   arguments in range *)
Definition par_ok (p : par) : bool :=
  match p with Om => true | Ex n => (0 <=? n) && (n <? 9223372036854775808) end.

(* printable ASCII *)
Definition link_text_ok (s : text) : bool := forallb (fun c => in_range c 32 126) s.
Definition no_semicolon (s : text) : bool := negb (existsb (Z.eqb 59) s).

Definition vop_ok (o : vop) : bool :=
  match o with
  | Print g w => ((w =? 1) || (w =? 2)) && negb (zlist_eqb g [])
  | CUU p | CUD p | CUF p | CUB p | CNL p | CPL p | CHA p | HPA p | VPA p | HPR p | VPR p
  | ED p | EL p | ECH p | ICH p | DCH p | IL p | DL p | SU p | SD p => par_ok p
  | CUP a b | HVP a b | DECSTBM a b => par_ok a && par_ok b
  | SGR cs => forallb sgrc_ok cs
  | Link ps uri => no_semicolon ps && link_text_ok ps && link_text_ok uri
  | _ => true
  end.

(* None: outside the vocabulary, or an operation whose effect in the deferred-wrap state is
   terminal-specific *)
Definition spec_step (v : vt) (o : vop) : option vt :=
  if negb (vop_ok o) then None
  else if v_pending v && negb (allowed_pending o) then None
  else Some (spec_op v o).

Fixpoint run_spec (v : vt) (ops : list vop) : option vt :=
  match ops with
  | [] => Some v
  | o :: rest => match spec_step v o with Some v' => run_spec v' rest | None => None end
  end.

(* ------------------------------------------------------------------ equality (for the checks) *)

Definition disp_eqb (a b : disp) : bool :=
  match a, b with
  | Blank x, Blank y => x =? y
  | Glyph g w s, Glyph g' w' s' => zlist_eqb g g' && (w =? w') && style_eqb s s'
  | _, _ => false
  end.
Definition dgrid_eqb := list_eqb (list_eqb disp_eqb).
Definition slot_eqb (a b : Z * Z * style) : bool :=
  let '(r, c, s) := a in let '(r', c', s') := b in (r =? r') && (c =? c') && style_eqb s s'.

Definition vt_eqb (a b : vt) : bool :=
  (v_rows a =? v_rows b) && (v_cols a =? v_cols b) && dgrid_eqb (v_grid a) (v_grid b)
  && option_eqb dgrid_eqb (v_hidden a) (v_hidden b)
  && (v_row a =? v_row b) && (v_col a =? v_col b) && Bool.eqb (v_pending a) (v_pending b)
  && style_eqb (v_pen a) (v_pen b) && (v_top a =? v_top b) && (v_bot a =? v_bot b)
  && slot_eqb (v_saved_n a) (v_saved_n b) && slot_eqb (v_saved_a a) (v_saved_a b).
