(* C17 specification: the ideal line editor over grapheme clusters.

   The editor is a zipper over an arbitrary type [G] of grapheme clusters: the clusters
   to the left of the cursor (nearest first) and the clusters to the right of it.  The
   text is [rev left ++ right] and the cursor index is [length left], so a cursor outside
   the text cannot even be expressed.  Nothing here mentions strings, runes, cached
   lengths or indices: this file is the specification the two widgets are compared with.
   Definitions only. *)
From Vx Require Import base.Prelude.

Section Ideal.
  Context {G : Type}.

  Record ideal := mkIdeal { i_left : list G; i_right : list G }.

  Definition i_text (e : ideal) : list G := rev (i_left e) ++ i_right e.
  Definition i_index (e : ideal) : Z := zlen (i_left e).

  (* the editor holding text [t] with the cursor after the first [k] clusters
     (k beyond the end = at the end, k below 0 = at the start) *)
  Definition i_make (t : list G) (k : Z) : ideal :=
    mkIdeal (rev (firstn (Z.to_nat k) t)) (skipn (Z.to_nat k) t).

  (* move right / left over the clusters satisfying p *)
  Fixpoint i_skip_right (p : G -> bool) (l r : list G) : ideal :=
    match r with
    | g :: r' => if p g then i_skip_right p (g :: l) r' else mkIdeal l r
    | [] => mkIdeal l r
    end.
  Fixpoint i_skip_left (p : G -> bool) (l r : list G) : ideal :=
    match l with
    | g :: l' => if p g then i_skip_left p l' (g :: r) else mkIdeal l r
    | [] => mkIdeal l r
    end.
  Fixpoint i_drop_while (p : G -> bool) (l : list G) : list G :=
    match l with
    | g :: l' => if p g then i_drop_while p l' else l
    | [] => []
    end.

  Inductive iop :=
  | IIns (gs : list G)      (* typed or pasted clusters appear once, at the cursor *)
  | ILeft | IRight | IHome | IEnd
  | IBack                   (* delete the cluster left of the cursor *)
  | IDel                    (* delete the cluster right of the cursor *)
  | IKillEnd | IKillStart
  | IWordF | IWordB         (* word motions *)
  | IKillWordB              (* delete the word left of the cursor *)
  | ISet (gs : list G)      (* replace the text, cursor at the end *)
  | IReset                  (* empty the editor (also what a submit leaves behind) *)
  | IGoto (k : Z)           (* programmatic cursor placement, clamped to the text *)
  | INop.

  (* [isw]: is this cluster part of a word *)
  Definition i_step (isw : G -> bool) (e : ideal) (o : iop) : ideal :=
    let l := i_left e in
    let r := i_right e in
    let nw := fun g => negb (isw g) in
    match o with
    | IIns gs => mkIdeal (rev gs ++ l) r
    | ILeft => match l with g :: l' => mkIdeal l' (g :: r) | [] => e end
    | IRight => match r with g :: r' => mkIdeal (g :: l) r' | [] => e end
    | IHome => mkIdeal [] (rev l ++ r)
    | IEnd => mkIdeal (rev r ++ l) []
    | IBack => mkIdeal (tl l) r
    | IDel => mkIdeal l (tl r)
    | IKillEnd => mkIdeal l []
    | IKillStart => mkIdeal [] r
    | IWordF => let e1 := i_skip_right nw l r in i_skip_right isw (i_left e1) (i_right e1)
    | IWordB => let e1 := i_skip_left nw l r in i_skip_left isw (i_left e1) (i_right e1)
    | IKillWordB => mkIdeal (i_drop_while isw (i_drop_while nw l)) r
    | ISet gs => mkIdeal (rev gs) []
    | IReset => mkIdeal [] []
    | IGoto k => i_make (i_text e) k
    | INop => e
    end.

  Definition i_run (isw : G -> bool) (e : ideal) (os : list iop) : ideal :=
    fold_left (i_step isw) os e.
End Ideal.
Arguments ideal : clear implicits.
Arguments iop : clear implicits.
