(* Model of the start-up / shutdown behaviour of /repo/vaxis.go as far as terminal state is
   concerned (property C04): New's start-up (sendQueries, the quirks, enterAltScreen,
   enableModes), Render/Refresh as far as the writer's prologue and epilogue and a small cell
   vocabulary go, ShowCursor/HideCursor/SetMouseShape/SetAppID, Suspend, Resume, Close.

   enableModes, disableModes, enterAltScreen, exitAltScreen, sendQueries and Suspend are NOT
   written here: they are the scripts of gen/GenModes.v, translated from the Go AST on every run,
   and this file only contains their interpreter.  writer.go (Write, WriteString, Flush), render's
   cell loop, Render, Close's guard, Resume, applyQuirks and CursorPosition are hand-written models
   of the code as it is.  Executable definitions only. *)
From Vx Require Import base.Prelude model.ParserTypes model.Parser model.ModeTerm model.ModesTypes gen.GenModes.

(* ---------- flags, options, data ---------- *)
Record flags := mkFlags {
  f_sync : bool; f_unicode : bool; f_explicit : bool; f_kittykb : bool; f_sixels : bool;
  f_theme : bool; f_osc176 : bool; f_inband : bool; f_nomouse : bool }.

Definition flag_val (fl : flags) (f : flag) : bool :=
  match f with
  | FSync => f_sync fl | FUnicode => f_unicode fl | FExplicit => f_explicit fl | FKittyKB => f_kittykb fl
  | FSixels => f_sixels fl | FTheme => f_theme fl | FOsc176 => f_osc176 fl | FInband => f_inband fl
  | FDisableMouse => f_nomouse fl
  end.

Fixpoint ceval (fl : flags) (c : cexp) : bool :=
  match c with
  | CTrue => true
  | CFlag f => flag_val fl f
  | CNot a => negb (ceval fl a)
  | CAnd a b => ceval fl a && ceval fl b
  end.

(* the values the scripts print *)
Record data := mkData { d_kflags : Z; d_appid : list Z; d_ustyle : Z }.

(* options and environment quirks (Options.DisableMouse, quirks.go) *)
Record opts := mkOpts {
  o_nomouse : bool;
  o_tmux34 : bool;          (* XTVERSION reply is "tmux 3.4" *)
  o_force_wcwidth : bool;   (* VAXIS_FORCE_WCWIDTH *)
  o_force_unicode : bool;   (* VAXIS_FORCE_UNICODE *)
  o_force_nozwj : bool }.   (* VAXIS_FORCE_NOZWJ *)

(* New: kittyFlags from Options.CSIuBitMask / ReportKeyboardEvents *)
Definition kitty_flags (mask : Z) (report : bool) : Z :=
  let k := if 1 <? mask then mask else 1 in
  if report then Z.lor k 2 else k.

(* quirks.go applyQuirks, restricted to the capability fields the scripts read *)
Definition apply_quirks (o : opts) (fl : flags) : flags :=
  let u := if o_tmux34 o then true else f_unicode fl in
  let e := f_explicit fl in
  let u := if o_force_wcwidth o then false else u in
  let e := if o_force_wcwidth o then false else e in
  let u := if o_force_unicode o then true else u in
  let e := if o_force_nozwj o then false else e in
  mkFlags (f_sync fl) u e (f_kittykb fl) (f_sixels fl) (f_theme fl) (f_osc176 fl) (f_inband fl) (f_nomouse fl).

(* what New's reply loop stores: the detected capabilities; disableMouse comes from the options *)
Definition with_nomouse (nm : bool) (fl : flags) : flags :=
  mkFlags (f_sync fl) (f_unicode fl) (f_explicit fl) (f_kittykb fl) (f_sixels fl) (f_theme fl) (f_osc176 fl) (f_inband fl) nm.

Definition flags0 (nomouse : bool) : flags := mkFlags false false false false false false false false nomouse.

(* ---------- evaluated output tokens and their bytes ---------- *)
Inductive pval := PInt (n : Z) | PStr (s : list Z).

Inductive otok :=
  | ONuls (n : Z)                         (* n NUL bytes: the writer's initial buffer content *)
  | OConst (k : cname)
  | ODecset (n : Z) | ODecrst (n : Z) | ODecrqm (n : Z)
  | OParm (f : fmtname) (ps : list pval)
  | OLit (s : list Z)
  | OXtgettcap (s : list Z).

Definition eval_arg (d : data) (a : arg) : pval :=
  match a with
  | AInt n => PInt n | AStr s => PStr s
  | AKittyFlags => PInt (d_kflags d) | AAppIDLast => PStr (d_appid d) | AUserCursorStyle => PInt (d_ustyle d)
  end.

Definition eval_tok (d : data) (t : tok) : otok :=
  match t with
  | TConst k => OConst k | TDecset n => ODecset n | TDecrst n => ODecrst n | TDecrqm n => ODecrqm n
  | TParm f args => OParm f (map (eval_arg d) args)
  | TLit s => OLit s | TXtgettcap s => OXtgettcap s
  end.

(* strconv for %d: Go ints are 64 bit, so 20 digits of fuel always suffice *)
Fixpoint dec_digits (fuel : nat) (n : Z) : list Z :=
  match fuel with
  | O => []
  | S f => if n <? 10 then [48 + n] else dec_digits f (n / 10) ++ [48 + n mod 10]
  end.
Definition dec (n : Z) : list Z := if n <? 0 then 45 :: dec_digits 20 (- n) else dec_digits 20 n.

(* fmt.Sprintf for the verbs sequences.go uses: %d and %s *)
Fixpoint fmt_apply (f : list Z) (ps : list pval) : list Z :=
  match f with
  | 37 :: 100 :: r (* %d *) =>
      match ps with
      | PInt n :: ps' => dec n ++ fmt_apply r ps'
      | _ => [37; 33; 100] ++ fmt_apply r (tl ps)      (* %!d: outside the model *)
      end
  | 37 :: 115 :: r (* %s *) =>
      match ps with
      | PStr s :: ps' => s ++ fmt_apply r ps'
      | _ => [37; 33; 115] ++ fmt_apply r (tl ps)
      end
  | c :: r => c :: fmt_apply r ps
  | [] => []
  end.

Definition hex_digit (n : Z) : Z := if n <? 10 then 48 + n else 55 + n.
Definition hex_upper (s : list Z) : list Z := flat_map (fun b => [hex_digit (b / 16); hex_digit (b mod 16)]) s.

Definition tok_bytes (t : otok) : list Z :=
  match t with
  | ONuls n => zrepeat 0 n
  | OConst k => const_bytes k
  | ODecset n => fmt_apply decset_fmt [PInt n]
  | ODecrst n => fmt_apply decrst_fmt [PInt n]
  | ODecrqm n => fmt_apply decrqm_fmt [PInt n]
  | OParm f ps => fmt_apply (fmt_bytes f) ps
  | OLit s => s
  | OXtgettcap s => xtgettcap_pre ++ hex_upper s ++ xtgettcap_suf
  end.

(* the same bytes with NUL runs kept compressed, as the harness records them *)
Definition toks_bytes (l : list otok) : list Z := flat_map tok_bytes l.

(* ---------- token-level semantics on the reference terminal ---------- *)
(* by NAME: what each constant / format of sequences.go is meant to be.  Kitty keyboard push / pop
   act on [t_kitty], the stack of the screen that is shown; ?1049 h / l ([set_mode 1049]) exchange it
   with [t_kitty_other].  That the bytes of a token
   (translated from sequences.go) really have this meaning for a standards-following terminal is
   the bridge lemma family in proofs/ModesProofs.v and part of every differential case. *)
Definition nonempty {A} (l : list A) : bool := match l with [] => false | _ => true end.

Definition sem_tok (k : otok) (t : term) : term :=
  match k with
  | ODecset n => set_mode n true t
  | ODecrst n => set_mode n false t
  | OConst KSgrReset => set_pen true t
  | OConst KBoldSet => set_pen false t
  | OConst KKittyKBPop => kitty_pop1 t
  | OConst KApplicationMode => set_keypad true t
  | OConst KNumericMode => set_keypad false t
  | OParm FmKittyKBEnable [PInt n] => kitty_push n t
  | OParm FmCursorStyleSet [PInt n] => set_cstyle n t
  | OParm FmMouseShape [PStr s] => set_pointer s t
  | OParm FmSetAppID [PStr s] => set_appid s t
  | OParm FmOsc8 [PStr _; PStr u] => set_link (nonempty u) t
  | OParm FmFgSet _ | OParm FmFgBrightSet _ | OParm FmFgIndexSet _ => set_pen false t
  | _ => t      (* queries, cursor movement, erase, text, pure attribute-off SGR, NULs *)
  end.

Definition sem_toks (l : list otok) (t : term) : term := fold_left (fun t k => sem_tok k t) l t.

(* ---------- the writer (writer.go) ---------- *)
Record cur := mkCur { c_row : Z; c_col : Z; c_style : Z; c_vis : bool }.

Record mst := mkM {
  s_fl : flags;            (* vx.caps (the fields that matter) and vx.disableMouse *)
  s_d : data;              (* vx.kittyFlags, vx.appIDLast, vx.userCursorStyle *)
  s_next : cur;            (* vx.cursorNext *)
  s_last : cur;            (* vx.cursorLast *)
  s_refresh : bool;
  s_nuls : bool;           (* writer.buf still starts with the 8192 NUL bytes newWriter put there *)
  s_buf : list otok;       (* the rest of writer.buf *)
  s_out : list otok;       (* everything written to the console so far *)
  s_parser_live : bool;    (* the input parser goroutine has not finished *)
  s_hung : bool }.         (* the calling goroutine is blocked for ever *)

Definition set_fl fl (m : mst) := mkM fl (s_d m) (s_next m) (s_last m) (s_refresh m) (s_nuls m) (s_buf m) (s_out m) (s_parser_live m) (s_hung m).
Definition set_next c (m : mst) := mkM (s_fl m) (s_d m) c (s_last m) (s_refresh m) (s_nuls m) (s_buf m) (s_out m) (s_parser_live m) (s_hung m).
Definition set_last c (m : mst) := mkM (s_fl m) (s_d m) (s_next m) c (s_refresh m) (s_nuls m) (s_buf m) (s_out m) (s_parser_live m) (s_hung m).
Definition set_refresh b (m : mst) := mkM (s_fl m) (s_d m) (s_next m) (s_last m) b (s_nuls m) (s_buf m) (s_out m) (s_parser_live m) (s_hung m).
Definition set_w n b o (m : mst) := mkM (s_fl m) (s_d m) (s_next m) (s_last m) (s_refresh m) n b o (s_parser_live m) (s_hung m).
Definition set_parser b (m : mst) := mkM (s_fl m) (s_d m) (s_next m) (s_last m) (s_refresh m) (s_nuls m) (s_buf m) (s_out m) b (s_hung m).
Definition set_hung b (m : mst) := mkM (s_fl m) (s_d m) (s_next m) (s_last m) (s_refresh m) (s_nuls m) (s_buf m) (s_out m) (s_parser_live m) b.
Definition emit (l : list otok) (m : mst) := set_w (s_nuls m) (s_buf m) (s_out m ++ l) m.

Definition initial_nuls : Z := 8192.   (* newWriter: bytes.NewBuffer(make([]byte, 8192)) *)

Definition buf_empty (m : mst) : bool := negb (s_nuls m) && negb (nonempty (s_buf m)).

(* vx.showCursor(): one string *)
Definition show_cursor (m : mst) : list otok :=
  [OParm FmCursorStyleSet [PInt (c_style (s_next m))];
   OParm FmCup [PInt (c_row (s_next m) + 1); PInt (c_col (s_next m) + 1)];
   ODecset mode_cursorVisibility].

(* writer.WriteString(s): s is given as the tokens of one string *)
Definition w_write_string (ts : list otok) (m : mst) : mst :=
  if negb (nonempty (toks_bytes ts)) then m else
  let pro := if buf_empty m
             then (if c_vis (s_last m) then [ODecrst mode_cursorVisibility] else [])
                  ++ (if f_sync (s_fl m) then [ODecset mode_synchronizedUpdate] else [])
             else [] in
  set_w (s_nuls m) (s_buf m ++ pro ++ ts) (s_out m) m.

(* writer.Write(p) (reached through fmt.Fprintf / Printf) *)
Definition w_write (ts : list otok) (m : mst) : mst :=
  if negb (nonempty (toks_bytes ts)) then m else
  let pro := if buf_empty m
             then (if f_sync (s_fl m) then [ODecset mode_synchronizedUpdate] else [])
                  ++ (if c_vis (s_last m) && c_vis (s_next m) then [ODecrst mode_cursorVisibility] else [])
             else [] in
  set_w (s_nuls m) (s_buf m ++ pro ++ ts) (s_out m) m.

(* writer.Flush() *)
Definition w_flush (m : mst) : mst :=
  if buf_empty m then
    if negb (c_vis (s_next m)) && c_vis (s_last m) then emit [ODecrst mode_cursorVisibility] m
    else if negb (c_vis (s_next m)) then m
    else if negb (c_row (s_next m) =? c_row (s_last m)) then emit (show_cursor m) m
    else if negb (c_col (s_next m) =? c_col (s_last m)) then emit (show_cursor m) m
    else if negb (c_style (s_next m) =? c_style (s_last m)) then emit (show_cursor m) m
    else m
  else
    let all := (if s_nuls m then [ONuls initial_nuls] else []) ++ s_buf m ++ [OConst KSgrReset]
               ++ (if c_vis (s_next m) && c_vis (s_last m) then show_cursor m else [])
               ++ (if f_sync (s_fl m) then [ODecrst mode_synchronizedUpdate] else []) in
    set_w false [] (s_out m ++ all) m.

(* ---------- the script interpreter ---------- *)
Definition run_step (s : step) (m : mst) : mst :=
  if s_hung m then m else
  match s with
  | SWriteString t => w_write_string [eval_tok (s_d m) t] m
  | SFprintf t => w_write [eval_tok (s_d m) t] m
  | SDirect t => emit [eval_tok (s_d m) t] m
  | SFlush => w_flush m
  | SHideCursor => set_next (mkCur (c_row (s_next m)) (c_col (s_next m)) (c_style (s_next m)) false) m
  | SSetRefresh => set_refresh true m
  | SSetLastStyleUser => set_last (mkCur (c_row (s_last m)) (c_col (s_last m)) (d_ustyle (s_d m)) (c_vis (s_last m))) m
  | SCursorPosQuery => emit [OConst KDsrcpr] m      (* CursorPosition: io.WriteString(vx.console, dsrcpr) *)
  | SParserClose => m                                (* a send on a channel of capacity one: does not block here *)
  | SParserWait =>                                   (* <-p.closed: the parser goroutine writes it exactly once *)
      if s_parser_live m then set_parser false m else set_hung true m
  | SSignalStop | SConsoleReset => m
  | SCall _ | SDefer _ => m                          (* handled by run_top; leaf scripts contain none *)
  end.

Fixpoint run_leaf (sc : script) (m : mst) : mst :=
  match sc with
  | [] => m
  | (c, s) :: r => run_leaf r (if ceval (s_fl m) c then run_step s m else m)
  end.

Definition leaf_script (f : fname) : script :=
  match f with
  | FnEnterAlt => enter_alt | FnExitAlt => exit_alt
  | FnEnableModes => enable_modes | FnDisableModes => disable_modes
  end.

Definition is_leaf (sc : script) : bool :=
  forallb (fun cs => match snd cs with SCall _ | SDefer _ => false | _ => true end) sc.

(* a script that may call / defer leaf scripts; deferred calls run when the function returns *)
Fixpoint run_top_aux (sc : script) (defers : list fname) (m : mst) : mst :=
  match sc with
  | [] => fold_left (fun m f => run_leaf (leaf_script f) m) defers m
  | (c, s) :: r =>
      if ceval (s_fl m) c && negb (s_hung m) then
        match s with
        | SCall f => run_top_aux r defers (run_leaf (leaf_script f) m)
        | SDefer f => run_top_aux r (f :: defers) m
        | _ => run_top_aux r defers (run_step s m)
        end
      else run_top_aux r defers m
  end.
Definition run_top (sc : script) (m : mst) : mst := run_top_aux sc [] m.

(* ---------- New, Resume, Suspend, Close ---------- *)
Definition cur0 : cur := mkCur 0 0 0 false.
Definition cursor_block : Z := 2.

(* [fails]: reportWinsize returns an error (New then closes what it started and returns the error) *)
Fixpoint run_calls_f (fails : bool) (cs : list callname) (o : opts) (det : flags) (m : mst) : mst :=
  match cs with
  | [] => m
  | c :: r =>
      match c with
      | CnCloseIfFailed =>
          if fails then run_top suspend_script m      (* vx.Close(): Suspend, console.Close; then return *)
          else run_calls_f fails r o det m
      | _ =>
        run_calls_f fails r o det
          match c with
          | CnOpenTty => set_parser true (set_w true [] (s_out m) m)      (* newWriter, ansi.NewParser *)
          | CnSendQueries =>                                                 (* then New's reply loop stores what was detected *)
              set_fl (with_nomouse (o_nomouse o) det) (run_top send_queries m)
          | CnApplyQuirks => set_fl (apply_quirks o (s_fl m)) m
          | CnEnterAlt => run_leaf enter_alt m
          | CnEnableModes => run_leaf enable_modes m
          | CnSuspend => run_top suspend_script m
          | CnSetupSignals | CnReportWinsize | CnConsoleClose | CnPostQuit | CnCloseIfFailed => m
          end
      end
  end.
Definition run_calls := run_calls_f false.

Definition new_state (o : opts) (d : data) : mst :=
  mkM (flags0 (o_nomouse o)) d cur0 cur0 false false [] [] false false.

(* vaxis.New: the calls in source order, then cursorNext.style = CursorBlock *)
Definition startup (o : opts) (det : flags) (d : data) : mst :=
  let m := run_calls new_calls o det (new_state o d) in
  set_next (mkCur (c_row (s_next m)) (c_col (s_next m)) cursor_block (c_vis (s_next m))) m.

(* vaxis.New when reportWinsize fails: everything New wrote before it returned the error *)
Definition failed_new (o : opts) (det : flags) (d : data) : mst :=
  run_calls_f true new_calls o det (new_state o d).

(* ---------- render (cells of a small vocabulary) ---------- *)
(* a cell: cs_g = 0 is the zero Cell{} grapheme (""), otherwise one printable ASCII rune of
   width 1; cs_fg = -1 default foreground, otherwise a palette index; bold; hyperlink URL *)
Record cellspec := mkCell { cs_g : Z; cs_fg : Z; cs_bold : bool; cs_link : list Z }.
Definition blank : cellspec := mkCell 0 (-1) false [].
Definition cell_eqb (a b : cellspec) : bool :=
  (cs_g a =? cs_g b) && (cs_fg a =? cs_fg b) && Bool.eqb (cs_bold a) (cs_bold b) && zlist_eqb (cs_link a) (cs_link b).

Definition grid := list (list cellspec).
Definition blank_grid (rows cols : Z) : grid := zrepeat (zrepeat blank cols) rows.

Record pen := mkPen { p_fg : Z; p_bold : bool; p_link : list Z }.
Definition pen0 : pen := mkPen (-1) false [].

(* one call on the writer: WriteString or Write (Printf), with the tokens of the string *)
Inductive wr := WS (ts : list otok) | WR (ts : list otok).

Definition osc8 (u : list Z) : otok := OParm FmOsc8 [PStr []; PStr u].
Definition cup (row col : Z) : otok := OParm FmCup [PInt (row + 1); PInt (col + 1)].

Definition fg_write (n : Z) : wr :=
  if n <? 0 then WS [OConst KFgReset]
  else if n <? 8 then WR [OParm FmFgSet [PInt n]]
  else if n <? 16 then WR [OParm FmFgBrightSet [PInt (n - 8)]]
  else WR [OParm FmFgIndexSet [PInt n]].

Definition render_cell (refresh : bool) (row col : Z) (lastc nextc : cellspec) (acc : pen * bool) : list wr * (pen * bool) :=
  let '(pn, repos) := acc in
  if cell_eqb nextc lastc && negb refresh then ([], (pn, true))
  else
    let closing := repos && nonempty (p_link pn) in
    let w1 := if repos then (if closing then [WS [osc8 []]] else []) ++ [WS [cup row col]] else [] in
    let lk := if closing then [] else p_link pn in
    let w2 := if p_fg pn =? cs_fg nextc then [] else [fg_write (cs_fg nextc)] in
    let w3 := if Bool.eqb (p_bold pn) (cs_bold nextc) then []
              else if cs_bold nextc then [WS [OConst KBoldSet]] else [WS [OConst KBoldDimReset]] in
    let w4 := if zlist_eqb lk (cs_link nextc) then [] else [WS [osc8 (cs_link nextc)]] in
    let w5 := [WS [OLit (if cs_g nextc =? 0 then [32] else [cs_g nextc])]] in
    (w1 ++ w2 ++ w3 ++ w4 ++ w5, (mkPen (cs_fg nextc) (cs_bold nextc) (cs_link nextc), false)).

Fixpoint render_row (refresh : bool) (row col : Z) (lastr nextr : list cellspec) (acc : pen * bool) : list wr * (pen * bool) :=
  match nextr with
  | [] => ([], acc)
  | n :: nr =>
      let l := match lastr with [] => blank | l :: _ => l end in
      let '(w, acc1) := render_cell refresh row col l n acc in
      let '(w', acc2) := render_row refresh row (col + 1) (tl lastr) nr acc1 in
      (w ++ w', acc2)
  end.

Fixpoint render_rows (refresh : bool) (row : Z) (lastg nextg : grid) (pn : pen) : list wr * pen :=
  match nextg with
  | [] => ([], pn)
  | n :: ng =>
      let l := match lastg with [] => [] | l :: _ => l end in
      let '(w, (pn1, _)) := render_row refresh row 0 l n (pn, true) in
      let '(w', pn2) := render_rows refresh (row + 1) (tl lastg) ng pn1 in
      (w ++ w', pn2)
  end.

Definition do_wr (w : wr) (m : mst) : mst :=
  match w with WS ts => w_write_string ts m | WR ts => w_write ts m end.
Definition do_wrs (ws : list wr) (m : mst) : mst := fold_left (fun m w => do_wr w m) ws m.

(* ---------- sessions ---------- *)
Record sst := mkS {
  x_m : mst;
  x_shape_next : list Z; x_shape_last : list Z;
  x_gnext : grid; x_glast : grid;
  x_suspended : bool; x_closed : bool }.

Definition set_m m (x : sst) := mkS m (x_shape_next x) (x_shape_last x) (x_gnext x) (x_glast x) (x_suspended x) (x_closed x).

Inductive op :=
  | OpFrame (g : grid)          (* SetCell on every cell of the screen, then Render *)
  | OpRender                    (* Render *)
  | OpRefresh                   (* Refresh *)
  | OpShowCursor (col row style : Z)
  | OpHideCursor
  | OpSetMouseShape (s : list Z)
  | OpSetAppID (s : list Z)
  | OpSuspend | OpResume | OpClose
  | OpKill                      (* a termination signal: the input goroutine calls Close *)
  | OpPanic.                    (* a panic in the input goroutine: recover() calls Close, then re-panics *)

(* vx.render() as a list of writer calls *)
Definition render_writes (x : sst) : list wr :=
  let m := x_m x in
  let shape := if zlist_eqb (x_shape_last x) (x_shape_next x) then []
               else [WS [OParm FmMouseShape [PStr (x_shape_next x)]]] in
  let '(cells, pn) := render_rows (s_refresh m) 0 (x_glast x) (x_gnext x) pen0 in
  shape ++ cells
  ++ (if nonempty (p_link pn) then [WS [osc8 []]] else [])
  ++ (if c_vis (s_next m) && negb (c_vis (s_last m)) then [WS (show_cursor m)] else []).

(* vx.Render(): render, Flush, cursorLast = cursorNext, refresh = false *)
Definition do_render (x : sst) : sst :=
  let m1 := w_flush (do_wrs (render_writes x) (x_m x)) in
  let m2 := set_refresh false (set_last (s_next m1) m1) in
  mkS m2 (x_shape_next x) (x_shape_next x) (x_gnext x) (x_gnext x) (x_suspended x) (x_closed x).

Definition do_suspend (x : sst) : sst :=
  mkS (run_top suspend_script (x_m x)) (x_shape_next x) (x_shape_last x) (x_gnext x) (x_glast x) true (x_closed x).

(* Resume: the calls in source order.  The order is the translated one ([resume_calls]); the
   reference terminal tells the orders apart (pushing the kitty flags before or after the switch
   to the alternate screen lands on different stacks), see C04_resume_order_refuted. *)
Definition do_resume_with (cs : list callname) (o : opts) (x : sst) : sst :=
  mkS (run_calls cs o (s_fl (x_m x)) (x_m x)) (x_shape_next x) (x_shape_last x) (x_gnext x) (x_glast x) false (x_closed x).
Definition do_resume (o : opts) (x : sst) : sst := do_resume_with resume_calls o x.

(* Close: `if vx.closed { return }; vx.closed = true; ...` when the translator saw that guard *)
Definition do_close (o : opts) (x : sst) : sst :=
  if close_guarded && x_closed x then x
  else mkS (run_calls close_calls o (s_fl (x_m x)) (x_m x)) (x_shape_next x) (x_shape_last x) (x_gnext x) (x_glast x) true true.

Definition run_op (o : opts) (p : op) (x : sst) : sst :=
  if s_hung (x_m x) then x else
  let m := x_m x in
  match p with
  | OpFrame g => do_render (mkS m (x_shape_next x) (x_shape_last x) g (x_glast x) (x_suspended x) (x_closed x))
  | OpRender => do_render x
  | OpRefresh => do_render (set_m (set_refresh true m) x)
  | OpShowCursor col row style => set_m (set_next (mkCur row col style true) m) x
  | OpHideCursor => set_m (set_next (mkCur (c_row (s_next m)) (c_col (s_next m)) (c_style (s_next m)) false) m) x
  | OpSetMouseShape s => mkS m s (x_shape_last x) (x_gnext x) (x_glast x) (x_suspended x) (x_closed x)
  | OpSetAppID s => set_m (emit [OParm FmSetAppID [PStr s]] m) x
  | OpSuspend => do_suspend x
  | OpResume => do_resume o x
  | OpClose | OpKill | OpPanic => do_close o x
  end.

Definition clear_out (x : sst) : sst := set_m (set_w (s_nuls (x_m x)) (s_buf (x_m x)) [] (x_m x)) x.

Definition start_session (o : opts) (det : flags) (d : data) (rows cols : Z) : sst :=
  mkS (startup o det d) [] [] (blank_grid rows cols) (blank_grid rows cols) false false.

(* the chunks written by start-up and by each operation, with the outcome of each
   (0 = returned, 2 = never returns) *)
Fixpoint run_ops (o : opts) (ops : list op) (x : sst) : list (Z * list otok) :=
  match ops with
  | [] => []
  | p :: r =>
      let x1 := run_op o p (clear_out x) in
      let code := if negb (s_hung (x_m x)) && s_hung (x_m x1) then 2 else 0 in
      (code, s_out (x_m x1)) :: run_ops o r x1
  end.

Fixpoint final_state (o : opts) (ops : list op) (x : sst) : sst :=
  match ops with [] => x | p :: r => final_state o r (run_op o p x) end.

Definition session_chunks (o : opts) (det : flags) (d : data) (rows cols : Z) (ops : list op) : list (Z * list otok) :=
  let x0 := start_session o det d rows cols in
  (0, s_out (x_m x0)) :: run_ops o ops x0.

(* everything a whole session writes *)
Definition session_out (o : opts) (det : flags) (d : data) (rows cols : Z) (ops : list op) : list otok :=
  s_out (x_m (final_state o ops (start_session o det d rows cols))).

(* ---------- the property on one observation ---------- *)
(* the terminal state Vaxis must leave behind: the one it found *)
Definition restored (t0 t : term) : bool := term_eqb t t0.

(* an operation after which the property demands the restored terminal *)
Definition is_exit (p : op) : bool :=
  match p with OpSuspend | OpClose | OpKill | OpPanic => true | _ => false end.

(* the operations that make the known defect fire: Suspend or a first Close while suspended *)
Fixpoint hits_suspended_shutdown (ops : list op) (suspended closed : bool) : bool :=
  match ops with
  | [] => false
  | p :: r =>
      match p with
      | OpSuspend => suspended || hits_suspended_shutdown r true closed
      | OpResume => hits_suspended_shutdown r false closed
      | OpClose | OpKill | OpPanic =>
          if closed then hits_suspended_shutdown r suspended closed
          else suspended || hits_suspended_shutdown r true true
      | _ => hits_suspended_shutdown r suspended closed
      end
  end.

(* ---------- correspondence ---------- *)
(* one differential case *)
Record c04case := mkCase {
  k_opts : opts; k_det : flags; k_mask : Z; k_report : bool;       (* options, detected capabilities, CSIuBitMask, ReportKeyboardEvents *)
  k_appid : list Z; k_ustyle : Z;                                   (* what the terminal reported: OSC 176, DECRQSS *)
  k_rows : Z; k_cols : Z;
  k_honours_inband : bool;                                          (* the terminal implements ?2048 (whether or not it reported) *)
  k_kitty0 : list Z;                                                (* the terminal's kitty keyboard stack before start-up (main screen) *)
  k_kalt0 : list Z;                                                 (* ... and the stack of its alternate screen *)
  k_ops : list op;
  k_obs : list (Z * list seg);                                      (* outcome and bytes of start-up and of each operation *)
  k_caps : list bool;                                               (* VerifCaps after New: sync unicode explicit kittykb sixels theme osc176 inband *)
  k_kflags : Z }.                                                   (* vx.kittyFlags *)

Definition case_data (c : c04case) : data := mkData (kitty_flags (k_mask c) (k_report c)) (k_appid c) (k_ustyle c).
Definition case_t0 (c : c04case) : term :=
  fresh_term [] (k_kitty0 c) (k_kalt0 c) (k_ustyle c) (k_appid c) (k_honours_inband c).

Definition flags_list (fl : flags) : list bool :=
  [f_sync fl; f_unicode fl; f_explicit fl; f_kittykb fl; f_sixels fl; f_theme fl; f_osc176 fl; f_inband fl].

Definition chunk_eqb (a : Z * list otok) (b : Z * list seg) : bool :=
  (fst a =? fst b) && zlist_eqb (toks_bytes (snd a)) (segs_bytes (snd b)).

Fixpoint chunks_eqb (a : list (Z * list otok)) (b : list (Z * list seg)) : bool :=
  match a, b with
  | [], [] => true
  | x :: a', y :: b' => chunk_eqb x y && chunks_eqb a' b'
  | _, _ => false
  end.

Definition model_chunks (c : c04case) : list (Z * list otok) :=
  session_chunks (k_opts c) (k_det c) (case_data c) (k_rows c) (k_cols c) (k_ops c).

(* model = implementation: same outcome and same bytes for start-up and every operation, same
   capabilities and kitty flags after New, and the token-level meaning of what the model wrote
   equals the byte-level meaning of what the implementation wrote *)
Definition case_agrees (c : c04case) : bool :=
  let mc := model_chunks c in
  chunks_eqb mc (k_obs c)
  && list_eqb Bool.eqb (flags_list (apply_quirks (k_opts c) (with_nomouse (o_nomouse (k_opts c)) (k_det c)))) (k_caps c)
  && (d_kflags (case_data c) =? k_kflags c)
  && term_eqb (sem_toks (flat_map snd mc) (case_t0 c)) (binterp (flat_map snd (k_obs c)) (case_t0 c)).

(* the property on the implementation's bytes alone: no operation hangs, and after every
   Suspend / Close / kill / panic the reference terminal that received every byte written so far
   is back in the state it had before start-up *)
Fixpoint obs_ok (t0 : term) (ops : list op) (obs : list (Z * list seg)) (sofar : list seg) : bool :=
  match ops, obs with
  | p :: r, (code, segs) :: obs' =>
      let sofar' := sofar ++ segs in
      (code =? 0)
      && (if is_exit p then restored t0 (binterp sofar' t0) else true)
      && obs_ok t0 r obs' sofar'
  | [], [] => true
  | _, _ => false
  end.

Definition case_holds (c : c04case) : bool :=
  match k_obs c with
  | (code, segs) :: obs' => (code =? 0) && obs_ok (case_t0 c) (k_ops c) obs' segs
  | [] => false
  end.

Definition c04_session_mismatches (l : list c04case) : list Z := bad_indices (fun c => negb (case_agrees c)) l.
Definition c04_session_violations (l : list c04case) : list Z := bad_indices (fun c => negb (case_holds c)) l.
(* cases under the guard of the recorded finding (Suspend / Close while suspended never returns) *)
Definition c04_session_known (l : list c04case) : list Z :=
  bad_indices (fun c => hits_suspended_shutdown (k_ops c) false false) l.

(* ---------- second stream: New fails after start-up (reportWinsize returns an error) ---------- *)
Record c04fail := mkFail {
  q_opts : opts; q_det : flags; q_mask : Z; q_report : bool; q_appid : list Z; q_ustyle : Z;
  q_honours_inband : bool; q_kitty0 : list Z; q_kalt0 : list Z;
  q_obs : list seg }.                       (* everything written before New returned the error *)

Definition fail_data (c : c04fail) : data := mkData (kitty_flags (q_mask c) (q_report c)) (q_appid c) (q_ustyle c).
Definition fail_t0 (c : c04fail) : term := fresh_term [] (q_kitty0 c) (q_kalt0 c) (q_ustyle c) (q_appid c) (q_honours_inband c).

Definition fail_agrees (c : c04fail) : bool :=
  let out := s_out (failed_new (q_opts c) (q_det c) (fail_data c)) in
  zlist_eqb (toks_bytes out) (segs_bytes (q_obs c))
  && term_eqb (sem_toks out (fail_t0 c)) (binterp (q_obs c) (fail_t0 c)).
Definition fail_holds (c : c04fail) : bool := restored (fail_t0 c) (binterp (q_obs c) (fail_t0 c)).

Definition c04_newfail_mismatches (l : list c04fail) : list Z := bad_indices (fun c => negb (fail_agrees c)) l.
Definition c04_newfail_violations (l : list c04fail) : list Z := bad_indices (fun c => negb (fail_holds c)) l.

(* ---------- a shutdown started by the library that overlaps the application ---------- *)
(* The termination-signal handler and the panic recovery run Close ON THE INPUT GOROUTINE.  Close posts
   QuitEvent first and then, inside Suspend, asks the parser to stop, writes a DA1 query and waits in
   parser.WaitClose() until the terminal's answer wakes the parser.  Until that answer arrives the
   application's goroutine runs concurrently, and the usual reaction to QuitEvent is its own vx.Close().
   Protocol state "closing in progress": the Close on the input goroutine is split at the parser wait
   ([close_begin] / [close_end]); in between the application issues Close calls on the shared state. *)

(* a script up to its first parser wait, and from it *)
Fixpoint before_wait (sc : script) : script :=
  match sc with
  | [] => []
  | (c, s) :: r => match s with SParserWait => [] | _ => (c, s) :: before_wait r end
  end.
Fixpoint from_wait (sc : script) : script :=
  match sc with
  | [] => []
  | (c, s) :: r => match s with SParserWait => (c, s) :: r | _ => from_wait r end
  end.

(* [run_top_aux] on a prefix of a script: the deferred calls collected so far and the state *)
Fixpoint run_pre (sc : script) (defers : list fname) (m : mst) : list fname * mst :=
  match sc with
  | [] => (defers, m)
  | (c, s) :: r =>
      if ceval (s_fl m) c && negb (s_hung m) then
        match s with
        | SCall f => run_pre r defers (run_leaf (leaf_script f) m)
        | SDefer f => run_pre r (f :: defers) m
        | _ => run_pre r defers (run_step s m)
        end
      else run_pre r defers m
  end.

Definition is_suspend_call (c : callname) : bool := match c with CnSuspend => true | _ => false end.
Fixpoint calls_before_suspend (cs : list callname) : list callname :=
  match cs with [] => [] | c :: r => if is_suspend_call c then [] else c :: calls_before_suspend r end.
Fixpoint calls_after_suspend (cs : list callname) : list callname :=
  match cs with [] => [] | c :: r => if is_suspend_call c then r else calls_after_suspend r end.

(* Close on the input goroutine (its guard passed) up to the point where Suspend waits for the parser:
   the flag is set here when the code sets it before calling Suspend ([close_flag_early], translated) *)
Definition close_begin_with (early : bool) (o : opts) (x : sst) : sst * list fname :=
  let m0 := run_calls (calls_before_suspend close_calls) o (s_fl (x_m x)) (x_m x) in
  let '(ds, m1) := run_pre (before_wait suspend_script) [] m0 in
  (mkS m1 (x_shape_next x) (x_shape_last x) (x_gnext x) (x_glast x) (x_suspended x) (early || x_closed x), ds).
Definition close_begin := close_begin_with close_flag_early.

(* ... and from there, once the terminal has answered *)
Definition close_end (o : opts) (x : sst) (ds : list fname) : sst :=
  let m2 := run_top_aux (from_wait suspend_script) ds (x_m x) in
  let m3 := run_calls (calls_after_suspend close_calls) o (s_fl (x_m x)) m2 in
  mkS m3 (x_shape_next x) (x_shape_last x) (x_gnext x) (x_glast x) true true.

(* Close called by the application while the Close of the input goroutine waits.  With the flag already
   set its guard returns at once.  Otherwise it enters Suspend a second time: parser.Close() sends on a
   channel of capacity one that still holds the first request (the parser sits in its read, waiting for the
   very answer the terminal has not given), and after the answer two goroutines wait on parser.closed,
   which is written exactly once -- one of the two Close calls never returns.  None = does not return. *)
Definition app_close (o : opts) (y : sst) : option sst :=
  if close_guarded && x_closed y then Some (do_close o y) else None.

Fixpoint idle_chunks (n : nat) : list (Z * list otok) :=
  match n with O => [] | S k => (0, []) :: idle_chunks k end.

(* [n] Close calls of the application, one after the other; once one does not return the rest is never issued *)
Fixpoint app_closes (o : opts) (n : nat) (y : sst) : list (Z * list otok) * (sst * bool) :=
  match n with
  | O => ([], (y, false))
  | S k =>
      match app_close o (clear_out y) with
      | Some y1 => let '(l, r) := app_closes o k y1 in ((0, s_out (x_m y1)) :: l, r)
      | None => ((2, []) :: idle_chunks k, (y, true))
      end
  end.

Fixpoint ops_state (o : opts) (ops : list op) (x : sst) : sst :=
  match ops with [] => x | p :: r => ops_state o r (run_op o p (clear_out x)) end.

(* the chunks of: the signal / panic (until its Close waits), [during] Close calls of the application,
   the terminal's answer (the first Close runs to its end), [after] more Close calls.  None: the state is
   not a running one (outside this scenario class; shutdown while suspended is the recorded finding) *)
Definition overlap_tail_with (early : bool) (o : opts) (x : sst) (during after : nat) : option (list (Z * list otok)) :=
  if s_hung (x_m x) || x_suspended x || x_closed x then None else
  let '(y, ds) := close_begin_with early o (clear_out x) in
  let '(dur, (y1, blocked)) := app_closes o during y in
  let z := close_end o (clear_out y1) ds in
  let rel := (if s_hung (x_m z) then 2 else 0, s_out (x_m z)) in
  Some ((0, s_out (x_m y)) :: dur ++ rel ::
        (if blocked then idle_chunks after else run_ops o (repeat OpClose after) z)).

Definition overlap_tail := overlap_tail_with close_flag_early.

Definition overlap_chunks (o : opts) (det : flags) (d : data) (rows cols : Z) (ops : list op) (during after : nat)
  : option (list (Z * list otok)) :=
  let x0 := start_session o det d rows cols in
  match overlap_tail o (ops_state o ops x0) during after with
  | Some tl => Some (session_chunks o det d rows cols ops ++ tl)
  | None => None
  end.

(* third stream: the overlapped shutdown, observed in a child process (real SIGTERM / injected panic,
   a console that withholds the DA1 answer until the application's Close calls have been issued) *)
Record c04ovl := mkOvl {
  v_case : c04case;                  (* options, capabilities, the session before the signal and its observation *)
  v_trigger : op;                    (* OpKill or OpPanic *)
  v_during : Z; v_after : Z;         (* Close calls of the application while the first Close waits / after it finished *)
  v_obs : list (Z * list seg) }.     (* trigger, each overlapping Close, the answer, each later Close;
                                        outcome 2 = had not returned when the scenario (or the process) ended *)

Definition is_trigger (p : op) : bool := match p with OpKill | OpPanic => true | _ => false end.

Definition ovl_agrees (c : c04ovl) : bool :=
  let k := v_case c in
  case_agrees k && is_trigger (v_trigger c) &&
  match overlap_chunks (k_opts k) (k_det k) (case_data k) (k_rows k) (k_cols k) (k_ops k)
                       (Z.to_nat (v_during c)) (Z.to_nat (v_after c)) with
  | Some all =>
      chunks_eqb all (k_obs k ++ v_obs c)
      && term_eqb (sem_toks (flat_map snd all) (case_t0 k)) (binterp (flat_map snd (k_obs k ++ v_obs c)) (case_t0 k))
  | None => false
  end.

(* the property on the observation alone: nothing hangs -- neither the Close of the signal / panic path
   nor any Close of the application, overlapping or later ("a second Close is harmless") -- and once the
   first Close has finished, and after every later Close, the terminal is back where it was *)
Fixpoint ovl_obs_ok (t0 : term) (exits : list bool) (obs : list (Z * list seg)) (sofar : list seg) : bool :=
  match exits, obs with
  | e :: r, (code, segs) :: obs' =>
      let sofar' := sofar ++ segs in
      (code =? 0) && (if e then restored t0 (binterp sofar' t0) else true) && ovl_obs_ok t0 r obs' sofar'
  | [], [] => true
  | _, _ => false
  end.

Definition tail_exits (during after : nat) : list bool :=
  false :: repeat false during ++ true :: repeat true after.

Definition ovl_holds (c : c04ovl) : bool :=
  let k := v_case c in
  case_holds k && is_trigger (v_trigger c)
  && ovl_obs_ok (case_t0 k) (tail_exits (Z.to_nat (v_during c)) (Z.to_nat (v_after c))) (v_obs c) (flat_map snd (k_obs k)).

Definition c04_overlap_mismatches (l : list c04ovl) : list Z := bad_indices (fun c => negb (ovl_agrees c)) l.
Definition c04_overlap_violations (l : list c04ovl) : list Z := bad_indices (fun c => negb (ovl_holds c)) l.
