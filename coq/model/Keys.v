(* Model of key.go (property C09): decodeKey, Key.Matches, Key.MatchString, Key.String.
   The tables (Key* constants, specialsKeys, keyNames, the SS3 switch) come from
   gen/GenKeys.v, translated from key.go on every run.  Executable definitions only.

   Go strings are modelled as the list of their code points (exact for valid UTF-8;
   string(rune) / WriteRune of an invalid code point is U+FFFD = [rune_fix]).
   The package unicode is an oracle [uni]; theorems quantify over it, case files
   carry the values of Go's own tables for the runes of the case. *)
From Coq Require Import String Ascii.
From Vx Require Import base.Prelude gen.GenKeys.
Local Open Scope Z_scope.

(* ---------- strings ---------- *)
Definition str (s : string) : list Z :=
  map (fun a => Z.of_nat (nat_of_ascii a)) (list_ascii_of_string s).

Definition MaxRune : Z := 1114111.
Definition RuneError : Z := 65533.
Definition rune_valid (r : Z) : bool :=
  (0 <=? r) && (r <=? MaxRune) && negb ((55296 <=? r) && (r <=? 57343)).
Definition rune_fix (r : Z) : Z := if rune_valid r then r else RuneError.

(* int -> rune conversion (int32 wrap) *)
Definition i32 (x : Z) : Z :=
  let m := x mod 4294967296 in if m <? 2147483648 then m else m - 4294967296.

(* ---------- the unicode oracle ---------- *)
Record uni := mkUni {
  u_upper : Z -> bool; u_lower : Z -> bool; u_letter : Z -> bool;
  u_graphic : Z -> bool; u_print : Z -> bool;
  u_toupper : Z -> Z; u_tolower : Z -> Z;
  u_fold : Z -> Z          (* representative (minimum) of the SimpleFold orbit *)
}.

(* ---------- input sequences (ansi.Sequence) ---------- *)
Inductive kseq :=
  | SPrint (g : list Z)                                   (* ansi.Print{Grapheme} *)
  | SC0 (b : Z)
  | SESC (inter : list Z) (fin : Z)
  | SSS3 (c : Z)
  | SCSI (inter : list Z) (params : list (list Z)) (fin : Z)
  | SOther.                                               (* DCS, OSC, APC, EOF, ... *)

(* ---------- Key ---------- *)
Record key := mkKey {
  k_text : list Z; k_code : Z; k_shifted : Z; k_base : Z; k_mods : Z; k_event : Z }.

Definition key0 : key := mkKey [] 0 0 0 0 0.

Definition key_eqb (a b : key) : bool :=
  zlist_eqb (k_text a) (k_text b) && (k_code a =? k_code b) && (k_shifted a =? k_shifted b) &&
  (k_base a =? k_base b) && (k_mods a =? k_mods b) && (k_event a =? k_event b).

(* ---------- table lookups ---------- *)
Definition lookup2 (t : list ((Z * Z) * Z)) (a b : Z) : option Z :=
  match find (fun e => (fst (fst e) =? a) && (snd (fst e) =? b)) t with
  | Some e => Some (snd e)
  | None => None
  end.

Definition lookup1 (t : list (Z * Z)) (a : Z) : option Z :=
  match find (fun e => fst e =? a) t with
  | Some e => Some (snd e)
  | None => None
  end.

(* key.Keycode, ok = specialsKeys[sk]; if !ok { key.Keycode = rune(ps) } *)
Definition special_code (c fin : Z) : Z :=
  match lookup2 specialsKeys c fin with Some k => k | None => c end.

Definition lock_mask : Z := Z.lor ModCapsLock ModNumLock.

(* ---------- decodeKey ---------- *)

(* case 0 of the parameter loop: key code, shifted code, base-layout code *)
Definition csi_p0 (k : key) (pm : list Z) (fin : Z) : key :=
  let k1 := match pm with
            | [] => k
            | ps :: _ =>
                let c := i32 ps in
                if (c =? 1) && (fin =? 90)
                then mkKey (k_text k) KeyTab (k_shifted k) (k_base k) ModShift (k_event k)
                else mkKey (k_text k) (special_code c fin) (k_shifted k) (k_base k) (k_mods k) (k_event k)
            end in
  let k2 := match nth_error pm 1%nat with
            | Some ps => mkKey (k_text k1) (k_code k1) (i32 ps) (k_base k1) (k_mods k1) (k_event k1)
            | None => k1
            end in
  match nth_error pm 2%nat with
  | Some ps => mkKey (k_text k2) (k_code k2) (k_shifted k2) (i32 ps) (k_mods k2) (k_event k2)
  | None => k2
  end.

(* case 1: modifiers (bitmask + 1) and event type (+ 1); both clamped at 0.
   (`key.Modifiers |= ...` : the Shift implied by CSI Z is kept) *)
Definition csi_p1 (k : key) (pm : list Z) : key :=
  let k1 := match pm with
            | [] => k
            | m :: _ =>
                let v := Z.lor (k_mods k) (i64 (m - 1)) in
                mkKey (k_text k) (k_code k) (k_shifted k) (k_base k) (if v <? 0 then 0 else v) (k_event k)
            end in
  match nth_error pm 1%nat with
  | Some ps =>
      let e := i64 (ps - 1) in
      mkKey (k_text k1) (k_code k1) (k_shifted k1) (k_base k1) (k_mods k1) (if e <? 0 then 0 else e)
  | None => k1
  end.

(* case 2: text as code points, or the key of CSI 27;mods;key~ *)
Definition csi_p2 (k : key) (pm : list Z) (fin : Z) : key :=
  match pm with
  | p :: _ =>
      if (k_code k =? 27) && (fin =? 126)
      then mkKey (k_text k) (i32 p) (k_shifted k) (k_base k) (k_mods k) (k_event k)
      else mkKey (k_text k ++ map (fun p => rune_fix (i32 p)) pm) (k_code k) (k_shifted k) (k_base k) (k_mods k) (k_event k)
  | [] => k
  end.

(* the parameter loop of `case ansi.CSI:` *)
Definition decode_csi_raw (params : list (list Z)) (fin : Z) : key :=
  let params := match params with [] => [[1]] | _ => params end in
  let k0 := match nth_error params 0%nat with Some pm => csi_p0 key0 pm fin | None => key0 end in
  let k1 := match nth_error params 1%nat with Some pm => csi_p1 k0 pm | None => k0 end in
  match nth_error params 2%nat with Some pm => csi_p2 k1 pm fin | None => k1 end.

(* after the loop: `if key.Keycode == 0x08 { key.Keycode = KeyBackspace }` (fix bc2c33a: a Backspace
   reported in CSI form with the BS code point is the same key as the C0 byte) *)
Definition bs_norm (k : key) : key :=
  if k_code k =? 8 then mkKey (k_text k) KeyBackspace (k_shifted k) (k_base k) (k_mods k) (k_event k) else k.

Definition decode_csi (params : list (list Z)) (fin : Z) : key := bs_norm (decode_csi_raw params fin).

Definition decode_c0 (b : Z) : key :=
  if b =? 8 then mkKey [] KeyBackspace 0 0 0 0
  else if b =? 9 then mkKey [] KeyTab 0 0 0 0
  else if b =? 13 then mkKey [] KeyEnter 0 0 0 0
  else if b =? 27 then mkKey [] KeyEsc 0 0 0 0
  else
    let c := if b =? 0 then 64
             else if b <=? 26 then i32 (b + 96)
             else if b <? 32 then i32 (b + 64)
             else 0 in
    mkKey [] c 0 0 ModCtrl 0.

Definition decode_print (u : uni) (g : list Z) : key :=
  let raw := match g with r :: _ => r | [] => 0 end in
  let k := if u_upper u raw
           then mkKey [] (u_tolower u raw) raw 0 ModShift 0
           else mkKey [] raw 0 0 0 0 in
  if k_code k =? KeyBackspace then k
  else mkKey g (k_code k) (k_shifted k) (k_base k) (k_mods k) (k_event k).

(* everything before the Shift work-around *)
Definition decode_pre (u : uni) (s : kseq) : key :=
  match s with
  | SPrint g => decode_print u g
  | SC0 b => decode_c0 b
  | SESC _ fin => mkKey [] fin 0 0 ModAlt 0
  | SSS3 c => mkKey [] (match lookup1 ss3Keys c with Some k => k | None => 0 end) 0 0 0 0
  | SCSI _ params fin => decode_csi params fin
  | SOther => key0
  end.

(* the ghostty/foot work-around: Shift only, no text, printable key code *)
Definition decode_finish (u : uni) (k : key) : key :=
  let nmods := Z.ldiff (k_mods k) lock_mask in
  match k_text k with
  | [] => if (nmods =? ModShift) && u_print u (k_code k)
          then mkKey [rune_fix (u_toupper u (k_code k))] (k_code k) (k_shifted k) (k_base k) (k_mods k) (k_event k)
          else k
  | _ => k
  end.

Definition decode_key (u : uni) (s : kseq) : key := decode_finish u (decode_pre u s).

(* decodeKey as it was before fix bc2c33a (no BS normalisation in the CSI case); used only to show
   that the own-binding theorem was false of it *)
Definition decode_key_unfixed (u : uni) (s : kseq) : key :=
  decode_finish u (match s with SCSI _ params fin => decode_csi_raw params fin | _ => decode_pre u s end).

(* ---------- Key.Matches (modifiers already or-ed into one mask) ---------- *)
Definition strip2 (m : Z) : Z := Z.ldiff (Z.ldiff m ModCapsLock) ModNumLock.

Definition matches (u : uni) (k : key) (r mods : Z) : bool :=
  let mods := strip2 mods in
  let kMods := strip2 (k_mods k) in
  let ukMods := Z.ldiff kMods ModShift in
  let uMods := Z.ldiff mods ModShift in
  ((k_code k =? r) && (mods =? kMods))                                    (* rule 1 *)
  || (zlist_eqb (k_text k) [rune_fix r] && (mods =? kMods))               (* rule 2 *)
  || ((k_shifted k =? r) && (mods =? ukMods))                             (* rule 3 *)
  || ((k_base k =? r) && (mods =? kMods))                                 (* rule 4 *)
  || (negb (u_letter u r) && u_graphic u r &&                             (* rule 5 *)
      (((k_code k =? r) && (ukMods =? uMods)) || ((k_shifted k =? r) && (ukMods =? uMods))))
  || (negb (Z.land mods ModShift =? 0) && u_lower u r &&                  (* rule 6 *)
      zlist_eqb (k_text k) [rune_fix (u_toupper u r)] && (uMods =? ukMods)).

(* ---------- Key.String ---------- *)
Definition has_bit (m b : Z) : bool := negb (Z.land m b =? 0).

Definition key_name (c : Z) : list Z :=
  match find (fun kn => fst kn =? c) keyNames with
  | Some kn => snd kn
  | None => []
  end.

Definition mods_prefix (k : key) : list Z :=
  if k_event k =? EventRelease then []
  else
    let m := k_mods k in
    (if has_bit m ModMeta then str "Meta+" else []) ++
    (if has_bit m ModHyper then str "Hyper+" else []) ++
    (if has_bit m ModSuper then str "Super+" else []) ++
    (if has_bit m ModCtrl then str "Ctrl+" else []) ++
    (if has_bit m ModAlt then str "Alt+" else []) ++
    (if has_bit m ModShift then str "Shift+" else []).

Definition key_string (u : uni) (k : key) : list Z :=
  let c := k_code k in
  let pre := mods_prefix k in
  if (c =? KeyTab) || (c =? KeySpace) || (c =? KeyEsc) || (c =? KeyBackspace) || (c =? KeyEnter)
  then pre ++ key_name c
  else if c =? 8 then pre ++ key_name KeyBackspace
  else if c <? 0 then str "invalid"
  else if c <? 32 then
    str "Ctrl+" ++ [if c =? 0 then 64 else if c <=? 26 then c + 96 else c + 64]
  else if c <=? MaxRune then
    pre ++ [rune_fix (if has_bit (k_mods k) ModCapsLock then u_toupper u c else c)] ++ key_name c
  else pre ++ key_name c.

(* ---------- Key.MatchString ---------- *)
(* strings.Split(s, "+") *)
Fixpoint split_plus (cur : list Z) (s : list Z) : list (list Z) :=
  match s with
  | [] => [rev cur]
  | c :: t => if c =? 43 then rev cur :: split_plus [] t else split_plus (c :: cur) t
  end.

Definition mod_of_name (m : list Z) : Z :=
  if zlist_eqb m (str "shift") then ModShift
  else if zlist_eqb m (str "alt") then ModAlt
  else if zlist_eqb m (str "ctrl") then ModCtrl
  else if zlist_eqb m (str "super") then ModSuper
  else if zlist_eqb m (str "hyper") then ModHyper
  else if zlist_eqb m (str "meta") then ModMeta
  else if zlist_eqb m (str "caps") then ModCapsLock
  else if zlist_eqb m (str "num") then ModNumLock
  else 0.

(* strings.EqualFold on valid UTF-8 *)
Definition equal_fold (u : uni) (a b : list Z) : bool :=
  list_eqb (fun x y => u_fold u x =? u_fold u y) a b.

Definition match_string (u : uni) (k : key) (tgt : list Z) : bool :=
  match tgt with
  | [] => false
  | [r] => matches u k r 0
  | _ =>
      let vals := split_plus [] tgt in
      let name := last vals [] in
      let mask := fold_left (fun acc m => Z.lor acc (mod_of_name (map (u_tolower u) m))) (removelast vals) 0 in
      match name with
      | [] => matches u k RuneError mask          (* DecodeRuneInString("") = (RuneError, 0) *)
      | [r] => matches u k r mask
      | r :: _ =>
          match find (fun kn => equal_fold u (snd kn) name) keyNames with
          | Some kn => matches u k (fst kn) mask
          | None => matches u k r mask
          end
      end
  end.

(* ================= specification side (independent of the code above) ================= *)

(* ---- what the protocols say a number means (xterm ctlseqs / VT220 / kitty keyboard protocol),
        written by hand with the names of key.go ---- *)
Definition kitty_lock_keys := [KeyCapsLock; KeyScrollLock; KeyNumlock; KeyPrintScreen; KeyPause; KeyMenu].
Definition kitty_f13_f35 :=
  [KeyF13; KeyF14; KeyF15; KeyF16; KeyF17; KeyF18; KeyF19; KeyF20; KeyF21; KeyF22; KeyF23; KeyF24;
   KeyF25; KeyF26; KeyF27; KeyF28; KeyF29; KeyF30; KeyF31; KeyF32; KeyF33; KeyF34; KeyF35].
Definition kitty_keypad :=
  [KeyKeyPad0; KeyKeyPad1; KeyKeyPad2; KeyKeyPad3; KeyKeyPad4; KeyKeyPad5; KeyKeyPad6; KeyKeyPad7;
   KeyKeyPad8; KeyKeyPad9; KeyKeyPadDecimal; KeyKeyPadDivide; KeyKeyPadMultiply; KeyKeyPadSubtract;
   KeyKeyPadAdd; KeyKeyPadEnter; KeyKeyPadEqual; KeyKeyPadSeparator; KeyKeyPadLeft; KeyKeyPadRight;
   KeyKeyPadUp; KeyKeyPadDown; KeyKeyPadPageUp; KeyKeyPadPageDown; KeyKeyPadHome; KeyKeyPadEnd;
   KeyKeyPadInsert; KeyKeyPadDelete].
Definition kitty_media :=
  [KeyMediaPlay; KeyMediaPause; KeyMediaPlayPause; KeyMediaRev; KeyMediaStop; KeyMediaFF;
   KeyMediaRewind; KeyMediaNext; KeyMediaPrev; KeyMediaRecord; KeyMediaVolDown; KeyMediaVolUp; KeyMediaMute].
Definition kitty_modkeys :=
  [KeyLeftShift; KeyLeftControl; KeyLeftAlt; KeyLeftSuper; KeyLeftHyper; KeyLeftMeta;
   KeyRightShift; KeyRightControl; KeyRightAlt; KeyRightSuper; KeyRightHyper; KeyRightMeta;
   KeyL3Shift; KeyL5Shift].

(* legacy `CSI n ~` numbers (VT220 / xterm) *)
Definition tilde_spec : list (Z * Z) :=
  [(1, KeyHome); (2, KeyInsert); (3, KeyDelete); (4, KeyEnd); (5, KeyPgUp); (6, KeyPgDown);
   (7, KeyHome); (8, KeyEnd);
   (11, KeyF01); (12, KeyF02); (13, KeyF03); (14, KeyF04); (15, KeyF05);
   (17, KeyF06); (18, KeyF07); (19, KeyF08); (20, KeyF09); (21, KeyF10);
   (23, KeyF11); (24, KeyF12); (25, KeyF13); (26, KeyF14); (28, KeyF15); (29, KeyF16);
   (31, KeyF17); (32, KeyF18); (33, KeyF19); (34, KeyF20);
   (57427, KeyKeyPadBegin)].

(* `CSI 1 ; m X` / `CSI X` / `SS3 X` letters *)
Definition letter_spec : list (Z * Z) :=
  [(65, KeyUp); (66, KeyDown); (67, KeyRight); (68, KeyLeft); (69, KeyKeyPadBegin); (70, KeyEnd);
   (72, KeyHome); (80, KeyF01); (81, KeyF02); (82, KeyF03); (83, KeyF04)].
(* SS3 (application mode) letters *)
Definition ss3_spec : list (Z * Z) :=
  [(65, KeyUp); (66, KeyDown); (67, KeyRight); (68, KeyLeft); (70, KeyEnd);
   (72, KeyHome); (80, KeyF01); (81, KeyF02); (82, KeyF03); (83, KeyF04)].

(* the numbers of the kitty protocol are consecutive within each group *)
Fixpoint number_from (fin n : Z) (l : list Z) : list ((Z * Z) * Z) :=
  match l with
  | [] => []
  | k :: t => ((n, fin), k) :: number_from fin (n + 1) t
  end.

Definition spec_table : list ((Z * Z) * Z) :=
  [((27, 117), KeyEsc); ((13, 117), KeyEnter); ((9, 117), KeyTab); ((127, 117), KeyBackspace)]
  ++ number_from 117 57358 kitty_lock_keys
  ++ number_from 117 57376 kitty_f13_f35
  ++ number_from 117 57399 kitty_keypad
  ++ number_from 117 57428 kitty_media
  ++ number_from 117 57441 kitty_modkeys
  ++ map (fun e => ((fst e, 126), snd e)) tilde_spec
  ++ map (fun e => ((1, fst e), snd e)) letter_spec.

(* a number that the protocols do not define stands for itself (a Unicode code point) *)
Definition spec_code (n fin : Z) : Z :=
  match lookup2 spec_table n fin with Some k => k | None => n end.

(* ---- the general shape of a CSI key report ----
     CSI n[:s[:b]] [; m[:e] [; t1:t2:...]] F     (an empty field is transmitted as 0)
   n0 = number of alternate sub-fields present (0..2), n1 = number of sub-fields of the second
   parameter present (0..2), tx = None when the third parameter is absent. *)
Record csi_shape := mkShape {
  sh_n : Z; sh_s : Z; sh_b : Z; sh_n0 : Z;
  sh_m : Z; sh_e : Z; sh_n1 : Z;
  sh_tx : option (list Z);
  sh_fin : Z }.

Definition shape_params (x : csi_shape) : list (list Z) :=
  let p0 := sh_n x :: (if sh_n0 x =? 0 then [] else if sh_n0 x =? 1 then [sh_s x] else [sh_s x; sh_b x]) in
  let p1 := if sh_n1 x =? 0 then [0] else if sh_n1 x =? 1 then [sh_m x] else [sh_m x; sh_e x] in
  match sh_tx x with
  | Some tx => [p0; p1; tx]
  | None => if sh_n1 x =? 0 then [p0] else [p0; p1]
  end.

Definition shape_seq (x : csi_shape) : kseq := SCSI [] (shape_params x) (sh_fin x).

(* what such a report means: code by the protocol tables, modifiers = m - 1 (absent/empty: none),
   event = e - 1 (absent/empty: press), text = the code points given; the code point BS is the
   Backspace key; the documented work-around adds
   the upper-cased key as text when only Shift is held and no text was sent.  Back-tab (CSI 1 Z /
   CSI Z) is Tab with Shift in addition to the modifiers of the report. *)
Definition spec_finish (u : uni) (k : key) : key :=
  if (match k_text k with [] => true | _ => false end)
     && (Z.ldiff (k_mods k) 192 =? 1) && u_print u (k_code k)
  then mkKey [rune_fix (u_toupper u (k_code k))] (k_code k) (k_shifted k) (k_base k) (k_mods k) (k_event k)
  else k.

(* the BS code point stands for the Backspace key (as the C0 byte does) *)
Definition spec_bs (c : Z) : Z := if c =? 8 then KeyBackspace else c.

Definition shape_spec (u : uni) (x : csi_shape) : key :=
  let backtab := (sh_n x =? 1) && (sh_fin x =? 90) in
  let m := if 1 <=? sh_n1 x then Z.max 0 (sh_m x - 1) else 0 in
  spec_finish u
    (mkKey (match sh_tx x with Some tx => map rune_fix tx | None => [] end)
           (spec_bs (if backtab then KeyTab else spec_code (sh_n x) (sh_fin x)))
           (if 1 <=? sh_n0 x then sh_s x else 0)
           (if 2 <=? sh_n0 x then sh_b x else 0)
           (if backtab then Z.lor 1 m else m)
           (if 2 <=? sh_n1 x then Z.max 0 (sh_e x - 1) else 0)).

(* domain of the shape theorem / generator: fields are non-negative 31-bit numbers, the text of a
   `27;m;k~` report is the xterm modifyOtherKeys form and is specified separately *)
Definition small (v : Z) : bool := (0 <=? v) && (v <? 2147483648).
Definition shape_ok (x : csi_shape) : bool :=
  small (sh_n x) && small (sh_s x) && small (sh_b x) && small (sh_m x) && small (sh_e x) &&
  in_range (sh_n0 x) 0 2 && in_range (sh_n1 x) 0 2 &&
  match sh_tx x with Some tx => forallb small tx | None => true end &&
  negb ((sh_n x =? 27) && (sh_fin x =? 126) && match sh_tx x with Some (_ :: _) => true | _ => false end) &&
  (* a back-tab report with an empty modifier field is outside the specified domain *)
  negb ((sh_n x =? 1) && (sh_fin x =? 90) &&
        (if sh_n1 x =? 0 then match sh_tx x with Some _ => true | None => false end else sh_m x =? 0)).

(* xterm modifyOtherKeys: CSI 27 ; m ; k ~  = key k (BS = Backspace) with modifiers m - 1 *)
Definition other_keys_seq (m k : Z) : kseq := SCSI [] [[27]; [m]; [k]] 126.
Definition other_keys_spec (u : uni) (m k : Z) : key :=
  spec_finish u (mkKey [] (spec_bs k) 0 0 (Z.max 0 (m - 1)) 0).

(* legacy bytes *)
Definition c0_spec (b : Z) : key :=
  if b =? 8 then mkKey [] KeyBackspace 0 0 0 0
  else if b =? 9 then mkKey [] KeyTab 0 0 0 0
  else if b =? 13 then mkKey [] KeyEnter 0 0 0 0
  else if b =? 27 then mkKey [] KeyEsc 0 0 0 0
  else if b =? 0 then mkKey [] 64 0 0 ModCtrl 0                 (* Ctrl+@ *)
  else if b <=? 26 then mkKey [] (b + 96) 0 0 ModCtrl 0         (* Ctrl+a .. Ctrl+z *)
  else mkKey [] (b + 64) 0 0 ModCtrl 0.                         (* Ctrl+\ ] ^ _ *)

(* a printed character: an upper-case letter is Shift + its lower-case letter; DEL is Backspace *)
Definition print_spec (u : uni) (g : list Z) : key :=
  let r := match g with r :: _ => r | [] => 0 end in
  if r =? 127 then mkKey [] KeyBackspace 0 0 0 0
  else if u_upper u r then mkKey g (u_tolower u r) r 0 ModShift 0
  else mkKey g r 0 0 0 0.

(* ---- encodings used by the decode stream ---- *)
Inductive encoding :=
  | EPrint (g : list Z)
  | EC0 (b : Z)                       (* 0 <= b < 32 *)
  | EEsc (c : Z)                      (* ESC c = Alt + c *)
  | ESs3 (c : Z)
  | EShape (x : csi_shape)
  | EOtherKeys (m k : Z).

Definition enc_seq (e : encoding) : kseq :=
  match e with
  | EPrint g => SPrint g
  | EC0 b => SC0 b
  | EEsc c => SESC [] c
  | ESs3 c => SSS3 c
  | EShape x => shape_seq x
  | EOtherKeys m k => other_keys_seq m k
  end.

Definition enc_spec (u : uni) (e : encoding) : option key :=
  match e with
  | EPrint g => match g with [] => None | _ => Some (print_spec u g) end
  | EC0 b => if in_range b 0 31 then Some (c0_spec b) else None
  | EEsc c => Some (mkKey [] c 0 0 ModAlt 0)
  | ESs3 c => match lookup1 ss3_spec c with Some k => Some (mkKey [] k 0 0 0 0) | None => None end
  | EShape x => if shape_ok x then Some (shape_spec u x) else None
  | EOtherKeys m k => if small m && small k then Some (other_keys_spec u m k) else None
  end.

(* ---- Matches: the property on one observation ---- *)
Definition strip_locks (m : Z) : Z := Z.ldiff m 192.
Definition nonshift (m : Z) : Z := Z.ldiff m 1.
Definition shift_of (m : Z) : bool := Z.testbit m 0.

(* the documented ways in which a difference in Shift is forgiven *)
Definition shift_forgiven (u : uni) (k : key) (r mods : Z) : bool :=
  ((k_shifted k =? r) && negb (shift_of mods))                                         (* rule 3 *)
  || (negb (u_letter u r) && u_graphic u r && ((k_code k =? r) || (k_shifted k =? r))) (* rules 5, 6 *)
  || (shift_of mods && u_lower u r && zlist_eqb (k_text k) [rune_fix (u_toupper u r)]). (* last rule *)

Definition match_obs_ok (u : uni) (k : key) (r mods : Z) (obs : bool) : bool :=
  (* sound: a match implies all modifiers but Shift and the locks are identical *)
  (negb obs || (nonshift (strip_locks mods) =? nonshift (strip_locks (k_mods k))))
  (* Shift may differ only in the documented ways *)
  && (negb obs || Bool.eqb (shift_of mods) (shift_of (k_mods k)) || shift_forgiven u k r mods)
  (* the chord itself matches *)
  && (negb ((r =? k_code k) && (strip_locks mods =? strip_locks (k_mods k))) || obs).

(* ---- the executable oracle: ASCII is built in (checked against Go by the oracle stream), other
        runes are looked up in the table shipped with the case ---- *)
Definition uinfo := (Z * Z * Z * Z)%type.      (* flags (bit0 upper,1 lower,2 letter,3 graphic,4 print), upper, lower, fold *)

Definition ascii_info (r : Z) : uinfo :=
  let up := in_range r 65 90 in
  let lo := in_range r 97 122 in
  let flags := (if up then 1 else 0) + (if lo then 2 else 0) + (if up || lo then 4 else 0)
               + (if in_range r 32 126 then 8 + 16 else 0) in
  (flags, (if lo then r - 32 else r), (if up then r + 32 else r), (if lo then r - 32 else r)).

Definition utab := list (Z * uinfo).

Definition info_of (t : utab) (r : Z) : uinfo :=
  if in_range r 0 127 then ascii_info r
  else match find (fun e => fst e =? r) t with
       | Some e => snd e
       | None => (0, r, r, r)
       end.

Definition uni_of (t : utab) : uni :=
  let fl r := match info_of t r with (f, _, _, _) => f end in
  mkUni (fun r => Z.testbit (fl r) 0) (fun r => Z.testbit (fl r) 1) (fun r => Z.testbit (fl r) 2)
        (fun r => Z.testbit (fl r) 3) (fun r => Z.testbit (fl r) 4)
        (fun r => match info_of t r with (_, a, _, _) => a end)
        (fun r => match info_of t r with (_, _, b, _) => b end)
        (fun r => match info_of t r with (_, _, _, c) => c end).

Definition ascii_uni : uni := uni_of [].

(* a rune is covered when its oracle values are known: ASCII, outside the Unicode range (all
   predicates false, mappings the identity), or listed in the table *)
Definition covered (t : utab) (r : Z) : bool :=
  in_range r 0 127 || (r <? 0) || (MaxRune <? r) || existsb (fun e => fst e =? r) t.

Definition uinfo_eqb (a b : uinfo) : bool :=
  match a, b with (f, x, y, z), (f', x', y', z') => (f =? f') && (x =? x') && (y =? y') && (z =? z') end.

(* ================= correspondence streams ================= *)

(* oracle stream: (rune, Go's values); ASCII must agree with ascii_info, runes outside the
   Unicode range must have no class and identity mappings *)
Definition c09_oracle_mismatches (cases : list (Z * uinfo)) : list Z :=
  bad_indices (fun c =>
    let '(r, i) := c in
    if in_range r 0 127 then negb (uinfo_eqb i (ascii_info r))
    else if (r <? 0) || (MaxRune <? r) then negb (uinfo_eqb i (0, r, r, r))
    else false) cases.
(* the hypotheses the theorems put on the oracle, checked on Go's values: ToUpper of a lower-case
   rune is never an ASCII character other than A-Z (upper_hyp, cross-protocol theorem); ToLower of
   an upper-case rune is never DEL (decode of a legacy byte) *)
Definition c09_oracle_violations (cases : list (Z * uinfo)) : list Z :=
  bad_indices (fun c =>
    let '(r, (f, up, lo, fo)) := c in
    (Z.testbit f 1 && in_range up 32 126 && negb (in_range up 65 90))
    || (Z.testbit f 0 && (lo =? 127))) cases.

(* decode stream: (oracle table, encoding if the sequence was built from one, sequence fed to
   decodeKey, key returned) *)
Definition decode_case := (utab * option encoding * kseq * key)%type.

Definition seq_first_rune (s : kseq) : Z :=
  match s with SPrint (r :: _) => r | _ => 0 end.

Fixpoint zlist_list_eqb (a b : list (list Z)) : bool :=
  match a, b with
  | [], [] => true
  | x :: a', y :: b' => zlist_eqb x y && zlist_list_eqb a' b'
  | _, _ => false
  end.

Definition kseq_eqb (a b : kseq) : bool :=
  match a, b with
  | SPrint g, SPrint g' => zlist_eqb g g'
  | SC0 x, SC0 y => x =? y
  | SESC i f, SESC i' f' => zlist_eqb i i' && (f =? f')
  | SSS3 x, SSS3 y => x =? y
  | SCSI i p f, SCSI i' p' f' => zlist_eqb i i' && zlist_list_eqb p p' && (f =? f')
  | SOther, SOther => true
  | _, _ => false
  end.

Definition decode_covered (t : utab) (s : kseq) : bool :=
  let u := uni_of t in
  covered t (seq_first_rune s) && covered t (k_code (decode_pre u s)).

Definition c09_decode_mismatches (cases : list decode_case) : list Z :=
  bad_indices (fun c =>
    let '(t, e, s, obs) := c in
    negb (decode_covered t s)
    || negb (key_eqb (decode_key (uni_of t) s) obs)
    || match e with Some e => negb (kseq_eqb (enc_seq e) s) | None => false end) cases.

Definition c09_decode_violations (cases : list decode_case) : list Z :=
  bad_indices (fun c =>
    let '(t, e, s, obs) := c in
    match e with
    | Some e => match enc_spec (uni_of t) e with
                | Some k => negb (key_eqb k obs)
                | None => false
                end
    | None => false
    end) cases.

(* match stream: (table, key event, binding rune, binding mods, lock bits xor-ed into the event's
   and the binding's modifiers for the second call, result, result of the second call) *)
Definition match_case := (utab * key * Z * Z * Z * Z * bool * bool)%type.

Definition with_mods (k : key) (m : Z) : key :=
  mkKey (k_text k) (k_code k) (k_shifted k) (k_base k) m (k_event k).

Definition c09_match_mismatches (cases : list match_case) : list Z :=
  bad_indices (fun c =>
    let '(t, k, r, mods, l1, l2, obs, obs2) := c in
    let u := uni_of t in
    negb (covered t r && covered t (u_toupper u r))
    || negb (Bool.eqb (matches u k r mods) obs)
    || negb (Bool.eqb (matches u (with_mods k (Z.lxor (k_mods k) l1)) r (Z.lxor mods l2)) obs2)) cases.

Definition c09_match_violations (cases : list match_case) : list Z :=
  bad_indices (fun c =>
    let '(t, k, r, mods, l1, l2, obs, obs2) := c in
    let u := uni_of t in
    negb (match_obs_ok u k r mods obs)
    || negb (Bool.eqb obs obs2)) cases.

(* string stream: (table, key, Key.String(), Key.MatchString(Key.String()), a second key built by the
   harness as a variation of the first - other text / alternate codes / Num Lock / press or repeat, Caps
   Lock where String() does not look at it, the code points BS and DEL exchanged - and its String()) *)
Definition string_case := (utab * key * list Z * bool * key * list Z)%type.

(* keys whose String() is promised to be a binding that matches them: not a release event (String
   drops the modifiers of a release), no Caps Lock (String upper-cases the rune), a key that has a
   name or is a printable non-control rune, and not '+' with modifiers (the separator) *)
Definition string_selfmatch_scope (u : uni) (k : key) : bool :=
  negb (k_event k =? EventRelease) && negb (has_bit (k_mods k) ModCapsLock)
  && (in_range (k_mods k) 0 255)
  && ((in_range (k_code k) 32 MaxRune && rune_valid (k_code k) && negb (k_code k =? 43 ) && negb (k_code k =? 127))
      || (MaxRune <? k_code k) && negb (match key_name (k_code k) with [] => true | _ => false end)
      || (k_code k =? KeyTab) || (k_code k =? KeyEnter) || (k_code k =? KeyEsc) || (k_code k =? KeyBackspace)).

Definition c09_string_mismatches (cases : list string_case) : list Z :=
  bad_indices (fun c =>
    let '(t, k, s, ms, k2, s2) := c in
    let u := uni_of t in
    negb (covered t (k_code k) && forallb (covered t) s && covered t (k_code k2) && forallb (covered t) s2)
    || negb (zlist_eqb (key_string u k) s)
    || negb (zlist_eqb (key_string u k2) s2)
    || negb (Bool.eqb (match_string u k s) ms)) cases.

(* binding-string stream: (table, key, binding string, Some (mask, rune, k.Matches(rune, mask)) when the
   string was printed from that binding, k.MatchString(string)) *)
Definition mstring_case := (utab * key * list Z * option (Z * Z * bool) * bool)%type.

Definition c09_mstring_mismatches (cases : list mstring_case) : list Z :=
  bad_indices (fun c =>
    let '(t, k, tgt, _, obs) := c in
    let u := uni_of t in
    negb (forallb (covered t) tgt && forallb (fun r => covered t (u_toupper u r)) tgt)
    || negb (Bool.eqb (match_string u k tgt) obs)) cases.

Definition c09_mstring_violations (cases : list mstring_case) : list Z :=
  bad_indices (fun c =>
    let '(t, k, tgt, b, obs) := c in
    match b with
    | Some (_, _, direct) => negb (Bool.eqb obs direct)
    | None => false
    end) cases.

(* ================= cross-protocol: chords and their encodings ================= *)
(* A chord is a key (a printable ASCII character as typed without Shift, or a Key* constant) with a
   set of modifiers (no lock bits).  [legacy_encs] lists what a terminal in legacy (xterm) mode sends
   for it, [kitty_encs] what a terminal in kitty keyboard mode may send (any progressive-enhancement
   flags: with or without alternate codes, base-layout code, associated text, explicit press event,
   lock bits).  A chord is both-expressible when its legacy list is non-empty and the legacy byte
   string is injective: it is the encoding of no other chord. *)
Record chord := mkChord { ch_code : Z; ch_mods : Z }.

Definition is_lower_ascii (c : Z) : bool := in_range c 97 122.
Definition printable_nonupper (c : Z) : bool := in_range c 32 126 && negb (in_range c 65 90).
(* ESC c is deliverable as one escape sequence: c is not an intermediate (0x20-0x2F) and does not
   start a control string or CSI/SS3 ( [ \ ] ^ _ and, upper-cased, O P X ) *)
Definition alt_ok (c : Z) : bool := in_range c 48 126 && negb (in_range c 65 95).
Definition alt_shift_ok (c : Z) : bool :=
  is_lower_ascii c && negb ((c =? 111) || (c =? 112) || (c =? 120)).
(* Ctrl+letter whose C0 byte is not also Tab (i), Enter (m) or Backspace (h); Ctrl+\ and Ctrl+] *)
Definition ctrl_ok (c : Z) : bool :=
  (is_lower_ascii c && negb ((c =? 104) || (c =? 105) || (c =? 109))) || (c =? 92) || (c =? 93).

Definition keys_of (t : list (Z * Z)) (k : Z) : list Z :=
  map fst (filter (fun e => snd e =? k) t).

Definition legacy_tilde : list (Z * Z) := filter (fun e => fst e <? 100) tilde_spec.

Definition legacy_encs (c : chord) : list kseq :=
  let k := ch_code c in
  let m := ch_mods c in
  if in_range k 32 126 then
    if (m =? 0) && printable_nonupper k then [SPrint [k]]
    else if (m =? 1) && is_lower_ascii k then [SPrint [k - 32]]
    else if (m =? 2) && alt_ok k then [SESC [] k]
    else if (m =? 3) && alt_shift_ok k then [SESC [] (k - 32)]
    else if (m =? 4) && ctrl_ok k then [SC0 (if is_lower_ascii k then k - 96 else k - 64)]
    else []
  else if k =? KeyTab then
    (if m =? 0 then [SC0 9] else if m =? 1 then [SCSI [] [] 90; SCSI [] [[1]; [2]] 90] else [])
  else if k =? KeyEnter then (if m =? 0 then [SC0 13] else [])
  else if k =? KeyEsc then (if m =? 0 then [SC0 27] else [])
  else if k =? KeyBackspace then
    (if m =? 0 then [SPrint [127]; SC0 8] else if m =? 2 then [SESC [] 127] else [])
  else if in_range m 0 63 then
    flat_map (fun fin => if m =? 0 then SCSI [] [] fin :: (if existsb (Z.eqb fin) (keys_of ss3_spec k) then [SSS3 fin] else [])
                         else [SCSI [] [[1]; [m + 1]] fin]) (keys_of letter_spec k)
    ++ map (fun n => if m =? 0 then SCSI [] [[n]] 126 else SCSI [] [[n]; [m + 1]] 126) (keys_of legacy_tilde k)
  else [].

(* one kitty report: number n, final, alternates, modifiers m with lock bits l, explicit press
   event or not, text or not *)
Definition kitty_seq (n fin : Z) (alts : list Z) (m l : Z) (ev : bool) (tx : option (list Z)) : list kseq :=
  let p0 := n :: alts in
  let p1 := if ev then [m + l + 1; 1] else [m + l + 1] in
  match tx with
  | Some t => [SCSI [] [p0; p1; t] fin]
  | None =>
      if (m + l =? 0) && negb ev
      then SCSI [] [p0; p1] fin :: SCSI [] [p0] fin ::
           (if (n =? 1) && negb (fin =? 117) && negb (fin =? 126) && (match alts with [] => true | _ => false end) then [SCSI [] [] fin] else [])
      else [SCSI [] [p0; p1] fin]
  end.

Definition kitty_f_numbers (k : Z) : list Z :=
  map (fun e => fst (fst e)) (filter (fun e => snd e =? k) (number_from 117 57376 (firstn 8 kitty_f13_f35))).

Definition bools := [false; true].

Definition kitty_encs (c : chord) : list kseq :=
  let k := ch_code c in
  let m := ch_mods c in
  if in_range k 32 126 then
    let shifted := is_lower_ascii k && Z.testbit m 0 in
    let altss := [[]; [0; k]] ++ (if shifted then [[k - 32]; [k - 32; k]] else []) in
    let txs := None :: (if (m =? 0) then [Some [k]] else if (m =? 1) && is_lower_ascii k then [Some [k - 32]] else []) in
    flat_map (fun alts => flat_map (fun tx => flat_map (fun l => flat_map (fun ev =>
      kitty_seq k 117 alts m l ev tx) bools) [0; 128]) txs) altss
  else
    let forms :=
      if (k =? KeyTab) || (k =? KeyEnter) || (k =? KeyEsc) || (k =? KeyBackspace) then [(k, 117)]
      else map (fun fin => (1, fin)) (keys_of letter_spec k)
           ++ map (fun n => (n, 126)) (keys_of legacy_tilde k)
           ++ map (fun n => (n, 117)) (kitty_f_numbers k) in
    flat_map (fun nf => flat_map (fun l => flat_map (fun ev =>
      kitty_seq (fst nf) (snd nf) [] m l ev None) bools) [0; 64; 128; 192]) forms.

(* the chords both protocols express unambiguously (fixed before any result was looked at) *)
Definition named_chord_keys : list Z :=
  [KeyUp; KeyDown; KeyRight; KeyLeft; KeyKeyPadBegin; KeyEnd; KeyHome; KeyInsert; KeyDelete; KeyPgUp; KeyPgDown;
   KeyF01; KeyF02; KeyF03; KeyF04; KeyF05; KeyF06; KeyF07; KeyF08; KeyF09; KeyF10; KeyF11; KeyF12;
   KeyF13; KeyF14; KeyF15; KeyF16; KeyF17; KeyF18; KeyF19; KeyF20].

Fixpoint zrange (a : Z) (n : nat) : list Z :=
  match n with O => [] | S n' => a :: zrange (a + 1) n' end.

Definition both_expressible : list chord :=
  filter (fun c => match legacy_encs c with [] => false | _ => true end)
    (flat_map (fun k => map (mkChord k) [0; 1; 2; 3; 4]) (zrange 32 95)
     ++ [mkChord KeyTab 0; mkChord KeyTab 1; mkChord KeyEnter 0; mkChord KeyEsc 0; mkChord KeyBackspace 0; mkChord KeyBackspace 2]
     ++ flat_map (fun k => map (mkChord k) (zrange 0 64)) named_chord_keys).

(* recorded findings, excluded by explicit guards:
   - esc-upper: Alt+Shift+letter, legacy ESC <upper-case letter>, is decoded as Alt+<upper-case letter>
     without Shift and without lower-casing;
   - kitty-shift-without-alternate: Shift+letter reported by kitty without the shifted alternate code
     does not match the binding of the upper-case letter, which the legacy byte does. *)
Definition guard_esc_upper (c : chord) : bool := in_range (ch_code c) 32 126 && (ch_mods c =? 3).
Definition guard_shift_noalt (c : chord) (sk : kseq) : bool :=
  in_range (ch_code c) 32 126 && Z.testbit (ch_mods c) 0 &&
  match sk with
  | SCSI _ ((_ :: s :: _) :: _) _ => s =? 0
  | _ => true
  end.
Definition cross_guard (c : chord) (sk : kseq) : bool := negb (guard_esc_upper c) && negb (guard_shift_noalt c sk).

(* two key events that are indistinguishable for String() *)
Definition kstr_equivb (a b : key) : bool :=
  (k_code a =? k_code b) && zlist_eqb (mods_prefix a) (mods_prefix b) &&
  (Bool.eqb (has_bit (k_mods a) ModCapsLock) (has_bit (k_mods b) ModCapsLock)
   || (MaxRune <? k_code a) || (k_code a <? 32)
   || (k_code a =? KeySpace) || (k_code a =? KeyBackspace)).

(* ... and for Matches against every binding with a non-zero rune: same code, shifted code and
   modifiers up to locks; the base-layout code may be absent or equal to the key code; the text may be
   absent or the key itself when the key is an ASCII character other than A-Z *)
Definition safe_text_code (c : Z) : bool := printable_nonupper c.
Definition kmatch_equivb (a b : key) : bool :=
  (k_code a =? k_code b) && (k_shifted a =? k_shifted b) && (strip_locks (k_mods a) =? strip_locks (k_mods b)) &&
  ((k_base a =? k_base b) ||
   (((k_base a =? 0) || (k_base a =? k_code a)) && ((k_base b =? 0) || (k_base b =? k_code b)))) &&
  (zlist_eqb (k_text a) (k_text b) ||
   (safe_text_code (k_code a) &&
    (zlist_eqb (k_text a) [] || zlist_eqb (k_text a) [k_code a]) &&
    (zlist_eqb (k_text b) [] || zlist_eqb (k_text b) [k_code b]))).

(* the runes decodeKey asks the oracle about *)
Definition in_dom (r : Z) : bool := in_range r 0 127 || (r <? 0) || (MaxRune <? r).
Definition seq_dom_ok (s : kseq) : bool :=
  in_dom (seq_first_rune s) && in_dom (k_code (decode_pre ascii_uni s)).

Definition cross_pair_ok (c : chord) (sl sk : kseq) : bool :=
  seq_dom_ok sl && seq_dom_ok sk &&
  (negb (cross_guard c sk) ||
   (kstr_equivb (decode_key ascii_uni sl) (decode_key ascii_uni sk) &&
    kmatch_equivb (decode_key ascii_uni sl) (decode_key ascii_uni sk))).

Definition cross_chord_ok (c : chord) : bool :=
  forallb (fun sl => forallb (fun sk => cross_pair_ok c sl sk) (kitty_encs c)) (legacy_encs c).
Definition cross_all_ok : bool := forallb cross_chord_ok both_expressible.

Definition chord_eqb (a b : chord) : bool := (ch_code a =? ch_code b) && (ch_mods a =? ch_mods b).

(* cross stream: (chord, legacy sequence, kitty sequence, String() of both decoded keys, a list of
   bindings (rune, mods, Matches on the legacy key, Matches on the kitty key)) *)
Definition cross_case := (chord * kseq * kseq * list Z * list Z * list (Z * Z * bool * bool))%type.

Definition c09_cross_mismatches (cases : list cross_case) : list Z :=
  bad_indices (fun cs =>
    let '(c, sl, sk, strl, strk, bs) := cs in
    let kl := decode_key ascii_uni sl in
    let kk := decode_key ascii_uni sk in
    negb (existsb (kseq_eqb sl) (legacy_encs c)) || negb (existsb (kseq_eqb sk) (kitty_encs c))
    || negb (seq_dom_ok sl && seq_dom_ok sk)
    || negb (zlist_eqb (key_string ascii_uni kl) strl) || negb (zlist_eqb (key_string ascii_uni kk) strk)
    || negb (forallb (fun b => let '(r, mods, ol, ok) := b in
                               in_dom r && Bool.eqb (matches ascii_uni kl r mods) ol && Bool.eqb (matches ascii_uni kk r mods) ok) bs)) cases.

Definition c09_cross_violations (cases : list cross_case) : list Z :=
  bad_indices (fun cs =>
    let '(c, sl, sk, strl, strk, bs) := cs in
    negb (zlist_eqb strl strk)
    || negb (forallb (fun b => let '(r, mods, ol, ok) := b in (r =? 0) || Bool.eqb ol ok) bs)) cases.

(* ================= the description (String()) of a chord under every encoding ================= *)
(* Besides the legacy bytes and the kitty reports, a terminal in xterm's modifyOtherKeys mode reports a
   key as CSI 27 ; m ; code ~ (formatOtherKeys 0) or CSI code ; m u (formatOtherKeys 1), where code is
   the code point the key sends on its own: the character, 9 (Tab), 13 (Enter), 27 (Esc), and for
   Backspace either DEL (127) or BS (8), depending on the terminal (xterm's backarrowKey).  [other_encs]
   lists these reports (with Num Lock / Caps Lock bits, an explicit press event, an absent modifier
   field when there is nothing to report); [all_encs] is every encoding of the chord: legacy, kitty and
   these.  The chords: a printable ASCII character as typed without Shift, Tab, Enter, Esc, Backspace,
   each with every one of the 64 sets of Shift/Alt/Ctrl/Super/Hyper/Meta ([desc_chord]).
   The description of the chord is the String() of the Key value a program would write for it
   ([chord_key]: Key{Keycode: code, Modifiers: mods}). *)
Definition special4 (k : Z) : bool := (k =? KeyTab) || (k =? KeyEnter) || (k =? KeyEsc) || (k =? KeyBackspace).
Definition report_codes (k : Z) : list Z := if k =? KeyBackspace then [127; 8] else [k].

Definition other_encs (c : chord) : list kseq :=
  let k := ch_code c in
  let m := ch_mods c in
  if printable_nonupper k || special4 k then
    flat_map (fun n => flat_map (fun l =>
        SCSI [] [[27]; [m + l + 1]; [n]] 126
        :: flat_map (fun ev => kitty_seq n 117 [] m l ev None) bools)
      (if special4 k then [0; 64; 128; 192] else [0; 128])) (report_codes k)
  else [].

Definition all_encs (c : chord) : list kseq := legacy_encs c ++ kitty_encs c ++ other_encs c.

Definition desc_chord (c : chord) : bool :=
  (printable_nonupper (ch_code c) || special4 (ch_code c)) && in_range (ch_mods c) 0 63.

Definition desc_keys : list Z := filter printable_nonupper (zrange 32 95) ++ [KeyTab; KeyEnter; KeyEsc; KeyBackspace].
Definition desc_chords : list chord := flat_map (fun k => map (mkChord k) (zrange 0 64)) desc_keys.

Definition chord_key (c : chord) : key := mkKey [] (ch_code c) 0 0 (ch_mods c) 0.

(* the recorded finding esc-upper concerns the legacy ESC <upper-case letter> encoding only *)
Definition guard_esc_upper_seq (c : chord) (s : kseq) : bool :=
  guard_esc_upper c && match s with SESC _ _ => true | _ => false end.

(* two key events that String() must not distinguish: the same key (BS and DEL are both Backspace), the
   same Shift/Alt/Ctrl/Super/Hyper/Meta prefix, and the same Caps Lock state where String() looks at it
   (a key that is printed as a rune) *)
Definition desc_code (c : Z) : Z := if c =? 8 then KeyBackspace else c.
Definition caps_blind (c : Z) : bool :=
  (MaxRune <? c) || (c <? 32) || (c =? KeySpace) || (c =? KeyBackspace).
Definition kdesc_equivb (a b : key) : bool :=
  (desc_code (k_code a) =? desc_code (k_code b)) && zlist_eqb (mods_prefix a) (mods_prefix b) &&
  (Bool.eqb (has_bit (k_mods a) ModCapsLock) (has_bit (k_mods b) ModCapsLock)
   || (caps_blind (k_code a) && caps_blind (k_code b))).

(* string stream, property side: the key's own String() is a binding that matches it (in scope), and
   String() does not distinguish the key from its variation when [kdesc_equivb] identifies them *)
Definition c09_string_violations (cases : list string_case) : list Z :=
  bad_indices (fun c =>
    let '(t, k, s, ms, k2, s2) := c in
    (string_selfmatch_scope (uni_of t) k && negb ms)
    || (kdesc_equivb k k2 && negb (zlist_eqb s s2))) cases.

Definition desc_enc_ok (c : chord) (s : kseq) : bool :=
  seq_dom_ok s && (guard_esc_upper_seq c s || kdesc_equivb (decode_key ascii_uni s) (chord_key c)).
Definition desc_chord_ok (c : chord) : bool := forallb (desc_enc_ok c) (all_encs c).

(* the property on one observation: the String() of the key decoded from either encoding is the
   String() of the chord's own Key value, hence the two encodings are described identically *)
Definition desc_obs_ok (c : chord) (s1 s2 : kseq) (strc str1 str2 : list Z) : bool :=
  (guard_esc_upper_seq c s1 || zlist_eqb str1 strc) &&
  (guard_esc_upper_seq c s2 || zlist_eqb str2 strc) &&
  (guard_esc_upper_seq c s1 || guard_esc_upper_seq c s2 || zlist_eqb str1 str2).

(* the chord the user pressed matches its own binding under every encoding: the decoded key matches
   (code, modifiers) of the chord - by the first rule of Matches, which asks the oracle nothing - and the
   binding string that is its own String().  The recorded finding plus-binding ("Ctrl++" is not
   parseable) is excluded by an explicit guard; esc-upper as above; kitty-shift-without-alternate does
   not concern the chord's own binding (lower-case code with Shift), only the upper-case rune binding. *)
Definition rule1 (k : key) (r mods : Z) : bool := (k_code k =? r) && (strip2 mods =? strip2 (k_mods k)).
Definition guard_plus_binding (c : chord) : bool := (ch_code c =? 43) && negb (ch_mods c =? 0).
Definition own_enc_ok (c : chord) (s : kseq) : bool :=
  seq_dom_ok s && (guard_esc_upper_seq c s || rule1 (decode_key ascii_uni s) (ch_code c) (ch_mods c)).
Definition own_chord_ok (c : chord) : bool := forallb (own_enc_ok c) (all_encs c).

(* on one observation: m = k.Matches(code, mods) of the chord, ms = k.MatchString(k.String()) *)
Definition own_obs_ok (c : chord) (s : kseq) (m ms : bool) : bool :=
  guard_esc_upper_seq c s || (m && (guard_plus_binding c || ms)).

(* desc stream: (chord, two of its encodings, String() of the chord's own Key value, String() of the
   two decoded keys, and for each decoded key k: k.Matches(chord code, chord mods), k.MatchString(k.String())) *)
Definition desc_case := (chord * kseq * kseq * list Z * list Z * list Z * (bool * bool) * (bool * bool))%type.

Definition c09_desc_mismatches (cases : list desc_case) : list Z :=
  bad_indices (fun cs =>
    let '(c, s1, s2, strc, str1, str2, (m1, ms1), (m2, ms2)) := cs in
    let k1 := decode_key ascii_uni s1 in
    let k2 := decode_key ascii_uni s2 in
    negb (Bool.eqb (matches ascii_uni k1 (ch_code c) (ch_mods c)) m1)
    || negb (Bool.eqb (matches ascii_uni k2 (ch_code c) (ch_mods c)) m2)
    || negb (Bool.eqb (match_string ascii_uni k1 (key_string ascii_uni k1)) ms1)
    || negb (Bool.eqb (match_string ascii_uni k2 (key_string ascii_uni k2)) ms2)
    || negb (desc_chord c)
    || negb (existsb (kseq_eqb s1) (all_encs c)) || negb (existsb (kseq_eqb s2) (all_encs c))
    || negb (seq_dom_ok s1 && seq_dom_ok s2)
    || negb (zlist_eqb (key_string ascii_uni (chord_key c)) strc)
    || negb (zlist_eqb (key_string ascii_uni (decode_key ascii_uni s1)) str1)
    || negb (zlist_eqb (key_string ascii_uni (decode_key ascii_uni s2)) str2)) cases.

Definition c09_desc_violations (cases : list desc_case) : list Z :=
  bad_indices (fun cs =>
    let '(c, s1, s2, strc, str1, str2, (m1, ms1), (m2, ms2)) := cs in
    negb (desc_obs_ok c s1 s2 strc str1 str2)
    || negb (own_obs_ok c s1 m1 ms1) || negb (own_obs_ok c s2 m2 ms2)) cases.

(* pipeline stream: bytes were written to the fake console of a real Vaxis; (table, the sequence the
   ANSI parser (property C02) produces for those bytes, inside a bracketed paste or not, the Key read
   from Vaxis.Events()) *)
Definition pipeline_case := (utab * kseq * bool * key)%type.

Definition c09_pipeline_mismatches (cases : list pipeline_case) : list Z :=
  bad_indices (fun c =>
    let '(t, s, paste, obs) := c in
    let k := decode_key (uni_of t) s in
    negb (decode_covered t s)
    || negb (key_eqb (if (paste : bool) then mkKey (k_text k) (k_code k) (k_shifted k) (k_base k) (k_mods k) EventPaste else k) obs)) cases.
(* the decode property is checked by the decode stream; here only: a paste is marked as such *)
Definition c09_pipeline_violations (cases : list pipeline_case) : list Z :=
  bad_indices (fun c : utab * kseq * bool * key =>
    match c with (_, _, paste, obs) => paste && negb (k_event obs =? EventPaste) end) cases.
