(* C10, Part D — the QUERY / REPLY hand-off between application goroutines that issue a
   terminal query and the input goroutine that receives the terminal's answer.  Definitions only.

   Anchors (vaxis.go): QueryForeground / QueryBackground / QueryColor (channel of capacity 1,
   non-blocking send in handleSequence, receive without time-out), CursorPosition (request
   flag reqCursorPos, unbuffered channel, 50 ms timer on both sides), ClipboardPop (unbuffered
   channel, 10 ms offer by the handler, the caller's context on the other side), reportWinsize
   (vaxis_unix.go: capacity 1, non-blocking send, 100 ms timer on the receiving side).

   Everything that decides the outcome — the capacity written in each make(chan ...), whether
   the handler's send is non-blocking / timed / blocking, whether the receive has a timer case,
   where CursorPosition sets and clears the request flag and where the handler clears it — is
   NOT written here: the model is parametric in a configuration [qcfg], and the instance
   [gen_qcfg] is read from the facts that gen/query.go translates from /repo's Go AST on every
   run (GenAccess.v: chan_caps, chan_ops and the cpr facts).

   The LTS: any number of querier goroutines (each a little program of flag stores, the write
   of the query and the receive), one handler (the input goroutine inside handleSequence), the
   terminal and the user as the source of incoming sequences.  A label is one atomic step of one
   goroutine, or the arrival of a sequence, or the expiry of a timer: timers are
   non-deterministic (time is not modelled), so a theorem over all label lists covers every
   interleaving and every timing.

   Not modelled here: the event queue (the handler's PostEventBlocking of a decoded key or of a
   capability event can block on a full queue: Part B, model/Conc.v), the capability gate
   CanReport*() (taken as established: the state after start-up), malformed replies. *)
From Vx Require Import base.Prelude gen.GenAccess.
From Coq Require String.
Import String.StringSyntax.
Delimit Scope string_scope with string.
Local Open Scope Z_scope.

(* ------------------------------------------------------------------------------------ *)
(* configuration                                                                          *)
(* ------------------------------------------------------------------------------------ *)

Inductive kind := KFg | KBg | KCol | KCpr | KClip | KSize.

Definition kind_eqb (a b : kind) : bool :=
  match a, b with
  | KFg, KFg | KBg, KBg | KCol, KCol | KCpr, KCpr | KClip, KClip | KSize, KSize => true
  | _, _ => false
  end.

Definition all_kinds : list kind := [KFg; KBg; KCol; KCpr; KClip; KSize].

(* the kind whose replies are recognised only while a request flag is set (CSI ... R is also
   the legacy encoding of F3 with modifiers) *)
Definition flagged (k : kind) : bool := match k with KCpr => true | _ => false end.

(* how the handler sends / how the querier receives *)
Inductive smode := SNonblock | STimed | SBlock | SBad.
Inductive rmode := RBlock | RTimed | RBad.

Record kcfg := mkK { k_cap : nat; k_snd : smode; k_rcv : rmode }.

Record qcfg := mkQ {
  q_k : kind -> kcfg;
  q_arm : Z;               (* 0: the flag is set before the query is written, 1: after *)
  q_clr_timeout : bool;    (* the querier clears the flag on its time-out branch *)
  q_clr_reply : bool;      (* ... on its reply branch *)
  q_hclr : Z               (* the handler clears it: 0 never, 1 before its send, 2 after *)
}.

(* ---- the instance translated from the Go source ---- *)

Definition cap_of (f : String.string) : option Z :=
  match filter (fun p : String.string * Z => String.eqb (fst p) f) chan_caps with
  | [(_, n)] => Some n
  | _ => None
  end.

(* (function, op, mode) of every operation on channel field f *)
Definition ops_of (f : String.string) : list (String.string * Z * Z) :=
  map (fun o : String.string * String.string * Z * Z => let '(_, fn, op, m) := o in (fn, op, m))
      (filter (fun o : String.string * String.string * Z * Z => let '(f', _, _, _) := o in String.eqb f' f) chan_ops).

Definition smode_of (m : Z) : smode :=
  if m =? 1 then SNonblock else if m =? 2 then STimed else if (m =? 0) || (m =? 3) then SBlock else SBad.
(* mode 3 on the receiving side is a select over the channel and a context supplied by the
   caller: a timer that may also never fire, which is what RTimed means here *)
Definition rmode_of (m : Z) : rmode :=
  if m =? 0 then RBlock else if (m =? 2) || (m =? 3) then RTimed else RBad.

Definition handler_fn : String.string := "vaxis.Vaxis.handleSequence"%string.

(* the channel must be made once with a literal capacity, sent on only by handleSequence (one
   site), received from only by the query function (one site), never closed *)
Definition gen_k (field qfn : String.string) : kcfg :=
  let ops := ops_of field in
  let sends := filter (fun o : String.string * Z * Z => snd (fst o) =? 0) ops in
  let recvs := filter (fun o : String.string * Z * Z => snd (fst o) =? 1) ops in
  let others := filter (fun o : String.string * Z * Z => negb ((snd (fst o) =? 0) || (snd (fst o) =? 1))) ops in
  match cap_of field, sends, recvs, others with
  | Some n, [(sf, _, sm)], [(rf, _, rm)], [] =>
      if (0 <=? n) && String.eqb sf handler_fn && String.eqb rf qfn
      then mkK (Z.to_nat n) (smode_of sm) (rmode_of rm)
      else mkK O SBad RBad
  | _, _, _, _ => mkK O SBad RBad
  end.

Definition gen_qcfg : qcfg :=
  mkQ (fun k => match k with
                | KFg => gen_k "Vaxis.chFg" "vaxis.Vaxis.QueryForeground"
                | KBg => gen_k "Vaxis.chBg" "vaxis.Vaxis.QueryBackground"
                | KCol => gen_k "Vaxis.chColor" "vaxis.Vaxis.QueryColor"
                | KCpr => gen_k "Vaxis.chCursorPos" "vaxis.Vaxis.CursorPosition"
                | KClip => gen_k "Vaxis.chClipboard" "vaxis.Vaxis.ClipboardPop"
                | KSize => gen_k "Vaxis.chSizeDone" "vaxis.Vaxis.reportWinsize"
                end%string)
      cpr_arm_pos cpr_clear_on_timeout cpr_clear_on_reply cprh_clear_pos.

(* The two hand-off shapes the theorems are about:
     buffered   a non-blocking send needs a buffer of at least one slot (else a reply that is
                handled before the querier is parked in its receive is dropped);
     rendezvous a timed offer on an unbuffered channel (the reply is kept exactly as long as the
                handler waits, never longer).
   A blocking send (no default, no timer) would let a reply that nobody waits for block the
   input goroutine for ever. *)
Definition kcfg_ok (c : kcfg) : bool :=
  match k_snd c, k_rcv c with
  | SNonblock, (RBlock | RTimed) => Nat.leb 1 (k_cap c)
  | STimed, (RBlock | RTimed) => Nat.eqb (k_cap c) 0
  | _, _ => false
  end.

Definition flag_ok (c : qcfg) : bool :=
  (q_arm c =? 0) && q_clr_timeout c && ((q_hclr c =? 1) || (q_hclr c =? 2) || q_clr_reply c)
  && ((q_hclr c =? 0) || (q_hclr c =? 1) || (q_hclr c =? 2)).

Definition qcfg_ok (c : qcfg) : bool := forallb (fun k => kcfg_ok (q_k c k)) all_kinds && flag_ok c.

(* ------------------------------------------------------------------------------------ *)
(* the LTS                                                                                *)
(* ------------------------------------------------------------------------------------ *)

(* what arrives from the terminal / the user *)
Inductive seq :=
  | SReply (k : kind) (v : Z)   (* a reply in the syntax of an unflagged kind, payload v *)
  | SR (two : bool) (v : Z)     (* CSI ... R: a cursor position report, or F3 with modifiers; two = exactly
                                   two parameters; v codes the parameters *)
  | SKey (c : Z).               (* any other key *)

(* querier program *)
Inductive qop := OSet (b : bool) | OWrite | OSelect.
Definition is_write (o : qop) : bool := match o with OWrite => true | _ => false end.

Inductive qpc :=
  | QIdle
  | QRun (k : kind) (ops : list qop)                      (* inside the query function, before the receive has completed *)
  | QParked (k : kind)                                    (* blocked in the receive / select *)
  | QPost (k : kind) (ops : list qop) (r : option Z).    (* the select has chosen; [] = returned r *)

(* handler program for one sequence *)
Inductive hop := HSet (b : bool) | HCheck (ok : bool) | HSend (k : kind) (v : Z).
Inductive hpc :=
  | HRun (ops : list hop)                                 (* [] = back in the input loop *)
  | HOffer (k : kind) (v : Z) (rest : list hop).          (* blocked in the send *)

Record qstate := mkQS {
  buf : kind -> list Z;          (* channel buffers, oldest first *)
  wait : kind -> list nat;       (* receivers parked on the channel, oldest first *)
  qp : list qpc;                 (* querier g's program counter *)
  flag : bool;                   (* reqCursorPos *)
  inq : list seq;                (* parsed, not yet handled *)
  hp : hpc;
  (* ghosts *)
  out : list seq;                (* delivered to the application as key events, in order *)
  consumed : list seq;           (* CSI ... R sequences taken for a cursor position report *)
  handled : kind -> list Z;      (* payloads of the replies whose send was attempted, in order *)
  dropped : kind -> list Z;      (* ... of those discarded (non-blocking send without room, expired offer) *)
  rets : kind -> list Z;         (* values received by queriers, in order *)
  nwr : kind -> nat              (* queries written *)
}.

Definition kupd {A} (f : kind -> A) (k : kind) (v : A) : kind -> A := fun k' => if kind_eqb k' k then v else f k'.

Definition qget (s : qstate) (g : nat) : qpc := nth g (qp s) QIdle.

Definition set_buf s v := mkQS v (wait s) (qp s) (flag s) (inq s) (hp s) (out s) (consumed s) (handled s) (dropped s) (rets s) (nwr s).
Definition set_wait s v := mkQS (buf s) v (qp s) (flag s) (inq s) (hp s) (out s) (consumed s) (handled s) (dropped s) (rets s) (nwr s).
Definition set_qp s v := mkQS (buf s) (wait s) v (flag s) (inq s) (hp s) (out s) (consumed s) (handled s) (dropped s) (rets s) (nwr s).
Definition set_flag s v := mkQS (buf s) (wait s) (qp s) v (inq s) (hp s) (out s) (consumed s) (handled s) (dropped s) (rets s) (nwr s).
Definition set_inq s v := mkQS (buf s) (wait s) (qp s) (flag s) v (hp s) (out s) (consumed s) (handled s) (dropped s) (rets s) (nwr s).
Definition set_hp s v := mkQS (buf s) (wait s) (qp s) (flag s) (inq s) v (out s) (consumed s) (handled s) (dropped s) (rets s) (nwr s).
Definition set_out s v := mkQS (buf s) (wait s) (qp s) (flag s) (inq s) (hp s) v (consumed s) (handled s) (dropped s) (rets s) (nwr s).
Definition set_consumed s v := mkQS (buf s) (wait s) (qp s) (flag s) (inq s) (hp s) (out s) v (handled s) (dropped s) (rets s) (nwr s).
Definition set_handled s v := mkQS (buf s) (wait s) (qp s) (flag s) (inq s) (hp s) (out s) (consumed s) v (dropped s) (rets s) (nwr s).
Definition set_dropped s v := mkQS (buf s) (wait s) (qp s) (flag s) (inq s) (hp s) (out s) (consumed s) (handled s) v (rets s) (nwr s).
Definition set_rets s v := mkQS (buf s) (wait s) (qp s) (flag s) (inq s) (hp s) (out s) (consumed s) (handled s) (dropped s) v (nwr s).
Definition set_nwr s v := mkQS (buf s) (wait s) (qp s) (flag s) (inq s) (hp s) (out s) (consumed s) (handled s) (dropped s) (rets s) v.

Definition set_qpc s g p := set_qp s (upd_nat (qp s) g p).

Definition qinit (n : nat) : qstate :=
  mkQS (fun _ => []) (fun _ => []) (repeat QIdle n) false [] (HRun []) [] [] (fun _ => []) (fun _ => []) (fun _ => []) (fun _ => O).

Inductive qlabel :=
  | LCall (g : nat) (k : kind)   (* querier g enters the query function of kind k *)
  | LQ (g : nat)                 (* querier g performs its next operation *)
  | LQTimeout (g : nat)          (* querier g's select takes its timer / context branch *)
  | LArrive (x : seq)            (* the parser delivers one more sequence to the input goroutine *)
  | LH                           (* the input goroutine performs its next operation *)
  | LHTimeout.                   (* the timer of the handler's offer fires *)

Fixpoint remove_nat (g : nat) (l : list nat) : list nat :=
  match l with
  | [] => []
  | x :: t => if Nat.eqb x g then t else x :: remove_nat g t
  end.

Section QStep.
  Variable c : qcfg.

  Definition cap (k : kind) : nat := k_cap (q_k c k).

  Definition prog (k : kind) : list qop :=
    if flagged k then (if q_arm c =? 0 then [OSet true; OWrite; OSelect] else [OWrite; OSet true; OSelect])
    else [OWrite; OSelect].

  (* what the querier still does after its select has chosen the reply (got) / the timer branch *)
  Definition qpost (k : kind) (got : bool) : list qop :=
    if flagged k && (if got then q_clr_reply c else q_clr_timeout c) then [OSet false] else [].

  Definition report_ops (two : bool) (v : Z) : list hop :=
    (if q_hclr c =? 1 then [HSet false] else []) ++ [HCheck two; HSend KCpr v] ++ (if q_hclr c =? 2 then [HSet false] else []).

  (* CSI ... R: taken for the report only while the flag is set *)
  Definition handle_r (two : bool) (v : Z) (x : seq) (s : qstate) : qstate :=
    if flag s then set_hp (set_consumed s (consumed s ++ [x])) (HRun (report_ops two v))
    else set_out s (out s ++ [x]).

  Definition handle (x : seq) (s : qstate) : qstate :=
    match x with
    | SKey _ => set_out s (out s ++ [x])
    | SR two v => handle_r two v x s
    | SReply k v => if flagged k then handle_r true v x s else set_hp s (HRun [HSend k v])
    end.

  (* the receive of querier g on kind k *)
  Definition receive (g : nat) (k : kind) (s : qstate) : qstate :=
    match buf s k with
    | v :: b' =>
        (* a sender blocked on the full buffer moves its value in *)
        let s1 := match hp s with
                  | HOffer k' v' rest => if kind_eqb k' k then set_hp (set_buf s (kupd (buf s) k (b' ++ [v']))) (HRun rest)
                                         else set_buf s (kupd (buf s) k b')
                  | _ => set_buf s (kupd (buf s) k b')
                  end in
        set_qpc (set_rets s1 (kupd (rets s1) k (rets s1 k ++ [v]))) g (QPost k (qpost k true) (Some v))
    | [] =>
        match hp s with
        | HOffer k' v' rest =>
            if kind_eqb k' k
            then set_qpc (set_rets (set_hp s (HRun rest)) (kupd (rets s) k (rets s k ++ [v']))) g (QPost k (qpost k true) (Some v'))
            else set_qpc (set_wait s (kupd (wait s) k (wait s k ++ [g]))) g (QParked k)
        | _ => set_qpc (set_wait s (kupd (wait s) k (wait s k ++ [g]))) g (QParked k)
        end
    end.

  (* the handler's send of v on kind k, the rest of its program being r *)
  Definition send (k : kind) (v : Z) (r : list hop) (s : qstate) : qstate :=
    let s0 := set_handled s (kupd (handled s) k (handled s k ++ [v])) in
    match wait s k with
    | g :: w =>
        set_hp (set_qpc (set_rets (set_wait s0 (kupd (wait s) k w)) (kupd (rets s) k (rets s k ++ [v]))) g (QPost k (qpost k true) (Some v))) (HRun r)
    | [] =>
        if Nat.ltb (List.length (buf s k)) (cap k)
        then set_hp (set_buf s0 (kupd (buf s) k (buf s k ++ [v]))) (HRun r)
        else match k_snd (q_k c k) with
             | SNonblock => set_hp (set_dropped s0 (kupd (dropped s) k (dropped s k ++ [v]))) (HRun r)
             | _ => set_hp s0 (HOffer k v r)
             end
    end.

  Definition qstep (l : qlabel) (s : qstate) : option qstate :=
    match l with
    | LCall g k =>
        if Nat.ltb g (List.length (qp s)) then
          match qget s g with
          | QIdle | QPost _ [] _ => Some (set_qpc s g (QRun k (prog k)))
          | _ => None
          end
        else None
    | LQ g =>
        match qget s g with
        | QRun k (OSet b :: r) => Some (set_qpc (set_flag s b) g (QRun k r))
        | QRun k (OWrite :: r) => Some (set_qpc (set_nwr s (kupd (nwr s) k (S (nwr s k)))) g (QRun k r))
        | QRun k (OSelect :: _) => Some (receive g k s)
        | QPost k (OSet b :: r) res => Some (set_qpc (set_flag s b) g (QPost k r res))
        | _ => None
        end
    | LQTimeout g =>
        match qget s g with
        | QParked k =>
            match k_rcv (q_k c k) with
            | RTimed => Some (set_qpc (set_wait s (kupd (wait s) k (remove_nat g (wait s k)))) g (QPost k (qpost k false) None))
            | _ => None
            end
        | QRun k (OSelect :: _) =>
            match k_rcv (q_k c k) with
            | RTimed => Some (set_qpc s g (QPost k (qpost k false) None))
            | _ => None
            end
        | _ => None
        end
    | LArrive x => Some (set_inq s (inq s ++ [x]))
    | LH =>
        match hp s with
        | HRun [] => match inq s with [] => None | x :: r => Some (handle x (set_inq s r)) end
        | HRun (HSet b :: r) => Some (set_hp (set_flag s b) (HRun r))
        | HRun (HCheck ok :: r) => Some (set_hp s (HRun (if ok then r else [])))
        | HRun (HSend k v :: r) => Some (send k v r s)
        | HOffer _ _ _ => None
        end
    | LHTimeout =>
        match hp s with
        | HOffer k v r =>
            match k_snd (q_k c k) with
            | STimed => Some (set_hp (set_dropped s (kupd (dropped s) k (dropped s k ++ [v]))) (HRun r))
            | _ => None
            end
        | _ => None
        end
    end.

  Fixpoint qrun (tr : list qlabel) (s : qstate) : option qstate :=
    match tr with
    | [] => Some s
    | l :: tr' => match qstep l s with Some s' => qrun tr' s' | None => None end
    end.

  Definition qreach (n : nat) (s : qstate) : Prop := exists tr, qrun tr (qinit n) = Some s.

  Definition qenabled (l : qlabel) (s : qstate) : bool := match qstep l s with Some _ => true | None => false end.

  (* a predicate on (state, next label) that holds all along a run *)
  Fixpoint qrun_all (P : qstate -> qlabel -> bool) (tr : list qlabel) (s : qstate) : bool :=
    match tr with
    | [] => true
    | l :: tr' => P s l && match qstep l s with Some s' => qrun_all P tr' s' | None => true end
    end.
End QStep.

(* ------------------------------------------------------------------------------------ *)
(* vocabulary of the theorems                                                             *)
(* ------------------------------------------------------------------------------------ *)

(* what a receive on k would get, in order: the buffer, then the value a blocked sender holds *)
Definition offer_of (k : kind) (h : hpc) : list Z :=
  match h with HOffer k' v _ => if kind_eqb k' k then [v] else [] | _ => [] end.
Definition avail (k : kind) (s : qstate) : list Z := buf s k ++ offer_of k (hp s).

Definition hops (h : hpc) : list hop := match h with HRun l => l | HOffer _ _ r => r end.
Definition hop_is_clear (o : hop) : bool := match o with HSet false => true | _ => false end.
Definition hop_is_send (k : kind) (o : hop) : bool := match o with HSend k' _ => kind_eqb k' k | _ => false end.
(* the handler still has to perform, or is blocked in, a send on k *)
Definition sending (k : kind) (h : hpc) : bool :=
  match h with
  | HRun l => existsb (hop_is_send k) l
  | HOffer k' _ r => kind_eqb k' k || existsb (hop_is_send k) r
  end.

(* querier g is inside a query of kind k (between the call and the return) *)
Definition outstanding (k : kind) (p : qpc) : bool :=
  match p with
  | QRun k' _ | QParked k' => kind_eqb k' k
  | QPost k' (_ :: _) _ => kind_eqb k' k
  | _ => false
  end.
(* ... has written its query and not yet completed the receive *)
Definition pending (k : kind) (p : qpc) : bool :=
  match p with
  | QRun k' ops => kind_eqb k' k && negb (existsb is_write ops)
  | QParked k' => kind_eqb k' k
  | _ => false
  end.
Definition count_pending (k : kind) (s : qstate) : nat := List.length (filter (pending k) (qp s)).
Definition any_outstanding (k : kind) (s : qstate) : bool := existsb (outstanding k) (qp s).

(* the next step of g is the receive on k *)
Definition selects_on (k : kind) (p : qpc) : bool :=
  match p with QRun k' (OSelect :: _) => kind_eqb k' k | _ => false end.

(* hypotheses on a run, as predicates on (state, next label) *)

(* the terminal is honest about kind k: when the handler attempts the send of a reply, fewer replies
   have been handled than queries written (no unsolicited or duplicated report) *)
Definition honest_at (k : kind) (s : qstate) (l : qlabel) : bool :=
  match l, hp s with
  | LH, HRun (HSend k' _ :: _) => negb (kind_eqb k' k) || Nat.ltb (List.length (handled s k)) (nwr s k)
  | _, _ => true
  end.
(* at most cap(k) queries of kind k are between their write and the end of their receive *)
Definition conc_at (c : qcfg) (k : kind) (s : qstate) (l : qlabel) : bool :=
  match l with
  | LQ g => match qget s g with
            | QRun k' (OWrite :: _) => negb (kind_eqb k' k) || Nat.ltb (count_pending k s) (cap c k)
            | _ => true
            end
  | _ => true
  end.
(* no querier sets the request flag while the handler is between its test of the flag and the end of
   its send (see C10_cpr_rearm_race_refuted) *)
Definition no_rearm_at (s : qstate) (l : qlabel) : bool :=
  match l with
  | LQ g => match qget s g with
            | QRun _ (OSet true :: _) => negb (sending KCpr (hp s))
            | _ => true
            end
  | _ => true
  end.
(* the window of the early-reply theorem: the offer's timer does not fire and nobody else receives on k *)
Definition quiet_at (k : kind) (s : qstate) (l : qlabel) : bool :=
  match l with
  | LHTimeout => negb (match offer_of k (hp s) with [] => false | _ => true end)
  | LQ g => negb (selects_on k (qget s g))
  | _ => true
  end.

(* the timer of a receive of kind k does not fire (the reply comes within the deadline) *)
Definition no_timeout_at (k : kind) (s : qstate) (l : qlabel) : bool :=
  match l with
  | LQTimeout g => negb (outstanding k (qget s g))
  | _ => true
  end.

Definition is_plain_key (x : seq) : bool := match x with SKey _ => true | _ => false end.
Definition is_r (x : seq) : bool := match x with SR _ _ => true | SReply k _ => flagged k | _ => false end.

(* the plain keys the terminal has sent along a run *)
Definition arrived_keys (tr : list qlabel) : list seq :=
  flat_map (fun l => match l with LArrive (SKey x) => [SKey x] | _ => [] end) tr.

(* ranking function of the handler: its own steps (LH, LHTimeout) strictly decrease it *)
Definition hrank (s : qstate) : nat :=
  (10 * List.length (inq s) + match hp s with HRun l => 2 * List.length l | HOffer _ _ r => S (2 * List.length r) end)%nat.

(* the configuration c with the channel of kind k replaced (used to show that each clause of
   [qcfg_ok] is needed) *)
Definition cfg_with (k : kind) (kc : kcfg) (c : qcfg) : qcfg :=
  mkQ (fun k' => if kind_eqb k' k then kc else q_k c k') (q_arm c) (q_clr_timeout c) (q_clr_reply c) (q_hclr c).

(* querier g cannot move, its receive has no timer that could fire, and the input goroutine is idle with
   nothing to handle: only a further sequence from the terminal can change anything *)
Definition stuck (c : qcfg) (s : qstate) (g : nat) : bool :=
  negb (qenabled c (LQ g) s) && negb (qenabled c (LQTimeout g) s) && negb (qenabled c LH s) && negb (qenabled c LHTimeout s).

(* ------------------------------------------------------------------------------------ *)
(* Part E: the scripted runner the harness is compared with, and the property on one     *)
(* observation                                                                            *)
(* ------------------------------------------------------------------------------------ *)

(* One scenario = a list of actions on a real Vaxis after start-up; after each action the
   harness lets every goroutine come to rest (timers included).  Action i uses querier i.
     AQuery k m v   a goroutine calls the query function of kind k; the terminal
                      m = 0  answers v inside the console write (the library has handled the
                             reply before the write returns: EARLY),
                      m = 1  answers v once the caller is parked in its receive — or has
                             returned already,
                      m = 2  does not answer (NEVER);
     AReply k v     the terminal sends a reply of kind k at rest (late / unsolicited / duplicated);
     AKeyR two v    the user presses F3 in the legacy encoding, CSI 1;m R (two) or CSI R;
     AKey c         any other key. *)
Inductive sact :=
  | AQuery (k : kind) (m : Z) (v : Z)
  | AReply (k : kind) (v : Z)
  | AKeyR (two : bool) (v : Z)
  | AKey (c : Z).

(* observation of one action: return code of the query (-3 no query, -2 still blocked, -1 returned
   without a value, v >= 0 returned v), key events delivered, earlier blocked queries that returned
   now (action index, value) *)
Definition qobs := (Z * list Z * list (Z * Z))%type.

Definition reply_seq (k : kind) (v : Z) : seq := if flagged k then SR true v else SReply k v.

(* how a delivered sequence looks as a key event: an R sequence shows its second parameter
   (the modifiers), 1 when it has no parameters *)
Definition key_code (x : seq) : Z :=
  match x with
  | SKey c => c
  | SR two v => 100000 + (if two then v else 257)
  | SReply _ v => -1 - v
  end.

Section QExec.
  Variable c : qcfg.

  Definition qtry (l : qlabel) (s : qstate) : qstate := match qstep c l s with Some s' => s' | None => s end.

  Fixpoint first_some {A} (f : nat -> option A) (n : nat) (i : nat) : option A :=
    match n with
    | O => None
    | S n' => match f i with Some x => Some x | None => first_some f n' (S i) end
    end.

  (* everybody runs until nothing moves: the handler first, then runnable queriers (lowest first),
     then the handler's offer timer, then the timers of parked queriers *)
  Fixpoint qsettle (fuel : nat) (s : qstate) : qstate :=
    match fuel with
    | O => s
    | S n =>
        match qstep c LH s with
        | Some s' => qsettle n s'
        | None =>
            match first_some (fun g => qstep c (LQ g) s) (List.length (qp s)) O with
            | Some s' => qsettle n s'
            | None =>
                match qstep c LHTimeout s with
                | Some s' => qsettle n s'
                | None =>
                    match first_some (fun g => match qget s g with QParked _ => qstep c (LQTimeout g) s | _ => None end)
                                     (List.length (qp s)) O with
                    | Some s' => qsettle n s'
                    | None => s
                    end
                end
            end
        end
    end.

  (* the handler alone, up to the point where it is idle or blocked *)
  Fixpoint qsettle_h (fuel : nat) (s : qstate) : qstate :=
    match fuel with O => s | S n => match qstep c LH s with Some s' => qsettle_h n s' | None => s end end.

  (* querier g alone *)
  Fixpoint run_q (fuel : nat) (g : nat) (s : qstate) : qstate :=
    match fuel with O => s | S n => match qstep c (LQ g) s with Some s' => run_q n g s' | None => s end end.
  (* ... up to and including the write of its query *)
  Fixpoint run_q_write (fuel : nat) (g : nat) (s : qstate) : qstate :=
    match fuel with
    | O => s
    | S n => match qget s g with
             | QRun _ ops => if existsb is_write ops then run_q_write n g (qtry (LQ g) s) else s
             | _ => s
             end
    end.

  Definition ret_code (p : qpc) : Z :=
    match p with
    | QPost _ [] (Some v) => v
    | QPost _ [] None => -1
    | _ => -2
    end.

  Definition exec_act (i : nat) (a : sact) (s : qstate) : qstate :=
    match a with
    | AQuery k m v =>
        let s0 := qtry (LCall i k) s in
        if m =? 0 then
          let s1 := run_q_write 8 i s0 in
          let s2 := qsettle_h 50 (qtry (LArrive (reply_seq k v)) s1) in
          qsettle 200 (run_q 8 i s2)
        else if m =? 1 then
          let s1 := run_q 8 i s0 in
          qsettle 200 (qtry (LArrive (reply_seq k v)) s1)
        else qsettle 200 (run_q 8 i s0)
    | AReply k v => qsettle 200 (qtry (LArrive (reply_seq k v)) s)
    | AKeyR two v => qsettle 200 (qtry (LArrive (SR two v)) s)
    | AKey x => qsettle 200 (qtry (LArrive (SKey x)) s)
    end.

  Definition is_query (a : sact) : bool := match a with AQuery _ _ _ => true | _ => false end.

  (* blocked: indices of earlier queries that had not returned *)
  Fixpoint exec_from (i : nat) (acts : list sact) (blocked : list nat) (s : qstate) : list qobs :=
    match acts with
    | [] => []
    | a :: r =>
        let s' := exec_act i a s in
        let keys := map key_code (skipn (List.length (out s)) (out s')) in
        let rc := if is_query a then ret_code (qget s' i) else -3 in
        let rel := flat_map (fun g => match ret_code (qget s' g) with
                                      | -2 => []
                                      | v => [(Z.of_nat g, v)]
                                      end) blocked in
        let still := filter (fun g => ret_code (qget s' g) =? -2) blocked in
        let blocked' := if is_query a && (rc =? -2) then still ++ [i] else still in
        (rc, keys, rel) :: exec_from (S i) r blocked' s'
    end.

  Definition exec_scn (acts : list sact) : list qobs := exec_from O acts [] (qinit (List.length acts)).
End QExec.

(* one case of the [query] stream: the scenario and what the implementation did *)
Definition query_case := (list sact * list qobs)%type.

Definition zz_eqb (a b : Z * Z) : bool := (fst a =? fst b) && (snd a =? snd b).
Definition qobs_eqb (a b : qobs) : bool :=
  let '(r1, k1, l1) := a in let '(r2, k2, l2) := b in
  (r1 =? r2) && list_eqb Z.eqb k1 k2 && list_eqb zz_eqb l1 l2.

Definition query_mismatch (cs : query_case) : bool :=
  negb (list_eqb qobs_eqb (exec_scn gen_qcfg (fst cs)) (snd cs)).

(* ---- the property on the observation alone (no model) ----
   Walking the scenario with a little bookkeeping of what the TERMINAL did:
     owed k    queries of kind k that are blocked in their receive and have not been answered
     stale k   (buffered kinds only) replies that arrived while nobody was waiting
   (a) a query the terminal answers (early or prompt) returns exactly that answer — also when the
       answer was handled before the caller reached its receive;
   (b) a query the terminal never answers returns without a value if its receive has a timer, and
       otherwise stays blocked until a reply arrives, which it then returns;
   (c) a key pressed at rest (no cursor-position query outstanding: at rest none is) is delivered
       as exactly that key event, once; a reply produces no key event — except a late cursor
       position report, which is indistinguishable from the key;
   (d) a reply that arrives while nobody waits is never returned by a later query.
   Clause (d) fails for the buffered kinds on the unchanged code (finding stale-colour-reply):
   from the first such reply on, the kind is [tainted] and (a)/(d) are not required of it. *)
Definition buffered_kind (k : kind) : bool := match k with KFg | KBg | KCol | KSize => true | _ => false end.
Definition timed_recv (k : kind) : bool := match k with KCpr | KClip | KSize => true | _ => false end.

Record pstate := mkP { owed : list (kind * Z); tainted : list kind }.
Definition kmem (k : kind) (l : list kind) : bool := existsb (kind_eqb k) l.
Fixpoint take_owed (k : kind) (l : list (kind * Z)) : option Z * list (kind * Z) :=
  match l with
  | [] => (None, [])
  | (k', i) :: t => if kind_eqb k' k then (Some i, t) else let '(r, t') := take_owed k t in (r, (k', i) :: t')
  end.

Definition znil (l : list Z) : bool := match l with [] => true | _ => false end.
Definition zznil (l : list (Z * Z)) : bool := match l with [] => true | _ => false end.

(* returns (ok, known, next state): ok = the clauses hold for this action; known = the action is on a
   tainted kind, i.e. falls under the guard of the stale-reply finding (a function of the scenario
   alone: owed and tainted are computed from the actions, not from the observation) *)
Definition check_act (i : Z) (a : sact) (o : qobs) (p : pstate) : bool * bool * pstate :=
  let '(rc, keys, rel) := o in
  match a with
  | AQuery k m v =>
      let kn := kmem k (tainted p) in
      if (m =? 0) || (m =? 1) then
        match take_owed k (owed p) with
        | (Some j, rest) =>
            (* an older query of this kind is still blocked: it is first in line for the answer *)
            ((rc =? -2) && znil keys && list_eqb zz_eqb rel [(j, v)], kn, mkP (rest ++ [(k, i)]) (tainted p))
        | (None, _) =>
            (* answered: must return exactly v; nothing else happens *)
            ((rc =? v) && znil keys && zznil rel, kn, p)
        end
      else if timed_recv k then
        ((rc =? -1) && znil keys && zznil rel, kn, p)
      else
        ((rc =? -2) && znil keys && zznil rel, kn, mkP (owed p ++ [(k, i)]) (tainted p))
  | AReply k v =>
      if flagged k then
        (* a cursor position report at rest is the key *)
        ((rc =? -3) && list_eqb Z.eqb keys [key_code (SR true v)] && zznil rel, false, p)
      else
        match take_owed k (owed p) with
        | (Some j, rest) =>
            ((rc =? -3) && znil keys && list_eqb zz_eqb rel [(j, v)], kmem k (tainted p), mkP rest (tainted p))
        | (None, _) =>
            ((rc =? -3) && znil keys && zznil rel, kmem k (tainted p),
             if buffered_kind k then mkP (owed p) (k :: tainted p) else p)
        end
  | AKeyR two v => ((rc =? -3) && list_eqb Z.eqb keys [key_code (SR two v)] && zznil rel, false, p)
  | AKey x => ((rc =? -3) && list_eqb Z.eqb keys [x] && zznil rel, false, p)
  end.

(* (the property holds on every action, ... on every action outside the guard) *)
Fixpoint check_from (i : Z) (acts : list sact) (os : list qobs) (p : pstate) : bool * bool :=
  match acts, os with
  | [], [] => (true, true)
  | a :: r, o :: os' =>
      let '(ok, kn, p') := check_act i a o p in
      let '(all, guarded) := check_from (i + 1) r os' p' in
      (ok && all, (ok || kn) && guarded)
  | _, _ => (false, false)
  end.

(* does the scenario contain an action under the guard? (depends on the actions only) *)
Fixpoint known_from (i : Z) (acts : list sact) (p : pstate) : bool :=
  match acts with
  | [] => false
  | a :: r => let '(_, kn, p') := check_act i a (0, [], []) p in kn || known_from (i + 1) r p'
  end.

(* the property with the guard of the recorded finding / without it *)
Definition query_violation (cs : query_case) : bool := negb (snd (check_from 0 (fst cs) (snd cs) (mkP [] []))).
Definition query_violation_all (cs : query_case) : bool := negb (fst (check_from 0 (fst cs) (snd cs) (mkP [] []))).
Definition query_known (cs : query_case) : bool := known_from 0 (fst cs) (mkP [] []).

Definition c10_query_mismatches (l : list query_case) : list Z := bad_indices query_mismatch l.
Definition c10_query_violations (l : list query_case) : list Z := bad_indices query_violation l.
Definition c10_query_violations_all (l : list query_case) : list Z := bad_indices query_violation_all l.
Definition c10_query_known (l : list query_case) : list Z := bad_indices query_known l.

(* every scenario of at most n actions over the alphabet: each of the six query kinds (the size request of
   reportWinsize included) issued with an early / a prompt / no answer, a reply of each kind at rest, the
   three sorts of key; values are made distinct by the position *)
Definition scn_kinds : list kind := [KFg; KBg; KCol; KCpr; KClip; KSize].
Definition act_alphabet (i : Z) : list sact :=
  flat_map (fun k => [AQuery k 0 (300 + i); AQuery k 1 (300 + i); AQuery k 2 0; AReply k (300 + i)]) scn_kinds
  ++ [AKeyR true 258; AKeyR false 0; AKey 3].
Fixpoint scenarios (n : nat) (i : Z) : list (list sact) :=
  match n with
  | O => [[]]
  | S n' => [] :: flat_map (fun a => map (cons a) (scenarios n' (i + 1))) (act_alphabet i)
  end.
