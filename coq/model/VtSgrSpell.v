(* C06 - every spelling of the extended colours of SGR.  The vocabulary of VtSpec.v writes an
   indexed or direct colour in one spelling (38;5;n / 38;2;r;g;b, semicolons) and has no
   underline colour.  A child may spell the same command in several ways (ITU T.416 / xterm
   ctlseqs, "CSI Pm m"): with semicolons, with colons (38:5:n, 38:2:r:g:b) and, for direct
   colours, with the colourspace slot before the components (38:2:<cs>:r:g:b, the slot empty
   or a number - the parser delivers an empty slot as 0, "omitted or zero means default").
   The reference terminal gives all spellings of one command the same meaning; the slot is
   ignored.  A colon form with a number of sub-parameters that is no spelling (38:5, 38:2:r:g)
   and a semicolon form cut short by the end of the sequence (38  38;5  38;2  38;2;r  38;2;r;g)
   change nothing.  The same for the background (48) and the underline colour (58; 59 resets it).

   This file states that on one observed history ([xvt_holds_every], the statement of
   VtCheck.v with the extended SGR vocabulary).  Executable definitions only. *)
From Vx Require Import base.Prelude base.ListX model.Colour model.Sgr model.Term model.TermCheck
  model.VtSpec model.TermAbs model.VtCheck.

Inductive ctarget := TFg | TBg | TUl.
Definition tcode (t : ctarget) : Z := match t with TFg => 38 | TBg => 48 | TUl => 58 end.
Definition tset (t : ctarget) (p : pen) (v : Z) : pen :=
  match t with TFg => set_fg p v | TBg => set_bg p v | TUl => set_ul p v end.

(* how a direct colour is written *)
Inductive spelling := SpSemi | SpColon | SpColonCs (cs : Z).

Inductive xsgr :=
  | XC (c : sgrc)                                   (* a command of VtSpec.v in its own spelling *)
  | XIdx (t : ctarget) (colon : bool) (n : Z)       (* 38;5;n / 38:5:n *)
  | XRgb (t : ctarget) (sp : spelling) (r g b : Z)  (* 38;2;r;g;b / 38:2:r:g:b / 38:2:cs:r:g:b *)
  | XUlDefault                                      (* 59 *)
  | XShort (t : ctarget) (l : list Z)               (* 38:a or 38:a:b:c - no spelling of anything *)
  | XCut (t : ctarget) (l : list Z).                (* 38 ; a ; b ... cut short by the end *)

Definition xenc (x : xsgr) : list (list Z) :=
  match x with
  | XC c => enc_sgrc c
  | XIdx t false n => [[tcode t]; [5]; [n]]
  | XIdx t true n => [[tcode t; 5; n]]
  | XRgb t SpSemi r g b => [[tcode t]; [2]; [r]; [g]; [b]]
  | XRgb t SpColon r g b => [[tcode t; 2; r; g; b]]
  | XRgb t (SpColonCs cs) r g b => [[tcode t; 2; cs; r; g; b]]
  | XUlDefault => [[59]]
  | XShort t l => [tcode t :: l]
  | XCut t l => [tcode t] :: map (fun x => [x]) l
  end.

(* the meaning: the spelling plays no part *)
Definition xspec1 (p : pen) (x : xsgr) : pen :=
  match x with
  | XC c => spec_sgr1 p c
  | XIdx t _ n => tset t p (index_color n)
  | XRgb t _ r g b => tset t p (rgb_color r g b)
  | XUlDefault => set_ul p 0
  | XShort _ _ | XCut _ _ => p
  end.

Definition xspec_sgr (p : pen) (xs : list xsgr) : pen :=
  match xs with [] => pen0 | _ => fold_left xspec1 xs p end.

Definition byte_ok (n : Z) : bool := in_range n 0 255.

Definition xsgr_ok (x : xsgr) : bool :=
  match x with
  | XC c => sgrc_ok c
  | XIdx _ _ n => byte_ok n
  | XRgb _ sp r g b =>
      byte_ok r && byte_ok g && byte_ok b && match sp with SpColonCs cs => byte_ok cs | _ => true end
  | XUlDefault => true
  | XShort _ l => forallb byte_ok l && ((zlen l =? 1) || (zlen l =? 3))
  | XCut _ l =>
      match l with
      | [] | [5] | [2] => true
      | [2; r] => byte_ok r
      | [2; r; g] => byte_ok r && byte_ok g
      | _ => false
      end
  end.

Definition is_cut (x : xsgr) : bool := match x with XCut _ _ => true | _ => false end.

(* a cut form can only be the last command of its sequence *)
Fixpoint xsgrs_ok (xs : list xsgr) : bool :=
  match xs with
  | [] => true
  | [x] => xsgr_ok x
  | x :: rest => xsgr_ok x && negb (is_cut x) && xsgrs_ok rest
  end.

(* ------------------------------------------------------------------ operations *)

Inductive xop := XV (o : vop) | XSGR (xs : list xsgr).

Definition xenc_op (o : xop) : titem :=
  match o with
  | XV o => enc o
  | XSGR xs => TCsi [] (flat_map xenc xs) 109
  end.

(* SGR is specified in the deferred-wrap state too *)
Definition xspec_step (v : vt) (o : xop) : option vt :=
  match o with
  | XV o => spec_step v o
  | XSGR xs =>
      if negb (xsgrs_ok xs) then None
      else Some (set_vpen v (mkStyle (xspec_sgr (spen (v_pen v)) xs) (link (v_pen v)) (linkp (v_pen v))))
  end.

Fixpoint xrun_spec (v : vt) (ops : list xop) : option vt :=
  match ops with
  | [] => Some v
  | o :: rest => match xspec_step v o with Some v' => xrun_spec v' rest | None => None end
  end.

(* ------------------------------------------------------------------ the check *)

Definition xvt_case : Type := Z * Z * obs * list (xop * titem * obs).

Definition xvt_history (c : xvt_case) : hist_case :=
  let '(cols, rows, o0, steps) := c in
  (HResize cols rows, o0) :: map (fun s : xop * titem * obs => let '(_, it, o) := s in (HFeed true it, o)) steps.

Fixpoint xspec_check_every (v : option vt) (steps : list (xop * titem * obs)) : bool :=
  match steps with
  | [] => true
  | (o, it, ob) :: rest =>
      titem_eqb it (xenc_op o) &&
      match v with
      | None => xspec_check_every None rest
      | Some v0 =>
          match xspec_step v0 o with
          | None => xspec_check_every None rest
          | Some v1 => obs_shows ob v1 && xspec_check_every (Some v1) rest
          end
      end
  end.

Definition xvt_holds_every (c : xvt_case) : bool :=
  let '(cols, rows, o0, steps) := c in
  (2 <=? cols) && (2 <=? rows) && obs_shows o0 (vt_init cols rows)
  && match o_full o0 with Some _ => true | None => false end
  && xspec_check_every (Some (vt_init cols rows)) steps.

Definition xvt_case_wf (c : xvt_case) : bool :=
  let '(cols, rows, o0, steps) := c in
  (2 <=? cols) && (cols <=? 65535) && (2 <=? rows) && (rows <=? 65535)
  && match o_full o0 with Some _ => true | None => false end
  && forallb (fun s : xop * titem * obs => let '(o, it, _) := s in titem_eqb it (xenc_op o)) steps.

Definition c06_sgrx_mismatches (cases : list xvt_case) : list Z :=
  bad_indices (fun c => negb (hist_model_ok (xvt_history c))) cases.
Definition c06_sgrx_violations (cases : list xvt_case) : list Z :=
  bad_indices (fun c => negb (xvt_holds_every c)) cases.
