(* A small reference terminal for property C04: exactly the state Vaxis promises to restore.
   It is independent of /repo: mode numbers and sequence meanings follow xterm ctlseqs / ECMA-48,
   the kitty keyboard protocol (CSI > flags u pushes, CSI < n u pops; the main and the alternate
   screen keep separate, independent flag stacks, push / pop act on the stack of the screen that is
   shown), DECSCUSR, OSC 8 / 22 / 176.
   Two interpreters share the state-changing primitives:
     [iinterp]  on the items the C02 parser model ([Parser.feed]) delivers for a byte stream,
     (the token-level semantics used by the theorems is in Modes.v).
   Definitions only. *)
From Vx Require Import base.Prelude model.ParserTypes model.Parser.

Record term := mkTerm {
  m_ckeys : bool;        (* ?1     application cursor keys *)
  m_cursor : bool;       (* ?25    cursor visible *)
  m_btn : bool;          (* ?1002  button-event mouse tracking *)
  m_any : bool;          (* ?1003  any-event mouse tracking *)
  m_focus : bool;        (* ?1004  focus reporting *)
  m_sgrmouse : bool;     (* ?1006  SGR mouse encoding *)
  m_alt : bool;          (* ?1049  alternate screen *)
  m_paste : bool;        (* ?2004  bracketed paste *)
  m_sync : bool;         (* ?2026  synchronized output *)
  m_unicode : bool;      (* ?2027  unicode core *)
  m_theme : bool;        (* ?2031  colour-scheme reports *)
  m_inband : bool;       (* ?2048  in-band resize reports *)
  m_sixelscroll : bool;  (* ?8452  sixel scrolling leaves cursor to the right *)
  m_other : list Z;      (* any other private mode that is currently set *)
  t_keypad_app : bool;   (* ESC = / ESC > *)
  t_kitty : list Z;      (* kitty keyboard flag stack OF THE SCREEN CURRENTLY SHOWN, top first *)
  t_kitty_other : list Z;  (* the stack of the screen not shown (each screen keeps its own; ?1049 swaps) *)
  t_cstyle : Z;          (* DECSCUSR *)
  t_pointer : list Z;    (* OSC 22 pointer shape *)
  t_appid : list Z;      (* OSC 176 application id *)
  t_pen_default : bool;  (* SGR state is the default rendition *)
  t_link_open : bool;    (* an OSC 8 hyperlink is open *)
  t_honours_inband : bool; (* static: the terminal implements mode 2048 at all *)
  t_poison : bool        (* a sequence outside the vocabulary below was received *)
}.

(* ---------- primitives ---------- *)
Definition mem_z (n : Z) (l : list Z) : bool := existsb (Z.eqb n) l.
Definition add_z (n : Z) (l : list Z) : list Z := if mem_z n l then l else l ++ [n].
Definition del_z (n : Z) (l : list Z) : list Z := filter (fun x => negb (x =? n)) l.

Definition set_mode (n : Z) (b : bool) (t : term) : term :=
  let '(mkTerm ck cu bt an fo sg al pa sy un th ib ss ot ka ki ko cs po ap pe li ho px) := t in
  if n =? 1 then mkTerm b cu bt an fo sg al pa sy un th ib ss ot ka ki ko cs po ap pe li ho px
  else if n =? 25 then mkTerm ck b bt an fo sg al pa sy un th ib ss ot ka ki ko cs po ap pe li ho px
  else if n =? 1002 then mkTerm ck cu b an fo sg al pa sy un th ib ss ot ka ki ko cs po ap pe li ho px
  else if n =? 1003 then mkTerm ck cu bt b fo sg al pa sy un th ib ss ot ka ki ko cs po ap pe li ho px
  else if n =? 1004 then mkTerm ck cu bt an b sg al pa sy un th ib ss ot ka ki ko cs po ap pe li ho px
  else if n =? 1006 then mkTerm ck cu bt an fo b al pa sy un th ib ss ot ka ki ko cs po ap pe li ho px
  else if n =? 1049 then
    (* the kitty keyboard protocol: "the main and alternate screens maintain their own, independent,
       keyboard mode stacks" -- switching screens exchanges the two stacks, nothing is reset *)
    if Bool.eqb al b then mkTerm ck cu bt an fo sg al pa sy un th ib ss ot ka ki ko cs po ap pe li ho px
    else mkTerm ck cu bt an fo sg b pa sy un th ib ss ot ka ko ki cs po ap pe li ho px
  else if n =? 2004 then mkTerm ck cu bt an fo sg al b sy un th ib ss ot ka ki ko cs po ap pe li ho px
  else if n =? 2026 then mkTerm ck cu bt an fo sg al pa b un th ib ss ot ka ki ko cs po ap pe li ho px
  else if n =? 2027 then mkTerm ck cu bt an fo sg al pa sy b th ib ss ot ka ki ko cs po ap pe li ho px
  else if n =? 2031 then mkTerm ck cu bt an fo sg al pa sy un b ib ss ot ka ki ko cs po ap pe li ho px
  else if n =? 2048 then mkTerm ck cu bt an fo sg al pa sy un th (b && ho) ss ot ka ki ko cs po ap pe li ho px
  else if n =? 8452 then mkTerm ck cu bt an fo sg al pa sy un th ib b ot ka ki ko cs po ap pe li ho px
  else mkTerm ck cu bt an fo sg al pa sy un th ib ss (if b then add_z n ot else del_z n ot) ka ki ko cs po ap pe li ho px.

Definition set_keypad (b : bool) (t : term) : term :=
  let '(mkTerm ck cu bt an fo sg al pa sy un th ib ss ot ka ki ko cs po ap pe li ho px) := t in
  mkTerm ck cu bt an fo sg al pa sy un th ib ss ot b ki ko cs po ap pe li ho px.
Definition set_kitty (k : list Z) (t : term) : term :=
  let '(mkTerm ck cu bt an fo sg al pa sy un th ib ss ot ka ki ko cs po ap pe li ho px) := t in
  mkTerm ck cu bt an fo sg al pa sy un th ib ss ot ka k ko cs po ap pe li ho px.
Definition kitty_push (n : Z) (t : term) : term := set_kitty (n :: t_kitty t) t.
Definition kitty_pop1 (t : term) : term := set_kitty (match t_kitty t with [] => [] | _ :: r => r end) t.
Fixpoint kitty_pop (k : nat) (t : term) : term :=
  match k with O => t | S k' => kitty_pop k' (kitty_pop1 t) end.
Definition set_cstyle (n : Z) (t : term) : term :=
  let '(mkTerm ck cu bt an fo sg al pa sy un th ib ss ot ka ki ko cs po ap pe li ho px) := t in
  mkTerm ck cu bt an fo sg al pa sy un th ib ss ot ka ki ko n po ap pe li ho px.
Definition set_pointer (s : list Z) (t : term) : term :=
  let '(mkTerm ck cu bt an fo sg al pa sy un th ib ss ot ka ki ko cs po ap pe li ho px) := t in
  mkTerm ck cu bt an fo sg al pa sy un th ib ss ot ka ki ko cs s ap pe li ho px.
Definition set_appid (s : list Z) (t : term) : term :=
  let '(mkTerm ck cu bt an fo sg al pa sy un th ib ss ot ka ki ko cs po ap pe li ho px) := t in
  mkTerm ck cu bt an fo sg al pa sy un th ib ss ot ka ki ko cs po s pe li ho px.
Definition set_pen (b : bool) (t : term) : term :=
  let '(mkTerm ck cu bt an fo sg al pa sy un th ib ss ot ka ki ko cs po ap pe li ho px) := t in
  mkTerm ck cu bt an fo sg al pa sy un th ib ss ot ka ki ko cs po ap b li ho px.
Definition set_link (b : bool) (t : term) : term :=
  let '(mkTerm ck cu bt an fo sg al pa sy un th ib ss ot ka ki ko cs po ap pe li ho px) := t in
  mkTerm ck cu bt an fo sg al pa sy un th ib ss ot ka ki ko cs po ap pe b ho px.
Definition poison (t : term) : term :=
  let '(mkTerm ck cu bt an fo sg al pa sy un th ib ss ot ka ki ko cs po ap pe li ho px) := t in
  mkTerm ck cu bt an fo sg al pa sy un th ib ss ot ka ki ko cs po ap pe li ho true.

(* ---------- SGR ---------- *)
(* CSI m / CSI 0 m restore the default rendition.  SGR arguments that only switch one attribute
   back off (22..29, 39, 49, 59) never leave the default rendition; anything else does.  This is
   conservative: after "1 then 22" the flag stays false until the next full reset. *)
Definition sgr_is_reset (ps : list (list Z)) : bool :=
  forallb (fun p => match p with [0] => true | _ => false end) ps.
Definition sgr_only_offs (ps : list (list Z)) : bool :=
  forallb (fun p => match p with
                    | [n] => in_range n 22 29 || (n =? 39) || (n =? 49) || (n =? 59) || (n =? 0)
                    | _ => false end) ps.
Definition do_sgr (ps : list (list Z)) (t : term) : term :=
  if sgr_is_reset ps then set_pen true t
  else if sgr_only_offs ps then t
  else set_pen false t.

(* ---------- OSC ---------- *)
Fixpoint split_semi (s : list Z) (cur : list Z) : list (list Z) :=
  match s with
  | [] => [cur]
  | c :: r => if c =? 59 then cur :: split_semi r [] else split_semi r (cur ++ [c])
  end.
(* payload after the first ';' (the whole rest, further ';' included) *)
Fixpoint after_semi (s : list Z) : list Z :=
  match s with [] => [] | c :: r => if c =? 59 then r else after_semi r end.
Fixpoint before_semi (s : list Z) : list Z :=
  match s with [] => [] | c :: r => if c =? 59 then [] else c :: before_semi r end.

Definition do_osc (payload : list Z) (t : term) : term :=
  let num := before_semi payload in
  let rest := after_semi payload in
  if zlist_eqb num [50; 50] (* 22 *) then set_pointer rest t
  else if zlist_eqb num [49; 55; 54] (* 176 *) then
    (if zlist_eqb rest [63] (* ? : query *) then t else set_appid rest t)
  else if zlist_eqb num [56] (* 8 ; params ; uri *) then
    set_link (negb (match after_semi rest with [] => true | _ => false end)) t
  else if zlist_eqb num [52] || zlist_eqb num [49; 48] || zlist_eqb num [49; 49]   (* 4, 10, 11: colour queries *)
       || zlist_eqb num [54; 54]                                                   (* 66: text sizing *)
       || zlist_eqb num [50] || zlist_eqb num [57] || zlist_eqb num [55; 55; 55]   (* 2, 9, 777: title, notifications *)
       || zlist_eqb num [53; 50]                                                   (* 52: clipboard *)
  then t
  else poison t.

(* ---------- CSI ---------- *)
Definition first_param (p : list Z) : Z := match p with [] => 0 | n :: _ => n end.

Definition do_csi (inter : list Z) (ps : list (list Z)) (final : Z) (t : term) : term :=
  if zlist_eqb inter [63] (* ? *) then
    if final =? 104 (* h *) then fold_left (fun t p => set_mode (first_param p) true t) ps t
    else if final =? 108 (* l *) then fold_left (fun t p => set_mode (first_param p) false t) ps t
    else if (final =? 117) (* ?u kitty query *) || (final =? 110) (* ?n DSR *) || (final =? 83) (* ?S XTSMGRAPHICS *)
    then t else poison t
  else if zlist_eqb inter [63; 36] then (if final =? 112 (* ?..$p DECRQM *) then t else poison t)
  else if zlist_eqb inter [62] (* > *) then
    if final =? 117 (* >u push *) then kitty_push (match ps with [] => 0 | p :: _ => first_param p end) t
    else if final =? 113 (* >q XTVERSION *) then t else poison t
  else if zlist_eqb inter [60] (* < *) then
    if final =? 117 (* <u pop *) then
      kitty_pop (Z.to_nat (match ps with [] => 1 | p :: _ => Z.max 1 (first_param p) end)) t
    else poison t
  else if zlist_eqb inter [61] (* = *) then (if final =? 99 (* =c *) then t else poison t)
  else if zlist_eqb inter [32] (* SP *) then
    (if final =? 113 (* SP q DECSCUSR *) then set_cstyle (match ps with [] => 0 | p :: _ => first_param p end) t else poison t)
  else if zlist_eqb inter [] then
    if final =? 109 (* m *) then do_sgr ps t
    else if (final =? 72) (* H *) || (final =? 74) (* J *) || (final =? 75) (* K *) || (final =? 110) (* n *)
         || (final =? 99) (* c *) || (final =? 116) (* t *) then t
    else poison t
  else poison t.

Definition iinterp1 (i : item) (t : term) : term :=
  match i with
  | IPrint _ => t
  | IC0 _ => t
  | IEsc [] 61 => set_keypad true t
  | IEsc [] 62 => set_keypad false t
  | IEsc [] 92 => t                      (* a lone ST *)
  | IEsc _ _ => poison t
  | ISS3 _ => poison t
  | ICsi inter ps final => do_csi inter ps final t
  | IOsc p => do_osc p t
  | IDcs _ _ _ _ => t                    (* DECRQSS / XTGETTCAP requests, sixel data *)
  | IApc _ => t                          (* kitty graphics *)
  | IError => poison t
  | IEof => t
  | IPanic => poison t
  end.

Definition iinterp (is : list item) (t : term) : term := fold_left (fun t i => iinterp1 i t) is t.

(* ---------- bytes ---------- *)
(* what the console received: raw byte chunks, with long NUL runs (the writer's initial buffer)
   run-length encoded *)
Inductive seg := Raw (bs : list Z) | Nuls (n : Z).

Definition seg_bytes (s : seg) : list Z := match s with Raw b => b | Nuls n => zrepeat 0 n end.
Definition segs_bytes (l : list seg) : list Z := flat_map seg_bytes l.

(* A run of NULs is executed as C0 controls without effect; the shortcut is taken only when
   the parser is in its ground state (otherwise the bytes are fed one by one). *)
Fixpoint binterp_segs (l : list seg) (p : pst) (t : term) : pst * term :=
  match l with
  | [] => (p, t)
  | Raw b :: r =>
      let '(p1, o, go) := feed p (decode_all b) in
      let t1 := iinterp o t in
      if go then binterp_segs r p1 t1 else (p1, poison t1)
  | Nuls n :: r =>
      if pstate_eqb (st p) Ground then binterp_segs r p t
      else let '(p1, o, go) := feed p (zrepeat 0 n) in
           let t1 := iinterp o t in
           if go then binterp_segs r p1 t1 else (p1, poison t1)
  end.

(* the whole stream; a stream that ends inside a control sequence poisons the terminal *)
Definition binterp (l : list seg) (t : term) : term :=
  let '(p, t1) := binterp_segs l pinit t in
  if pstate_eqb (st p) Ground then t1 else poison t1.

Definition binterp_bytes (b : list Z) (t : term) : term := binterp [Raw b] t.

(* ---------- decidable equality ---------- *)
Definition term_eqb (a b : term) : bool :=
  Bool.eqb (m_ckeys a) (m_ckeys b) && Bool.eqb (m_cursor a) (m_cursor b) && Bool.eqb (m_btn a) (m_btn b)
  && Bool.eqb (m_any a) (m_any b) && Bool.eqb (m_focus a) (m_focus b) && Bool.eqb (m_sgrmouse a) (m_sgrmouse b)
  && Bool.eqb (m_alt a) (m_alt b) && Bool.eqb (m_paste a) (m_paste b) && Bool.eqb (m_sync a) (m_sync b)
  && Bool.eqb (m_unicode a) (m_unicode b) && Bool.eqb (m_theme a) (m_theme b) && Bool.eqb (m_inband a) (m_inband b)
  && Bool.eqb (m_sixelscroll a) (m_sixelscroll b) && zlist_eqb (m_other a) (m_other b)
  && Bool.eqb (t_keypad_app a) (t_keypad_app b) && zlist_eqb (t_kitty a) (t_kitty b)
  && zlist_eqb (t_kitty_other a) (t_kitty_other b)
  && (t_cstyle a =? t_cstyle b) && zlist_eqb (t_pointer a) (t_pointer b) && zlist_eqb (t_appid a) (t_appid b)
  && Bool.eqb (t_pen_default a) (t_pen_default b) && Bool.eqb (t_link_open a) (t_link_open b)
  && Bool.eqb (t_honours_inband a) (t_honours_inband b) && Bool.eqb (t_poison a) (t_poison b).

(* ---------- the terminal before Vaxis starts ---------- *)
(* Every mode Vaxis manages is at its power-on value (cursor visible, everything else reset,
   primary screen, numeric keypad, default rendition, no hyperlink, pointer shape "text").  What
   is arbitrary: the kitty keyboard stack of the main screen (the one shown: [kitty]) and the one of
   the alternate screen ([kitty_alt], whatever an earlier full-screen program left there), the
   cursor style, the application id, other modes. *)
Definition text_shape : list Z := [116; 101; 120; 116].
Definition fresh_term (other kitty kitty_alt : list Z) (cstyle : Z) (appid : list Z) (honours : bool) : term :=
  mkTerm false true false false false false false false false false false false false other
         false kitty kitty_alt cstyle text_shape appid true false honours false.
