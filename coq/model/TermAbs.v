(* C06 - the bridge between the emulator model (Term.v) and the reference terminal
   (VtSpec.v): the abstraction function, the encoding of the vocabulary as delivered
   sequences, and the correspondence functions of the C06 harness.  Executable
   definitions only. *)
From Vx Require Import base.Prelude base.ListX model.Colour model.Sgr model.Term model.TermCheck model.VtSpec.

(* ------------------------------------------------------------------ abstraction *)

(* what a cell shows: Draw renders an empty grapheme as a space and a zero width as 1 *)
Definition abs_cell (c : tcell) : disp := show (c_g c) (c_w c) (c_st c).
Definition abs_grid (g : grid) : dgrid := map (map abs_cell) g.
Definition abs_saved (s : saved) : Z * Z * style := (s_row s, s_col s, s_pen s).

Definition abs (t : term) : vt :=
  mkVt (height t) (width t) (abs_grid (active t))
       (if t_onalt t then Some (abs_grid (t_prim t)) else None)
       (t_row t) (t_col t) (t_last t) (t_pen t) (t_top t) (t_bot t)
       (abs_saved (t_svp t)) (abs_saved (t_sva t)).

(* ------------------------------------------------------------------ encoding *)

Definition p1 (p : par) : list (list Z) := match p with Om => [] | Ex n => [[n]] end.
Definition p2 (a b : par) : list (list Z) :=
  match a, b with
  | Om, Om => []
  | Ex x, Om => [[x]]
  | _, Ex y => [[pval a]; [y]]
  end.

Definition enc_sgrc (c : sgrc) : list (list Z) :=
  match c with
  | SReset => [[0]] | SBold => [[1]] | SDim => [[2]] | SItalic => [[3]] | SUnderline => [[4]]
  | SBlink => [[5]] | SReverse => [[7]] | SInvisible => [[8]] | SStrike => [[9]]
  | SNormalInt => [[22]] | SNoItalic => [[23]] | SNoUnderline => [[24]] | SNoBlink => [[25]]
  | SNoReverse => [[27]] | SVisible => [[28]] | SNoStrike => [[29]]
  | SFg n => [[30 + n]] | SBg n => [[40 + n]]
  | SFgBright n => [[90 + n]] | SBgBright n => [[100 + n]]
  | SFgIdx n => [[38]; [5]; [n]] | SBgIdx n => [[48]; [5]; [n]]
  | SFgRgb r g b => [[38]; [2]; [r]; [g]; [b]] | SBgRgb r g b => [[48]; [2]; [r]; [g]; [b]]
  | SFgDefault => [[39]] | SBgDefault => [[49]]
  end.

Definition csi1 (p : par) (final : Z) : titem := TCsi [] (p1 p) final.

(* the sequence the parser delivers for each operation *)
Definition enc (o : vop) : titem :=
  match o with
  | Print g w => TPrint g w
  | CR => TC0 13
  | LF => TC0 10
  | IND => TEsc [] 68
  | RI => TEsc [] 77
  | NEL => TEsc [] 69
  | CUU p => csi1 p 65 | CUD p => csi1 p 66 | CUF p => csi1 p 67 | CUB p => csi1 p 68
  | CNL p => csi1 p 69 | CPL p => csi1 p 70
  | CHA p => csi1 p 71 | HPA p => csi1 p 96 | VPA p => csi1 p 100
  | HPR p => csi1 p 97 | VPR p => csi1 p 101
  | CUP r c => TCsi [] (p2 r c) 72
  | HVP r c => TCsi [] (p2 r c) 102
  | ED p => csi1 p 74 | EL p => csi1 p 75
  | ECH p => csi1 p 88 | ICH p => csi1 p 64 | DCH p => csi1 p 80
  | IL p => csi1 p 76 | DL p => csi1 p 77
  | SU p => csi1 p 83 | SD p => csi1 p 84
  | DECSTBM t b => TCsi [] (p2 t b) 114
  | DECSC => TEsc [] 55
  | DECRC => TEsc [] 56
  | AltOn => TCsi [63] [[1049]] 104
  | AltOff => TCsi [63] [[1049]] 108
  | SGR cs => TCsi [] (flat_map enc_sgrc cs) 109
  | Link ps uri => TOsc ([56; 59] ++ ps ++ [59] ++ uri)       (* 8 ; params ; URI *)
  end.

(* the emulator on a vocabulary history: every sequence after the goroutine drained *)
Definition run_term (t : term) (ops : list vop) : tres term :=
  run t (map (fun o => HFeed true (enc o)) ops).

(* ------------------------------------------------------------------ C06 correspondence *)

Definition zll_eqb := list_eqb zlist_eqb.
Definition titem_eqb (a b : titem) : bool :=
  match a, b with
  | TPrint g w, TPrint g' w' => zlist_eqb g g' && (w =? w')
  | TC0 c, TC0 c' => c =? c'
  | TEsc i f, TEsc i' f' => zlist_eqb i i' && (f =? f')
  | TCsi i p f, TCsi i' p' f' => zlist_eqb i i' && zll_eqb p p' && (f =? f')
  | TOsc p, TOsc p' => zlist_eqb p p'
  | TDcs, TDcs | TApc, TApc | TOther, TOther => true
  | _, _ => false
  end.

(* rebuild the emulator state from a complete observation *)
Fixpoint find_cell (sp : list scell) (r c : Z) : tcell :=
  match sp with
  | [] => cell0
  | (r', c', x) :: rest => if (r =? r') && (c =? c') then x else find_cell rest r c
  end.

Definition dense (rows cols : Z) (sp : list scell) : grid :=
  map (fun r => map (fun c => find_cell sp r c) (zseq cols)) (zseq rows).

Definition term_of_obs (o : obs) : option term :=
  match o_full o with
  | None => None
  | Some f =>
      Some (mkTerm (dense (o_rows o) (o_cols o) (f_prim f)) (dense (o_rows o) (o_cols o) (f_alt f))
                   (f_onalt f) (o_row o) (o_col o) (f_pen f) (f_shape f) (o_last o)
                   (o_top o) (o_bot o) (o_left o) (o_right o) (f_tabs f) (f_md f) (f_cs f)
                   (f_svp f) (f_sva f) (o_ev o))
  end.

(* one case: the size, the observation after the first resize, then the operations with
   the sequence the real parser delivered for each and the complete observation *)
Definition vt_case : Type := Z * Z * obs * list (vop * titem * obs).

Definition vt_history (c : vt_case) : hist_case :=
  let '(cols, rows, o0, steps) := c in
  (HResize cols rows, o0) :: map (fun s => let '(_, it, o) := s in (HFeed true it, o)) steps.

(* the decidable statement of C06 on one observed history: every sequence fed is the
   encoding of its operation, and after every prefix on which the reference terminal is
   defined the implementation's state, abstracted, is the reference terminal's state *)
Fixpoint spec_check (v : option vt) (steps : list (vop * titem * obs)) : bool :=
  match steps with
  | [] => true
  | (o, it, ob) :: rest =>
      titem_eqb it (enc o) &&
      match v with
      | None => spec_check None rest
      | Some v0 =>
          match spec_step v0 o with
          | None => spec_check None rest
          | Some v1 =>
              (* a step observed only lightly (the fill preamble) is not compared *)
              (o_out ob =? 0) &&
              match term_of_obs ob with
              | Some t => vt_eqb (abs t) v1
              | None => true
              end && spec_check (Some v1) rest
          end
      end
  end.

Definition vt_holds (c : vt_case) : bool :=
  let '(cols, rows, o0, steps) := c in
  (o_out o0 =? 0) && (2 <=? cols) && (2 <=? rows) &&
  match term_of_obs o0 with
  | Some t => vt_eqb (abs t) (vt_init cols rows)
  | None => false
  end && spec_check (Some (vt_init cols rows)) steps.

Definition c06_vt_mismatches (cases : list vt_case) : list Z :=
  bad_indices (fun c => negb (hist_model_ok (vt_history c))) cases.
Definition c06_vt_violations (cases : list vt_case) : list Z :=
  bad_indices (fun c => negb (vt_holds c)) cases.
