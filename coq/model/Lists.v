(* C19 - executable models of vxfw/list.Dynamic, widgets/list.List, widgets/pager.Model and
   widgets/scrollbar.Model (the code as it is in /repo after the C19 fixes).
   Definitions only; proofs are in proofs/ListsProofs.v. *)
From Vx Require Import base.Prelude base.ListX.

Inductive result (A : Type) : Type := Ok (a : A) | Panic.
Arguments Ok {A} a.
Arguments Panic {A}.

Fixpoint last_opt {A} (l : list A) : option A :=
  match l with
  | [] => None
  | [x] => Some x
  | _ :: t => last_opt t
  end.

(* ====================================================================================== *)
(* vxfw/list.Dynamic                                                                       *)
(* ====================================================================================== *)

(* cursor, scroll.top are Go uint (wrap explicit: u64); offset, pending, Gap, rows are int *)
Record dstate := mkD { d_cur : Z; d_top : Z; d_off : Z; d_pend : Z; d_wants : bool }.
Definition d_init : dstate := mkD 0 0 0 0 false.

(* one SubSurface of the surface returned by Draw: item index, origin row/col, height *)
Record child := mkC { c_idx : Z; c_row : Z; c_col : Z; c_h : Z }.

(* The BuilderFunc oracle: item heights as a list; Builder(i) is nil iff i is not an index *)
(* (the length test first: an index may be as large as 2^64-1) *)
Definition builder (hs : list Z) (i : Z) : option Z := if zlen hs <=? i then None else zget hs i.

(* heights of items i, i+1, ... (the widgets the downward loop of Draw obtains) *)
Definition items_from (hs : list Z) (i : Z) : list Z :=
  if (i <? 0) || (zlen hs <=? i) then [] else skipn (Z.to_nat i) hs.

(* heights of items t, t-1, ..., 0; empty when Builder(t) is nil *)
Definition items_back (hs : list Z) (t : Z) : list Z :=
  if (t <? 0) || (zlen hs <=? t) then [] else rev (firstn (Z.to_nat (t + 1)) hs).

Definition ensure_scroll (st : dstate) : dstate :=
  if d_top st <? d_cur st
  then mkD (d_cur st) (d_top st) (d_off st) (d_pend st) true
  else mkD (d_cur st) (d_cur st) 0 (d_pend st) (d_wants st).

Definition set_cur (st : dstate) (c : Z) : dstate :=
  mkD c (d_top st) (d_off st) (d_pend st) (d_wants st).

Definition set_cursor (st : dstate) (c : Z) : dstate := ensure_scroll (set_cur st c).

Definition next_item (hs : list Z) (st : dstate) : dstate :=
  match builder hs (u64 (d_cur st + 1)) with
  | None => st
  | Some _ => ensure_scroll (set_cur st (u64 (d_cur st + 1)))
  end.

Definition prev_item (hs : list Z) (st : dstate) : dstate :=
  if d_cur st =? 0 then st
  else match builder hs (u64 (d_cur st - 1)) with
       | None => st
       | Some _ => ensure_scroll (set_cur st (u64 (d_cur st - 1)))
       end.

Definition set_pending (st : dstate) (k : Z) : dstate :=
  mkD (d_cur st) (d_top st) (d_off st) k (d_wants st).

(* HandleEvent: mouse wheel *)
Definition wheel_down (st : dstate) : dstate := set_pending st (d_pend st + 3).
Definition wheel_up (st : dstate) : dstate :=
  if (0 <? d_off st) && (0 <? d_top st) then set_pending st (d_pend st - 3) else st.

Definition coloff (dc : bool) : Z := if dc then 2 else 0.

(* the loop of insertChildren; [before] = heights of items t, t-1, ..., 0.
   Result: (scroll.top, ah, children) *)
Fixpoint ins_loop (gap : Z) (before : list Z) (t ah co : Z) (acc : list child) : Z * Z * list child :=
  match before with
  | [] => (t, ah, acc)                           (* Builder(top) == nil: break *)
  | h :: rest =>
      let ah' := ah - (h + gap) in
      let acc' := mkC t ah' co h :: acc in       (* slices.Insert(p.Children, 0, ss) *)
      if (t =? 0) || (ah' <=? 0) then (t, ah', acc')
      else ins_loop gap rest (u64 (t - 1)) ah' co acc'
  end.

(* "We reached the top widget but are below row 0": rows reassigned from a uint16 counter *)
Fixpoint rerow (gap : Z) (cs : list child) (row : Z) : list child :=
  match cs with
  | [] => []
  | c :: t => mkC (c_idx c) row (c_col c) (c_h c) :: rerow gap t (u16 (row + c_h c + gap))
  end.

(* insertChildren: (scroll.top, scroll.offset, children) *)
Definition insert_children (gap : Z) (hs : list Z) (co top ah : Z) : Z * Z * list child :=
  let t0 := u64 (top - 1) in
  let '(t, ah', cs) := ins_loop gap (items_back hs t0) t0 ah co [] in
  if (t =? 0) && (0 <? ah') then (t, 0, rerow gap cs 0) else (t, ah', cs).

(* the downward loop of Draw; [suffix] = heights of items i, i+1, ... *)
Fixpoint down_loop (suffix : list Z) (i ah : Z) (wants : bool) (cur H gap co : Z) : list child :=
  match suffix with
  | [] => []                                      (* Builder(i) == nil: break *)
  | h :: rest =>
      let i' := u64 (i + 1) in
      let c := mkC i ah co h in
      let ah' := ah + h + gap in
      if wants && (i' <=? cur) then c :: down_loop rest i' ah' wants cur H gap co
      else if H <=? ah' then [c]
      else c :: down_loop rest i' ah' wants cur H gap co
  end.

Definition shift (adj : Z) (cs : list child) : list child :=
  map (fun c => mkC (c_idx c) (c_row c + adj) (c_col c) (c_h c)) cs.

(* the child, or the gap below it, is on row 0 *)
Definition covers0 (gap : Z) (c : child) : bool := (c_row c <=? 0) && (0 <? c_row c + c_h c + gap).

(* "Reset origins and state based on actual draw" *)
Fixpoint reset_loop (gap : Z) (cs : list child) (k top off : Z) : Z * Z :=
  match cs with
  | [] => (top, off)
  | c :: t => if covers0 gap c then reset_loop gap t (k + 1) (u64 (top + k)) (- c_row c)
              else reset_loop gap t (k + 1) top off
  end.

(* first half of Draw: pending scroll, upward insertion, downward loop.
   Result: (scroll.top, scroll.offset, children) *)
Definition draw_layout (gap : Z) (dc : bool) (hs : list Z) (H : Z) (st : dstate) : Z * Z * list child :=
  let co := coloff dc in
  let ah0 := - (d_off st + d_pend st) in
  let '(ah1, off1) := if (0 <? ah0) && (d_top st =? 0) then (0, 0) else (ah0, d_off st) in
  let i0 := d_top st in
  let '(top2, off2, ins, ah2) :=
    if 0 <? ah1 then
      let '(t, o, cs) := insert_children gap hs co (d_top st) ah1 in
      match last_opt cs with
      | Some l => (t, o, cs, c_row l + c_h l + gap)
      | None => (t, o, cs, ah1)
      end
    else (d_top st, off1, [], ah1) in
  (top2, off2, ins ++ down_loop (items_from hs i0) i0 ah2 (d_wants st) (d_cur st) H gap co).

(* index of the cursored widget in the child list: cursor >= top && cursor-top < len *)
Definition cursor_hit (cur top2 : Z) (cs : list child) : bool :=
  (top2 <=? cur) && (u64 (cur - top2) <? zlen cs).

(* DrawCursor: the cursored child is wrapped into a surface at column 0 *)
Definition draw_cursor (dc : bool) (cur top2 : Z) (cs : list child) : option (list child) :=
  if dc && cursor_hit cur top2 cs
  then match zget cs (u64 (cur - top2)) with
       | Some c => zupd cs (u64 (cur - top2)) (mkC (c_idx c) (c_row c) 0 (c_h c))
       | None => None
       end
  else Some cs.

(* wantsCursor: move everything up so that the cursored child ends at the last row *)
Definition draw_follow (wants : bool) (cur top2 H : Z) (cs : list child) : option (list child * bool) :=
  if wants && cursor_hit cur top2 cs
  then match zget cs (u64 (cur - top2)) with
       | Some c => let b := c_row c + c_h c in
                   Some (if H <? b then shift (H - b) cs else cs, false)
       | None => None
       end
  else Some (cs, wants).

Definition draw (gap : Z) (dc : bool) (hs : list Z) (W H : Z) (st : dstate)
  : result (list child * dstate) :=
  if (H =? 65535) || (W =? 65535) then Panic      (* unbounded height or width *)
  else
    let '(top2, off2, cs) := draw_layout gap dc hs H st in
    match draw_cursor dc (d_cur st) top2 cs with
    | None => Panic
    | Some cs1 =>
        match draw_follow (d_wants st) (d_cur st) top2 H cs1 with
        | None => Panic
        | Some (cs2, wants2) =>
            let '(top3, off3) := reset_loop gap cs2 0 top2 off2 in
            Ok (cs2, mkD (d_cur st) top3 off3 0 wants2)
        end
    end.

Inductive dop :=
| DNext | DPrev | DSetCursor (c : Z) | DWheelDown | DWheelUp | DSetPending (k : Z)
| DSetItems (hs : list Z) | DDraw (w h : Z).

(* one step: new items, new state, children returned (only by Draw) *)
Definition dstep (gap : Z) (dc : bool) (hs : list Z) (st : dstate) (op : dop)
  : result (list Z * dstate * list child) :=
  match op with
  | DNext => Ok (hs, next_item hs st, [])
  | DPrev => Ok (hs, prev_item hs st, [])
  | DSetCursor c => Ok (hs, set_cursor st c, [])
  | DWheelDown => Ok (hs, wheel_down st, [])
  | DWheelUp => Ok (hs, wheel_up st, [])
  | DSetPending k => Ok (hs, set_pending st k, [])
  | DSetItems hs' => Ok (hs', st, [])
  | DDraw w h => match draw gap dc hs w h st with
                 | Ok (cs, st') => Ok (hs, st', cs)
                 | Panic => Panic
                 end
  end.

(* ---- observations: outcome (0 ok, 1 panic), state, children ---- *)
Definition dstate_t : Type := Z * Z * Z * Z * bool.
Definition child_t : Type := Z * Z * Z * Z.
Definition dobs : Type := Z * dstate_t * list child_t.

Definition tuple_of_state (s : dstate) : dstate_t := (d_cur s, d_top s, d_off s, d_pend s, d_wants s).
Definition state_of_tuple (t : dstate_t) : dstate :=
  let '(a, b, c, d, e) := t in mkD a b c d e.
Definition tuple_of_child (c : child) : child_t := (c_idx c, c_row c, c_col c, c_h c).
Definition child_of_tuple (t : child_t) : child := let '(a, b, c, d) := t in mkC a b c d.

Definition dstate_t_eqb (x y : dstate_t) : bool :=
  let '(a, b, c, d, e) := x in let '(a', b', c', d', e') := y in
  (a =? a') && (b =? b') && (c =? c') && (d =? d') && Bool.eqb e e'.
Definition child_t_eqb (x y : child_t) : bool :=
  let '(a, b, c, d) := x in let '(a', b', c', d') := y in
  (a =? a') && (b =? b') && (c =? c') && (d =? d').

(* the trace the model produces for a list of operations; a panic ends it *)
Fixpoint dyn_run (gap : Z) (dc : bool) (hs : list Z) (st : dstate) (ops : list dop) : list (dop * dobs) :=
  match ops with
  | [] => []
  | op :: rest =>
      match dstep gap dc hs st op with
      | Panic => [(op, (1, tuple_of_state st, []))]
      | Ok (hs', st', cs) =>
          (op, (0, tuple_of_state st', map tuple_of_child cs)) :: dyn_run gap dc hs' st' rest
      end
  end.

Definition dobs_eqb (x y : dobs) : bool :=
  let '(o, s, cs) := x in let '(o', s', cs') := y in
  (o =? o') && ((o =? 1) || (dstate_t_eqb s s' && list_eqb child_t_eqb cs cs')).

Definition dyn_case : Type := Z * bool * list Z * list (dop * dobs).

(* model vs implementation: the observed trace equals the model's trace *)
Definition dyn_case_matches (c : dyn_case) : bool :=
  let '(gap, dc, hs, tr) := c in
  let m := dyn_run gap dc hs d_init (map fst tr) in
  list_eqb dobs_eqb (map snd m) (map snd tr).

(* ---- the property on an observed trace (no reference to the model's functions) ---- *)

Definition valid_index (c n : Z) : bool := (0 <=? c) && ((c <? n) || ((n =? 0) && (c =? 0))).

(* scroll state anchored inside the top item or the gap below it:
   0 <= offset, and offset < height(top) + gap unless 0 *)
Definition ioff (gap : Z) (hs : list Z) (st : dstate) : bool :=
  (0 <=? d_off st) &&
  ((d_off st =? 0) || match builder hs (d_top st) with Some h => d_off st <? h + gap | None => false end).

Definition heights_ok (hs : list Z) (cs : list child) : bool :=
  forallb (fun c => option_eqb Z.eqb (builder hs (c_idx c)) (Some (c_h c))) cs.

(* [adj R l]: every two neighbours of l are related by R *)
Fixpoint adj {A} (R : A -> A -> bool) (l : list A) : bool :=
  match l with
  | a :: ((b :: _) as t) => R a b && adj R t
  | _ => true
  end.

(* drawn children are in index order *)
Definition consecutive (cs : list child) : bool :=
  adj (fun a b => c_idx b =? c_idx a + 1) cs.

(* each child starts where the previous one ends plus the gap *)
Definition spacing (gap : Z) (cs : list child) : bool :=
  adj (fun a b => c_row b =? c_row a + c_h a + gap) cs.

Definition no_overlap (cs : list child) : bool :=
  adj (fun a b => c_row a + c_h a <=? c_row b) cs.

Definition cols_ok (dc : bool) (cur : Z) (cs : list child) : bool :=
  forallb (fun c => c_col c =? (if dc && (c_idx c =? cur) then 0 else coloff dc)) cs.

(* fully inside the viewport if it fits, otherwise it intersects it *)
Definition visible_ok (row h H : Z) : bool :=
  if h <=? H then (0 <=? row) && (row + h <=? H) else (row <? H) && (0 <? row + h).

Definition cursor_visible (H cur : Z) (cs : list child) : bool :=
  existsb (fun c => (c_idx c =? cur) && visible_ok (c_row c) (c_h c) H) cs.

(* the recorded top/offset point at the child that covers row 0 *)
Definition anchor_ok (gap : Z) (post : dstate) (cs : list child) : bool :=
  forallb (fun c => negb (covers0 gap c) || ((d_top post =? c_idx c) && (d_off post =? - c_row c))) cs.

(* scroll position kept: the draw re-anchored top/offset, i.e. some child (or the gap below it)
   is on row 0, so that an idle redraw starts from the same place *)
Definition scroll_kept (gap : Z) (cs : list child) : bool :=
  match cs with [] => true | _ => existsb (covers0 gap) cs end.

(* finding class scroll-past-end: everything drawn ends above row 0 *)
Definition past_end (gap : Z) (cs : list child) : bool :=
  match last_opt cs with Some l => c_row l + c_h l + gap <=? 0 | None => false end.

(* [g] = true: with the guard of the recorded finding scroll-past-end *)
Definition draw_obs_ok (g : bool) (gap : Z) (dc : bool) (hs : list Z) (H : Z) (pre : dstate) (sel : bool)
           (post : dstate) (cs : list child) : bool :=
  heights_ok hs cs && consecutive cs && spacing gap cs && no_overlap cs &&
  cols_ok dc (d_cur pre) cs &&
  (d_pend post =? 0) && (d_cur post =? d_cur pre) &&
  anchor_ok gap post cs &&
  (scroll_kept gap cs || (g && past_end gap cs)) &&
  (if sel && (d_pend pre =? 0) && ioff gap hs pre && (d_cur pre <? zlen hs) && (0 <? H)
   then cursor_visible H (d_cur pre) cs else true).

Definition is_select (op : dop) (pre post : dstate) : bool :=
  match op with
  | DSetCursor _ => true
  | DNext | DPrev => negb (d_cur pre =? d_cur post)
  | _ => false
  end.

Definition index_step_ok (op : dop) (hs : list Z) (pre post : dstate) : bool :=
  match op with
  | DSetCursor c => d_cur post =? c
  | DSetItems _ => d_cur post =? d_cur pre
  | _ => negb (valid_index (d_cur pre) (zlen hs)) || valid_index (d_cur post) (zlen hs)
  end.

Fixpoint dyn_trace_ok (g : bool) (gap : Z) (dc : bool) (hs : list Z) (pre : dstate) (sel : bool)
         (tr : list (dop * dobs)) : bool :=
  match tr with
  | [] => true
  | (op, (oc, stt, cs)) :: rest =>
      let post := state_of_tuple stt in
      let hs' := match op with DSetItems h' => h' | _ => hs end in
      (oc =? 0) &&
      index_step_ok op hs pre post &&
      match op with
      | DDraw w h => draw_obs_ok g gap dc hs h pre sel post (map child_of_tuple cs)
      | _ => true
      end &&
      dyn_trace_ok g gap dc hs' post (is_select op pre post) rest
  end.

(* the property (gaps are >= 0) *)
Definition dyn_case_ok (c : dyn_case) : bool :=
  let '(gap, dc, hs, tr) := c in (0 <=? gap) && dyn_trace_ok false gap dc hs d_init false tr.
(* the property with the input class of the recorded finding excluded *)
Definition dyn_case_ok_guarded (c : dyn_case) : bool :=
  let '(gap, dc, hs, tr) := c in (0 <=? gap) && dyn_trace_ok true gap dc hs d_init false tr.

Definition c19_dyn_mismatches (cases : list dyn_case) : list Z :=
  bad_indices (fun c => negb (dyn_case_matches c)) cases.
Definition c19_dyn_violations (cases : list dyn_case) : list Z :=
  bad_indices (fun c => negb (dyn_case_ok c)) cases.
(* cases that fail the property only under the guard of finding scroll-past-end *)
Definition c19_dyn_known (cases : list dyn_case) : list Z :=
  bad_indices (fun c => negb (dyn_case_ok c) && dyn_case_ok_guarded c) cases.

(* ====================================================================================== *)
(* widgets/list.List                                                                       *)
(* ====================================================================================== *)

Record lstate := mkL { l_index : Z; l_offset : Z }.
Definition l_init : lstate := mkL 0 0.

Definition l_set_index (st : lstate) (i : Z) : lstate := mkL i (l_offset st).

Definition l_down (n : Z) (st : lstate) := l_set_index st (Z.max 0 (Z.min (n - 1) (l_index st + 1))).
Definition l_up (st : lstate) := l_set_index st (Z.max 0 (l_index st - 1)).
Definition l_home (st : lstate) := l_set_index st 0.
Definition l_end (n : Z) (st : lstate) := l_set_index st (Z.max 0 (n - 1)).
Definition l_pagedown (n h : Z) (st : lstate) := l_set_index st (Z.max 0 (Z.min (n - 1) (l_index st + h))).
Definition l_pageup (h : Z) (st : lstate) := l_set_index st (Z.max 0 (l_index st - h)).
Definition l_setitems (n' : Z) (st : lstate) := l_set_index st (Z.max 0 (Z.min (n' - 1) (l_index st))).

(* Window.Println of an item whose characters all have width 1: the first w characters *)
Definition println_w1 (w : Z) (t : text) : text := firstn (Z.to_nat w) t.

(* rows 0..h-1 of the window: (text shown, drawn in reverse video) *)
Fixpoint l_rows (w : Z) (sel : Z) (r : Z) (h : nat) (tail : list text) : list (text * bool) :=
  match h with
  | O => []
  | S h' =>
      match tail with
      | [] => ([], false) :: l_rows w sel (r + 1) h' []
      | t :: tail' =>
          let shown := println_w1 w t in
          (shown, (r =? sel) && negb (zlen shown =? 0)) :: l_rows w sel (r + 1) h' tail'
      end
  end.

Definition l_draw (items : list text) (w h : Z) (st : lstate) : result (list (text * bool) * lstate) :=
  if h <=? 0 then Ok ([], st)
  else
    let off' := if l_offset st + h <=? l_index st then l_index st - h + 1
                else if l_index st <? l_offset st then l_index st
                else l_offset st in
    match zslice items off' (zlen items) with      (* m.items[m.offset:] *)
    | None => Panic
    | Some tail => Ok (l_rows w (l_index st - off') 0 (Z.to_nat h) tail, mkL (l_index st) off')
    end.

Inductive lop :=
| LDown | LUp | LHome | LEnd | LPageDown (h : Z) | LPageUp (h : Z) | LSetItems (items : list text)
| LDraw (w h : Z).

Definition lstep (items : list text) (st : lstate) (op : lop)
  : result (list text * lstate * list (text * bool)) :=
  match op with
  | LDown => Ok (items, l_down (zlen items) st, [])
  | LUp => Ok (items, l_up st, [])
  | LHome => Ok (items, l_home st, [])
  | LEnd => Ok (items, l_end (zlen items) st, [])
  | LPageDown h => Ok (items, l_pagedown (zlen items) h st, [])
  | LPageUp h => Ok (items, l_pageup h st, [])
  | LSetItems it' => Ok (it', l_setitems (zlen it') st, [])
  | LDraw w h => match l_draw items w h st with
                 | Ok (rows, st') => Ok (items, st', rows)
                 | Panic => Panic
                 end
  end.

(* observation: outcome, (index, offset), rows *)
Definition lobs : Type := Z * (Z * Z) * list (text * bool).

Fixpoint wl_run (items : list text) (st : lstate) (ops : list lop) : list (lop * lobs) :=
  match ops with
  | [] => []
  | op :: rest =>
      match lstep items st op with
      | Panic => [(op, (1, (l_index st, l_offset st), []))]
      | Ok (it', st', rows) => (op, (0, (l_index st', l_offset st'), rows)) :: wl_run it' st' rest
      end
  end.

Definition row_eqb (a b : text * bool) : bool := zlist_eqb (fst a) (fst b) && Bool.eqb (snd a) (snd b).

Definition lobs_eqb (x y : lobs) : bool :=
  let '(o, (i, f), rows) := x in let '(o', (i', f'), rows') := y in
  (o =? o') && ((o =? 1) || ((i =? i') && (f =? f') && list_eqb row_eqb rows rows')).

Definition wl_case : Type := list text * list (lop * lobs).

Definition wl_case_matches (c : wl_case) : bool :=
  let '(items, tr) := c in
  list_eqb lobs_eqb (map snd (wl_run items l_init (map fst tr))) (map snd tr).

(* the property on an observed trace *)
Fixpoint rows_ok (items : list text) (w index : Z) (i : Z) (rows : list (text * bool)) : bool :=
  match rows with
  | [] => true
  | (t, rv) :: rest =>
      (match zget items i with
       | Some it => zlist_eqb t (firstn (Z.to_nat w) it) && Bool.eqb rv ((i =? index) && (0 <? w) && negb (zlen it =? 0))
       | None => (zlen t =? 0) && negb rv
       end) && rows_ok items w index (i + 1) rest
  end.

Definition wl_draw_obs_ok (items : list text) (w h : Z) (index offset : Z) (rows : list (text * bool)) : bool :=
  if h <=? 0 then zlen rows =? 0
  else (offset <=? index) && (index <? offset + h) && (0 <=? offset) &&
       (zlen rows =? h) && rows_ok items w index offset rows.

Fixpoint wl_trace_ok (items : list text) (tr : list (lop * lobs)) : bool :=
  match tr with
  | [] => true
  | (op, (oc, (index, offset), rows)) :: rest =>
      let items' := match op with LSetItems it' => it' | _ => items end in
      (oc =? 0) && valid_index index (zlen items') &&
      match op with
      | LDraw w h => wl_draw_obs_ok items w h index offset rows
      | _ => true
      end &&
      wl_trace_ok items' rest
  end.

Definition wl_case_ok (c : wl_case) : bool := let '(items, tr) := c in wl_trace_ok items tr.

Definition c19_wlist_mismatches (cases : list wl_case) : list Z :=
  bad_indices (fun c => negb (wl_case_matches c)) cases.
Definition c19_wlist_violations (cases : list wl_case) : list Z :=
  bad_indices (fun c => negb (wl_case_ok c)) cases.

(* ====================================================================================== *)
(* widgets/pager.Model                                                                     *)
(* ====================================================================================== *)

(* a character as vaxis.Characters returns it: grapheme (code points) and width; the
   segmentation and the widths are an oracle (uniseg), shipped inside the case *)
Definition pchar : Type := text * Z.
Definition pc_width (c : pchar) : Z := snd c.
Definition is_nl (c : pchar) : bool := existsb (Z.eqb 10) (fst c).

(* Layout: [cur] is the current line reversed, [col] its accumulated width *)
Fixpoint layout_go (w : Z) (cs : list pchar) (cur : list pchar) (col : Z) : list (list pchar) :=
  match cs with
  | [] => match cur with [] => [] | _ => [rev cur] end      (* the unterminated last line *)
  | c :: t =>
      if is_nl c then rev cur :: layout_go w t [] 0
      else let cur' := c :: cur in
           let col' := col + pc_width c in
           if w <=? col' then rev cur' :: layout_go w t [] 0
           else layout_go w t cur' col'
  end.

Definition layout (w : Z) (cs : list pchar) : list (list pchar) := layout_go w cs [] 0.

Record pstate := mkP { p_chars : list pchar; p_lines : list (list pchar); p_offset : Z; p_width : Z }.
Definition p_init (cs : list pchar) : pstate := mkP cs [] 0 0.

Definition fill_cell : pchar := ([32], 0).

(* win.SetCell(col, row, cell) for every cell of a line; cells beyond the width are dropped *)
Fixpoint place_line (w : Z) (row : list pchar) (col : Z) (line : list pchar) : list pchar :=
  match line with
  | [] => row
  | c :: t =>
      let row' := if (0 <=? col) && (col <? w)
                  then match zupd row col c with Some r => r | None => row end
                  else row in
      place_line w row' (col + pc_width c) t
  end.

Fixpoint p_grid (w : Z) (lines : list (list pchar)) (r : Z) (h : nat) : list (list pchar) :=
  match h with
  | O => []
  | S h' =>
      let blank := zrepeat fill_cell w in
      (match zget lines r with
       | Some l => place_line w blank 0 l
       | None => blank
       end) :: p_grid w lines (r + 1) h'
  end.

Definition p_clamp (n h off : Z) : Z :=
  let o1 := if n - off <? h then n - h else off in
  if o1 <? 0 then 0 else o1.

Definition p_draw (w h : Z) (st : pstate) : list (list pchar) * pstate :=
  let '(lines, width) := if w =? p_width st then (p_lines st, p_width st)
                         else (layout w (p_chars st), w) in
  let off := p_clamp (zlen lines) h (p_offset st) in
  (p_grid w lines off (Z.to_nat h), mkP (p_chars st) lines off width).

Inductive pop :=
| PDraw (w h : Z) | PScrollDown | PScrollUp | PSetOffset (k : Z) | PSetText (cs : list pchar) | PLayout.

Definition pstep (st : pstate) (op : pop) : pstate * list (list pchar) :=
  match op with
  | PDraw w h => let '(g, st') := p_draw w h st in (st', g)
  | PScrollDown => (mkP (p_chars st) (p_lines st) (p_offset st + 1) (p_width st), [])
  | PScrollUp => (mkP (p_chars st) (p_lines st) (p_offset st - 1) (p_width st), [])
  | PSetOffset k => (mkP (p_chars st) (p_lines st) k (p_width st), [])
  | PSetText cs => (mkP cs (p_lines st) (p_offset st) (p_width st), [])
  | PLayout => (mkP (p_chars st) (layout (p_width st) (p_chars st)) (p_offset st) (p_width st), [])
  end.

(* observation: Offset, width, the laid-out lines, the window's cells (Draw only) *)
Definition pobs : Type := Z * Z * list (list pchar) * list (list pchar).

Fixpoint p_run (st : pstate) (ops : list pop) : list (pop * pobs) :=
  match ops with
  | [] => []
  | op :: rest =>
      let '(st', g) := pstep st op in
      (op, (p_offset st', p_width st', p_lines st', g)) :: p_run st' rest
  end.

Definition pchar_eqb (a b : pchar) : bool := zlist_eqb (fst a) (fst b) && (snd a =? snd b).
Definition plines_eqb := list_eqb (list_eqb pchar_eqb).

Definition pobs_eqb (x y : pobs) : bool :=
  let '(o, w, l, g) := x in let '(o', w', l', g') := y in
  (o =? o') && (w =? w') && plines_eqb l l' && plines_eqb g g'.

Definition pager_case : Type := list pchar * list (pop * pobs).

Definition pager_case_matches (c : pager_case) : bool :=
  let '(cs, tr) := c in
  list_eqb pobs_eqb (map snd (p_run (p_init cs) (map fst tr))) (map snd tr).

(* the property on an observed trace *)
Definition line_width (l : list pchar) : Z := fold_right (fun c a => pc_width c + a) 0 l.

(* a line is broken as soon as it reaches the width: everything but its last character fits *)
Definition wrap_ok (w : Z) (l : list pchar) : bool :=
  match rev l with
  | [] => true
  | _ :: before => (line_width before <? w) || (zlen before =? 0)
  end.

(* "the pager presents every line of its text".  The logical lines of a text are the runs between
   its newline characters (a character whose grapheme contains '\n': "\n", "\r\n"); what follows the
   last newline is a line only when it is not empty. *)
Fixpoint logical_lines (cs : list pchar) : list (list pchar) :=
  match cs with
  | [] => []
  | c :: t =>
      if is_nl c then [] :: logical_lines t
      else match logical_lines t with
           | [] => [[c]]
           | l :: ls => (c :: l) :: ls
           end
  end.

(* rows present a text: the rows split into consecutive non-empty groups, one group per logical
   line in order, the rows of a group concatenated are the line (so an empty line has an empty row
   of its own); only empty rows may follow the last group *)
Definition presented (cs : list pchar) (rows : list (list pchar)) : Prop :=
  exists groups extra,
    rows = concat groups ++ extra /\
    Forall2 (fun l g => g <> [] /\ concat g = l) (logical_lines cs) groups /\
    Forall (fun r => r = []) extra.

(* the decision procedure evaluated on observations.  [strip_row r cs]: the row r is a prefix of cs
   and holds no newline character; answers the rest of the text. *)
Fixpoint strip_row (r cs : list pchar) : option (list pchar) :=
  match r with
  | [] => Some cs
  | x :: r' =>
      match cs with
      | c :: t => if negb (is_nl c) && pchar_eqb x c then strip_row r' t else None
      | [] => None
      end
  end.

Definition row_empty (r : list pchar) : bool := match r with [] => true | _ => false end.

(* [cs]: the text from the current position inside (or at the start of) a logical line.  Every row
   is cut off the text; a line ends when the rest starts with a newline (which is then consumed: the
   next row belongs to the next line) or is empty (then only empty rows may follow); when the rows
   run out no text may be left. *)
Fixpoint presents (cs : list pchar) (rows : list (list pchar)) : bool :=
  match rows with
  | [] => match cs with [] => true | _ => false end
  | r :: rows' =>
      match strip_row r cs with
      | None => false
      | Some [] => forallb row_empty rows'
      | Some (c :: t) => if is_nl c then presents t rows' else presents (c :: t) rows'
      end
  end.

Definition lines_ok (w : Z) (cs : list pchar) (lines : list (list pchar)) : bool :=
  list_eqb pchar_eqb (concat lines) (filter (fun c => negb (is_nl c)) cs) &&
  forallb (wrap_ok w) lines &&
  forallb (fun l => forallb (fun c => negb (is_nl c)) l) lines &&
  presents cs lines.

(* [fresh]: the lines were laid out for the current text and width *)
Fixpoint pager_trace_ok (cs : list pchar) (fresh : bool) (preoff prew : Z) (tr : list (pop * pobs)) : bool :=
  match tr with
  | [] => true
  | (op, (off, width, lines, g)) :: rest =>
      let cs' := match op with PSetText c' => c' | _ => cs end in
      let fresh' := match op with
                    | PSetText _ => false
                    | PLayout => true
                    | PDraw w _ => fresh || negb (w =? prew)
                    | _ => fresh
                    end in
      (if fresh' then lines_ok width cs' lines else true) &&
      match op with
      | PDraw w h =>
          (width =? w) &&
          ((h <? 0) || ((off =? Z.max 0 (Z.min preoff (zlen lines - h))) &&
                        plines_eqb g (p_grid w lines off (Z.to_nat h))))
      | _ => true
      end &&
      pager_trace_ok cs' fresh' off width rest
  end.

Definition pager_case_ok (c : pager_case) : bool :=
  let '(cs, tr) := c in pager_trace_ok cs false 0 0 tr.

Definition c19_pager_mismatches (cases : list pager_case) : list Z :=
  bad_indices (fun c => negb (pager_case_matches c)) cases.
Definition c19_pager_violations (cases : list pager_case) : list Z :=
  bad_indices (fun c => negb (pager_case_ok c)) cases.

(* ====================================================================================== *)
(* widgets/scrollbar.Model                                                                 *)
(* ====================================================================================== *)

(* rows of column 0 of a w x h window that receive the bar (Go int division truncates) *)
Definition sb_bar (total view top h : Z) : option (Z * Z) :=     (* (barTop, barH) *)
  if total <? 1 then None
  else if total <=? view then None
  else let bh := Z.quot (view * h) total in
       Some (Z.quot (top * h) total, if bh <? 1 then 1 else bh).

Definition sb_rows (total view top w h : Z) : list Z :=
  match sb_bar total view top h with
  | None => []
  | Some (bt, bh) =>
      filter (fun r => (0 <=? r) && (r <? h) && (0 <? w))
             (map (fun i => bt + Z.of_nat i) (seq 0 (Z.to_nat bh)))
  end.

Definition sb_case : Type := (Z * Z * Z * Z * Z) * list Z.

Definition sb_case_matches (c : sb_case) : bool :=
  let '((total, view, top, w, h), rows) := c in zlist_eqb (sb_rows total view top w h) rows.

Fixpoint contiguous_from (r : Z) (rows : list Z) : bool :=
  match rows with [] => true | x :: t => (x =? r) && contiguous_from (r + 1) t end.

(* for a sensible scroll position the bar is non-empty, contiguous, inside the window and
   starts at the proportional row *)
Definition sb_case_ok (c : sb_case) : bool :=
  let '((total, view, top, w, h), rows) := c in
  if (1 <=? view) && (view <? total) && (0 <=? top) && (top <=? total - view) && (1 <=? h) && (1 <=? w)
  then match rows with
       | [] => false
       | r0 :: _ => contiguous_from r0 rows && (0 <=? r0) && (r0 + zlen rows <=? h) &&
                    (r0 * total <=? top * h) && (top * h <? (r0 + 1) * total)
       end
  else true.

Definition c19_sbar_mismatches (cases : list sb_case) : list Z :=
  bad_indices (fun c => negb (sb_case_matches c)) cases.
Definition c19_sbar_violations (cases : list sb_case) : list Z :=
  bad_indices (fun c => negb (sb_case_ok c)) cases.
