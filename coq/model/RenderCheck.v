(* Correspondence functions for C01: a case is a history of frames played on a real Vaxis
   together with the tokens it wrote for each frame. *)
From Vx Require Import base.Prelude model.Colour model.RenderTypes model.Render model.RefTerm model.RenderSpec.

Definition tok_eqb (a b : tok) : bool :=
  match a, b with
  | KCup r c, KCup r' c' => (r =? r') && (c =? c')
  | KSgrReset, KSgrReset => true
  | KFg p, KFg q | KBg p, KBg q | KUl p, KUl q => zlist_eqb p q
  | KSgr n, KSgr m | KUlStyle n, KUlStyle m | KCursorStyle n, KCursorStyle m => n =? m
  | KLink p u, KLink p' u' => zlist_eqb p p' && zlist_eqb u u'
  | KText g, KText g' => zlist_eqb g g'
  | KTextW w g, KTextW w' g' => (w =? w') && zlist_eqb g g'
  | KSpace, KSpace | KShowCursor, KShowCursor | KHideCursor, KHideCursor
  | KSyncOn, KSyncOn | KSyncOff, KSyncOff => true
  | KMouseShape s, KMouseShape s' => zlist_eqb s s'
  | _, _ => false
  end.

(* a blank written for a width-0 cell is the same bytes as the grapheme " " *)
Definition canon_tok (k : tok) : tok := match k with KSpace => KText [32] | _ => k end.
(* an empty grapheme written raw is zero bytes *)
Definition visible_tok (k : tok) : bool := match k with KText [] => false | _ => true end.
(* the harness tokenises text with the real parser, which clusters adjacent code points the
   uniseg way (three lone combining marks written as three cells come back as one Print):
   model and observation are compared with adjacent raw text joined *)
Fixpoint merge_text (l : list tok) : list tok :=
  match l with
  | [] => []
  | KText a :: t =>
      match merge_text t with
      | KText b :: t' => KText (a ++ b) :: t'
      | t' => KText a :: t'
      end
  | x :: t => x :: merge_text t
  end.
Definition toks_eqb (a b : list tok) : bool :=
  list_eqb tok_eqb (merge_text (map canon_tok (filter visible_tok a)))
                   (merge_text (map canon_tok (filter visible_tok b))).

Definition wtable := list (list Z * Z).
Fixpoint lookup_w (tbl : wtable) (g : list Z) : Z :=
  match tbl with
  | [] => 1
  | (g', w) :: t => if zlist_eqb g g' then w else lookup_w t g
  end.

Definition fcase := (list op * frame_end * list tok)%type.
Record hcase := {
  h_caps : caps; h_rows : Z; h_cols : Z; h_widths : wtable; h_frames : list fcase
}.

(* model vs implementation: the tokens of every frame *)
Fixpoint frames_agree (s : vstate) (fs : list fcase) : bool :=
  match fs with
  | [] => true
  | (ops, e, obs) :: t =>
      let '(s', toks) := do_frame s ops e in
      toks_eqb toks obs && frames_agree s' t
  end.

Definition c01_mismatches (cases : list hcase) : list Z :=
  bad_indices (fun h => negb (frames_agree (vinit (h_caps h) (h_rows h) (h_cols h)) (h_frames h))) cases.

(* the property, evaluated on what the implementation wrote: feed its tokens to the reference
   terminal and compare with the application's screen after every frame, as long as the
   hypotheses on the content hold *)
Fixpoint frames_hold (strict : bool) (tw : list Z -> Z) (cp : caps) (s : vstate) (t : term) (fs : list fcase) : bool :=
  match fs with
  | [] => true
  | (ops, e, obs) :: rest =>
      let s1 := fold_left apply_op ops s in
      match e with
      | FResize r c => frames_hold strict tw cp (do_resize s1 r c) (resize_term t r c) rest
      | _ =>
          if (if strict then grid_ok_nofit tw tw cp (v_next s1) else grid_ok tw tw cp (v_next s1)) then
            let '(s', _) := do_frame s ops e in
            let t' := compact (interp tw t obs) in
            frame_ok cp t t' s1 && frames_hold strict tw cp s' t' rest
          else true
      end
  end.

Definition c01_holds_gen (strict : bool) (h : hcase) : bool :=
  frames_hold strict (lookup_w (h_widths h)) (h_caps h) (vinit (h_caps h) (h_rows h) (h_cols h))
              (term_unknown (h_rows h) (h_cols h)) (h_frames h).
(* the property at full strength (a wide cell may sit anywhere) *)
Definition c01_holds (h : hcase) : bool := c01_holds_gen true h.
Definition c01_violations (cases : list hcase) : list Z := bad_indices (fun h => negb (c01_holds h)) cases.
(* guard of the recorded finding wide-overhang: the history fails only because a wide cell
   overhangs the right edge of the screen *)
Definition c01_known (cases : list hcase) : list Z :=
  bad_indices (fun h => negb (c01_holds_gen true h) && c01_holds_gen false h) cases.
