(* C08 - the Escape timer as a concurrent callback.

   ansi.Parser arms a 10 ms time.AfterFunc at every ESC; its callback runs on a goroutine of its
   own.  time.Timer.Stop does not stop a callback that has already started, so a callback can run
   LATE: after the read loop has handled the rune that followed the ESC, and even after Parser.run
   has emitted the end marker and closed the channel.  This file models exactly that freedom:

     RRune r   one iteration of Parser.run for the rune r (under p.mu; clears p.escPending first)
     REof      the reader ended or failed: readRune returns eof, the exit action runs, run leaves
               its loop, marks the parser finished, emits the end marker, closes the channel
     RClose    Parser.Close was seen by the loop: the same without the eof rune
     RFire     the callback of SOME timer armed earlier runs now (each at most once; [rlate]
               counts the callbacks that have not run yet), atomically because it holds p.mu

   in any order and number (an over-approximation of every schedule: a callback may even run
   before its 10 ms have passed).  [g] says whether the callback is guarded the way the code is
   after the fix (`if !p.escPending || p.state == nil { return }` under p.mu, with Parser.run
   clearing the flag before each rune and at its end); gen/GenParser.v carries the three shape
   facts the translator reads off ansi/parser.go.  With g = false the callback body runs
   whenever the callback runs (the code before the fix).

   Definitions only; proofs in proofs/ParserRaceProofs.v. *)
From Vx Require Import base.Prelude model.ParserTypes gen.GenParser model.Parser.

Inductive revent := RRune (r : Z) | REof | RClose | RFire.

Record rst := {
  rp : pst;            (* parser state; [timer (rp s)] is the flag p.escPending *)
  rfin : bool;         (* Parser.run has left its loop (p.state = nil) *)
  rclosed : bool;      (* close(p.sequences) has happened *)
  rlate : nat;         (* callbacks of timers armed so far that have not run yet *)
  rout : list item;    (* everything sent on the channel, in order *)
  rbad : bool          (* a send on the closed channel (the Go panic) has happened *)
}.

Definition rinit : rst :=
  {| rp := pinit; rfin := false; rclosed := false; rlate := 0; rout := []; rbad := false |}.

(* the end of Parser.run after its loop: flag cleared, finished, end marker, close *)
Definition r_end (s : rst) (p : pst) (o : list item) : rst :=
  {| rp := set_timer p false; rfin := true; rclosed := true; rlate := rlate s;
     rout := rout s ++ o ++ [IEof]; rbad := rbad s |}.

Definition armed_now (p : pst) : nat := if timer p then 1%nat else 0%nat.

Definition r_rune (s : rst) (r : Z) : rst :=
  if rfin s then s                      (* the loop has ended: nothing is read any more *)
  else
    let '(p', o, go) := step (rp s) r in
    if go then {| rp := p'; rfin := false; rclosed := rclosed s; rlate := (rlate s + armed_now p')%nat;
                  rout := rout s ++ o; rbad := rbad s |}
    else r_end s p' o.

(* a callback runs *)
Definition r_fire (g : bool) (s : rst) : rst :=
  match rlate s with
  | O => s                               (* no callback outstanding *)
  | S n =>
      if g then
        if timer (rp s) && negb (rfin s) then
          let '(p', o) := timer_fire (rp s) in
          {| rp := p'; rfin := rfin s; rclosed := rclosed s; rlate := n; rout := rout s ++ o;
             rbad := rbad s || (rclosed s && negb (match o with [] => true | _ => false end)) |}
        else {| rp := rp s; rfin := rfin s; rclosed := rclosed s; rlate := n; rout := rout s; rbad := rbad s |}
      else
        (* unguarded: emit, then state := ground, ignoreST := false, whatever happened since *)
        let '(p', o, _) := exec_acts timer_body 27 (set_timer (rp s) false) in
        {| rp := p'; rfin := rfin s; rclosed := rclosed s; rlate := n; rout := rout s ++ o;
           rbad := rbad s || (rclosed s && negb (match o with [] => true | _ => false end)) |}
  end.

Definition r_step (g : bool) (s : rst) (e : revent) : rst :=
  match e with
  | RRune r => r_rune s r
  | REof => if rfin s then s else r_rune s eof_rune
  | RClose => if rfin s then s else r_end s (rp s) []
  | RFire => r_fire g s
  end.

Definition r_run (g : bool) (es : list revent) : rst := fold_left (r_step g) es rinit.

(* what the translator read off ansi/parser.go *)
Definition code_guarded : bool := timer_guarded && run_clears_pending && run_end_finishes.

(* ---------- the sequential reading: a fire is [timer_fire], nothing happens after the end ---------- *)
Record qst := { qp : pst; qfin : bool; qout : list item }.
Definition qinit : qst := {| qp := pinit; qfin := false; qout := [] |}.
Definition q_step (s : qst) (e : revent) : qst :=
  if qfin s then s else
  match e with
  | RRune r =>
      let '(p', o, go) := step (qp s) r in
      if go then {| qp := p'; qfin := false; qout := qout s ++ o |}
      else {| qp := set_timer p' false; qfin := true; qout := qout s ++ o ++ [IEof] |}
  | REof =>
      let '(p', o, go) := step (qp s) eof_rune in
      if go then {| qp := p'; qfin := false; qout := qout s ++ o |}
      else {| qp := set_timer p' false; qfin := true; qout := qout s ++ o ++ [IEof] |}
  | RClose => {| qp := set_timer (qp s) false; qfin := true; qout := qout s ++ [IEof] |}
  | RFire => let '(p', o) := timer_fire (qp s) in {| qp := p'; qfin := false; qout := qout s ++ o |}
  end.
Definition q_run (es : list revent) : qst := fold_left q_step es qinit.

(* segments (the time abstraction of Parser.v) as events: the runes of a segment, a fire between
   two segments, the end of input last *)
Fixpoint seg_events (segs : list (list Z)) : list revent :=
  match segs with
  | [] => []
  | [s] => map RRune (decode_all s)
  | s :: t => map RRune (decode_all s) ++ RFire :: seg_events t
  end.

(* ---------- stress observation (harness/c08 stream "race") ---------- *)
(* (iterations, panics seen, hangs seen): the implementation ran ESC followed by the end of input
   about 10 ms later that many times *)
Definition race_case := (Z * Z * Z)%type.
Definition c08_race_violations (cases : list race_case) : list Z :=
  bad_indices (fun c => let '(_, panics, hangs) := c in negb ((panics =? 0) && (hangs =? 0))) cases.
(* the model: when the translated code is guarded no schedule sends on the closed channel
   (ParserRaceProofs.race_never_sends_after_close), so no iteration may panic; for unguarded code
   the schedule ESC, end, late callback does, and any count is consistent *)
Definition model_panic_possible : bool := rbad (r_run code_guarded [RRune 27; RClose; RFire]).
Definition c08_race_mismatches (cases : list race_case) : list Z :=
  bad_indices (fun c => let '(_, panics, _) := c in negb model_panic_possible && negb (panics =? 0)) cases.
