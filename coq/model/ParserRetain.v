(* C08, hand-off clause on ONE OBSERVATION of the real parser ("a sequence already delivered is
   never modified by later parsing until the consumer hands it back"): a consumer that hands some
   sequences back at once (Finish) and KEEPS the others looks at the kept ones again after the
   parser stopped.  Case = (segments of bytes, items as delivered - deep copies taken on
   delivery, end marker included -, for every kept buffer-carrying sequence its position in the
   delivered list and what it reads as at the end).  Definitions only. *)
From Vx Require Import base.Prelude model.ParserTypes gen.GenParser model.Parser model.ParserCheck.

Definition rcase := (list (list Z) * list item * list (Z * item))%type.

Definition reads_as (delivered : list item) (p : Z * item) : bool :=
  match zget delivered (fst p) with Some it => item_eqb it (snd p) | None => false end.
(* the property: exactly one end marker, last, and every kept sequence still reads as delivered *)
Definition c08_retain_holds (c : rcase) : bool :=
  let '(_, delivered, later) := c in one_eof_last_b delivered && forallb (reads_as delivered) later.
Definition c08_retain_violations (cases : list rcase) : list Z :=
  bad_indices (fun c => negb (c08_retain_holds c)) cases.

(* the model: what is delivered is [parse_segments]; a delivered sequence is a value - looked at
   again at any later time it is what was delivered, whatever was handed back in between *)
Definition model_retain (segs : list (list Z)) (kept : list Z) : list item * list (Z * item) :=
  let d := parse_segments segs in
  (d, flat_map (fun i => match zget d i with Some it => [(i, it)] | None => [] end) kept).
Definition later_eqb (a b : list (Z * item)) : bool :=
  list_eqb (fun p q => (fst p =? fst q) && item_eqb (snd p) (snd q)) a b.
Definition c08_retain_mismatches (cases : list rcase) : list Z :=
  bad_indices (fun c => let '(segs, delivered, later) := c in
                        let '(d, l) := model_retain segs (map fst later) in
                        negb (items_eqb d delivered && later_eqb l later)) cases.
