(* Model of the renderer: vaxis.go render/Render/Refresh, writer.go Write*/Flush,
   screen.go, and the screen-level drawing calls.  Executable definitions only. *)
From Vx Require Import base.Prelude model.Colour model.RenderTypes.

(* ---------- the pen delta (vaxis.go render, per changed cell) ---------- *)
Definition col_params (cp : caps) (c : Z) : list Z :=
  color_params (if cap_rgb cp then c else as_index c).

Definition emit_fg (cp : caps) (pen n : style) : list tok :=
  if s_fg pen =? s_fg n then [] else [KFg (col_params cp (s_fg n))].
Definition emit_bg (cp : caps) (pen n : style) : list tok :=
  if s_bg pen =? s_bg n then [] else [KBg (col_params cp (s_bg n))].
Definition emit_ul (cp : caps) (pen n : style) : list tok :=
  if cap_styled_ul cp then (if s_ul pen =? s_ul n then [] else [KUl (col_params cp (s_ul n))]) else [].

(* SGR codes that take attribute mask [a] to mask [b] (uint8 AttributeMask values) *)
Definition turned_on (a b bit : Z) : bool := has b bit && negb (has a bit).
Definition turned_off (a b bit : Z) : bool := has a bit && negb (has b bit).
Definition whenz (c : bool) (l : list Z) : list Z := if c then l else [].
Definition when (b : bool) (l : list tok) : list tok := if b then l else [].

Definition attr_codes (a b : Z) : list Z :=
  if a =? b then [] else
    whenz (turned_on a b attr_bold) [1] ++
    whenz (turned_on a b attr_dim) [2] ++
    whenz (turned_on a b attr_italic) [3] ++
    whenz (turned_on a b attr_blink) [5] ++
    whenz (turned_on a b attr_reverse) [7] ++
    whenz (turned_on a b attr_invisible) [8] ++
    whenz (turned_on a b attr_strike) [9] ++
    whenz (turned_off a b attr_bold) (22 :: whenz (has b attr_dim) [2]) ++
    whenz (turned_off a b attr_dim) (22 :: whenz (has b attr_bold) [1]) ++
    whenz (turned_off a b attr_italic) [23] ++
    whenz (turned_off a b attr_blink) [25] ++
    whenz (turned_off a b attr_reverse) [27] ++
    whenz (turned_off a b attr_invisible) [28] ++
    whenz (turned_off a b attr_strike) [29].

Definition emit_attr (pen n : style) : list tok := map KSgr (attr_codes (s_attr pen) (s_attr n)).

Definition emit_uls (cp : caps) (pen n : style) : list tok :=
  if s_uls pen =? s_uls n then []
  else if cap_styled_ul cp then [KUlStyle (s_uls n)]
  else if s_uls n =? 0 then [KSgr 24] else [KSgr 4].

Definition nonempty (l : list Z) : bool := match l with [] => false | _ => true end.

Definition emit_link (pen n : style) : list tok :=
  if negb (zlist_eqb (s_link pen) (s_link n)) ||
     (nonempty (s_link n) && negb (zlist_eqb (s_linkp pen) (s_linkp n)))
  then [KLink (if nonempty (s_link n) then s_linkp n else []) (s_link n)]
  else [].

Definition emit_delta (cp : caps) (pen n : style) : list tok :=
  emit_fg cp pen n ++ emit_bg cp pen n ++ emit_ul cp pen n ++ emit_attr pen n ++
  emit_uls cp pen n ++ emit_link pen n.

Definition cell_text (cp : caps) (c : cell) : tok :=
  let w := eff_width c in
  if w =? 0 then KSpace
  else if (1 <? w) && cap_explicit_width cp then KTextW w (c_g c)
  else KText (c_g c).

Definition clear_link (s : style) : style :=
  {| s_fg := s_fg s; s_bg := s_bg s; s_ul := s_ul s; s_uls := s_uls s; s_attr := s_attr s;
     s_link := []; s_linkp := [] |}.

Definition set_sixel (c : cell) : cell :=
  {| c_g := c_g c; c_w := c_w c; c_mw := c_mw c; c_st := c_st c; c_sixel := true |}.

(* ---------- one row of the render loop ---------- *)
(* ns/ls: the rest of the row in screenNext / screenLast from column [col];
   skip: cells still covered by the wide cell just passed; returns tokens, the new
   screenLast row, the pen *)
Fixpoint render_cells (cp : caps) (refresh : bool) (row : Z) (ns ls : list cell) (col : Z)
         (skip : Z) (repos : bool) (pen : style) : list tok * list cell * style :=
  match ns, ls with
  | n :: ns', l :: ls' =>
      if 0 <? skip then
        let '(o, l', p) := render_cells cp refresh row ns' ls' (col + 1) (skip - 1) repos pen in
        (o, unknown_cell :: l', p)
      else if c_sixel n then
        let '(o, l', p) := render_cells cp refresh row ns' ls' (col + 1) 0 true pen in
        (o, set_sixel l :: l', p)
      else if cell_eqb n l && negb refresh then
        let '(o, l', p) := render_cells cp refresh row ns' ls' (col + 1) (span n - 1) true pen in
        (o, l :: l', p)
      else
        let closing := repos && nonempty (s_link pen) in
        let pre := when repos (when closing [KLink [] []] ++ [KCup (row + 1) (col + 1)]) in
        let pen1 := if closing then clear_link pen else pen in
        let toks := pre ++ emit_delta cp pen1 (c_st n) ++ [cell_text cp n] in
        let '(o, l', p) := render_cells cp refresh row ns' ls' (col + 1) (span n - 1) false (c_st n) in
        (toks ++ o, n :: l', p)
  | _, _ => ([], [], pen)
  end.

Fixpoint render_rows (cp : caps) (refresh : bool) (row : Z) (nss lss : list (list cell)) (pen : style)
  : list tok * list (list cell) * style :=
  match nss, lss with
  | ns :: nss', ls :: lss' =>
      let '(o1, l1, p1) := render_cells cp refresh row ns ls 0 0 true pen in
      let '(o2, l2, p2) := render_rows cp refresh (row + 1) nss' lss' p1 in
      (o1 ++ o2, l1 :: l2, p2)
  | _, _ => ([], [], pen)
  end.

(* ---------- the Vaxis state that matters for rendering ---------- *)
Record vstate := {
  v_caps : caps;
  v_next : list (list cell);
  v_last : list (list cell);
  v_cnext : cursor;
  v_clast : cursor;
  v_refresh : bool;
  v_mnext : list Z;   (* mouse shape *)
  v_mlast : list Z
}.

Definition show_cursor (c : cursor) : list tok :=
  [KCursorStyle (cu_style c); KCup (cu_row c + 1) (cu_col c + 1); KShowCursor].

(* vaxis.go render(), without graphics placements (C20) *)
Definition render_body (s : vstate) : list tok * list (list cell) :=
  let shape := when (negb (zlist_eqb (v_mlast s) (v_mnext s))) [KMouseShape (v_mnext s)] in
  let '(o, l, pen) := render_rows (v_caps s) (v_refresh s) 0 (v_next s) (v_last s) style0 in
  (shape ++ o ++ when (nonempty (s_link pen)) [KLink [] []] ++
   when (cu_vis (v_cnext s) && negb (cu_vis (v_clast s))) (show_cursor (v_cnext s)), l).

Definition cursor_moved (a b : cursor) : bool :=
  negb (cu_row a =? cu_row b) || negb (cu_col a =? cu_col b) || negb (cu_style a =? cu_style b).

(* writer: prologue of the first WriteString, and Flush *)
Definition flush (s : vstate) (body : list tok) : list tok :=
  match body with
  | [] =>
      if negb (cu_vis (v_cnext s)) && cu_vis (v_clast s) then [KHideCursor]
      else if negb (cu_vis (v_cnext s)) then []
      else if cursor_moved (v_cnext s) (v_clast s) then show_cursor (v_cnext s)
      else []
  | _ =>
      when (cu_vis (v_clast s)) [KHideCursor] ++ when (cap_sync (v_caps s)) [KSyncOn] ++
      body ++ [KSgrReset] ++
      when (cu_vis (v_cnext s) && cu_vis (v_clast s)) (show_cursor (v_cnext s)) ++
      when (cap_sync (v_caps s)) [KSyncOff]
  end.

(* Vaxis.Render with no pending resize *)
Definition do_render (s : vstate) : vstate * list tok :=
  let '(body, l) := render_body s in
  ({| v_caps := v_caps s; v_next := v_next s; v_last := l; v_cnext := v_cnext s;
      v_clast := v_cnext s; v_refresh := false; v_mnext := v_mnext s; v_mlast := v_mnext s |},
   flush s body).

Definition set_refresh (s : vstate) : vstate :=
  {| v_caps := v_caps s; v_next := v_next s; v_last := v_last s; v_cnext := v_cnext s;
     v_clast := v_clast s; v_refresh := true; v_mnext := v_mnext s; v_mlast := v_mlast s |}.

Definition do_refresh (s : vstate) : vstate * list tok := do_render (set_refresh s).

Definition blank_grid (rows cols : Z) : list (list cell) := zrepeat (zrepeat cell0 cols) rows.

(* Render with a pending resize to a different size: both screens are reallocated, the
   next frame is a refresh, nothing is written *)
Definition do_resize (s : vstate) (rows cols : Z) : vstate :=
  {| v_caps := v_caps s; v_next := blank_grid rows cols; v_last := blank_grid rows cols;
     v_cnext := v_cnext s; v_clast := v_clast s; v_refresh := true;
     v_mnext := v_mnext s; v_mlast := v_mlast s |}.

(* ---------- drawing calls at screen level (screen.go setCell/setStyle) ---------- *)
Inductive op :=
  | OSet (col row : Z) (c : cell)
  | OStyle (col row : Z) (st : style)
  | OFill (c : cell)
  | OShowCursor (col row style : Z)
  | OHideCursor
  | OMouseShape (s : list Z).

Definition grid_upd (g : list (list cell)) (col row : Z) (f : cell -> cell) : list (list cell) :=
  match zget g row with
  | None => g
  | Some r =>
      match zget r col with
      | None => g
      | Some c => match zupd r col (f c) with
                  | Some r' => match zupd g row r' with Some g' => g' | None => g end
                  | None => g
                  end
      end
  end.

Definition with_style (st : style) (c : cell) : cell :=
  {| c_g := c_g c; c_w := c_w c; c_mw := c_mw c; c_st := st; c_sixel := c_sixel c |}.

Definition set_next (s : vstate) (g : list (list cell)) : vstate :=
  {| v_caps := v_caps s; v_next := g; v_last := v_last s; v_cnext := v_cnext s;
     v_clast := v_clast s; v_refresh := v_refresh s; v_mnext := v_mnext s; v_mlast := v_mlast s |}.
Definition set_cnext (s : vstate) (c : cursor) : vstate :=
  {| v_caps := v_caps s; v_next := v_next s; v_last := v_last s; v_cnext := c;
     v_clast := v_clast s; v_refresh := v_refresh s; v_mnext := v_mnext s; v_mlast := v_mlast s |}.
Definition set_mnext (s : vstate) (m : list Z) : vstate :=
  {| v_caps := v_caps s; v_next := v_next s; v_last := v_last s; v_cnext := v_cnext s;
     v_clast := v_clast s; v_refresh := v_refresh s; v_mnext := m; v_mlast := v_mlast s |}.

Definition apply_op (s : vstate) (o : op) : vstate :=
  match o with
  | OSet col row c => set_next s (grid_upd (v_next s) col row (fun _ => c))
  | OStyle col row st => set_next s (grid_upd (v_next s) col row (with_style st))
  | OFill c => set_next s (map (map (fun _ => c)) (v_next s))
  | OShowCursor col row st =>
      set_cnext s {| cu_row := row; cu_col := col; cu_style := st; cu_vis := true |}
  | OHideCursor =>
      set_cnext s {| cu_row := cu_row (v_cnext s); cu_col := cu_col (v_cnext s);
                     cu_style := cu_style (v_cnext s); cu_vis := false |}
  | OMouseShape m => set_mnext s m
  end.

Inductive frame_end := FRender | FRefresh | FResize (rows cols : Z).

Definition do_frame (s : vstate) (ops : list op) (e : frame_end) : vstate * list tok :=
  let s1 := fold_left apply_op ops s in
  match e with
  | FRender => do_render s1
  | FRefresh => do_refresh s1
  | FResize r c => (do_resize s1 r c, [])
  end.

(* the state New() leaves behind: blank screens, refresh pending (enterAltScreen),
   cursor hidden with style block requested *)
Definition vinit (cp : caps) (rows cols : Z) : vstate :=
  {| v_caps := cp; v_next := blank_grid rows cols; v_last := blank_grid rows cols;
     v_cnext := {| cu_row := 0; cu_col := 0; cu_style := 2; cu_vis := false |};
     v_clast := {| cu_row := 0; cu_col := 0; cu_style := 0; cu_vis := false |};
     v_refresh := true; v_mnext := []; v_mlast := [] |}.
