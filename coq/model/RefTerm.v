(* The reference terminal for the renderer's output vocabulary: what a
   standards-conforming terminal (ECMA-48 / xterm ctlseqs) shows after receiving the
   tokens.  Independent of widgets/term.  Anything the standards leave to the terminal
   becomes DPoison: overwriting part of a wide glyph poisons the rest of it, a glyph
   that does not fit before the right edge poisons the row, text written in the
   pending-wrap position poisons the row.  Definitions only. *)
From Vx Require Import base.Prelude model.RenderTypes.

(* the pen of the terminal: colours as the parameter lists it received *)
Record tpen := {
  t_fg : list Z; t_bg : list Z; t_ul : list Z;
  t_uls : Z;
  t_attr : Z            (* bits as in style.go, bit 0 unused *)
}.
Definition tpen0 : tpen := {| t_fg := []; t_bg := []; t_ul := []; t_uls := 0; t_attr := 0 |}.

Definition tpen_eqb (a b : tpen) : bool :=
  zlist_eqb (t_fg a) (t_fg b) && zlist_eqb (t_bg a) (t_bg b) && zlist_eqb (t_ul a) (t_ul b) &&
  (t_uls a =? t_uls b) && (t_attr a =? t_attr b).

(* an open hyperlink: (params, url); url [] = none *)
Definition tlink := (list Z * list Z)%type.
Definition tlink_eqb (a b : tlink) : bool := zlist_eqb (fst a) (fst b) && zlist_eqb (snd a) (snd b).

(* one screen position: part [off] of a glyph [g] that is [w] columns wide *)
Inductive disp :=
  | DCell (g : list Z) (w off : Z) (p : tpen) (l : tlink)
  | DPoison.

Definition disp_eqb (a b : disp) : bool :=
  match a, b with
  | DCell g w o p l, DCell g' w' o' p' l' =>
      zlist_eqb g g' && (w =? w') && (o =? o') && tpen_eqb p p' && tlink_eqb l l'
  | DPoison, DPoison => true
  | _, _ => false
  end.

Record term := {
  tm_rows : Z; tm_cols : Z;
  tm_grid : Z -> Z -> disp;        (* row, col (0-based); meaningful inside the screen *)
  tm_row : Z; tm_col : Z;          (* cursor; tm_col = tm_cols is the pending-wrap position *)
  tm_pen : tpen;
  tm_link : tlink;
  tm_vis : bool;                   (* DECTCEM *)
  tm_shape : Z;                    (* DECSCUSR *)
  tm_sync : Z;                     (* depth of mode 2026 *)
  tm_mouse : list Z
}.

Definition set_grid t g := {| tm_rows := tm_rows t; tm_cols := tm_cols t; tm_grid := g; tm_row := tm_row t; tm_col := tm_col t; tm_pen := tm_pen t; tm_link := tm_link t; tm_vis := tm_vis t; tm_shape := tm_shape t; tm_sync := tm_sync t; tm_mouse := tm_mouse t |}.
Definition set_cur t r c := {| tm_rows := tm_rows t; tm_cols := tm_cols t; tm_grid := tm_grid t; tm_row := r; tm_col := c; tm_pen := tm_pen t; tm_link := tm_link t; tm_vis := tm_vis t; tm_shape := tm_shape t; tm_sync := tm_sync t; tm_mouse := tm_mouse t |}.
Definition set_pen t p := {| tm_rows := tm_rows t; tm_cols := tm_cols t; tm_grid := tm_grid t; tm_row := tm_row t; tm_col := tm_col t; tm_pen := p; tm_link := tm_link t; tm_vis := tm_vis t; tm_shape := tm_shape t; tm_sync := tm_sync t; tm_mouse := tm_mouse t |}.
Definition set_link t l := {| tm_rows := tm_rows t; tm_cols := tm_cols t; tm_grid := tm_grid t; tm_row := tm_row t; tm_col := tm_col t; tm_pen := tm_pen t; tm_link := l; tm_vis := tm_vis t; tm_shape := tm_shape t; tm_sync := tm_sync t; tm_mouse := tm_mouse t |}.
Definition set_vis t b := {| tm_rows := tm_rows t; tm_cols := tm_cols t; tm_grid := tm_grid t; tm_row := tm_row t; tm_col := tm_col t; tm_pen := tm_pen t; tm_link := tm_link t; tm_vis := b; tm_shape := tm_shape t; tm_sync := tm_sync t; tm_mouse := tm_mouse t |}.
Definition set_shape t n := {| tm_rows := tm_rows t; tm_cols := tm_cols t; tm_grid := tm_grid t; tm_row := tm_row t; tm_col := tm_col t; tm_pen := tm_pen t; tm_link := tm_link t; tm_vis := tm_vis t; tm_shape := n; tm_sync := tm_sync t; tm_mouse := tm_mouse t |}.
Definition set_sync t n := {| tm_rows := tm_rows t; tm_cols := tm_cols t; tm_grid := tm_grid t; tm_row := tm_row t; tm_col := tm_col t; tm_pen := tm_pen t; tm_link := tm_link t; tm_vis := tm_vis t; tm_shape := tm_shape t; tm_sync := n; tm_mouse := tm_mouse t |}.
Definition set_mouse t m := {| tm_rows := tm_rows t; tm_cols := tm_cols t; tm_grid := tm_grid t; tm_row := tm_row t; tm_col := tm_col t; tm_pen := tm_pen t; tm_link := tm_link t; tm_vis := tm_vis t; tm_shape := tm_shape t; tm_sync := tm_sync t; tm_mouse := m |}.

(* do the column ranges [a, a+wa) and [b, b+wb) intersect *)
Definition overlaps (a wa b wb : Z) : bool := (a <? b + wb) && (b <? a + wa).

Definition poison_row (g : Z -> Z -> disp) (r : Z) : Z -> Z -> disp :=
  fun r' => if r' =? r then (fun _ => DPoison) else g r'.

(* write a glyph [k] columns wide at the cursor *)
Definition put_glyph (t : term) (gl : list Z) (k : Z) : term :=
  let r := tm_row t in
  let c := tm_col t in
  if (k <? 1) then t                                 (* zero-width: nothing is placed *)
  else if tm_cols t <? c + k then
    (* at or beyond the right edge (pending wrap, or a glyph that does not fit): what
       happens is terminal-specific *)
    set_cur (set_grid t (poison_row (tm_grid t) r)) r (tm_cols t)
  else
    let g := tm_grid t in
    let pn := tm_pen t in
    let lk := tm_link t in
    let g' := fun r' =>
      if r' =? r then
        let old := g r' in
        fun c' =>
          if (c <=? c') && (c' <? c + k) then DCell gl k (c' - c) pn lk
          else let d := old c' in
               match d with
               | DCell _ w off _ _ => if overlaps (c' - off) w c k then DPoison else d
               | DPoison => DPoison
               end
      else g r' in
    set_cur (set_grid t g') r (c + k).

Definition clampz (lo hi x : Z) : Z := Z.max lo (Z.min hi x).

Definition set_attr_bit (p : tpen) (bit : Z) (on : bool) : tpen :=
  let a := t_attr p in
  let a' := if on then (if has a bit then a else a + bit) else (if has a bit then a - bit else a) in
  {| t_fg := t_fg p; t_bg := t_bg p; t_ul := t_ul p; t_uls := t_uls p; t_attr := a' |}.
Definition pen_fg p x := {| t_fg := x; t_bg := t_bg p; t_ul := t_ul p; t_uls := t_uls p; t_attr := t_attr p |}.
Definition pen_bg p x := {| t_fg := t_fg p; t_bg := x; t_ul := t_ul p; t_uls := t_uls p; t_attr := t_attr p |}.
Definition pen_ul p x := {| t_fg := t_fg p; t_bg := t_bg p; t_ul := x; t_uls := t_uls p; t_attr := t_attr p |}.
Definition pen_uls p x := {| t_fg := t_fg p; t_bg := t_bg p; t_ul := t_ul p; t_uls := x; t_attr := t_attr p |}.

Definition sgr_plain (p : tpen) (n : Z) : tpen :=
  if n =? 1 then set_attr_bit p attr_bold true
  else if n =? 2 then set_attr_bit p attr_dim true
  else if n =? 3 then set_attr_bit p attr_italic true
  else if n =? 5 then set_attr_bit p attr_blink true
  else if n =? 7 then set_attr_bit p attr_reverse true
  else if n =? 8 then set_attr_bit p attr_invisible true
  else if n =? 9 then set_attr_bit p attr_strike true
  else if n =? 22 then set_attr_bit (set_attr_bit p attr_bold false) attr_dim false
  else if n =? 23 then set_attr_bit p attr_italic false
  else if n =? 25 then set_attr_bit p attr_blink false
  else if n =? 27 then set_attr_bit p attr_reverse false
  else if n =? 28 then set_attr_bit p attr_invisible false
  else if n =? 29 then set_attr_bit p attr_strike false
  else if n =? 4 then pen_uls p 1
  else if n =? 24 then pen_uls p 0
  else p.

(* [tw]: the width by which THIS terminal advances for a grapheme written raw *)
Section Interp.
Variable tw : list Z -> Z.

Definition interp1 (t : term) (k : tok) : term :=
  match k with
  | KCup row col => set_cur t (clampz 0 (tm_rows t - 1) (row - 1)) (clampz 0 (tm_cols t - 1) (col - 1))
  | KSgrReset => set_pen t tpen0
  | KFg ps => set_pen t (pen_fg (tm_pen t) ps)
  | KBg ps => set_pen t (pen_bg (tm_pen t) ps)
  | KUl ps => set_pen t (pen_ul (tm_pen t) ps)
  | KSgr n => set_pen t (sgr_plain (tm_pen t) n)
  | KUlStyle n => set_pen t (pen_uls (tm_pen t) n)
  | KLink ps url => set_link t (match url with [] => ([], []) | _ => (ps, url) end)
  | KText g => put_glyph t g (tw g)
  | KTextW w g => put_glyph t g w
  | KSpace => put_glyph t [32] 1
  | KShowCursor => set_vis t true
  | KHideCursor => set_vis t false
  | KCursorStyle n => set_shape t n
  | KSyncOn => set_sync t (tm_sync t + 1)
  | KSyncOff => set_sync t (tm_sync t - 1)
  | KMouseShape m => set_mouse t m
  end.

Definition interp (t : term) (ks : list tok) : term := fold_left interp1 ks t.
End Interp.
