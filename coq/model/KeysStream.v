(* C09, composition with the input parser (model/Parser.v, property C02): what ONE long-lived
   parser instance followed by decodeKey delivers for a stream of reports (key reports in the legacy
   and the kitty encodings, and terminal replies: OSC colour answers, CSI replies), against what
   each report delivers on its own.  Executable definitions only; proofs in proofs/KeysStreamProofs.v.

   The parser model interprets the tables translated from ansi/parser.go on every run
   (gen/GenParser.v): parser state that survives from one sequence to the next (the ST-suppression
   flag, a pending exit action, collected payloads) is part of [pst]. *)
From Vx Require Import base.Prelude model.ParserTypes gen.GenParser model.Parser gen.GenKeys model.Keys.
Local Open Scope Z_scope.

(* ---------- the sequences the parser delivers, as decodeKey sees them ---------- *)
Definition item_kseq (i : item) : kseq :=
  match i with
  | IPrint rs => SPrint rs
  | IC0 c => SC0 c
  | IEsc i f => SESC i f
  | ISS3 c => SSS3 c
  | ICsi i ps f => SCSI i ps f
  | _ => SOther
  end.

(* an event = a delivered sequence and the Key decodeKey makes of it (OSC/DCS/APC: SOther and the
   zero Key).  `error` values and EOF are not events.  IPanic is never produced (C02); it is given
   a value no observation has, so that it would show as a disagreement. *)
Definition event := (kseq * key)%type.

Definition item_events (u : uni) (i : item) : list event :=
  match i with
  | IError | IEof => []
  | IPanic => [(SESC [-1] (-1), key0)]
  | _ => [(item_kseq i, decode_key u (item_kseq i))]
  end.

Definition events_of (u : uni) (l : list item) : list event := flat_map (item_events u) l.

(* runes fed to a parser in state p *)
Definition run_items (p : pst) (rs : list Z) : list item := let '(_, o, _) := feed p rs in o.
Definition run_events (u : uni) (p : pst) (rs : list Z) : list event := events_of u (run_items p rs).

(* one fresh parser instance fed with byte segments (separated by silences longer than the escape
   timer), then end of input *)
Definition stream_items (segs : list (list Z)) : list item :=
  let '(p, o, go) := feed_segments pinit segs in
  if go then o ++ finish p else o ++ [IEof].
Definition stream_events (u : uni) (segs : list (list Z)) : list event := events_of u (stream_items segs).

(* ---------- reports on the wire (runes) ---------- *)
Inductive report :=
  | RPrint (r : Z)                            (* a typed character *)
  | RC0 (b : Z)                               (* a control byte other than ESC *)
  | REsc (c : Z)                              (* ESC c : Alt + c *)
  | RSs3 (c : Z)                              (* ESC O c *)
  | RCsi (priv ps is : list Z) (f : Z)        (* ESC [ priv ps is f : key report or CSI reply *)
  | ROscBel (pl : list Z)                     (* ESC ] pl BEL : OSC reply *)
  | ROscSt (pl : list Z).                     (* ESC ] pl ESC \ *)

Definition report_wire (r : report) : list Z :=
  match r with
  | RPrint r => [r]
  | RC0 b => [b]
  | REsc c => [27; c]
  | RSs3 c => [27; 79; c]
  | RCsi priv ps is f => [27; 91] ++ priv ++ ps ++ is ++ [f]
  | ROscBel pl => [27; 93] ++ pl ++ [7]
  | ROscSt pl => [27; 93] ++ pl ++ [27; 92]
  end.

(* what the report delivers on its own *)
Definition csi_dec (ps : list Z) : list (list Z) :=
  match ps with [] => [] | _ => csi_params ps 0 [] [] end.

Definition report_items (r : report) : list item :=
  match r with
  | RPrint r => [IPrint [r]]
  | RC0 b => [IC0 b]
  | REsc c => [IEsc [] c]
  | RSs3 c => [ISS3 c]
  | RCsi priv ps is f => [ICsi (priv ++ is) (csi_dec ps) f]
  | ROscBel pl => [IOsc pl]
  | ROscSt pl => [IOsc pl]
  end.

(* ESC c is one complete escape sequence: c is a final of the escape state (not an intermediate,
   not the introducer of SS3, DCS, SOS, CSI, OSC, PM, APC); the string terminator `\` is one of them *)
Definition esc_final_ok (c : Z) : bool :=
  in_range c 48 127 && negb ((c =? 79) || (c =? 80) || (c =? 88) || (c =? 91) || (c =? 93) || (c =? 94) || (c =? 95)).

Definition report_ok (r : report) : bool :=
  match r with
  | RPrint r => 32 <=? r
  | RC0 b => in_range b 0 31 && negb (b =? 27)
  | REsc c => esc_final_ok c
  | RSs3 c => (32 <=? c) && negb (c =? 127)
  | RCsi priv ps is f =>
      match priv with [] => true | [m] => in_range m 60 63 | _ => false end &&
      forallb (fun r => in_range r 48 59) ps && forallb (fun r => in_range r 32 47) is && in_range f 64 126
  | ROscBel pl => forallb (fun r => 32 <=? r) pl
  | ROscSt pl => forallb (fun r => 32 <=? r) pl && match pl with [] => false | _ => true end
  end.

(* parser state between reports: ground, ST suppression off, no pending exit action, no
   collected OSC payload *)
Definition clean_b (p : pst) : bool :=
  pstate_eqb (st p) Ground && negb (ignoreST p) &&
  match exitf p with None => true | Some _ => false end &&
  match oscData p with [] => true | _ => false end.

(* ---------- the wire form of a sequence decodeKey is specified on ---------- *)
(* decimal rendering of a parameter *)
Fixpoint kdigits (fuel : nat) (n : Z) : list Z :=
  match fuel with
  | O => []
  | S f => if n <? 10 then [48 + n] else kdigits f (n / 10) ++ [48 + n mod 10]
  end.
Definition kdd (n : Z) : list Z := kdigits 20 n.
Fixpoint sub_str (p : list Z) : list Z :=
  match p with [] => [] | [n] => kdd n | n :: t => kdd n ++ 58 :: sub_str t end.
Fixpoint pstr (ps : list (list Z)) : list Z :=
  match ps with [] => [] | [p] => sub_str p | p :: t => sub_str p ++ 59 :: pstr t end.

Definition small63 (n : Z) : bool := (0 <=? n) && (n <? 9223372036854775808).
Definition wire_params_ok (ps : list (list Z)) : bool :=
  forallb (fun p => match p with [] => false | _ => forallb small63 p end) ps.

Definition kseq_report (s : kseq) : option report :=
  match s with
  | SPrint [r] => Some (RPrint r)
  | SC0 b => Some (RC0 b)
  | SESC [] c => Some (REsc c)
  | SSS3 c => Some (RSs3 c)
  | SCSI [] ps f => if wire_params_ok ps then Some (RCsi [] (pstr ps) [] f) else None
  | _ => None
  end.

Definition kseq_wire (s : kseq) : option (list Z) :=
  match kseq_report s with
  | Some r => if report_ok r then Some (report_wire r) else None
  | None => None
  end.

(* every encoding of a both-expressible chord has a wire form, except the Esc key itself (a lone
   ESC byte: it is told from an escape sequence by the escape timer, see [lone_esc]) *)
Definition wire_or_lone_esc (s : kseq) : bool :=
  match s with
  | SC0 27 => true
  | _ => match kseq_wire s with Some _ => true | None => false end
  end.
Definition chords_have_wire : bool :=
  forallb (fun c => forallb wire_or_lone_esc (legacy_encs c) && forallb wire_or_lone_esc (kitty_encs c)) both_expressible.

(* ... and so has every encoding (legacy, kitty, xterm modifyOtherKeys incl. the BS-coded Backspace) of
   every chord whose description is specified ([desc_chords], model/Keys.v) *)
Definition desc_have_wire : bool :=
  forallb (fun c => forallb wire_or_lone_esc (all_encs c)) desc_chords.

(* ================= correspondence stream ================= *)
(* One report as the harness sent it: its bytes; whether a silence (longer than the escape timer)
   follows it; the sequence it is the canonical wire form of, if it was built from one; the encoding,
   if it was built from one; the events a FRESH parser + decodeKey delivered for these bytes alone. *)
Definition sreport := (list Z * bool * option kseq * option encoding * list event)%type.
Definition sr_bytes (r : sreport) : list Z := match r with (b, _, _, _, _) => b end.
Definition sr_gap (r : sreport) : bool := match r with (_, g, _, _, _) => g end.
Definition sr_exp (r : sreport) : option kseq := match r with (_, _, e, _, _) => e end.
Definition sr_enc (r : sreport) : option encoding := match r with (_, _, _, e, _) => e end.
Definition sr_alone (r : sreport) : list event := match r with (_, _, _, _, a) => a end.

(* stream case: oracle table, the reports in order, the events ONE parser instance + decodeKey
   delivered for all of them *)
Definition stream_case := (utab * list sreport * list event)%type.

Fixpoint segs_of (cur : list Z) (rs : list sreport) : list (list Z) :=
  match rs with
  | [] => [cur]
  | r :: t => if sr_gap r then (cur ++ sr_bytes r) :: segs_of [] t else segs_of (cur ++ sr_bytes r) t
  end.

Definition event_eqb (a b : event) : bool := kseq_eqb (fst a) (fst b) && key_eqb (snd a) (snd b).
Definition events_eqb := list_eqb event_eqb.

Definition events_covered (t : utab) (l : list event) : bool :=
  forallb (fun e => decode_covered t (fst e)) l.

Definition alone_segs (r : sreport) : list (list Z) :=
  if sr_gap r then [sr_bytes r; []] else [sr_bytes r].

Definition c09_stream_mismatches (cases : list stream_case) : list Z :=
  bad_indices (fun c =>
    let '(t, rs, obs) := c in
    let u := uni_of t in
    let m := stream_events u (segs_of [] rs) in
    negb (events_covered t m)
    || negb (events_eqb m obs)
    || existsb (fun r =>
         let ma := stream_events u (alone_segs r) in
         negb (events_covered t ma)
         || negb (events_eqb ma (sr_alone r))
         (* the bytes are the wire form of the sequence the report was built from *)
         || match sr_exp r with
            | Some s => match kseq_wire s with
                        | Some w => negb (zlist_eqb (decode_all (sr_bytes r)) w)
                        | None => negb (kseq_eqb s (SC0 27) && zlist_eqb (sr_bytes r) [27] && sr_gap r)
                        end
            | None => false
            end
         || match sr_enc r with
            | Some e => negb (match sr_exp r with Some s => kseq_eqb (enc_seq e) s | None => true end)
            | None => false
            end) rs) cases.

(* the property on one observation (no model involved):
   - history independence: what one parser instance delivers for the whole stream is exactly the
     concatenation of what each report delivers on its own, whatever came before it;
   - a report built from a sequence (its canonical wire form) delivers exactly that sequence, once;
   - a report built from an encoding (possibly with empty fields for zeros) delivers exactly the
     sequence of that encoding, once, and it decodes to the key the encoding specifies. *)
Definition c09_stream_violations (cases : list stream_case) : list Z :=
  bad_indices (fun c =>
    let '(t, rs, obs) := c in
    let u := uni_of t in
    negb (events_eqb obs (flat_map sr_alone rs))
    || existsb (fun r =>
         match sr_exp r with
         | Some s => negb (match sr_alone r with [(s', _)] => kseq_eqb s s' | _ => false end)
         | None => false
         end
         || match sr_enc r with
            | Some e => negb (match sr_alone r with
                              | [(s', k')] => kseq_eqb (enc_seq e) s' &&
                                              match enc_spec u e with Some k => key_eqb k k' | None => true end
                              | _ => false
                              end)
            | None => false
            end) rs) cases.
