(* Correspondence functions for C02 / C08: cases are (segments of bytes separated by
   silence, canonical items the implementation delivered). *)
From Vx Require Import base.Prelude model.ParserTypes gen.GenParser model.Parser model.Vt500Spec.

Definition pcase := (list (list Z) * list item)%type.

Definition c02_mismatches (cases : list pcase) : list Z :=
  bad_indices (fun c => negb (items_eqb (parse_segments (fst c)) (snd c))) cases.

(* the property: what is delivered is what the reference machine (strict ST suppression) delivers *)
Definition c02_holds (c : pcase) : bool := items_eqb (spec_parse_segments true (fst c)) (snd c).
Definition c02_violations (cases : list pcase) : list Z := bad_indices (fun c => negb (c02_holds c)) cases.

(* guard of the recorded finding "empty-string-st": the input ends a control string that has an
   empty body with ST (strict and lenient reference differ) and the implementation does what the
   lenient reference does *)
Definition empty_string_st (segs : list (list Z)) : bool :=
  negb (items_eqb (spec_parse_segments true segs) (spec_parse_segments false segs)).
Definition c02_known (cases : list pcase) : list Z :=
  bad_indices (fun c => empty_string_st (fst c) && items_eqb (spec_parse_segments false (fst c)) (snd c)) cases.

(* ---- C08 ---- *)
Definition is_eof_b (i : item) : bool := match i with IEof => true | _ => false end.
(* exactly one end marker, as the last item *)
Fixpoint one_eof_last_b (l : list item) : bool :=
  match l with
  | [] => false
  | [x] => is_eof_b x
  | x :: t => negb (is_eof_b x) && one_eof_last_b t
  end.

Definition c08_mismatches (cases : list pcase) : list Z :=
  bad_indices (fun c => negb (items_eqb (parse_segments (fst c)) (snd c))) cases.
(* lifecycle + Escape timing: one end marker last, and what is delivered (including where the
   Escape key appears) is what the reference machine with its timer delivers *)
Definition c08_holds (c : pcase) : bool :=
  one_eof_last_b (snd c) && items_eqb (spec_parse_segments false (fst c)) (snd c).
Definition c08_violations (cases : list pcase) : list Z := bad_indices (fun c => negb (c08_holds c)) cases.
