(* Vocabulary of the translated start-up / shutdown scripts (coq/gen/GenModes.v, property C04).
   The translator (gen/modes.go) turns the bodies of enableModes, disableModes, enterAltScreen,
   exitAltScreen, sendQueries and Suspend of /repo/vaxis.go into lists of (condition, step), with the
   conditions of the enclosing `if`s conjoined.  Definitions only. *)
From Vx Require Import base.Prelude.

(* capability / option flags a condition may mention *)
Inductive flag :=
  | FSync          (* vx.caps.synchronizedUpdate *)
  | FUnicode       (* vx.caps.unicodeCore *)
  | FExplicit      (* vx.caps.explicitWidth *)
  | FKittyKB       (* vx.caps.kittyKeyboard *)
  | FSixels        (* vx.caps.sixels *)
  | FTheme         (* vx.caps.colorThemeUpdates *)
  | FOsc176        (* vx.caps.osc176 *)
  | FInband        (* vx.caps.inBandResize *)
  | FDisableMouse. (* vx.disableMouse *)

Inductive cexp := CTrue | CFlag (f : flag) | CNot (c : cexp) | CAnd (a b : cexp).

(* named string constants of sequences.go (no format verbs) *)
Inductive cname :=
  | KDsrcpr | KPrimaryAttributes | KTertiaryAttributes | KXtversion | KKittyKBQuery | KKittyKBPop
  | KKittyGquery | KXtsmSixelGeom | KUserCursorStyle | KClear | KOsc10 | KOsc11 | KGetAppID
  | KSgrReset | KBoldSet | KBoldDimReset | KFgReset | KApplicationMode | KNumericMode | KTextAreaSize.

(* named format strings of sequences.go (used through tparm / Printf) *)
Inductive fmtname :=
  | FmKittyKBEnable | FmDsr | FmSetAppID | FmMouseShape | FmCursorStyleSet | FmCup | FmOsc8 | FmOsc4
  | FmExplicitWidth | FmFgSet | FmFgBrightSet | FmFgIndexSet.

(* arguments as written in the Go source *)
Inductive arg :=
  | AInt (n : Z)            (* an integer literal or a resolved integer constant *)
  | AStr (s : list Z)       (* a string literal or a resolved string constant *)
  | AKittyFlags             (* vx.kittyFlags *)
  | AAppIDLast              (* vx.appIDLast *)
  | AUserCursorStyle.       (* int(vx.userCursorStyle) *)

(* what is written *)
Inductive tok :=
  | TConst (k : cname)
  | TDecset (n : Z) | TDecrst (n : Z) | TDecrqm (n : Z)
  | TParm (f : fmtname) (args : list arg)
  | TLit (s : list Z)
  | TXtgettcap (s : list Z).

(* functions a script may call *)
Inductive fname := FnEnterAlt | FnExitAlt | FnEnableModes | FnDisableModes.

Inductive step :=
  | SWriteString (t : tok)      (* _, _ = vx.tw.WriteString(E) *)
  | SFprintf (t : tok)          (* _, _ = fmt.Fprintf(vx.tw, fmt, args...): goes through writer.Write *)
  | SDirect (t : tok)           (* io.WriteString(vx.console, E): bypasses the writer *)
  | SFlush                      (* _, _ = vx.tw.Flush() *)
  | SCall (f : fname)
  | SDefer (f : fname)          (* defer vx.f() *)
  | SHideCursor                 (* vx.HideCursor() *)
  | SSetRefresh                 (* vx.tw.vx.refresh = true *)
  | SSetLastStyleUser           (* vx.cursorLast.style = vx.userCursorStyle *)
  | SCursorPosQuery             (* _, col := vx.CursorPosition() *)
  | SParserClose | SParserWait  (* vx.parser.Close() / vx.parser.WaitClose() *)
  | SSignalStop                 (* signal.Stop(...) *)
  | SConsoleReset.              (* vx.console.Reset() *)

Definition script := list (cexp * step).

(* call skeletons of the irregular functions (New after the query loop, Resume, Close) *)
Inductive callname :=
  | CnSendQueries | CnApplyQuirks | CnEnterAlt | CnEnableModes | CnSetupSignals | CnOpenTty | CnSuspend
  | CnConsoleClose | CnPostQuit | CnReportWinsize
  | CnCloseIfFailed.   (* `if err != nil { vx.Close(); return nil, err }` after reportWinsize *)
