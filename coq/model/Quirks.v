(* C07: the quirks.  Terminal identity (XTVERSION reply, tertiary-DA reply) x environment
   variables -> the corrected capability flags, and the ORDER in which New establishes the flags,
   applies the quirks and enables the modes.  Definitions only.

   Code modelled (as it is): vaxis.go handleSequence, DCS final '|' (through model/Input.v
   handle_dcs); New's start-up loop (Input.collect_caps: `case terminalID: vx.termID = ev`);
   the explicit-width probe of sendQueries; quirks.go applyQuirks (all rules that touch
   caps.unicodeCore / explicitWidth / noZWJ); New's `applyQuirks(); enterAltScreen();
   enableModes()`; enableModes / disableModes as far as mode 2027 goes
   (`if vx.caps.unicodeCore && !vx.caps.explicitWidth`); Suspend = disableModes, Resume =
   enableModes, Close = Suspend; RenderedWidth's choice of the width method (Gate.width_method). *)
From Vx Require Import base.Prelude model.Parser model.Gate model.CapReplies.
From Vx Require model.Input.

(* ---- what the terminal says before its DA1 reply, in arrival order ---- *)
Inductive sreply :=
  | SRpm (m : Z) (r : rpm)          (* a DECRPM report (CapReplies.rpm_items) *)
  | SXtversion (name : list Z)      (* DCS > | name ST *)
  | SDa3 (data : list Z).           (* DCS ! | data ST : the tertiary device attributes (unit id) *)

Definition sreply_items (r : sreply) : list item :=
  match r with
  | SRpm m v => rpm_items (m, v)
  | SXtversion name => [IDcs 124 [62] [] name]
  | SDa3 data => [IDcs 124 [33] [] data]
  end.

(* ---- the environment: which of the variables quirks.go reads are set (non-empty) ---- *)
Record qenv := mkQenv {
  e_wcwidth : bool;      (* VAXIS_FORCE_WCWIDTH *)
  e_unicode : bool;      (* VAXIS_FORCE_UNICODE *)
  e_nozwj : bool;        (* VAXIS_FORCE_NOZWJ *)
  e_no_nozwj : bool      (* VAXIS_DISABLE_NOZWJ *)
}.

(* the three flags the width method and mode 2027 depend on *)
Record wflags := mkW { w_unicode : bool; w_explicit : bool; w_nozwj : bool }.
Definition wflags_eqb (a b : wflags) : bool :=
  Bool.eqb (w_unicode a) (w_unicode b) && Bool.eqb (w_explicit a) (w_explicit b) && Bool.eqb (w_nozwj a) (w_nozwj b).

Definition s_kitty : list Z := [107; 105; 116; 116; 121].                 (* "kitty" *)
Definition s_tmux34 : list Z := [116; 109; 117; 120; 32; 51; 46; 52].      (* "tmux 3.4" *)

(* ================= the code side ================= *)

(* quirks.go applyQuirks: the identity rules (Input.apply_quirks), then the environment rules in
   the order of the source *)
Definition env_quirks (env : qenv) (cp : Input.caps) : Input.caps :=
  let cp := if e_wcwidth env then Input.set_explicit (Input.set_unicode cp false) false else cp in
  let cp := if e_unicode env then Input.set_unicode cp true else cp in
  let cp := if e_nozwj env then Input.set_explicit (Input.set_nozwj cp true) false else cp in
  let cp := if e_no_nozwj env then Input.set_nozwj cp false else cp in
  cp.

Definition apply_quirks_env (env : qenv) (su : Input.startup) : Input.startup :=
  let su := Input.apply_quirks su in
  Input.mkStartup (env_quirks env (Input.su_caps su)) (Input.su_appid su) (Input.su_termid su).

(* New up to the end of its reply loop: sendQueries' probe sets explicitWidth ([ew]: the cursor
   moved by the OSC 66 width), the input goroutine handles the replies, the loop collects *)
Definition collected (ew : bool) (rs : list sreply) : option Input.startup :=
  match Input.run no_key no_b64 Input.vx0 (flat_map sreply_items rs ++ [da1_item]) with
  | Input.Ok _ es =>
      let su0 := Input.mkStartup (Input.set_explicit Input.caps0 ew) [] [] in
      let '(su, _, got) := Input.collect_caps false su0 (Input.events_of es) in
      if got then Some su else None
  | _ => None
  end.

Definition flags_of (cp : Input.caps) : wflags := mkW (Input.c_unicode cp) (Input.c_explicit cp) (Input.c_nozwj cp).

Definition b2n (b : bool) : Z := if b then 1 else 0.
(* enableModes / disableModes: is mode 2027 written? *)
Definition uses_2027 (f : wflags) : bool := w_unicode f && negb (w_explicit f).

(* the steps of New after its reply loop, in the order of the source *)
Inductive nstep := NQuirks | NEnable.
Definition new_steps : list nstep := [NQuirks; NEnable].
(* runs the steps: the flags at the end and how often enableModes wrote CSI ? 2027 h *)
Fixpoint run_new (env : qenv) (steps : list nstep) (su : Input.startup) (h : Z) : Input.startup * Z :=
  match steps with
  | [] => (su, h)
  | NQuirks :: t => run_new env t (apply_quirks_env env su) h
  | NEnable :: t => run_new env t su (h + b2n (uses_2027 (flags_of (Input.su_caps su))))
  end.

(* the phases of a session that are observed: New, Suspend, Resume, Close; per phase how often
   CSI ? 2027 h and CSI ? 2027 l are written.  Suspend = disableModes, Resume = enableModes,
   Close = Suspend, all on the flags New left *)
Definition phase_counts (h_new : Z) (f : wflags) : list (Z * Z) :=
  [(h_new, 0); (0, b2n (uses_2027 f)); (b2n (uses_2027 f), 0); (0, b2n (uses_2027 f))].

Record qobs := mkQobs {
  o_termid : list Z;              (* TerminalID() *)
  o_smulx : bool;                 (* styled underlines reported *)
  o_flags : wflags;               (* unicodeCore, explicitWidth, noZWJ after New *)
  o_flags2 : wflags;              (* the same after Suspend + Resume *)
  o_counts : list (Z * Z);        (* (2027 h, 2027 l) written during New, Suspend, Resume, Close *)
  o_w1 : list Z;                  (* RenderedWidth of the probes after New *)
  o_w2 : list Z                   (* ... after Resume *)
}.

(* New as it is: the quirks are applied BEFORE enterAltScreen / enableModes, so every later
   reader (enableModes, RenderedWidth, Can*, disableModes, Resume) sees the corrected flags *)
Definition quirk_model_steps (steps : list nstep) (env : qenv) (ew : bool) (rs : list sreply) (probes : list (Z * Z * Z)) : option qobs :=
  match collected ew rs with
  | Some su =>
      let '(su', h) := run_new env steps su 0 in
      let f := flags_of (Input.su_caps su') in
      let ws := map (probe_width (width_method (w_unicode f) (w_explicit f) (w_nozwj f))) probes in
      Some (mkQobs (Input.su_termid su') (Input.c_smulx (Input.su_caps su')) f f (phase_counts h f) ws ws)
  | None => None
  end.
Definition quirk_model := quirk_model_steps new_steps.

(* ================= the specification side ================= *)
(* Only an XTVERSION reply names the terminal (the last one counts); a tertiary-DA reply never
   does.  A DA3 reply establishes exactly one thing: styled underlines when it is VTE's. *)
Fixpoint spec_termid (cur : list Z) (rs : list sreply) : list Z :=
  match rs with
  | [] => cur
  | SXtversion name :: t => spec_termid (Input.gostring name) t
  | _ :: t => spec_termid cur t
  end.
Definition spec_adv2027 (rs : list sreply) : bool :=
  existsb (fun r => match r with SRpm m v => (m =? 2027) && rpm_advertises 2027 v | _ => false end) rs.
Definition spec_vte (rs : list sreply) : bool :=
  existsb (fun r => match r with SDa3 d => zlist_eqb (Input.gostring d) Input.hex_VTE | _ => false end) rs.

(* the corrected flags in closed form *)
Definition spec_flags (env : qenv) (ew : bool) (rs : list sreply) : wflags :=
  let id := spec_termid [] rs in
  mkW (e_unicode env || (negb (e_wcwidth env) && (spec_adv2027 rs || zlist_eqb id s_tmux34)))
      (ew && negb (e_wcwidth env) && negb (e_nozwj env))
      (negb (e_no_nozwj env) && (e_nozwj env || Input.prefixb s_kitty id)).

(* The property on one observation, independent of the model's way of computing:
   (a) identity and flags are what the replies and the environment establish;
   (b) ONE flag set: mode 2027 is set in New and again in Resume exactly when the reported flags
       say `unicode core and not explicit width`, it is reset in Suspend and in Close exactly
       then, never otherwise; the flags do not change over Suspend/Resume; every probe is
       measured, in both sessions, with the method the reported flags select. *)
Definition counts_ok (f : wflags) (cs : list (Z * Z)) : bool :=
  let b := b2n (uses_2027 f) in
  match cs with
  | [(h1, l1); (h2, l2); (h3, l3); (h4, l4)] =>
      (h1 =? b) && (l1 =? 0) && (h2 =? 0) && (l2 =? b) && (h3 =? b) && (l3 =? 0) && (h4 =? 0) && (l4 =? b)
  | _ => false
  end.
Definition qobs_ok (env : qenv) (ew : bool) (rs : list sreply) (probes : list (Z * Z * Z)) (o : qobs) : bool :=
  let f := o_flags o in
  let ws := map (probe_width (width_method (w_unicode f) (w_explicit f) (w_nozwj f))) probes in
  zlist_eqb (o_termid o) (spec_termid [] rs) &&
  Bool.eqb (o_smulx o) (spec_vte rs) &&
  wflags_eqb f (spec_flags env ew rs) &&
  wflags_eqb (o_flags2 o) f &&
  counts_ok f (o_counts o) &&
  zlist_eqb (o_w1 o) ws && zlist_eqb (o_w2 o) ws.

(* ---- correspondence ---- *)
Definition pair_eqb (a b : Z * Z) : bool := (fst a =? fst b) && (snd a =? snd b).
Definition qobs_eqb (a b : qobs) : bool :=
  zlist_eqb (o_termid a) (o_termid b) && Bool.eqb (o_smulx a) (o_smulx b) &&
  wflags_eqb (o_flags a) (o_flags b) && wflags_eqb (o_flags2 a) (o_flags2 b) &&
  list_eqb pair_eqb (o_counts a) (o_counts b) && zlist_eqb (o_w1 a) (o_w1 b) && zlist_eqb (o_w2 a) (o_w2 b).

(* quirk stream: environment, probe result, replies, probe graphemes with their widths under the
   three methods (the library's own gwidth), observation *)
Definition quirk_case : Type := qenv * bool * list sreply * list (Z * Z * Z) * qobs.
Definition c07_quirk_mismatches (cases : list quirk_case) : list Z :=
  bad_indices (fun c => let '(env, ew, rs, probes, o) := c in
    match quirk_model env ew rs probes with
    | Some m => negb (qobs_eqb m o)
    | None => true
    end) cases.
Definition c07_quirk_violations (cases : list quirk_case) : list Z :=
  bad_indices (fun c => let '(env, ew, rs, probes, o) := c in negb (qobs_ok env ew rs probes o)) cases.
