(* Model of color.go: Color tags, Params, asIndex.  Executable definitions only. *)
From Vx Require Import base.Prelude gen.GenPalette.

Definition tag_indexed : Z := 16777216.   (* 1 << 24 *)
Definition tag_rgb : Z := 33554432.       (* 1 << 25 *)

Definition is_indexed (c : Z) : bool := Z.odd (c / tag_indexed).
Definition is_rgb (c : Z) : bool := Z.odd (c / tag_rgb).

Definition chR (v : Z) : Z := (v / 65536) mod 256.
Definition chG (v : Z) : Z := (v / 256) mod 256.
Definition chB (v : Z) : Z := v mod 256.

Definition index_color (n : Z) : Z := n + tag_indexed.
Definition rgb_color (r g b : Z) : Z := r * 65536 + g * 256 + b + tag_rgb.

(* Color.Params *)
Definition color_params (c : Z) : list Z :=
  if is_indexed c then [u8 c]
  else if is_rgb c then [chR c; chG c; chB c]
  else [].

Definition split3 (v : Z) : Z * Z * Z := (chR v, chG v, chB v).

(* the weighted squared distance of asIndex, scaled by 10^4 so that it is an integer:
   sq(dR*.3) + sq(dG*.59) + sq(dB*.11) = (900 dR^2 + 3481 dG^2 + 121 dB^2) / 10^4.
   The channel differences are signed (the code subtracts after converting to int). *)
Definition wdist (o v : Z * Z * Z) : Z :=
  let '(oR, oG, oB) := o in
  let '(vR, vG, vB) := v in
  900 * ((vR - oR) * (vR - oR)) + 3481 * ((vG - oG) * (vG - oG)) + 121 * ((vB - oB) * (vB - oB)).

(* the loop of asIndex: first strict minimum; acc = (match index, dist) *)
Fixpoint scan (o : Z * Z * Z) (pal : list (Z * Z * Z)) (i : Z) (acc : option (Z * Z)) : option (Z * Z) :=
  match pal with
  | [] => acc
  | v :: t =>
      let d := wdist o v in
      let acc' := match acc with
                  | None => Some (i, d)
                  | Some (_, bd) => if d <? bd then Some (i, d) else acc
                  end in
      scan o t (i + 1) acc'
  end.

(* [pal] is the palette already split into channels *)
Definition as_index_pal (pal : list (Z * Z * Z)) (c : Z) : Z :=
  if negb (is_rgb c) then c
  else match scan (split3 c) pal 0 None with
       | None => 0
       | Some (i, _) => index_color (u8 (i + 16))
       end.

(* the translated palette, split once *)
Definition colorIndex3 : list (Z * Z * Z) := Eval vm_compute in map split3 colorIndex.

Definition as_index (c : Z) : Z := as_index_pal colorIndex3 c.

(* Specification predicate (independent of [scan]): what C07 demands of the colour
   [r] that is sent for [c] when the terminal has no RGB support. *)
Definition nearest_ok (pal : list (Z * Z * Z)) (c r : Z) : bool :=
  if negb (is_rgb c) then r =? c
  else
    let n := r - tag_indexed in
    (16 <=? n) && (n <? 16 + zlen pal) && (n <=? 255) &&
    match zget pal (n - 16) with
    | None => false
    | Some best => let o := split3 c in let bd := wdist o best in
                   forallb (fun v => bd <=? wdist o v) pal
    end.

(* correspondence: cases are (colour, what the implementation returned) *)
Definition c07_colour_mismatches (cases : list (Z * Z)) : list Z :=
  bad_indices (fun cr => negb (as_index (fst cr) =? snd cr)) cases.
Definition c07_colour_violations (cases : list (Z * Z)) : list Z :=
  bad_indices (fun cr => negb (nearest_ok colorIndex3 (fst cr) (snd cr))) cases.
