(* C14 — model of vxfw/vxfw.go: Surface, NewSurface, WriteCell, AddChild, Fill, Surface.render,
   together with the part of window.go / screen.go that render goes through (Window.New,
   Window.SetCell, screen.setCell).  Executable definitions only; proofs are in
   proofs/SurfaceProofs.v.

   A surface is a rose tree.  The cell type is a parameter [A] (vaxis.Cell is opaque to the
   layout code: it is only stored and copied); the case files instantiate it with Z (an id
   the harness gives to each distinct cell) or Z * Z (grapheme id, width).
   Sizes and WriteCell coordinates are uint16 in Go: every theorem quantifies over
   0 <= _ < 65536 explicitly.  Child origins and z-indices are Go int: unbounded Z. *)
From Vx Require Import base.Prelude.

Inductive surface (A : Type) : Type :=
  Surf (w h : Z) (buf : list A) (kids : list (Z * Z * Z * surface A)).   (* kid = (col, row, z, child) *)
Arguments Surf {A} w h buf kids.

Definition s_w {A} (s : surface A) : Z := let 'Surf w _ _ _ := s in w.
Definition s_h {A} (s : surface A) : Z := let 'Surf _ h _ _ := s in h.
Definition s_buf {A} (s : surface A) : list A := let 'Surf _ _ b _ := s in b.
Definition s_kids {A} (s : surface A) : list (Z * Z * Z * surface A) := let 'Surf _ _ _ k := s in k.

Definition kid_col {A} (k : Z * Z * Z * surface A) : Z := let '(c, _, _, _) := k in c.
Definition kid_row {A} (k : Z * Z * Z * surface A) : Z := let '(_, r, _, _) := k in r.
Definition kid_z {A} (k : Z * Z * Z * surface A) : Z := let '(_, _, z, _) := k in z.
Definition kid_surf {A} (k : Z * Z * Z * surface A) : surface A := let '(_, _, _, s) := k in s.

(* ---------------------------------------------------------------- NewSurface / WriteCell *)

(* NewSurface(width, height, w): Buffer: make([]vaxis.Cell, int(height)*int(width)).
   [blank] is the zero Cell. *)
Definition new_surface {A} (blank : A) (w h : Z) : surface A :=
  Surf w h (zrepeat blank (h * w)) [].

(* func (s *Surface) WriteCell(col uint16, row uint16, cell vaxis.Cell):
     if col >= s.Size.Width || row >= s.Size.Height { return }
     i := int(row)*int(s.Size.Width) + int(col);  s.Buffer[i] = cell
   None = index-out-of-range panic. *)
Definition write_cell {A} (s : surface A) (col row : Z) (c : A) : option (surface A) :=
  let 'Surf w h buf kids := s in
  if (col >=? w) || (row >=? h) then Some s
  else match zupd buf (row * w + col) c with
       | Some b => Some (Surf w h b kids)
       | None => None
       end.

(* The code as it was before the fixes (kept only for the regression witnesses in props/C14.v):
   make([]vaxis.Cell, height*width) with a uint16 product, `row > s.Size.Height`, and
   i := (row * s.Size.Width) + col computed in uint16. *)
Definition new_surface_u16 {A} (blank : A) (w h : Z) : surface A :=
  Surf w h (zrepeat blank (u16 (h * w))) [].
Definition write_cell_u16 {A} (s : surface A) (col row : Z) (c : A) : option (surface A) :=
  let 'Surf w h buf kids := s in
  if (col >=? w) || (row >? h) then Some s
  else match zupd buf (u16 (u16 (row * w) + col)) c with
       | Some b => Some (Surf w h b kids)
       | None => None
       end.

(* func (s *Surface) AddChild(col int, row int, child Surface): append, ZIndex 0 *)
Definition add_child {A} (s : surface A) (col row : Z) (child : surface A) : surface A :=
  let 'Surf w h buf kids := s in Surf w h buf (kids ++ [(col, row, 0, child)]).

(* func (s *Surface) Fill(style): every buffer cell gets the style; [f] is "set the style" *)
Definition fill {A} (f : A -> A) (s : surface A) : surface A :=
  let 'Surf w h buf kids := s in Surf w h (map f buf) kids.

(* The cell of the buffer that render paints at local (col,row): render walks the buffer with
   row := i / Width, col := i % Width, i.e. (col,row) is shown from index row*Width+col. *)
Definition cell_at {A} (s : surface A) (col row : Z) : option A :=
  if (0 <=? col) && (col <? s_w s) && (0 <=? row) && (row <? s_h s)
  then zget (s_buf s) (row * s_w s + col) else None.

(* well-formed: what NewSurface establishes and WriteCell/Fill/AddChild keep *)
Definition wf_node {A} (s : surface A) : Prop :=
  0 <= s_w s < 65536 /\ 0 <= s_h s < 65536 /\ zlen (s_buf s) = s_w s * s_h s.

(* the same for every node of a tree *)
Fixpoint wf_tree {A} (s : surface A) : Prop :=
  let 'Surf w h buf kids := s in
  (0 <= w < 65536 /\ 0 <= h < 65536 /\ zlen buf = w * h) /\
  (fix all (l : list (Z * Z * Z * surface A)) : Prop :=
     match l with
     | [] => True
     | k :: t => (let '(_, _, _, ch) := k in wf_tree ch) /\ all t
     end) kids.

(* ---------------------------------------------------------------- a sequence of writes *)

Fixpoint write_cells {A} (s : surface A) (ws : list (Z * Z * A)) : option (surface A) :=
  match ws with
  | [] => Some s
  | (col, row, c) :: t => match write_cell s col row c with
                          | Some s' => write_cells s' t
                          | None => None
                          end
  end.

(* sparse view of a buffer over Z ids: (index, id) for the non-blank (non-zero) cells *)
Fixpoint sparse_from (i : Z) (l : list Z) : list (Z * Z) :=
  match l with
  | [] => []
  | x :: t => if x =? 0 then sparse_from (i + 1) t else (i, x) :: sparse_from (i + 1) t
  end.

(* observation of the surface stream: (outcome 0 ok / 1 panic, len(Buffer), sparse buffer) *)
Definition surf_obs : Type := Z * Z * list (Z * Z).
Definition surf_input : Type := Z * Z * list (Z * Z * Z).

Definition surface_run (inp : surf_input) : surf_obs :=
  let '(w, h, ws) := inp in
  match write_cells (new_surface 0 w h) ws with
  | Some s => (0, zlen (s_buf s), sparse_from 0 (s_buf s))
  | None => (1, 0, [])
  end.

Definition pair_eqb (a b : Z * Z) : bool := (fst a =? fst b) && (snd a =? snd b).
Definition surf_obs_eqb (a b : surf_obs) : bool :=
  let '(o1, n1, l1) := a in let '(o2, n2, l2) := b in
  (o1 =? o2) && ((o1 =? 1) || ((n1 =? n2) && list_eqb pair_eqb l1 l2)).

(* The property on one observation, stated without write_cell: no panic, the buffer has
   w*h cells, and the cell at index i holds the id of the LAST write (col,row,id) with
   col < w, row < h and row*w+col = i (0 if there is none). *)
Fixpoint spec_cell (w h : Z) (ws : list (Z * Z * Z)) (i : Z) (acc : Z) : Z :=
  match ws with
  | [] => acc
  | (col, row, c) :: t =>
      spec_cell w h t i (if (col <? w) && (row <? h) && (row * w + col =? i) then c else acc)
  end.

Fixpoint increasing (prev : Z) (l : list (Z * Z)) : bool :=
  match l with
  | [] => true
  | (i, _) :: t => (prev <? i) && increasing i t
  end.

Fixpoint sparse_lookup (l : list (Z * Z)) (i : Z) : Z :=
  match l with
  | [] => 0
  | (j, x) :: t => if j =? i then x else sparse_lookup t i
  end.

Definition surface_ok (c : surf_input * surf_obs) : bool :=
  let '((w, h, ws), (out, n, sp)) := c in
  (out =? 0) && (n =? w * h) && increasing (-1) sp &&
  forallb (fun p => let '(i, x) := p in (0 <=? i) && (i <? w * h) && negb (x =? 0) && (spec_cell w h ws i 0 =? x)) sp &&
  forallb (fun wr => let '(col, row, _) := wr in
                     if (col <? w) && (row <? h)
                     then sparse_lookup sp (row * w + col) =? spec_cell w h ws (row * w + col) 0
                     else true) ws.

Definition c14_surface_mismatches (cases : list (surf_input * surf_obs)) : list Z :=
  bad_indices (fun c => negb (surf_obs_eqb (surface_run (fst c)) (snd c))) cases.
Definition c14_surface_violations (cases : list (surf_input * surf_obs)) : list Z :=
  bad_indices (fun c => negb (surface_ok c)) cases.

(* ---------------------------------------------------------------- windows and the screen *)

(* window.go: a Window is a chain of frames (Column, Row, Width, Height), innermost first;
   the outermost one has Parent == nil and writes to Vx.screenNext. *)
Definition frame : Type := Z * Z * Z * Z.
Definition window : Type := list frame.

Definition win_w (win : window) : Z := match win with (_, _, w, _) :: _ => w | [] => 0 end.
Definition win_h (win : window) : Z := match win with (_, _, _, h) :: _ => h | [] => 0 end.

(* func (win Window) New(col, row, cols, rows int) Window *)
Definition win_new (win : window) (col row cols rows : Z) : window :=
  let w := win_w win in
  let h := win_h win in
  let width := if cols <? 0 then w - col else if cols + col >? w then w - col else cols in
  let height := if rows <? 0 then h - row else if rows + row >? h then h - row else rows in
  (col, row, width, height) :: win.

(* func (win Window) SetCell(col, row, cell): the arguments of the screenNext.setCell call it
   ends in, or None if some window of the chain discards the write *)
Fixpoint win_set_cell (win : window) (col row : Z) : option (Z * Z) :=
  match win with
  | [] => Some (col, row)
  | (c, r, w, h) :: p =>
      if (row >=? h) || (col >=? w) then None
      else if (row <? 0) || (col <? 0) then None
      else win_set_cell p (col + c) (row + r)
  end.

(* screen.go: buf [][]Cell with rows, cols; setCell is bounds-checked against rows/cols *)
Record screen (A : Type) : Type := Screen { sc_cols : Z; sc_rows : Z; sc_buf : list (list A) }.
Arguments Screen {A}. Arguments sc_cols {A}. Arguments sc_rows {A}. Arguments sc_buf {A}.

Definition screen_set_cell {A} (s : screen A) (col row : Z) (c : A) : option (screen A) :=
  if (col <? 0) || (row <? 0) then Some s
  else if col >=? sc_cols s then Some s
  else if row >=? sc_rows s then Some s
  else match zget (sc_buf s) row with
       | None => None
       | Some line =>
           match zupd line col c with
           | None => None
           | Some line' =>
               match zupd (sc_buf s) row line' with
               | None => None
               | Some b => Some (Screen (sc_cols s) (sc_rows s) b)
               end
           end
       end.

Definition screen_get {A} (s : screen A) (col row : Z) : option A :=
  match zget (sc_buf s) row with Some line => zget line col | None => None end.

Definition new_screen {A} (blank : A) (cols rows : Z) : screen A :=
  Screen cols rows (zrepeat (zrepeat blank cols) rows).

Fixpoint screen_apply {A} (s : screen A) (ps : list (Z * Z * A)) : option (screen A) :=
  match ps with
  | [] => Some s
  | (x, y, c) :: t => match screen_set_cell s x y c with
                      | Some s' => screen_apply s' t
                      | None => None
                      end
  end.

(* ---------------------------------------------------------------- Surface.render *)

(* for i, cell := range s.Buffer { row := i / Width; col := i % Width; win.SetCell(col,row,cell) }
   Result: the screenNext.setCell calls in order; None = integer division by zero. *)
Fixpoint render_self {A} (win : window) (w : Z) (buf : list A) (i : Z) : option (list (Z * Z * A)) :=
  match buf with
  | [] => Some []
  | c :: t =>
      if w =? 0 then None
      else match render_self win w t (i + 1) with
           | None => None
           | Some r => Some (match win_set_cell win (i mod w) (i / w) with
                             | Some (x, y) => (x, y, c) :: r
                             | None => r
                             end)
           end
  end.

(* sort.Slice(s.Children, less by ZIndex) is not a stable sort: its result is SOME
   permutation that is ascending in z.  [sorter zs] gives that permutation as the list of
   original positions in output order. *)
Definition reorder {B} (perm : list nat) (l : list B) : list B :=
  flat_map (fun i => match nth_error l i with Some x => [x] | None => [] end) perm.

Fixpoint concat_opt {B} (l : list (option (list B))) : option (list B) :=
  match l with
  | [] => Some []
  | None :: _ => None
  | Some a :: t => match concat_opt t with Some r => Some (a ++ r) | None => None end
  end.

(* func (s Surface) render(win, focused): paint own buffer, sort children by z, render each
   child into win.New(origin, child size).  Rendering a child is a function of (window, child)
   only, so the children are rendered structurally and the results put in sorted order.
   (The cursor part of render is C15/C17's and is not modelled.) *)
Fixpoint render_gen {A} (sorter : list Z -> list nat) (win : window) (s : surface A)
  : option (list (Z * Z * A)) :=
  let 'Surf w h buf kids := s in
  match render_self win w buf 0 with
  | None => None
  | Some own =>
      let rs := map (fun k : Z * Z * Z * surface A =>
                       let '(col, row, z, ch) := k in
                       render_gen sorter (win_new win col row (s_w ch) (s_h ch)) ch) kids in
      match concat_opt (reorder (sorter (map kid_z kids)) rs) with
      | None => None
      | Some r => Some (own ++ r)
      end
  end.

(* the executable instance: stable insertion sort (what sort.Slice does for <= 12 elements) *)
Fixpoint ins_by (z : Z) (i : nat) (l : list (Z * nat)) : list (Z * nat) :=
  match l with
  | [] => [(z, i)]
  | (z', j) :: t => if z <? z' then (z, i) :: l else (z', j) :: ins_by z i t
  end.
Fixpoint index_from (n : nat) (zs : list Z) : list (Z * nat) :=
  match zs with [] => [] | z :: t => (z, n) :: index_from (S n) t end.
Definition stable_perm (zs : list Z) : list nat :=
  map snd (fold_left (fun acc p => ins_by (fst p) (snd p) acc) (index_from 0 zs) []).

Definition render {A} := @render_gen A stable_perm.

(* ---------------------------------------------------------------- what render must show *)

Definition in_rect (ox oy w h x y : Z) : bool :=
  (ox <=? x) && (x <? ox + w) && (oy <=? y) && (y <? oy + h).

Definition later {A} (acc o : option A) : option A := match o with Some c => Some c | None => acc end.

(* The cell that surface tree [s], placed with its origin at absolute (ox,oy), shows at the
   absolute point (x,y): its own buffer cell if the point is inside its rectangle, overridden
   by each child (in sorted order, later wins) that shows something there; a child — and its
   whole subtree — is only consulted inside the child's own rectangle. *)
Fixpoint shown {A} (sorter : list Z -> list nat) (s : surface A) (ox oy x y : Z) : option A :=
  let 'Surf w h buf kids := s in
  let own := if in_rect ox oy w h x y then zget buf ((y - oy) * w + (x - ox)) else None in
  let ks := map (fun k : Z * Z * Z * surface A =>
                   let '(col, row, z, ch) := k in
                   if in_rect (ox + col) (oy + row) (s_w ch) (s_h ch) x y
                   then shown sorter ch (ox + col) (oy + row) x y else None) kids in
  fold_left later (reorder (sorter (map kid_z kids)) ks) own.

(* the window's clip: absolute point (x,y) is inside every frame of the chain *)
Fixpoint win_org (win : window) : Z * Z :=
  match win with
  | [] => (0, 0)
  | (c, r, _, _) :: p => let '(px, py) := win_org p in (px + c, py + r)
  end.
Fixpoint win_clip (win : window) (x y : Z) : bool :=
  match win with
  | [] => true
  | (c, r, w, h) :: p => let '(ox, oy) := win_org win in in_rect ox oy w h x y && win_clip p x y
  end.

(* ---------------------------------------------------------------- render stream *)

(* tree with Z cells; the root window is vx.Window(): one frame (0,0,cols,rows).
   Observation: outcome (0 ok / 1 panic) and the screen rows. *)
Definition render_input : Type := Z * Z * surface Z.
Definition render_obs : Type := Z * list (list Z).

Definition render_run (inp : render_input) : render_obs :=
  let '(cols, rows, s) := inp in
  match render [(0, 0, cols, rows)] s with
  | None => (1, [])
  | Some ps => match screen_apply (new_screen 0 cols rows) ps with
               | None => (1, [])
               | Some sc => (0, sc_buf sc)
               end
  end.

Definition render_obs_eqb (a b : render_obs) : bool :=
  (fst a =? fst b) && ((fst a =? 1) || list_eqb zlist_eqb (snd a) (snd b)).

Fixpoint all_rows (f : Z -> Z -> Z -> bool) (y : Z) (rows : list (list Z)) : bool :=
  match rows with
  | [] => true
  | r :: t => (fix go (x : Z) (l : list Z) : bool :=
                 match l with [] => true | c :: l' => f x y c && go (x + 1) l' end) 0 r
              && all_rows f (y + 1) t
  end.

Fixpoint tree_wf_b (s : surface Z) : bool :=
  let 'Surf w h buf kids := s in
  (0 <=? w) && (w <? 65536) && (0 <=? h) && (h <? 65536) && (zlen buf =? w * h) &&
  forallb (fun k : Z * Z * Z * surface Z => let '(_, _, _, ch) := k in tree_wf_b ch) kids.

(* property on one observation: no panic for a well-formed tree and every screen cell is what
   [shown] says (or the cleared screen's 0) *)
Definition render_ok (c : render_input * render_obs) : bool :=
  let '((cols, rows, s), (out, scr)) := c in
  if tree_wf_b s then
    (out =? 0) && (zlen scr =? rows) && forallb (fun r => zlen r =? cols) scr &&
    all_rows (fun x y c => match shown stable_perm s 0 0 x y with Some v => c =? v | None => c =? 0 end) 0 scr
  else true.

(* ---------------------------------------------------------------- render into any window; the clipping clause *)

(* the window handed to render: the terminal window narrowed by a sequence of Window.New calls *)
Definition win_chain (cols rows : Z) (frames : list frame) : window :=
  fold_left (fun win (f : frame) => let '(c, r, w, h) := f in win_new win c r w h) frames [(0, 0, cols, rows)].

Definition rect_has (r : frame) (x y : Z) : bool := let '(ox, oy, w, h) := r in in_rect ox oy w h x y.

(* [justified s ox oy x y v]: value v at absolute (x,y) is cell (x-ox', y-oy') of the buffer of some
   node of the tree placed at its absolute origin (ox',oy') = sum of the offsets on its path,
   and (x,y) lies inside the rectangle of EVERY node on the path below the root (and of the
   node itself).  Decidable; does not mention windows, sorting or render. *)
Fixpoint justified (s : surface Z) (ox oy x y v : Z) : bool :=
  let 'Surf w h buf kids := s in
  (in_rect ox oy w h x y && match zget buf ((y - oy) * w + (x - ox)) with Some c => c =? v | None => false end)
  || existsb (fun k : Z * Z * Z * surface Z =>
                let '(col, row, z, ch) := k in
                in_rect (ox + col) (oy + row) (s_w ch) (s_h ch) x y && justified ch (ox + col) (oy + row) x y v) kids.

(* clause "each child at its offset, clipped to its parent" on one observed screen: every painted
   (non-zero) cell is inside the clip of the window handed to render and is justified *)
Definition clipped_ok (win : window) (s : surface Z) (scr : list (list Z)) : bool :=
  let '(ox, oy) := win_org win in
  all_rows (fun x y c => (c =? 0) || (win_clip win x y && justified s ox oy x y c)) 0 scr.

Definition render_ok2 (c : render_input * render_obs) : bool :=
  render_ok c &&
  (let '((cols, rows, s), (out, scr)) := c in
   if tree_wf_b s then clipped_ok [(0, 0, cols, rows)] s scr else true).

Definition renderwin_input : Type := Z * Z * list frame * surface Z.

Definition renderwin_run (inp : renderwin_input) : render_obs :=
  let '(cols, rows, frames, s) := inp in
  match render (win_chain cols rows frames) s with
  | None => (1, [])
  | Some ps => match screen_apply (new_screen 0 cols rows) ps with
               | None => (1, [])
               | Some sc => (0, sc_buf sc)
               end
  end.

Definition renderwin_ok (c : renderwin_input * render_obs) : bool :=
  let '((cols, rows, frames, s), (out, scr)) := c in
  if tree_wf_b s then
    let win := win_chain cols rows frames in
    let '(ox, oy) := win_org win in
    (out =? 0) && (zlen scr =? rows) && forallb (fun r => zlen r =? cols) scr &&
    all_rows (fun x y c => match (if win_clip win x y then shown stable_perm s ox oy x y else None) with
                           | Some v => c =? v | None => c =? 0 end) 0 scr &&
    clipped_ok win s scr
  else true.

Definition c14_renderwin_mismatches (cases : list (renderwin_input * render_obs)) : list Z :=
  bad_indices (fun c => negb (render_obs_eqb (renderwin_run (fst c)) (snd c))) cases.
Definition c14_renderwin_violations (cases : list (renderwin_input * render_obs)) : list Z :=
  bad_indices (fun c => negb (renderwin_ok c)) cases.

(* ---------------------------------------------------------------- App.Run's render call *)

(* App.Run (after fix 185add5): s.render(vx.Window().New(0, 0, rootW, rootH), focused) on a cleared screen *)
Definition app_window {A} (cols rows : Z) (s : surface A) : window :=
  win_new [(0, 0, cols, rows)] 0 0 (s_w s) (s_h s).

Definition apprun_run (inp : render_input) : render_obs :=
  let '(cols, rows, s) := inp in renderwin_run (cols, rows, [(0, 0, s_w s, s_h s)], s).

(* the call as it was before the fix (window = the whole terminal): regression witness only *)
Definition apprun_old_run (inp : render_input) : render_obs := render_run inp.

(* clause added by the fix: nothing is painted outside the root surface's rectangle *)
Definition root_clip_ok (s : surface Z) (scr : list (list Z)) : bool :=
  all_rows (fun x y c => (c =? 0) || in_rect 0 0 (s_w s) (s_h s) x y) 0 scr.

Definition apprun_ok (c : render_input * render_obs) : bool :=
  let '((cols, rows, s), (out, scr)) := c in
  renderwin_ok ((cols, rows, [(0, 0, s_w s, s_h s)], s), (out, scr)) &&
  (if tree_wf_b s then root_clip_ok s scr else true).

Definition c14_apprun_mismatches (cases : list (render_input * render_obs)) : list Z :=
  bad_indices (fun c => negb (render_obs_eqb (apprun_run (fst c)) (snd c))) cases.
Definition c14_apprun_violations (cases : list (render_input * render_obs)) : list Z :=
  bad_indices (fun c => negb (apprun_ok c)) cases.

Definition c14_render_mismatches (cases : list (render_input * render_obs)) : list Z :=
  bad_indices (fun c => negb (render_obs_eqb (render_run (fst c)) (snd c))) cases.
Definition c14_render_violations (cases : list (render_input * render_obs)) : list Z :=
  bad_indices (fun c => negb (render_ok2 c)) cases.

(* ---------------------------------------------------------------- App.Run over a history of terminal resizes *)

(* One App.Run, the terminal resized between frames.  Each step is (cols, rows, tree): the size of
   the terminal when the frame is painted and the surface tree the root widget's Draw returned
   for it.  App.Run fetches the root window anew for every frame (win := a.vx.Window(): the
   CURRENT terminal size, whatever the sizes before were), clears it and renders the root into
   win.New(0,0,rootW,rootH); a Resize reallocates the screen.  So no window survives between
   frames: frame k is [apprun_run] of step k alone — after shrinking and growing again the frame
   is painted through a window of the new, larger size.
   Observation: outcome (1 = App.Run panicked or returned an error) and the terminal's screen
   after each frame. *)
Definition apphist_input : Type := list render_input.
Definition apphist_obs : Type := Z * list (list (list Z)).

Definition apphist_run (inp : apphist_input) : apphist_obs :=
  let rs := map apprun_run inp in
  if existsb (fun r : render_obs => fst r =? 1) rs then (1, []) else (0, map snd rs).

Definition apphist_obs_eqb (a b : apphist_obs) : bool :=
  (fst a =? fst b) && ((fst a =? 1) || list_eqb (list_eqb zlist_eqb) (snd a) (snd b)).

(* the property on one observed history: no panic when every tree is well formed, one screen per
   step, and EVERY frame satisfies the clauses of a single App.Run frame for the terminal size of
   its own step (every cell inside the current window and the root shows what [shown] says,
   nothing outside; children at their offsets, clipped, in z-order) *)
Fixpoint apphist_frames_ok (inp : apphist_input) (scrs : list (list (list Z))) : bool :=
  match inp, scrs with
  | [], [] => true
  | i :: inp', scr :: scrs' => apprun_ok (i, (0, scr)) && apphist_frames_ok inp' scrs'
  | _, _ => false
  end.

Definition apphist_ok (c : apphist_input * apphist_obs) : bool :=
  let '(inp, (out, scrs)) := c in
  if forallb (fun i : render_input => tree_wf_b (snd i)) inp
  then (out =? 0) && apphist_frames_ok inp scrs
  else true.

Definition c14_apphist_mismatches (cases : list (apphist_input * apphist_obs)) : list Z :=
  bad_indices (fun c => negb (apphist_obs_eqb (apphist_run (fst c)) (snd c))) cases.
Definition c14_apphist_violations (cases : list (apphist_input * apphist_obs)) : list Z :=
  bad_indices (fun c => negb (apphist_ok c)) cases.

(* every terminal size of the history is a size (decidable hypothesis of the theorems) *)
Definition sizes_nonneg (inp : apphist_input) : bool :=
  forallb (fun i : render_input => (0 <=? fst (fst i)) && (0 <=? snd (fst i))) inp.


(* Regression witness only: the design that fetches the root window ONCE and, on a Resize, refits it
   with win.New(0,0,cols,rows).  Window.New clamps to its parent — the PREVIOUS root window — so this
   window follows a shrinking terminal and never grows again. *)
Fixpoint apphist_cached_frames (win : window) (inp : apphist_input) : list render_obs :=
  match inp with
  | [] => []
  | (cols, rows, s) :: t =>
      let win' := win_new win 0 0 cols rows in
      (match render (win_new win' 0 0 (s_w s) (s_h s)) s with
       | None => (1, [])
       | Some ps => match screen_apply (new_screen 0 cols rows) ps with
                    | None => (1, [])
                    | Some sc => (0, sc_buf sc)
                    end
       end) :: apphist_cached_frames win' t
  end.
Definition apphist_cached_run (inp : apphist_input) : apphist_obs :=
  match inp with
  | [] => (0, [])
  | (cols, rows, _) :: _ => (0, map snd (apphist_cached_frames [(0, 0, cols, rows)] inp))
  end.


(* a history that shrinks and then grows beyond its first size *)
Definition grow_hist : apphist_input :=
  [(5, 2, Surf 5 2 [1;2;3;4;5;6;7;8;9;10] []);
   (3, 1, Surf 3 1 [11;12;13] []);
   (6, 2, Surf 6 2 [21;22;23;24;25;26;27;28;29;30;31;32] [(4, 1, 0, Surf 3 1 [41;42;43] [])])].

