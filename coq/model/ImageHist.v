(* Image OBJECTS and their histories (image.go: HalfBlockImage, FullBlockImage, KittyImage, Sixel).
   One object per history; the fields that survive between calls are the state, and
   step : state -> op -> state * observation  follows the Go methods Resize / Draw / Destroy /
   CellSize statement by statement.  Executable definitions only; proofs are in
   proofs/ImageHistProofs.v, statements in props/C20.v.

   The pure parts (resizeImage, the two block encoders, the Draw loop) are those of model/Image.v. *)
From Vx Require Import base.Prelude model.Image.

(* ================================================================== block image objects *)

(* type HalfBlockImage struct { vx; img; cells []Cell;  width, height int }
   type FullBlockImage struct { vx; img; cells []Color; width, height int }
   img never changes.  A FullBlockImage keeps only the background colour c of each cell and Draw
   builds Cell{" ", Background: c} from it; here that cell (g_space, 0, c) is what is stored. *)
Record bobj := { b_width : Z; b_height : Z; b_cells : list icell }.

(* NewHalfBlockImage / NewFullBlockImage: cells nil, width = height = 0 *)
Definition b_new : bobj := {| b_width := 0; b_height := 0; b_cells := [] |}.

Inductive bop :=
| BResize (w h : Z)         (* Resize(w, h) *)
| BDraw (ww wh : Z)         (* Draw(win), win a window of ww x wh cells lying inside its parents *)
| BDestroy.                 (* Destroy() *)

Definition drawn := (Z * Z * icell)%type.      (* column, row (relative to the window), cell *)
Definition empty_image : image := {| iw := 0; ih := 0; irows := [] |}.

(* one observation: outcome (0 returned, 1 panicked), CellSize() after the call, the picture
   resizeImage returned (Resize only), the cells of the screen that changed (Draw only) *)
Definition bobs := (Z * Z * Z * image * list drawn)%type.

Definition enc_of (kind : Z) : px -> px -> icell := if kind =? 0 then hb_cell else fb_cell.

(* Window.SetCell(col, row, cell): dropped when row >= Height || col >= Width || row < 0 || col < 0 *)
Definition in_window (ww wh : Z) (d : drawn) : bool :=
  let '(x, y, _) := d in negb ((wh <=? y) || (ww <=? x)) && negb ((y <? 0) || (x <? 0)).

Definition is_nil {A} (l : list A) : bool := match l with [] => true | _ => false end.

(* kind 0 = HalfBlockImage, 1 = FullBlockImage.  None = outside the modelled domain (resizeImage
   with a negative box or an empty source). *)
Definition block_step (kind : Z) (src : image) (s : bobj) (o : bop) : option (bobj * bobs) :=
  match o with
  | BResize w h =>
      (* img := resizeImage(hb.img, w, h, 1, 2); width, height from img.Bounds();
         cells = make(..., height*width) and every index is assigned *)
      match resize_image src w h 1 2 with
      | None => None
      | Some im =>
          let s' := {| b_width := fst (block_cells (iw im) (ih im));
                       b_height := snd (block_cells (iw im) (ih im));
                       b_cells := block_encode (enc_of kind) im |} in
          Some (s', (0, b_width s', b_height s', im, []))
      end
  | BDraw ww wh =>
      (* for i, cell := range cells { y := i / width; x := i - y*width; win.SetCell(x, y, cell) }:
         the division panics at i = 0 when width is 0 and cells is not empty *)
      if (b_width s =? 0) && negb (is_nil (b_cells s))
      then Some (s, (1, b_width s, b_height s, empty_image, []))
      else Some (s, (0, b_width s, b_height s, empty_image,
                     filter (in_window ww wh) (block_draw (b_width s) (b_cells s))))
  | BDestroy =>
      (* cells = []Cell{}: width and height stay *)
      Some ({| b_width := b_width s; b_height := b_height s; b_cells := [] |},
            (0, b_width s, b_height s, empty_image, []))
  end.

(* a history: the observations, and the state it ends in *)
Fixpoint block_run (kind : Z) (src : image) (s : bobj) (ops : list bop) : option (list bobs) :=
  match ops with
  | [] => Some []
  | o :: t => match block_step kind src s o with
              | None => None
              | Some (s', ob) => match block_run kind src s' t with
                                 | None => None
                                 | Some obs => Some (ob :: obs)
                                 end
              end
  end.

Fixpoint block_exec (kind : Z) (src : image) (s : bobj) (ops : list bop) : option bobj :=
  match ops with
  | [] => Some s
  | o :: t => match block_step kind src s o with
              | None => None
              | Some (s', _) => block_exec kind src s' t
              end
  end.

(* What of a history matters: the box of the last Resize, and whether a Destroy came after it. *)
Definition bsummary := (option (Z * Z) * bool)%type.
Definition bsum_step (m : bsummary) (o : bop) : bsummary :=
  match o with
  | BResize w h => (Some (w, h), false)
  | BDraw _ _ => m
  | BDestroy => (fst m, true)
  end.
Definition bsum (ops : list bop) : bsummary := fold_left bsum_step ops (None, false).

(* the shortest history with that summary *)
Definition bsum_ops (m : bsummary) : list bop :=
  (match fst m with Some (w, h) => [BResize w h] | None => [] end) ++ (if snd m then [BDestroy] else []).

(* what a Draw into a window of ww x wh cells shows after a history with summary m: a function of
   the source picture and the box of the last Resize only *)
Definition block_shown (kind : Z) (src : image) (m : bsummary) (ww wh : Z) : option (list drawn) :=
  match fst m, snd m with
  | Some (w, h), false =>
      match resize_image src w h 1 2 with
      | Some im => Some (filter (in_window ww wh) (block_draw (iw im) (block_encode (enc_of kind) im)))
      | None => None
      end
  | _, _ => Some []
  end.


(* ------------------------------------------------------------------ the property on one observed history *)

(* the picture handed to the encoder is the source itself or a nearest-neighbour sample of it *)
Definition from_source_ok (src rsz : image) : bool :=
  if (iw rsz =? iw src) && (ih rsz =? ih src) then image_eqb src rsz
  else forallb (fun y => forallb (fun x =>
         px_eqb (img_at rsz x y) (to8 (img_at src (nn_src (iw rsz) (iw src) x) (nn_src (ih rsz) (ih src) y))))
         (zseq (iw rsz))) (zseq (ih rsz)).

(* Resize(w, h) reporting cw x chh cells for the picture rsz: the cells are those the picture covers,
   inside the box, never more than the source covers; the picture keeps the aspect (resize_ok), and
   an empty box gives an empty picture *)
Definition block_resized_ok (src rsz : image) (w h cw chh : Z) : bool :=
  from_source_ok src rsz && (0 <=? iw rsz) && (0 <=? ih rsz) &&
  (cw =? iw rsz) && (chh =? (ih rsz + 1) / 2) &&
  (0 <=? cw) && (cw <=? w) && (0 <=? chh) && (chh <=? h) &&
  (cw <=? iw src) && (chh <=? (ih src + 1) / 2) &&
  (if (0 <? w) && (0 <? h) then resize_ok (iw src) (ih src) w h 1 2 (iw rsz) (ih rsz)
   else (iw rsz =? 0) && (ih rsz =? 0)).

(* cell (x, y) shows the colours of pixels (x, 2y) and (x, 2y+1) of the picture *)
Definition cell_shows_ok (kind : Z) (im : image) (x y : Z) (c : icell) : bool :=
  if kind =? 0
  then glyph_ok c && (shown_top c =? px_colour (img_at im x (2 * y)))
                  && (shown_bottom c =? px_colour (img_at im x (2 * y + 1)))
  else let '(g, fg, bg) := c in
       (g =? g_space) && (fg =? 0) && (bg =? avg_colour (img_at im x (2 * y)) (img_at im x (2 * y + 1))).

Definition at_pos (x y : Z) (d : drawn) : bool := let '(x', y', _) := d in (x' =? x) && (y' =? y).

Fixpoint nodup_pos (l : list drawn) : bool :=
  match l with
  | [] => true
  | (x, y, _) :: t => negb (existsb (at_pos x y) t) && nodup_pos t
  end.

(* the cells that changed are exactly the cells of the rectangle  cw x chh  cut to the window,
   each once, each showing its two pixels; cw = chh = 0 when there is nothing to draw *)
Definition drawn_ok (kind : Z) (im : image) (cw chh ww wh : Z) (dr : list drawn) : bool :=
  let vw := Z.min cw ww in
  let vh := Z.min chh wh in
  forallb (fun d : drawn => let '(x, y, c) := d in
             (0 <=? x) && (x <? vw) && (0 <=? y) && (y <? vh) && cell_shows_ok kind im x y c) dr &&
  forallb (fun y => forallb (fun x => existsb (at_pos x y) dr) (zseq vw)) (zseq vh) &&
  nodup_pos dr.

(* what the property needs to remember along a history: is there a current encoding (a Resize and no
   Destroy since), and the cell size and picture of the last Resize *)
Record bspec := { sp_live : bool; sp_w : Z; sp_h : Z; sp_pic : image }.
Definition bspec0 : bspec := {| sp_live := false; sp_w := 0; sp_h := 0; sp_pic := empty_image |}.

Fixpoint blockhist_ok (kind : Z) (src : image) (sp : bspec) (tr : list (bop * bobs)) : bool :=
  match tr with
  | [] => true
  | (o, (oc, cw, chh, pic, dr)) :: t =>
      (oc =? 0) &&
      match o with
      | BResize w h =>
          block_resized_ok src pic w h cw chh && is_nil dr &&
          blockhist_ok kind src {| sp_live := true; sp_w := cw; sp_h := chh; sp_pic := pic |} t
      | BDraw ww wh =>
          (if sp_live sp
           then (cw =? sp_w sp) && (chh =? sp_h sp) && drawn_ok kind (sp_pic sp) (sp_w sp) (sp_h sp) ww wh dr
           else is_nil dr) &&
          blockhist_ok kind src sp t
      | BDestroy =>
          is_nil dr &&
          blockhist_ok kind src {| sp_live := false; sp_w := sp_w sp; sp_h := sp_h sp; sp_pic := sp_pic sp |} t
      end
  end.

(* the boxes and sizes the theorems speak about: 0 <= box < 2^24 (0 = an empty box) *)
Definition box_ok (w h : Z) : bool := (0 <=? w) && (w <? 2 ^ 24) && (0 <=? h) && (h <? 2 ^ 24).
Definition bop_ok (o : bop) : bool := match o with BResize w h => box_ok w h | _ => true end.
Definition src_ok (src : image) : bool :=
  (0 <? iw src) && (iw src <? 2 ^ 24) && (0 <? ih src) && (ih src <? 2 ^ 24).

(* ------------------------------------------------------------------ correspondence: stream "blockhist"

   case = (kind, source picture, steps); kind 0 half block, 1 full block; one object, made by
   NewHalfBlockImage / NewFullBlockImage, and the calls made on it in order.
   step = (code, a, b, outcome, cellsW, cellsH, picture, changed):
     code 0 Resize(a, b): picture = what resizeImage returns for (source, a, b, 1, 2) (oracle data);
     code 1 Draw into a window of a x b cells on a screen filled with a sentinel: changed = the
            screen cells that no longer hold the sentinel, (column, row) relative to the window's
            origin, in row-major order, with the cell found there;
     code 2 Destroy.
   outcome 0 returned / 1 panicked; cellsW, cellsH = CellSize() after the call. *)
Definition bstep := (Z * Z * Z * Z * Z * Z * rawimg * list drawn)%type.
Definition blockhist_case := (Z * rawimg * list bstep)%type.

Definition mk_bop (code a b : Z) : bop :=
  if code =? 0 then BResize a b else if code =? 1 then BDraw a b else BDestroy.

Definition drawn_eqb (p q : drawn) : bool :=
  let '(x, y, c) := p in let '(x', y', c') := q in (x =? x') && (y =? y') && icell_eqb c c'.

Fixpoint blockhist_agree (kind : Z) (src : image) (s : bobj) (steps : list bstep) : bool :=
  match steps with
  | [] => true
  | (code, a, b, oc, ow, oh, rsz, dr) :: t =>
      match block_step kind src s (mk_bop code a b) with
      | None => false
      | Some (s', (moc, mw, mh, mpic, mdr)) =>
          (moc =? oc) && (mw =? ow) && (mh =? oh) && list_eqb drawn_eqb mdr dr &&
          (if code =? 0 then image_eqb mpic (mk_image rsz) else true) &&
          blockhist_agree kind src s' t
      end
  end.

Definition c20_blockhist_mismatches (cases : list blockhist_case) : list Z :=
  bad_indices (fun c => let '(kind, src, steps) := c in
                        negb (blockhist_agree kind (mk_image src) b_new steps)) cases.

Definition btrace (steps : list bstep) : list (bop * bobs) :=
  map (fun st : bstep => let '(code, a, b, oc, ow, oh, rsz, dr) := st in
                         (mk_bop code a b, (oc, ow, oh, mk_image rsz, dr))) steps.

Definition c20_blockhist_violations (cases : list blockhist_case) : list Z :=
  bad_indices (fun c => let '(kind, src, steps) := c in
                        negb (blockhist_ok kind (mk_image src) bspec0 (btrace steps))) cases.

(* ================================================================== kitty / sixel image objects *)

(* type KittyImage struct { vx; img; id; w, h int; uploaded, encoding int32; buf *bytes.Buffer }
   type Sixel      struct { vx; img; buf *bytes.Buffer; id; w, h int; encoding int32 }
   The encoder goroutine a Resize starts has finished before the next call (the harness waits for
   the encoding flag to drop), so encoding is false at every call and the goroutine's effects are
   part of the Resize step.  A picture is identified by its pixel size: the picture resizeImage
   makes from a given source is a function of that size (model/Image.v resize_image).
   o_buf = the encoded picture waiting in buf (None = empty); o_uploaded is not used by a Sixel. *)
Record gobj := { o_w : Z; o_h : Z; o_uploaded : bool; o_buf : option (Z * Z) }.
Definition g_new : gobj := {| o_w := 0; o_h := 0; o_uploaded := false; o_buf := None |}.

(* the rest of the world one object's history touches: does Vaxis.graphicsLast hold a placement
   (the frame before placed the image), which picture does the terminal hold under the kitty image
   id, and (bookkeeping of the observer) the size of the picture of the last Resize *)
Record gworld := { g_obj : gobj; g_placed : bool; g_term : option (Z * Z); g_lastpic : option (Z * Z) }.
Definition gworld0 : gworld := {| g_obj := g_new; g_placed := false; g_term := None; g_lastpic := None |}.

Inductive hop :=
| HResize (w h : Z)          (* Resize(w, h), encoder finished *)
| HShow (ww wh : Z)          (* root.Clear(); Draw(window of ww x wh cells); vx.Refresh() *)
| HDestroy.                  (* Destroy() *)

(* observation: outcome, CellSize() after the call, then
     Resize : pixel size of the picture (nw, nh), 0 0 0 0 0
     Show   : (deletes, 0), placed, sent, dataW, dataH, same
              deletes = placement deletions (a=d,d=i) written; placed 1 = graphicsNext holds exactly
              one placement (id, col, row, CellSize) and it was written once at its origin, 0 = no
              placement and nothing written; sent = complete transmissions of image data; dataW x dataH =
              the picture the terminal now shows for the placement, same 1 = it is pixel for pixel
              the picture of the last Resize
     Destroy: 0 0, deleted (a=d,d=I written), 0 0 0 0 *)
Definition hobs := (Z * Z * Z * Z * Z * Z * Z * Z * Z * Z)%type.

Definition pic_eqb (a b : Z * Z) : bool := (fst a =? fst b) && (snd a =? snd b).
Definition opic_eqb (a b : option (Z * Z)) : bool := option_eqb pic_eqb a b.
Definition b2z (b : bool) : Z := if b then 1 else 0.
Definition pic_w (p : option (Z * Z)) : Z := match p with Some (w, _) => w | None => 0 end.
Definition pic_h (p : option (Z * Z)) : Z := match p with Some (_, h) => h | None => 0 end.

(* kind 2 = KittyImage, 3 = Sixel; source of wPix x hPix pixels, terminal cells of cw x ch pixels.
   None = outside the modelled domain (negative operands; a Sixel with a cell of 0 pixels: the
   division panics inside the goroutine, which ends the process). *)
Definition gfx_step (kind wPix hPix cw ch : Z) (g : gworld) (o : hop) : option (gworld * hobs) :=
  let s := g_obj g in
  match o with
  | HResize w h =>
      match resize_dims wPix hPix w h cw ch with
      | RUnmodelled => None
      | RPanic =>
          if kind =? 2 then Some (g, (1, o_w s, o_h s, 0, 0, 0, 0, 0, 0, 0)) else None
      | RDims nw nh =>
          let '(cellsW, cellsH) := pix_cells nw nh cw ch in
          let empty := (nw <=? 0) || (nh <=? 0) in
          let s' :=
            if kind =? 2
            then (* png.Encode fails on an empty picture and the goroutine returns; otherwise
                    uploaded = false, buf = the new encoding (an unsent older one is dropped) *)
                 if empty then {| o_w := cellsW; o_h := cellsH; o_uploaded := o_uploaded s; o_buf := o_buf s |}
                 else {| o_w := cellsW; o_h := cellsH; o_uploaded := false; o_buf := Some (nw, nh) |}
            else (* buf.Reset(); the sixel encoder writes nothing for an empty picture *)
                 {| o_w := cellsW; o_h := cellsH; o_uploaded := o_uploaded s;
                    o_buf := if empty then None else Some (nw, nh) |} in
          Some ({| g_obj := s'; g_placed := g_placed g; g_term := g_term g; g_lastpic := Some (nw, nh) |},
                (0, cellsW, cellsH, nw, nh, 0, 0, 0, 0, 0))
      end
  | HShow ww wh =>
      (* Draw: "if k.w > w || k.h > h { return }"; a Sixel also returns when buf is empty, a
         KittyImage when it has no cells ("if k.w == 0 || k.h == 0 { return }") *)
      let inwin := negb ((ww <? o_w s) || (wh <? o_h s)) in
      if kind =? 2 then
        let fits := negb ((o_w s =? 0) || (o_h s =? 0)) && inwin in
        (* Refresh: every placement of graphicsLast is deleted, every one of graphicsNext written:
           CUP, then writeTo = (if !uploaded { write buf; uploaded = true; buf.Reset() }; a=p) *)
        let sends := fits && negb (o_uploaded s) in
        let sent := sends && negb (opic_eqb (o_buf s) None) in
        let s' := if sends then {| o_w := o_w s; o_h := o_h s; o_uploaded := true; o_buf := None |} else s in
        let term' := if sent then o_buf s else g_term g in
        Some ({| g_obj := s'; g_placed := fits; g_term := term'; g_lastpic := g_lastpic g |},
              (0, o_w s, o_h s, b2z (g_placed g), 0, b2z fits, b2z sent,
               if fits then pic_w term' else 0, if fits then pic_h term' else 0,
               b2z (fits && negb (opic_eqb term' None) && opic_eqb term' (g_lastpic g))))
      else
        (* deleteFn writes nothing; writeTo writes buf, which stays *)
        let placed := inwin && negb (opic_eqb (o_buf s) None) in
        Some ({| g_obj := s; g_placed := placed; g_term := g_term g; g_lastpic := g_lastpic g |},
              (0, o_w s, o_h s, 0, 0, b2z placed, b2z placed,
               if placed then pic_w (o_buf s) else 0, if placed then pic_h (o_buf s) else 0,
               b2z (placed && opic_eqb (o_buf s) (g_lastpic g))))
  | HDestroy =>
      if kind =? 2 then
        (* writes a=d,d=I,i=id to the console: the terminal forgets the picture; k.w, k.h = 0, 0 *)
        Some ({| g_obj := {| o_w := 0; o_h := 0; o_uploaded := o_uploaded s; o_buf := o_buf s |};
                 g_placed := g_placed g; g_term := None; g_lastpic := g_lastpic g |},
              (0, 0, 0, 0, 0, 1, 0, 0, 0, 0))
      else
        (* buf.Reset() *)
        Some ({| g_obj := {| o_w := o_w s; o_h := o_h s; o_uploaded := o_uploaded s; o_buf := None |};
                 g_placed := g_placed g; g_term := g_term g; g_lastpic := g_lastpic g |},
              (0, o_w s, o_h s, 0, 0, 0, 0, 0, 0, 0))
  end.

Fixpoint gfx_run (kind wPix hPix cw ch : Z) (g : gworld) (ops : list hop) : option (list hobs) :=
  match ops with
  | [] => Some []
  | o :: t => match gfx_step kind wPix hPix cw ch g o with
              | None => None
              | Some (g', ob) => match gfx_run kind wPix hPix cw ch g' t with
                                 | None => None
                                 | Some obs => Some (ob :: obs)
                                 end
              end
  end.

Fixpoint gfx_exec (kind wPix hPix cw ch : Z) (g : gworld) (ops : list hop) : option gworld :=
  match ops with
  | [] => Some g
  | o :: t => match gfx_step kind wPix hPix cw ch g o with
              | None => None
              | Some (g', _) => gfx_exec kind wPix hPix cw ch g' t
              end
  end.

(* the box that decides the cell size: that of the last Resize; None (no cells) before the first
   Resize and, for a KittyImage, after Destroy *)
Fixpoint last_box (kind : Z) (acc : option (Z * Z)) (ops : list hop) : option (Z * Z) :=
  match ops with
  | [] => acc
  | HResize w h :: t => last_box kind (Some (w, h)) t
  | HShow _ _ :: t => last_box kind acc t
  | HDestroy :: t => last_box kind (if kind =? 2 then None else acc) t
  end.

(* ------------------------------------------------------------------ the property on one observed history *)

(* what the property remembers: the current picture (of the last Resize, when it is not empty and
   no Destroy came since), the cell size that Resize reported, the picture the terminal holds, has
   there been a Resize since the last transmission, did the frame before place the image *)
Record hspec := { hs_cur : option (Z * Z); hs_w : Z; hs_h : Z; hs_term : option (Z * Z);
                  hs_resized : bool; hs_placed : bool }.
Definition hspec0 : hspec :=
  {| hs_cur := None; hs_w := 0; hs_h := 0; hs_term := None; hs_resized := false; hs_placed := false |}.

(* Resize(w, h) reporting cellsW x cellsH cells for a picture of nw x nh pixels *)
Definition gfx_resized_ok (wPix hPix cw ch w h cellsW cellsH nw nh : Z) : bool :=
  (cellsW =? ceil_div nw cw) && (cellsH =? ceil_div nh ch) &&
  (0 <=? cellsW) && (cellsW <=? w) && (0 <=? cellsH) && (cellsH <=? h) &&
  (cellsW <=? ceil_div wPix cw) && (cellsH <=? ceil_div hPix ch) &&
  (if (0 <? w) && (0 <? h) then resize_ok wPix hPix w h cw ch nw nh else (nw =? 0) && (nh =? 0)).

Definition hspec_resize (sp : hspec) (cellsW cellsH nw nh : Z) : hspec :=
  {| hs_cur := if (0 <? nw) && (0 <? nh) then Some (nw, nh) else None;
     hs_w := cellsW; hs_h := cellsH; hs_term := hs_term sp; hs_resized := true; hs_placed := hs_placed sp |}.

(* is the image to be placed by a Show into a window of ww x wh cells *)
Definition hspec_places (sp : hspec) (ww wh : Z) : bool :=
  negb (opic_eqb (hs_cur sp) None) && (hs_w sp <=? ww) && (hs_h sp <=? wh).

Definition hspec_show (kind : Z) (sp : hspec) (ww wh : Z) : hspec :=
  if hspec_places sp ww wh
  then {| hs_cur := hs_cur sp; hs_w := hs_w sp; hs_h := hs_h sp; hs_term := hs_cur sp;
          hs_resized := false; hs_placed := true |}
  else {| hs_cur := hs_cur sp; hs_w := hs_w sp; hs_h := hs_h sp; hs_term := hs_term sp;
          hs_resized := hs_resized sp; hs_placed := false |}.

Definition hspec_destroy (sp : hspec) : hspec :=
  {| hs_cur := None; hs_w := hs_w sp; hs_h := hs_h sp; hs_term := None;
     hs_resized := hs_resized sp; hs_placed := hs_placed sp |}.

(* Show: CellSize() is still what the last Resize reported (as long as there is a current picture);
   an image with a current picture whose cells fit the window is placed (once, at the window's
   origin, with its cell size), and the terminal then shows exactly the current picture; its data are
   transmitted when the terminal does not hold them, at most once, and not at all when nothing was
   resized since they were sent (a sixel string is the data: sent with every write).  Otherwise
   nothing is placed and nothing sent.  On the full refresh the placement of the frame before is
   deleted (kitty; a sixel placement has no deletion), and nothing else is. *)
Definition show_ok (kind : Z) (sp : hspec) (ww wh : Z) (ob : hobs) : bool :=
  let '(oc, cellsW, cellsH, dels, _, placed, sent, dw, dh, same) := ob in
  (oc =? 0) &&
  (opic_eqb (hs_cur sp) None || ((cellsW =? hs_w sp) && (cellsH =? hs_h sp))) &&
  (dels =? (if kind =? 2 then b2z (hs_placed sp) else 0)) &&
  (if hspec_places sp ww wh
   then (placed =? 1) && (same =? 1) && (dw =? pic_w (hs_cur sp)) && (dh =? pic_h (hs_cur sp)) &&
        (if kind =? 2
         then (if negb (opic_eqb (hs_term sp) (hs_cur sp)) then sent =? 1
               else if hs_resized sp then (0 <=? sent) && (sent <=? 1) else sent =? 0)
         else sent =? 1)
   else (placed =? 0) && (sent =? 0)).

Fixpoint gfxhist_ok (kind wPix hPix cw ch : Z) (sp : hspec) (tr : list (hop * hobs)) : bool :=
  match tr with
  | [] => true
  | (HResize w h, ob) :: t =>
      let '(oc, cellsW, cellsH, nw, nh, _, _, _, _, _) := ob in
      (oc =? 0) && gfx_resized_ok wPix hPix cw ch w h cellsW cellsH nw nh &&
      gfxhist_ok kind wPix hPix cw ch (hspec_resize sp cellsW cellsH nw nh) t
  | (HShow ww wh, ob) :: t =>
      show_ok kind sp ww wh ob && gfxhist_ok kind wPix hPix cw ch (hspec_show kind sp ww wh) t
  | (HDestroy, ob) :: t =>
      let '(oc, _, _, _, _, deleted, _, _, _, _) := ob in
      (oc =? 0) && (if kind =? 2 then deleted =? 1 else true) &&
      gfxhist_ok kind wPix hPix cw ch (hspec_destroy sp) t
  end.

(* Former guard (defect kitty-no-encoding, fixed in /repo by "KittyImage.Draw places nothing while
   the image has no cells"): a KittyImage is shown while it has no current picture (before the first
   Resize, after a Resize whose picture is empty, after Destroy).  No theorem needs it any more; it
   is kept for the statement of C20_gfx_model_ok_guarded and for the witness about the code before
   the fix. *)
Fixpoint no_encoding_guard (kind : Z) (cur : bool) (tr : list (hop * hobs)) : bool :=
  match tr with
  | [] => false
  | (HResize _ _, ob) :: t =>
      let '(_, _, _, nw, nh, _, _, _, _, _) := ob in no_encoding_guard kind ((0 <? nw) && (0 <? nh)) t
  | (HShow _ _, _) :: t => ((kind =? 2) && negb cur) || no_encoding_guard kind cur t
  | (HDestroy, _) :: t => no_encoding_guard kind false t
  end.

Definition hop_ok (o : hop) : bool := match o with HResize w h => box_ok w h | _ => true end.
Definition geom_ok (wPix hPix cw ch : Z) : bool :=
  (0 <? wPix) && (wPix <? 2 ^ 24) && (0 <? hPix) && (hPix <? 2 ^ 24) &&
  (0 <? cw) && (cw <? 2 ^ 24) && (0 <? ch) && (ch <? 2 ^ 24).

(* ------------------------------------------------------------------ correspondence: stream "gfxhist"

   case = (kind, wPix, hPix, cw, ch, steps); kind 2 kitty, 3 sixel; one object on its own Vaxis.
   step = (code, a, b, outcome, cellsW, cellsH, nw, nh, placed, sent, dataW, dataH, same):
     code 0 Resize(a, b): nw x nh = the size of resizeImage's picture (oracle data);
     code 1 Show in a window of a x b cells: nw = placement deletions seen, the rest as in [hobs];
     code 2 Destroy: placed = the image deletion (a=d,d=I) was seen. *)
Definition gstep := (Z * Z * Z * Z * Z * Z * Z * Z * Z * Z * Z * Z * Z)%type.
Definition gfxhist_case := (Z * Z * Z * Z * Z * list gstep)%type.

Definition mk_hop (code a b : Z) : hop :=
  if code =? 0 then HResize a b else if code =? 1 then HShow a b else HDestroy.

Definition gstep_op (st : gstep) : hop :=
  let '(code, a, b, _, _, _, _, _, _, _, _, _, _) := st in mk_hop code a b.
Definition gstep_obs (st : gstep) : hobs :=
  let '(_, _, _, oc, ow, oh, nw, nh, placed, sent, dw, dh, same) := st in
  (oc, ow, oh, nw, nh, placed, sent, dw, dh, same).

Definition hobs_eqb (a b : hobs) : bool :=
  let '(a1, a2, a3, a4, a5, a6, a7, a8, a9, a10) := a in
  let '(b1, b2, b3, b4, b5, b6, b7, b8, b9, b10) := b in
  (a1 =? b1) && (a2 =? b2) && (a3 =? b3) && (a4 =? b4) && (a5 =? b5) &&
  (a6 =? b6) && (a7 =? b7) && (a8 =? b8) && (a9 =? b9) && (a10 =? b10).

Definition gfxhist_agree (c : gfxhist_case) : bool :=
  let '(kind, wPix, hPix, cw, ch, steps) := c in
  match gfx_run kind wPix hPix cw ch gworld0 (map gstep_op steps) with
  | Some obs => list_eqb hobs_eqb obs (map gstep_obs steps)
  | None => false
  end.

Definition gtrace (steps : list gstep) : list (hop * hobs) := map (fun st => (gstep_op st, gstep_obs st)) steps.

Definition c20_gfxhist_mismatches (cases : list gfxhist_case) : list Z :=
  bad_indices (fun c => negb (gfxhist_agree c)) cases.

Definition c20_gfxhist_violations (cases : list gfxhist_case) : list Z :=
  bad_indices (fun c => let '(kind, wPix, hPix, cw, ch, steps) := c in
                        negb (gfxhist_ok kind wPix hPix cw ch hspec0 (gtrace steps))) cases.

(* ------------------------------------------------------------------ the code before the fix

   KittyImage.Draw without the zero-cell test and Destroy without "k.w, k.h = 0, 0" (image.go before
   "fix: KittyImage.Draw places nothing while the image has no cells"), for the witness
   C20_kitty_no_encoding_refuted only. *)
Definition kitty_step_old (wPix hPix cw ch : Z) (g : gworld) (o : hop) : option (gworld * hobs) :=
  let s := g_obj g in
  match o with
  | HResize _ _ => gfx_step 2 wPix hPix cw ch g o
  | HShow ww wh =>
      let fits := negb ((ww <? o_w s) || (wh <? o_h s)) in
      let sends := fits && negb (o_uploaded s) in
      let sent := sends && negb (opic_eqb (o_buf s) None) in
      let s' := if sends then {| o_w := o_w s; o_h := o_h s; o_uploaded := true; o_buf := None |} else s in
      let term' := if sent then o_buf s else g_term g in
      Some ({| g_obj := s'; g_placed := fits; g_term := term'; g_lastpic := g_lastpic g |},
            (0, o_w s, o_h s, b2z (g_placed g), 0, b2z fits, b2z sent,
             if fits then pic_w term' else 0, if fits then pic_h term' else 0,
             b2z (fits && negb (opic_eqb term' None) && opic_eqb term' (g_lastpic g))))
  | HDestroy =>
      Some ({| g_obj := s; g_placed := g_placed g; g_term := None; g_lastpic := g_lastpic g |},
            (0, o_w s, o_h s, 0, 0, 1, 0, 0, 0, 0))
  end.

Fixpoint kitty_run_old (wPix hPix cw ch : Z) (g : gworld) (ops : list hop) : option (list hobs) :=
  match ops with
  | [] => Some []
  | o :: t => match kitty_step_old wPix hPix cw ch g o with
              | None => None
              | Some (g', ob) => match kitty_run_old wPix hPix cw ch g' t with
                                 | None => None
                                 | Some obs => Some (ob :: obs)
                                 end
              end
  end.
