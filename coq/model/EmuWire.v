(* C12 - the hypotheses on the application's content under which the renderer's own output
   satisfies the side condition [toks_ok] of the simulation theorem (EmuBridge.v): decidable
   predicates on the screen, the requested cursor and the size.  Definitions only; the
   derivation is proofs/EmuToksOk.v.

   What the side condition needs beyond the content hypotheses of C01 (RenderSpec.row_ok):
   - OSC 8 carries "params ; url": the parameters of a hyperlink that is written must not
     contain ';' (the url may);
   - the numbers of CUP and DECSCUSR are written with digits and must fit the parser's and the
     emulator's integers: a requested visible cursor has a style 0..65535 and coordinates
     >= -1 below 2^63 - 1 (CUP is 1-based), and the screen has fewer than 2^63 rows/columns. *)
From Vx Require Import base.Prelude model.Colour model.RenderTypes model.Render model.RefTerm
  model.RenderSpec model.RenderCheck model.Gate model.EmuSpec model.EmuBridge.

(* a style whose hyperlink (if any) has parameters without ';' (59) *)
Definition link_ok (st : style) : bool :=
  negb (nonempty (s_link st)) || negb (existsb (Z.eqb 59) (s_linkp st)).

(* every cell of the row that the renderer can write (cells covered by a wide cell are
   never written: same walk as RenderSpec.row_ok) *)
Fixpoint row_wire_ok (ns : list cell) (skip : Z) : bool :=
  match ns with
  | [] => true
  | n :: t =>
      if 0 <? skip then row_wire_ok t (skip - 1)
      else link_ok (c_st n) && row_wire_ok t (span n - 1)
  end.

(* the requested cursor, if visible: DECSCUSR parameter and 1-based CUP coordinates *)
Definition cursor_wire_ok (c : cursor) : bool :=
  negb (cu_vis c) ||
  ((0 <=? cu_style c) && (cu_style c <=? 65535) && small (cu_row c + 1) && small (cu_col c + 1)).

Definition wire_ok (s : vstate) : bool :=
  forallb (fun r => row_wire_ok r 0) (v_next s) && cursor_wire_ok (v_cnext s).

(* screen sizes whose 1-based coordinates fit a machine integer (2^63) *)
Definition size_ok (rows cols : Z) : Prop :=
  rows < 9223372036854775808 /\ cols < 9223372036854775808.
