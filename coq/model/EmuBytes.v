(* C12 - from tokens to BYTES: what the emulator receives when Vaxis' output goes through the
   wire.  The bytes of a frame are [RenderBytes.ser_bytes] of its tokens (format strings
   translated from sequences.go, UTF-8); the emulator's parser is the parser model of C02
   ([Parser.parse_bytes]: the run of one read, adjacent printed code points joined, end of
   input at the end); a printed run is cut into clusters and measured by uniseg, an oracle
   [seg] (as in proofs/TermBytes.v); the items are handed to the emulator's update as
   [of_item] does.  Definitions only; proofs/EmuWireParse.v shows that this is [enc_tok]. *)
From Vx Require Import base.Prelude base.ListX model.Colour model.RenderTypes model.Render model.RefTerm
  model.RenderSpec model.RenderCheck model.Gate model.EmuSpec model.EmuBridge model.RenderBytes.
From Vx Require model.Parser.

Module P := Vx.model.Parser.

(* uniseg on a printed run: its grapheme clusters with their widths *)
Definition segm := list Z -> list (list Z * Z).

(* the parser's items as update sees them (the same conversion as TermBytes.of_item) *)
Definition of_item (seg : segm) (it : P.item) : list T.titem :=
  match it with
  | P.IPrint rs => map (fun gw => T.TPrint (fst gw) (snd gw)) (seg rs)
  | P.IC0 c => [T.TC0 c]
  | P.IEsc i f => [T.TEsc i f]
  | P.ICsi i ps f => [T.TCsi i ps f]
  | P.IOsc p => [T.TOsc p]
  | P.IDcs _ _ _ _ => [T.TDcs]
  | P.IApc _ => [T.TApc]
  | P.ISS3 _ | P.IError | P.IEof | P.IPanic => [T.TOther]
  end.
Definition of_items (seg : segm) (l : list P.item) : list T.titem := flat_map (of_item seg) l.

(* the emulator fed with the bytes of one write *)
Definition emu_bytes (seg : segm) (t : T.term) (bs : list Z) : T.tres T.term :=
  emu_feed t (of_items seg (P.parse_bytes bs)).

(* ---------- what the parser delivers for one token ---------- *)
Definition wire_colour (base bright ext rst : Z) (ps : list Z) : list P.item :=
  match ps with
  | [] => [P.ICsi [] [[rst]] 109]
  | [n] => if n <? 8 then [P.ICsi [] [[base + n]] 109]
           else if n <? 16 then [P.ICsi [] [[bright + (n - 8)]] 109]
           else [P.ICsi [] [[ext; 5; n]] 109]
  | _ => []
  end.

(* text arrives one code point at a time (joined by Parser.canon afterwards) *)
Definition wire_items (k : tok) : list P.item :=
  match k with
  | KCup row col => [P.ICsi [] [[row]; [col]] 72]
  | KSgrReset => [P.ICsi [] [] 109]
  | KFg ps => wire_colour 30 90 38 39 ps
  | KBg ps => wire_colour 40 100 48 49 ps
  | KSgr n => [P.ICsi [] [[n]] 109]
  | KLink params url => [P.IOsc ([56; 59] ++ params ++ [59] ++ url)]
  | KText g => map (fun r => P.IPrint [r]) g
  | KSpace => [P.IPrint [32]]
  | KShowCursor => [P.ICsi [63] [[25]] 104]
  | KHideCursor => [P.ICsi [63] [[25]] 108]
  | KCursorStyle n => [P.ICsi [32] [[n]] 113]
  | KMouseShape s => [P.IOsc ([50; 50; 59] ++ s)]
  | KUl _ | KUlStyle _ | KTextW _ _ | KSyncOn | KSyncOff => []
  end.

(* ---------- runs of text ---------- *)
(* a text token as the cluster the emulator is meant to print: grapheme and width *)
Definition tok_cluster (tw : list Z -> Z) (k : tok) : option (list Z * Z) :=
  match k with
  | KText g => Some (g, tw g)
  | KSpace => Some ([32], 1)
  | _ => None
  end.

(* a token list cut into maximal runs of adjacent text tokens and the tokens between them *)
Inductive grp := GRun (cl : list (list Z * Z)) | GTok (k : tok).

Fixpoint group (tw : list Z -> Z) (ks : list tok) : list grp :=
  match ks with
  | [] => []
  | k :: rest =>
      match tok_cluster tw k with
      | Some c => match group tw rest with
                  | GRun cl :: r' => GRun (c :: cl) :: r'
                  | r' => GRun [c] :: r'
                  end
      | None => GTok k :: group tw rest
      end
  end.

Definition run_text (cl : list (list Z * Z)) : list Z := concat (map fst cl).

Definition cluster_eqb (a b : list Z * Z) : bool := zlist_eqb (fst a) (fst b) && (snd a =? snd b).

(* The oracle hypothesis of the wire theorem, decidable given uniseg's answers: every maximal
   run of adjacent text tokens g1 .. gn (the graphemes of adjacent cells, a blank for a
   zero-width cell) is cut by the emulator's parser into exactly g1 .. gn, with the widths [tw]
   (1 for the blank) - no cluster forms across two cells - and no text token is empty *)
Definition text_fullb (ks : list tok) : bool :=
  forallb (fun k => match k with KText g => nonempty g | _ => true end) ks.
Definition seg_agrees (tw : list Z -> Z) (seg : segm) (ks : list tok) : bool :=
  text_fullb ks &&
  forallb (fun g => match g with
                    | GRun cl => list_eqb cluster_eqb (seg (run_text cl)) cl
                    | GTok _ => true
                    end) (group tw ks).

(* the tokens the wire theorem covers: the vocabulary of term_caps, numbers and parameters as
   [tok_ok] wants them, strings printable and made of code points Go writes as themselves *)
Definition tok_wire_ok (k : tok) : bool :=
  allowed term_caps k && tok_ok k && tok_wfb k && tok_utf8b k.

(* ---------- the emulator model along an observed history, from bytes ---------- *)

(* The emulator model is fed the BYTES of the model's tokens of every frame (which the mismatch
   check ties to what the real Vaxis wrote) through the parser model, the printed runs cut by
   the segmentation the real parser reported; at a size change it is resized by T.resize.  Its
   grid and cursor satisfy the predicate evaluated on the real emulator.  The hypotheses of
   the theorems are evaluated on the way and must hold in the run: the vocabulary of the
   serialisation [toks_wfb] and the oracle hypothesis [seg_agrees] on every frame *)
Fixpoint model_holds (tw : list Z -> Z) (seg : segm) (rows cols : Z) (s : vstate) (t : T.term) (fs : list eframe) : bool :=
  match fs with
  | [] => true
  | f :: rest =>
      let s1 := fold_left apply_op (ef_ops f) s in
      match ef_end f with
      | FResize rows2 cols2 =>
          (1 <=? rows2) && (1 <=? cols2) &&
          match T.resize t cols2 rows2 with
          | T.TOk t2 => model_holds tw seg rows2 cols2 (do_resize s1 rows2 cols2) t2 rest
          | _ => false
          end
      | _ =>
        if grid_ok tw tw term_caps (v_next s1) then
          let '(s', o) := do_frame s (ef_ops f) (ef_end f) in
          toks_wfb o && seg_agrees tw seg o &&
          match emu_bytes seg t (ser_bytes o) with
          | T.TOk t' =>
              grid_shows term_caps (v_next s1) (grid_of t') && cursor_shows rows cols (v_cnext s1) (ecursor_of t') &&
              model_holds tw seg rows cols s' t' rest
          | _ => false
          end
        else true
      end
  end.

(* the emulator after New(), the first resize, whatever it received before the application
   started ([pre], bytes), and Vaxis' start-up (enterAltScreen: mode 1049 set, cursor hidden) *)
Definition emu_start_pre (seg : segm) (cols rows : Z) (pre : list Z) : T.term :=
  match T.tbind (T.term_start cols rows) (fun t => emu_bytes seg t pre) with
  | T.TOk t =>
      match T.update t (T.TCsi [63] [[1049]] 104) with
      | T.TOk t1 => match T.update t1 (T.TCsi [63] [[25]] 108) with T.TOk t2 => t2 | _ => T.term_new end
      | _ => T.term_new
      end
  | _ => T.term_new
  end.
Definition emu_start (cols rows : Z) : T.term := emu_start_pre (fun _ => []) cols rows [].

Definition c12_model_holds (c : ecase) : bool :=
  let seg := lookup_seg (e_segs c) in
  model_holds (lookup_w (e_widths c)) seg (e_rows c) (e_cols c)
              (vinit term_caps (e_rows c) (e_cols c)) (emu_start_pre seg (e_cols c) (e_rows c) (e_pre c)) (e_frames c).

(* violations of C12 on one observed history: the property on the real emulator's grid, cursor
   and Draw output (EmuSpec.c12_holds), the side condition of the simulation, and the emulator
   model on the bytes *)
Definition c12_violations_all (cases : list ecase) : list Z :=
  bad_indices (fun c => negb (c12_holds c && c12_side_holds c && c12_model_holds c)) cases.
