(* Model of ansi/parser.go: an interpreter for the translated state tables
   (gen/GenParser.v), the hand-modelled actions, UTF-8 decoding with the raw-byte
   fallback of readRune, and the run loop.  Executable definitions only. *)
From Vx Require Import base.Prelude model.ParserTypes gen.GenParser.

(* ---------- delivered items ---------- *)
Inductive item :=
  | IPrint (rs : list Z)                      (* a run of printed code points *)
  | IC0 (c : Z)
  | IEsc (inter : list Z) (final : Z)
  | ISS3 (c : Z)
  | ICsi (inter : list Z) (ps : list (list Z)) (final : Z)
  | IOsc (payload : list Z)
  | IDcs (final : Z) (inter : list Z) (ps : list Z) (data : list Z)
  | IApc (data : list Z)
  | IError                                    (* an `error` value: documented noise *)
  | IEof
  | IPanic.                                   (* nil function call: never produced, see proofs *)

Record dcsrec := { d_final : Z; d_inter : list Z; d_params : list Z; d_data : list Z }.
Definition dcs_empty : dcsrec := {| d_final := 0; d_inter := []; d_params := []; d_data := [] |}.

Record pst := {
  st : pstate;
  exitf : option exitfn;
  inter : list Z;
  params : list Z;
  ignoreST : bool;
  oscData : list Z;
  apcData : list Z;
  dcs : dcsrec;
  timer : bool          (* the Escape timer is armed *)
}.

Definition pinit : pst :=
  {| st := Ground; exitf := None; inter := []; params := []; ignoreST := false;
     oscData := []; apcData := []; dcs := dcs_empty; timer := false |}.

Definition set_st p s := {| st := s; exitf := exitf p; inter := inter p; params := params p; ignoreST := ignoreST p; oscData := oscData p; apcData := apcData p; dcs := dcs p; timer := timer p |}.
Definition set_exit p e := {| st := st p; exitf := e; inter := inter p; params := params p; ignoreST := ignoreST p; oscData := oscData p; apcData := apcData p; dcs := dcs p; timer := timer p |}.
Definition set_inter p x := {| st := st p; exitf := exitf p; inter := x; params := params p; ignoreST := ignoreST p; oscData := oscData p; apcData := apcData p; dcs := dcs p; timer := timer p |}.
Definition set_params p x := {| st := st p; exitf := exitf p; inter := inter p; params := x; ignoreST := ignoreST p; oscData := oscData p; apcData := apcData p; dcs := dcs p; timer := timer p |}.
Definition set_ignoreST p b := {| st := st p; exitf := exitf p; inter := inter p; params := params p; ignoreST := b; oscData := oscData p; apcData := apcData p; dcs := dcs p; timer := timer p |}.
Definition set_osc p x := {| st := st p; exitf := exitf p; inter := inter p; params := params p; ignoreST := ignoreST p; oscData := x; apcData := apcData p; dcs := dcs p; timer := timer p |}.
Definition set_apc p x := {| st := st p; exitf := exitf p; inter := inter p; params := params p; ignoreST := ignoreST p; oscData := oscData p; apcData := x; dcs := dcs p; timer := timer p |}.
Definition set_dcs p x := {| st := st p; exitf := exitf p; inter := inter p; params := params p; ignoreST := ignoreST p; oscData := oscData p; apcData := apcData p; dcs := x; timer := timer p |}.
Definition set_timer p b := {| st := st p; exitf := exitf p; inter := inter p; params := params p; ignoreST := ignoreST p; oscData := oscData p; apcData := apcData p; dcs := dcs p; timer := b |}.

(* ---------- csiDispatch's parameter decoder ---------- *)
(* ps accumulates in a Go int: ps = ps*10 + digit, wrapping in 64 bits *)
Fixpoint csi_params (rs : list Z) (ps : Z) (cur : list Z) (acc : list (list Z)) : list (list Z) :=
  match rs with
  | [] => acc ++ [cur ++ [ps]]
  | b :: t =>
      if b =? 59 (* ; *) then csi_params t 0 [] (acc ++ [cur ++ [ps]])
      else if b =? 58 (* : *) then csi_params t 0 (cur ++ [ps]) acc
      else csi_params t (i64 (i64 (ps * 10) + (b - 48))) cur acc
  end.

(* hook's parameter decoder: strings.Split(params, ";") then strconv.Atoi.
   None = Atoi range error (value above MaxInt64) *)
Fixpoint dcs_params (rs : list Z) (cur : Z) (acc : list Z) : option (list Z) :=
  match rs with
  | [] => if 9223372036854775807 <? cur then None else Some (acc ++ [cur])
  | b :: t =>
      if b =? 59 then (if 9223372036854775807 <? cur then None else dcs_params t 0 (acc ++ [cur]))
      else dcs_params t (cur * 10 + (b - 48)) acc
  end.

(* ---------- actions ---------- *)
Definition run_exit (e : exitfn) (p : pst) : pst * list item :=
  match e with
  | ExOscEnd => (set_osc p [], [IOsc (oscData p)])
  | ExUnhook => (set_dcs p dcs_empty,
                 [IDcs (d_final (dcs p)) (d_inter (dcs p)) (d_params (dcs p)) (d_data (dcs p))])
  | ExApcUnhook => (set_apc p [], [IApc (apcData p)])
  end.

Definition do_act (a : act) (r : Z) (p : pst) : pst * list item :=
  match a with
  | AExecute => (p, if in_range r 0 31 then [IC0 r] else [])
  | APrint => (p, [IPrint [r]])
  | AClear => (set_params (set_inter p []) [], [])
  | ACollect => (set_inter p (inter p ++ [r]), [])
  | AParam => (set_params p (params p ++ [r]), [])
  | AEscDispatch => (p, [IEsc (inter p) r])
  | ACsiDispatch =>
      (p, [ICsi (inter p) (match params p with [] => [] | _ => csi_params (params p) 0 [] [] end) r])
  | AHook =>
      let p1 := set_exit p (Some ExUnhook) in
      match params p with
      | [] => (set_dcs p1 {| d_final := r; d_inter := inter p; d_params := []; d_data := [] |}, [])
      | _ => match dcs_params (params p) 0 [] with
             | Some ps => (set_dcs p1 {| d_final := r; d_inter := inter p; d_params := ps; d_data := [] |}, [])
             | None => (set_dcs p1 {| d_final := r; d_inter := inter p; d_params := []; d_data := [] |}, [IError])
             end
      end
  | APut => (set_dcs p {| d_final := d_final (dcs p); d_inter := d_inter (dcs p);
                          d_params := d_params (dcs p); d_data := d_data (dcs p) ++ [r] |}, [])
  | AOscStart => (set_exit p (Some ExOscEnd), [])
  | AOscPut => (set_osc p (oscData p ++ [r]), [])
  | AApcPut => (set_apc p (apcData p ++ [r]), [])
  | AEmitSS3 => (p, [ISS3 r])
  | AEmitError => (p, [IError])
  | AEmitC0 c => (p, [IC0 c])
  | ASetIgnoreST b => (set_ignoreST p b, [])
  | ASetExit e => (set_exit p e, [])
  | ASetState s => (set_st p s, [])
  | ACallExit => match exitf p with Some e => run_exit e p | None => (p, [IPanic]) end
  | ACallExitIfSet => match exitf p with
                      | Some e => let '(p1, o) := run_exit e p in (set_exit p1 None, o)
                      | None => (p, [])
                      end
  | AIfIgnoreSTGoto _ => (p, [])      (* handled by exec_acts *)
  | AArmTimer => (set_timer p true, [])
  end.

(* result: state, emitted items, optional early `return <state>` *)
Fixpoint exec_acts (acts : list act) (r : Z) (p : pst) : pst * list item * option pstate :=
  match acts with
  | [] => (p, [], None)
  | AIfIgnoreSTGoto s :: t => if ignoreST p then (p, [], Some s) else exec_acts t r p
  | a :: t =>
      let '(p1, o1) := do_act a r p in
      let '(p2, o2, g) := exec_acts t r p1 in
      (p2, o1 ++ o2, g)
  end.

Definition guard_match (g : guard) (r : Z) : bool :=
  match g with
  | GRange lo hi => (lo <=? r) && (r <=? hi)
  | GEq c => r =? c
  end.

(* Go's tagless switch: the first case (in source order) with a true guard,
   otherwise the default clause wherever it stands *)
Fixpoint find_clause (cs : list clause) (r : Z) (dflt : option clause) : option clause :=
  match cs with
  | [] => dflt
  | c :: t =>
      if c_default c then find_clause t r (match dflt with None => Some c | Some _ => dflt end)
      else if existsb (fun g => guard_match g r) (c_guards c) then Some c
      else find_clause t r dflt
  end.

(* run one state function; None when no clause applies (only `anywhere`, whose default
   delegates to the current state) *)
Definition run_fn (f : statefn) (r : Z) (p : pst) : option (pst * list item * option pstate) :=
  match find_clause (f_clauses f) r None with
  | None => None
  | Some c =>
      let '(p0, o0, _) := exec_acts (f_pre f) r p in
      let '(p1, o1, g) := exec_acts (c_acts c) r p0 in
      let '(p2, o2, _) := exec_acts (f_post f) r p1 in
      Some (p2, o0 ++ o1 ++ o2, match g with Some s => Some s | None => c_next c end)
  end.

(* one iteration of Parser.run for the rune [r] (readRune has just returned, which
   stops an armed timer).  The bool is "the parser goes on" *)
Definition step (p : pst) (r : Z) : pst * list item * bool :=
  let p := set_timer p false in
  let res := match run_fn fn_anywhere r p with
             | Some x => Some x
             | None => run_fn (state_fn (st p)) r p
             end in
  match res with
  | Some (p', o, Some s) => (set_st p' s, o, true)
  | Some (p', o, None) => (p', o, false)
  | None => (p, [IPanic], false)
  end.

(* the escape timer fires (possible only while armed, i.e. no rune was read since) *)
Definition timer_fire (p : pst) : pst * list item :=
  if timer p then
    let '(p', o, _) := exec_acts timer_body 27 (set_timer p false) in (p', o)
  else (p, []).

Fixpoint feed (p : pst) (rs : list Z) : pst * list item * bool :=
  match rs with
  | [] => (p, [], true)
  | r :: t =>
      let '(p1, o1, go) := step p r in
      if go then let '(p2, o2, go2) := feed p1 t in (p2, o1 ++ o2, go2)
      else (p1, o1, false)
  end.

(* end of input (or read error): readRune returns eof *)
Definition finish (p : pst) : list item :=
  let '(_, o, _) := step p eof_rune in o ++ [IEof].

(* ---------- readRune: UTF-8 with the raw-byte fallback ---------- *)
Definition cont (b : Z) : bool := in_range b 128 191.

(* decode one rune from the head of [bs]: (rune, bytes consumed) *)
Definition decode1 (bs : list Z) : option (Z * list Z) :=
  match bs with
  | [] => None
  | b0 :: t =>
      if b0 <? 128 then Some (b0, t)
      else if in_range b0 194 223 then
        match t with
        | b1 :: t1 => if cont b1 then Some ((b0 - 192) * 64 + (b1 - 128), t1) else Some (b0, t)
        | _ => Some (b0, t)
        end
      else if in_range b0 224 239 then
        match t with
        | b1 :: b2 :: t2 =>
            let lo := if b0 =? 224 then 160 else 128 in
            let hi := if b0 =? 237 then 159 else 191 in
            if in_range b1 lo hi && cont b2
            then Some ((b0 - 224) * 4096 + (b1 - 128) * 64 + (b2 - 128), t2)
            else Some (b0, t)
        | _ => Some (b0, t)
        end
      else if in_range b0 240 244 then
        match t with
        | b1 :: b2 :: b3 :: t3 =>
            let lo := if b0 =? 240 then 144 else 128 in
            let hi := if b0 =? 244 then 143 else 191 in
            if in_range b1 lo hi && cont b2 && cont b3
            then Some ((b0 - 240) * 262144 + (b1 - 128) * 4096 + (b2 - 128) * 64 + (b3 - 128), t3)
            else Some (b0, t)
        | _ => Some (b0, t)
        end
      else Some (b0, t)       (* 0x80-0xC1, 0xF5-0xFF: invalid leading byte, delivered raw *)
  end.

Fixpoint decode_fuel (fuel : nat) (bs : list Z) : list Z :=
  match fuel with
  | O => []
  | S f => match decode1 bs with
           | None => []
           | Some (r, rest) => r :: decode_fuel f rest
           end
  end.
Definition decode_all (bs : list Z) : list Z := decode_fuel (length bs) bs.

(* ---------- whole runs ---------- *)
(* canonical observable: errors dropped, adjacent prints merged *)
Fixpoint canon (l : list item) : list item :=
  match l with
  | [] => []
  | IError :: t => canon t
  | IPrint a :: t =>
      match canon t with
      | IPrint b :: t' => IPrint (a ++ b) :: t'
      | t' => IPrint a :: t'
      end
  | x :: t => x :: canon t
  end.

Definition parse_runes (rs : list Z) : list item :=
  let '(p, o, go) := feed pinit rs in
  if go then o ++ finish p else o ++ [IEof].

Definition parse_bytes (bs : list Z) : list item := canon (parse_runes (decode_all bs)).

(* segments separated by silence long enough for the escape timer *)
Fixpoint feed_segments (p : pst) (segs : list (list Z)) : pst * list item * bool :=
  match segs with
  | [] => (p, [], true)
  | s :: t =>
      let '(p1, o1, go) := feed p (decode_all s) in
      if go then
        match t with
        | [] => (p1, o1, true)
        | _ => let '(p2, o2) := timer_fire p1 in
               let '(p3, o3, go3) := feed_segments p2 t in (p3, o1 ++ o2 ++ o3, go3)
        end
      else (p1, o1, false)
  end.

Definition parse_segments (segs : list (list Z)) : list item :=
  let '(p, o, go) := feed_segments pinit segs in
  canon (if go then o ++ finish p else o ++ [IEof]).

(* ---------- item equality ---------- *)
Definition zll_eqb := list_eqb zlist_eqb.
Definition item_eqb (a b : item) : bool :=
  match a, b with
  | IPrint x, IPrint y => zlist_eqb x y
  | IC0 x, IC0 y => x =? y
  | IEsc i f, IEsc i' f' => zlist_eqb i i' && (f =? f')
  | ISS3 x, ISS3 y => x =? y
  | ICsi i p f, ICsi i' p' f' => zlist_eqb i i' && zll_eqb p p' && (f =? f')
  | IOsc x, IOsc y => zlist_eqb x y
  | IDcs f i p d, IDcs f' i' p' d' => (f =? f') && zlist_eqb i i' && zlist_eqb p p' && zlist_eqb d d'
  | IApc x, IApc y => zlist_eqb x y
  | IError, IError | IEof, IEof | IPanic, IPanic => true
  | _, _ => false
  end.
Definition items_eqb := list_eqb item_eqb.
