(* C07: what each reply to a DECRQM mode query establishes, for every reply value.
   Definitions only.

   Vaxis asks three modes with DECRQM (CSI ? Pd $ p) at start-up: 2026 synchronized output,
   2027 Unicode core (grapheme clustering), 2031 colour-scheme reports.  A terminal answers with
   DECRPM  CSI ? Pd ; Ps $ y  where Ps is 0 not recognised, 1 set, 2 reset, 3 permanently set,
   4 permanently reset - or not at all, or (malformed) without the value / with an empty value.

   Specification (rpm_advertises): a mode is advertised - usable - exactly when it can be
   switched (1, 2); a permanently set mode (3) counts only for 2027, where the terminal then
   always clusters graphemes and Vaxis must measure accordingly; for 2026 / 2031 Vaxis does not
   use a mode it cannot reset (vaxis.go handleSequence: `case 1, 2:` resp. `case 1, 2, 3:`).
   0, 4, any other value, a missing or empty value and no reply establish nothing. *)
From Vx Require Import base.Prelude model.Colour model.RenderTypes model.Render model.Gate model.Parser.
From Vx Require model.Input.

Inductive rpm :=
  | RpmNone                (* no reply *)
  | RpmNoValue             (* CSI ? Pd $ y *)
  | RpmEmpty               (* CSI ? Pd ; $ y *)
  | RpmVal (v : Z).        (* CSI ? Pd ; v $ y *)

Definition rpm_advertises (m : Z) (r : rpm) : bool :=
  match r with
  | RpmVal v => (v =? 1) || (v =? 2) || ((m =? 2027) && (v =? 3))
  | _ => false
  end.

(* the replies a terminal gave, as (mode, reply) in arrival order; a mode may be reported more
   than once and modes nobody asked about may be reported too *)
Definition mode_advertised (m : Z) (rs : list (Z * rpm)) : bool :=
  existsb (fun mr => (fst mr =? m) && rpm_advertises m (snd mr)) rs.

(* the advertised set of a terminal that answers the other queries as [a] says and the mode
   queries with [rs] *)
Definition adv_with_replies (a : adv) (rs : list (Z * rpm)) : adv :=
  {| a_sync := a_sync a || mode_advertised 2026 rs;
     a_unicode := a_unicode a || mode_advertised 2027 rs;
     a_theme := a_theme a || mode_advertised 2031 rs;
     a_inband := a_inband a; a_kittykb := a_kittykb a; a_kittygfx := a_kittygfx a;
     a_sixel := a_sixel a; a_size := a_size a; a_width := a_width a; a_rgb := a_rgb a;
     a_smulx := a_smulx a; a_osc4 := a_osc4 a; a_osc10 := a_osc10 a; a_osc11 := a_osc11 a;
     a_osc176 := a_osc176 a; a_vte := a_vte a |}.

(* ---- the code side: the model of handleSequence and of New's loop (model/Input.v, property
   C03) run on the sequences these replies are delivered as ---- *)
(* csiDispatch always appends the current value: an empty value arrives as 0; intermediates ? $ *)
Definition rpm_items (mr : Z * rpm) : list item :=
  let '(m, r) := mr in
  match r with
  | RpmNone => []
  | RpmNoValue => [ICsi [63; 36] [[m]] 121]
  | RpmEmpty => [ICsi [63; 36] [[m]; [0]] 121]
  | RpmVal v => [ICsi [63; 36] [[m]; [v]] 121]
  end.
Definition da1_item : item := ICsi [63] [[62]; [22]] 99.
Definition no_key : item -> Input.ikey := fun _ => Input.mkIKey [] 0 0 0 0 0.
Definition no_b64 : list Z -> option (list Z) := fun _ => None.

(* capabilities New has collected when the DA1 reply ends its loop *)
Definition reported_caps (rs : list (Z * rpm)) : option Input.caps :=
  match Input.run no_key no_b64 Input.vx0 (flat_map rpm_items rs ++ [da1_item]) with
  | Input.Ok _ es =>
      let '(su, _, got) := Input.collect_caps false Input.startup0 (Input.events_of es) in
      if got then Some (Input.su_caps su) else None
  | _ => None
  end.

(* what the replies advertise, per capability event of the code model *)
Definition cap_spec (rs : list (Z * rpm)) (c : Input.capev) : bool :=
  match c with
  | Input.CSync => mode_advertised 2026 rs
  | Input.CUnicode => mode_advertised 2027 rs
  | Input.CTheme => mode_advertised 2031 rs
  | _ => false
  end.

(* rpm stream: (other advertised capabilities, DECRPM replies, capabilities Vaxis reports in the
   order of caps_expected).  mismatches: the three mode capabilities against the code model;
   violations: all sixteen against the specification. *)
Definition rpm_case : Type := adv * list (Z * rpm) * list bool.
Definition c07_rpm_mismatches (cases : list rpm_case) : list Z :=
  bad_indices (fun c => let '(a, rs, obs) := c in
    match reported_caps rs, obs with
    | Some cp, s :: u :: t :: _ =>
        negb (Bool.eqb (a_sync a || Input.c_sync cp) s && Bool.eqb (a_unicode a || Input.c_unicode cp) u &&
              Bool.eqb (a_theme a || Input.c_theme cp) t)
    | _, _ => true
    end) cases.
Definition c07_rpm_violations (cases : list rpm_case) : list Z :=
  bad_indices (fun c => let '(a, rs, obs) := c in
    negb (bools_eqb (caps_expected (adv_with_replies a rs)) obs)) cases.
